"""C18 — socket and pipe transports deliver intact and to the right request.  DESIGN §5 C18.

Four parts per run (after the Lean build + axiom audit of Props/C18.lean):
  frame  (E3)  real write_record/read_record + asyncio.StreamReader  vs  Frame model   (drv frame, byte-exact)
  pipeip (E3)  real pipe.Server/Client in one process (threads)       vs  Pipe model    (drv pipe, trace replay)
  sock   (E4)  real SocketServer + SocketClient over a unix socket    vs  Mux model     (drv mux, trace replay)
  pipe   (E4)  real pipe.Server / pipe.Client in two processes        monitors only
Every part carries monitors that evaluate C18 directly on the run of the real code.
"""
import importlib
import json
import sys

import core

PROPS = ['Props/C18.lean']
PART_WALL = {}
SCEN_OF_KIND = {'frame': 'scen_frame', 'sock': 'scen_sock', 'pipe': 'scen_sock', 'pipeip': 'scen_pipe'}
MODEL_OF_KIND = {'frame': 'frame', 'sock': 'mux', 'pipeip': 'pipe'}


def keyfn(case, res, m):
    return f"{m['rule']}:{case['kind']}"


def _escalate(chk, scen_name, scen, gen, n, breaks_before, what):
    """correspondence broke but no monitor fired: spend more budget looking for a failing input"""
    if len(chk.corr_breaks) > breaks_before and not chk.violations:
        more_cases = [gen() for _ in range(n)]
        more = chk.run_cases(scen_name, more_cases, sched=False, per_case_timeout=200)
        chk.account(scen, more, 'escalation')
        chk.collect_monitors(more, {'C18'}, keyfn)
        chk.notes.append(f'{what}: correspondence broke on {len(chk.corr_breaks) - breaks_before} cases; '
                         f'escalated search over {n} more cases, monitor hits: {len(chk.violations)}')


def _drive(model, scen, sel):
    """one driver process for a batch (runs in a helper thread, overlapping the next batch of cases)"""
    lines = []
    for k, (case, res) in enumerate(sel):
        lines += scen.model_lines(k, case, res)
    out = core.run_driver(model, lines)
    verdict = {}
    for ln in out:
        w = ln.split(' ', 2)
        if len(w) >= 2 and w[0] in ('ok', 'REJECT', 'NOFINAL', 'MISMATCH'):
            verdict[w[1]] = ln
    slim = []
    for k, (case, res) in enumerate(sel):
        slim.append((case, verdict.get(str(k)), res.get('events'), res.get('monitors')))
    return slim


def _book(chk, model, slim):
    """same bookkeeping as Check.validate"""
    nval = 0
    for case, v, events, monitors in slim:
        if v is None:
            chk.corr_breaks.append(dict(model=model, case=case, verdict='no answer from the driver', events=events))
        elif v.startswith('ok'):
            nval += 1
        else:
            chk.corr_breaks.append(dict(model=model, case=case, verdict=v, events=events, monitors=monitors))
    chk.cov['traces_validated_against_impl'] += nval
    return nval, len(slim)


def _run_batched(chk, scen_name, scen, cases, model, engine, batch, per_case_timeout=120.0, traced=None, visit=None):
    """run -> account -> monitors -> driver validation, batch by batch, so that the bulky per-case material
    (hex streams, traces) never accumulates; the driver run of a batch overlaps the execution of the next
    batch; `visit(case, res)` collects the small statistics"""
    import concurrent.futures as cf
    nval = ntot = 0
    pending = []
    with cf.ThreadPoolExecutor(3) as tp:
        for i in range(0, len(cases), batch):
            results = chk.run_cases(scen_name, cases[i:i + batch], sched=False, per_case_timeout=per_case_timeout)
            chk.account(scen, results, engine)
            chk.collect_monitors(results, {'C18'}, keyfn)
            sel = [(c, r) for c, r in results if traced is None or traced(c)]
            if model and sel:
                pending.append(tp.submit(_drive, model, scen, sel))
            for case, res in results:
                if visit:
                    visit(case, res)
            del results, sel
            while len(pending) > 2:
                a, b = _book(chk, model, pending.pop(0).result())
                nval += a
                ntot += b
        for f in pending:
            a, b = _book(chk, model, f.result())
            nval += a
            ntot += b
    return nval, ntot


def _frame_part(chk, n):
    scen = importlib.import_module('scen_frame')
    cases = [scen.gen_case(chk.rng, chk.tier) for _ in range(n)]
    dist = chk.cov['distribution'].setdefault('frame', {})
    sampled = []

    def visit(case, res):
        dist[case['mode']] = dist.get(case['mode'], 0) + 1
        dist['end:' + res['end']] = dist.get('end:' + res['end'], 0) + 1
        dist['chunkings'] = dist.get('chunkings', 0) + res['nchunkings']
        dist['slow_arrival_reads'] = dist.get('slow_arrival_reads', 0) + res.get('slow_reads', 0)
        dist['slow_arrival_poll_timeouts'] = dist.get('slow_arrival_poll_timeouts', 0) + res.get('slow_polls', 0)
        dist['records_read'] = dist.get('records_read', 0) + res['nread']
        dist['max_wire_len'] = max(dist.get('max_wire_len', 0), res['wire_len'])
        if res.get('exhaustive_chunkings'):
            dist['streams_fed_under_all_chunkings'] = dist.get('streams_fed_under_all_chunkings', 0) + 1
            dist['longest_stream_fed_under_all_chunkings'] = max(dist.get('longest_stream_fed_under_all_chunkings', 0), res['feed_len'])
        if not sampled and scen.nontrivial(case, res) and res['wire_len'] < 400:
            sampled.append(1)
            chk.sample(dict(case=case, wire=res['wire_hex'], end=res['end'], read=res['got_hex']))

    b0 = len(chk.corr_breaks)
    nval, ntot = _run_batched(chk, 'scen_frame', scen, cases, 'frame', 'E3-differential', 400, visit=visit)
    chk.add_obligation('correspondence', 'frame: real write_record/read_record vs Frame.encodeStream/decodeStream (byte-exact)',
                       nval == ntot, cases=ntot, agreed=nval)
    _escalate(chk, 'scen_frame', scen, lambda: scen.gen_case(chk.rng, chk.tier), min(2 * n, 3000), b0, 'frame')


def _pipe_part(chk, n):
    scen = importlib.import_module('scen_pipe')
    cases = [scen.gen_case(chk.rng, chk.tier) for _ in range(n)]
    dist = chk.cov['distribution'].setdefault('pipe_inproc', {})
    sampled = []

    def visit(case, res):
        dist['cases'] = dist.get('cases', 0) + 1
        dist['messages'] = dist.get('messages', 0) + res['nmsg']
        dist['frames_compared'] = dist.get('frames_compared', 0) + len(res['frames'])
        dist['max_message_bytes'] = max([dist.get('max_message_bytes', 0)] + [e[2] for e in res['events']])
        if res.get('retried_after'):
            dist['retried_after_time_out'] = dist.get('retried_after_time_out', 0) + 1
        dist['max_case_wall_s'] = max(dist.get('max_case_wall_s', 0), res.get('wall', 0))
        if not sampled and 2 <= res['nmsg'] <= 4 and max([e[2] for e in res['events']] + [0]) < 200:
            sampled.append(1)
            chk.sample(dict(case=case, trace=res['trace']))

    b0 = len(chk.corr_breaks)
    nval, ntot = _run_batched(chk, 'scen_pipe', scen, cases, 'pipe', 'E3-differential', 200, per_case_timeout=300, visit=visit)
    chk.add_obligation('correspondence', 'pipe: send/recv traces of the real pipe.Server/Client replayed through Pipe.step, '
                       'and Connection framing vs Pipe.frame/readFrame (drv pipe)', nval == ntot, cases=ntot, agreed=nval)
    _escalate(chk, 'scen_pipe', scen, lambda: scen.gen_case(chk.rng, chk.tier), min(2 * n, 600), b0, 'pipe')


def _sock_part(chk, n_sock, n_pipe):
    scen = importlib.import_module('scen_sock')
    rng = chk.rng
    cases = [scen.gen_sock(rng, chk.tier, mode='thread', boundary='one'),
             scen.gen_sock(rng, chk.tier, mode='thread', boundary='flood'),
             scen.gen_sock(rng, chk.tier, mode='thread', boundary='bigfast'),
             scen.gen_sock(rng, chk.tier, mode='proc', boundary='bigfast'),
             scen.gen_sock(rng, chk.tier, mode='thread', boundary='abandon'),
             scen.gen_sock(rng, chk.tier, mode='thread', boundary='abandon'),
             scen.gen_sock(rng, chk.tier, mode='proc', boundary='abandon')]
    cases += [scen.gen_sock(rng, chk.tier, boundary=rng.choice(['bigfast', 'abandon']) if rng.random() < 0.15 else None)
              for _ in range(n_sock)]
    cases += [scen.gen_pipe(rng, chk.tier) for _ in range(n_pipe)]
    dist = chk.cov['distribution'].setdefault('sock', {})
    walls = []
    sampled = []

    def visit(case, res):
        walls.append(res.get('wall') or 0)
        if (res.get('wall') or 0) >= dist.get('slowest_case', {}).get('wall', 0):
            dist['slowest_case'] = dict(wall=res.get('wall') or 0, kind=case['kind'], mode=case.get('mode'), nconn=case.get('nconn'),
                                        requesters=case.get('nthreads'), requests=len(case.get('reqs', [])),
                                        boundary=case.get('boundary'), timing=res.get('timing'), retried_after=res.get('retried_after'))
        if res.get('retried_after'):
            dist['retried_after_time_out'] = dist.get('retried_after_time_out', 0) + 1
        key = case['kind'] + (':' + case['mode'] if case['kind'] == 'sock' else '')
        dist[key] = dist.get(key, 0) + 1
        if case['kind'] == 'sock':
            if res.get('shutdown_problem'):
                dist['shutdown_request_unanswered(outside C18)'] = dist.get('shutdown_request_unanswered(outside C18)', 0) + 1
            if res.get('server_stopped') is False:
                dist['server_not_stopped_in_5s(outside C18)'] = dist.get('server_not_stopped_in_5s(outside C18)', 0) + 1
            dist['requests'] = dist.get('requests', 0) + len(case['reqs'])
            dist['requests_abandoned_by_requester'] = dist.get('requests_abandoned_by_requester', 0) + (res.get('abandoned') or 0)
            dist['late_responses_dropped'] = dist.get('late_responses_dropped', 0) + (res.get('late_dropped') or 0)
            dist['handler_completions_overtaking'] = dist.get('handler_completions_overtaking', 0) + (res.get('reordered') or 0)
            dist['sends_with_other_events_before_registration'] = \
                dist.get('sends_with_other_events_before_registration', 0) + (res.get('drain_windows') or 0)
            dist['max_body_bytes'] = max(dist.get('max_body_bytes', 0), max(r['pl'][1] for r in case['reqs']))
            dist[f'nconn={case["nconn"]}'] = dist.get(f'nconn={case["nconn"]}', 0) + 1
            dist[f'requesters={case["nthreads"]}'] = dist.get(f'requesters={case["nthreads"]}', 0) + 1
            if not sampled and case['mode'] == 'thread' and 2 <= len(case['reqs']) <= 4:
                sampled.append(1)
                chk.sample(dict(case=case, events=[list(e) for e in res['events']][:80], results=res['results']))
        else:
            dist['pipe_objects'] = dist.get('pipe_objects', 0) + res.get('nobjects', 0)

    b0 = len(chk.corr_breaks)
    nval, ntot = _run_batched(chk, 'scen_sock', scen, cases, 'mux', 'E4-processes', 160,
                              per_case_timeout=4 * scen.CHILD_TIMEOUT,   # results are awaited in order: queueing time counts
                              traced=lambda c: c['kind'] == 'sock' and c['mode'] == 'thread', visit=visit)
    chk.add_obligation('correspondence', 'mux: event traces of the real SocketServer/SocketClient replayed through Mux.step (drv mux)',
                       nval == ntot, cases=ntot, agreed=nval)
    _escalate(chk, 'scen_sock', scen, lambda: scen.gen_sock(rng, chk.tier), min(2 * n_sock, 200), b0, 'mux')
    walls.sort()
    dist['median_case_wall_s'] = walls[len(walls) // 2] if walls else 0
    dist['max_case_wall_s'] = walls[-1] if walls else 0


def run(chk):
    sys.path.insert(0, str(core.HARNESS))
    if str(core.REPO / 'src') not in sys.path:
        sys.path.insert(0, str(core.REPO / 'src'))     # the parent only uses pure helpers of the scenario modules
    chk.audit(PROPS)
    quick = chk.tier == 'quick'
    import time as _t
    PART_WALL['audit'] = _t.time() - chk.t0
    for name, part in (('frame', lambda: _frame_part(chk, 1000 if quick else 6000)),
                       ('pipeip', lambda: _pipe_part(chk, 100 if quick else 1200)),
                       ('sock+pipe', lambda: _sock_part(chk, 60 if quick else 480, 14 if quick else 100))):
        t1 = _t.time()
        try:
            part()
            PART_WALL[name] = _t.time() - t1
        except (core.InfraError, AttributeError) as e:
            # a harness problem after a failing input has already been found must not hide the finding
            # (AttributeError: core.Pool.close() called twice after a worker time-out)
            if not chk.violations:
                raise core.InfraError(str(e))
            chk.notes.append(f'harness problem in a later part (ignored, a violation had been found): {e}')
    chk.cov['rule'] = (
        'frame (E3): random cases (records: id class x encoder x payload class [empty, header look-alike, newline-heavy, '
        'random bytes, nested objects, unicode text] x size incl. 64 KiB boundaries; reader limit 24..65536; clean / cut '
        'anywhere / malformed tail; 3-6 chunkings per stream incl. byte-wise and cuts at record/header boundaries, ALL 2^(L-1) '
        'chunkings for streams of L <= 11 bytes) through the '
        'real write_record/read_record + asyncio.StreamReader, compared byte-exactly with the Lean model. '
        'pipeip (E3): random message lists in both directions through the real pipe.Server/Client (threads), trace replayed '
        'through the Pipe model; Connection framing compared byte-exactly. '
        'sock (E4): real unix-socket SocketServer+SocketClient, 1-4 connections, 1-16 concurrent requesters + stream(), payload '
        'classes up to 4 MiB (thorough 8 MiB), generated handler latencies (zero/random/reversed/bimodal) and failures; '
        'mode thread: full event trace replayed through the Mux model; mode proc: server in its own process, monitors only. '
        'pipe (E4): pipe.Server / pipe.Client in two processes, objects both ways concurrently. '
        'non-trivial = frame: >=2 chunkings and (>=2 records or cut/malformed); pipeip/pipe: >=2 messages; sock: >=2 requests '
        'and >=2 responses read; distinct = distinct (case, observed event shape / stream digest).')
    chk.cov['distribution']['part_wall_s'] = {k: round(v, 1) for k, v in PART_WALL.items()}
    chk.trusted += TRUSTED
    chk.assumptions += ASSUMPTIONS


TRUSTED = [
    'Lean 4.33.0 kernel; axioms per theorem as listed in coverage.obligation_list (subset of propext, Classical.choice, Quot.sound)',
    'hand-written models lean/MpsVerif/Model/{Frame,Mux,Pipe}.lean, tied to /repo on every run: Frame byte-exactly (drv frame), '
    'Mux and Pipe by replaying the recorded event traces of the real code through the model step functions (drv mux, drv pipe)',
    'harness-side observation: shadows of write_record/read_record/encode/decode in the module namespace of mpservice.socket, '
    'a logging dict for SocketClient._active_requests, a wrapper of _pending_requests.put; list.append gives the total order of events',
    'modelled not verified: asyncio.StreamReader.readuntil/readexactly return the same bytes for every chunking (sampled: every '
    'stream is read under several chunkings); pickle/utf8 round trip of payload objects; FIFO order of SingleLane, asyncio.Queue, '
    'stream sockets and FIFOs; dict insert/pop; Future.set_result; multiprocessing.Connection framing (compared byte-exactly with '
    'Pipe.frame on sampled messages); CPython id(): distinct among live objects',
    'E4: the OS schedule is sampled, not controlled; the quantifier over interleavings is carried by the Mux/Pipe theorems alone',
]
ASSUMPTIONS = [
    'request ids are non-empty printable ASCII without white space (the client uses decimal id(fut)) and the header line fits the StreamReader limit',
    'the client registers active[req_id] before its receiver task processes the response to that record (send is atomic in the Mux '
    'model): in the code the registration follows `await writer.drain()`; on the selector event loop the continuation runs before any '
    'later I/O callback. Monitored on every real run (rule unmatched-response); not exhibited (suspected window F17)',
    'handler outcome is a function of the payload it receives; handler exceptions are Exception subclasses that pickle; responses pickle',
    'named pipe: both endpoints stay open while messages are in transit (a FIFO drops buffered data when its last descriptor is closed); '
    'message length < 2^64',
    'single client per model instance (ids need to be distinct per client process only; the server keeps no cross-connection state per request)',
    'the correspondence was checked on the cases generated in this run only; the theorems quantify over all byte strings / schedules of the models',
]


def replay(chk, data):
    sys.path.insert(0, str(core.HARNESS))
    if 'case' in data:
        cases = [data['case']]
    else:       # a proof-or-correspondence-broken file: re-run the disagreeing cases
        cases = [b['case'] for b in data.get('correspondence_breaks', []) if b.get('case')]
        if data.get('lean_problems'):
            ok = chk.audit(PROPS)
            print(json.dumps(dict(lean_problems=chk.problems))[:1500])
            if not ok:
                print(f'VIOLATION property={chk.prop} replay=(replayed) no-failing-input-found')
                return 1
    rc = 0
    for case in cases:
        scen_name = SCEN_OF_KIND.get(case.get('kind'), 'scen_frame')
        res = chk.run_cases(scen_name, [case], sched=False, per_case_timeout=200)
        _case, r = res[0]
        hits = [m for m in r['monitors'] if m['prop'] == chk.prop]
        verdict = None
        model = MODEL_OF_KIND.get(case.get('kind'))
        if model and not (case.get('kind') == 'sock' and case.get('mode') != 'thread'):
            lines = _model_lines(scen_name, case, r)
            out = core.run_driver(model, lines)
            verdict = out[0] if out else 'no answer from the driver'
        print(json.dumps(dict(monitors=r['monitors'], model_verdict=verdict, end=r.get('end'), errors=r.get('errors')),
                         default=str)[:2000])
        if hits:
            print(f'VIOLATION property={chk.prop} replay=(replayed)')
            rc = 1
        elif verdict is not None and not verdict.startswith('ok'):
            print(f'VIOLATION property={chk.prop} replay=(replayed) no-failing-input-found')
            rc = 1
    return rc


def _model_lines(scen_name, case, r):
    """model_lines needs only pure helpers of the scenario module; scen_frame/scen_pipe import mpservice at
    module level, which is fine in the parent too (nothing is executed)."""
    if str(core.REPO / 'src') not in sys.path:
        sys.path.insert(0, str(core.REPO / 'src'))
    scen = importlib.import_module(scen_name)
    return scen.model_lines(0, case, r)
