"""C19 — EagerBatcher partitions its input and waits no longer than told.  DESIGN §5 C19."""
import json

import core
import scen_eager

PROPS = ['Props/C19.lean']


def keyfn(case, res, m):
    return f"{m['rule']}:eager"


def _clock_selftest(chk):
    """every clock the code reads must be the scheduler's; a real-clock read must be trapped"""
    res = chk.run_cases('scen_eager', [dict(kind='clocktest', chooser=['random', 0.0])])
    ct = res[0][1].get('clocktest') or {}
    chk.add_obligation('selftest', 'virtual-clock hygiene (no stale real-clock binding, trap fires, 2**20 virtual '
                                   'seconds run instantly with exact clocks)', ct.get('ok'), detail=ct)
    if not ct.get('ok'):
        raise core.InfraError(f'clock self-test failed: {ct.get("problems")}')


def _distribution(dist, results):
    """what the generator and the schedules actually produced (goes into the evidence file)"""
    for case, res in results:
        for k, v in (('bias', case.get('bias')), ('bs', case['bs']), ('wait', case['wait']),
                     ('end_marker', repr(case['end']))):
            dist[k][str(v)] = dist[k].get(str(v), 0) + 1
        ev = res.get('events', [])
        wait = scen_eager.eff_wait(case)
        dist['lazy_time'] += bool(case.get('lazy'))
        dist['never_ended'] += not any(e[0] == 'stop' for e in ev)
        dist['holds'] += any(h > 0 for h in case.get('holds', []))
        last_end = False
        t0 = None            # take time of the current batch's first item
        tie_pending = False  # an item arrived at exactly t0 + wait while the batch was being collected
        endc = scen_eager.enc(case['end'])
        for e in ev:
            if e[0] == 'arrive':
                if t0 is not None and wait > 0 and e[2] == t0 + wait:
                    tie_pending = True
            elif e[0] == 'take':
                last_end = endc == e[1]
                if t0 is None and not last_end:
                    t0 = e[2]
                elif t0 is not None:
                    if tie_pending:
                        dist['deadline_ties_item_taken'] += 1
                        tie_pending = False
                    if e[2] > t0 + wait:
                        dist['taken_past_deadline'] += 1
            elif e[0] == 'emit':
                if tie_pending:
                    dist['deadline_ties_item_missed'] += 1
                tie_pending = False
                t0 = None
                if len(e[1]) >= case['bs']:
                    dist['full'] += 1
                elif last_end:
                    dist['short_by_marker'] += 1
                else:
                    dist['short_by_timeout'] += 1


def run(chk):
    chk.audit(PROPS)
    _clock_selftest(chk)
    dist = dict(bias={}, bs={}, wait={}, end_marker={}, lazy_time=0, deadline_ties_item_taken=0, deadline_ties_item_missed=0,
                taken_past_deadline=0, short_by_timeout=0, short_by_marker=0, full=0, never_ended=0, holds=0)
    # thorough: several rounds so that the results of one round can be dropped before the next
    rounds = [4000] if chk.tier == 'quick' else [40000] * 6
    for k, n in enumerate(rounds):
        results = core.e1_flow(chk, 'scen_eager', 'eager', {'C19'},
                               lambda rng: scen_eager.gen_case(rng, chk.tier), n, keyfn=keyfn,
                               corpus=CORPUS if k == 0 else None, escalate_n=1500)
        _distribution(dist, results)
        if k == 0:
            # how often the closed-form comparison was decisive (the driver skips groupings with a tie)
            lines = []
            for i, (case, res) in enumerate(results[:6000]):
                lines += scen_eager.model_lines(i, case, res)
            cf = {}
            for l in core.run_driver('eager', lines):
                if l.startswith('ok ') and ' cf=' in l:
                    v = l.rsplit(' cf=', 1)[1]
                    cf[v] = cf.get(v, 0) + 1
            dist['closed_form_first_6000_of_round_1'] = cf
        del results
        if chk.violations or chk.corr_breaks:
            break
    chk.cov['distribution'] = dist
    chk.cov['rule'] = ('cases = random (batch_size, batch_wait_time incl. 0 and the constructor default, end marker '
                       'None/int/float/bool/str, arrival script with times in dyadic units incl. bursts, arrivals at the '
                       'very instant of deadlines and resumes, marker first / in the middle / followed by more puts / never '
                       'sent, consumer hold times, strict vs lazy time (timers fired although threads are runnable), chooser, '
                       'seed) run on the real EagerBatcher fed through a queue.Queue by a '
                       'producer thread under the deterministic scheduler with virtual time; plus a fixed corpus of '
                       'boundary cases; non-trivial = >= 2 items before the marker, >= 1 batch and >= 1 context switch; '
                       'distinct = distinct (case, timed event trace)')
    chk.trusted += TRUSTED
    chk.assumptions += ASSUMPTIONS


def _c(bs, wait, arrivals, end=None, holds=(), ulog=3, chooser=('sticky', 0.05, 0.0), seed=1, **kw):
    return dict(bs=bs, wait=wait, ulog=ulog, end=end, arrivals=[list(a) for a in arrivals], holds=list(holds),
                bias='corpus', chooser=list(chooser), seed=seed, **kw)


# boundary cases that are always run (both thread orders at the ties via two choosers/seeds)
CORPUS = []
for _seed in (1, 2, 3):
    for _ch in (('random', 0.0), ('sticky', 0.05, 0.0), ('pct', 2, 50, 0.0)):
        CORPUS += [
            _c(1, 0, [(0, 1), (0, 2), (3, None)], chooser=_ch, seed=_seed),                  # batch_size 1
            _c(3, 0, [(0, 1), (0, 2), (0, 3), (0, 4), (2, None)], chooser=_ch, seed=_seed),  # wait 0, burst
            _c(3, 4, [(0, None)], chooser=_ch, seed=_seed),                                  # marker first
            _c(3, 4, [], chooser=_ch, seed=_seed),                                           # nothing, never ends
            _c(3, 4, [(1, 1), (5, 2), (9, 3), (13, None)], chooser=_ch, seed=_seed),         # arrivals exactly at the deadline
            _c(2, 4, [(1, 1), (5, None)], chooser=_ch, seed=_seed),                          # marker exactly at the deadline
            _c(3, 4, [(1, 1), (2, 2), (3, 3), (4, 4), (30, None)], holds=[4, 4], chooser=_ch, seed=_seed),
            _c(3, 2, [(0, None), (1, 7), (2, 5), (3, 7.0), (4, 9)], end=7, chooser=_ch, seed=_seed),  # None as item, == marker
            _c(2, None, [(0, 1), (1, 2), (2, 3), (3, None)], ulog=0, chooser=_ch, seed=_seed),        # default wait (60)
            _c(1, None, [(0, 1), (1, 2), (3, None)], ulog=0, chooser=_ch, seed=_seed),                # default wait (0)
            _c(4, 3, [(0, 1), (1, 2), (9, 3)], chooser=_ch, seed=_seed),                     # no marker: last batch by expiry
            _c(2, 3, [(0, 1), (1, 'END'), (1, 5)], end='END', chooser=_ch, seed=_seed),
            _c(3, 3, [(0, 1), (1, 2)], end=None, explicit_none=True, chooser=_ch, seed=_seed),
            # the arrival pattern of the repo's own test_eager_batcher (unit 0.05 s -> 1): [[1,2,3],[4,5],[6],[7]]
            _c(3, 4, [(4, 1), (4, 2), (6, 3), (6, 4), (7, 5), (15, 6), (21, 7), (26, None)], chooser=_ch, seed=_seed),
            _c(3, 2, [(0, 1), (1, 2), (3, 3), (4, 4), (9, None)], holds=[2], lazy=True,
               chooser=_ch[:-1] + (0.3,), seed=_seed),                                       # time passes while runnable
            _c(4, 0, [(0, 1), (1, 2), (2, 3), (3, 4), (4, 5), (5, None)], holds=[3, 3], lazy=True,
               chooser=_ch[:-1] + (0.3,), seed=_seed),
        ]


TRUSTED = [
    'Lean 4.33.0 kernel; axioms per theorem as listed in coverage.obligation_list (subset of propext, Classical.choice, Quot.sound)',
    'hand-written model lean/MpsVerif/Model/EagerBatcher.lean (EagerBatcher.__iter__, _streamer.py:830-874), tied to /repo by '
    'timed trace validation (drv eager, Core.Val.validate_sound) on every run; the timed get raising queue.Empty is the only inferred step',
    'deterministic scheduler harness/detsched.py with virtual clock (time.perf_counter/monotonic/time/sleep, queue.time, '
    'threading._time rebound; other clock functions trapped; self-test on every run)',
    'modelled not verified: queue.Queue is FIFO, put/get are atomic under its mutex, get(timeout=t) returns a queued item if '
    'there is one when it looks and otherwise raises Empty after exactly t (virtual) seconds',
    'event hooks: a queue.Queue subclass overriding _put/_get (run under the queue mutex) and the consumer loop of the harness',
    'multiprocessing queues as instream are not driven (OS schedule, real clock); covered by the theorem only under the same '
    'queue assumptions',
]
ASSUMPTIONS = [
    'no-delay (C19_no_delay, C19_timeout_exact, C19_tick_only_when_blocked; monitor rule no-delay) is stated and checked under '
    'zero processing time: virtual time advances only while every thread is blocked (model: strict = true, tick enabled only '
    'when the batcher cannot move); with real processing time emission is later by that time. Partition and short-only-if are '
    'also proved and checked with time passing at any moment (strict = false; lazy cases)',
    't_first (t0) is the clock at which the batcher OBTAINS the first item of a batch (the code starts its timer there), not '
    'the item\'s arrival time; they differ when the consumer held the previous batch',
    'the correspondence was checked on the arrival scripts and schedules explored in this run only; the theorems quantify over all',
]


def replay(chk, data):
    """re-run a replay file (monitor hit, or a broken correspondence) against the current tree"""
    case = data.get('case')
    if case is None and data.get('correspondence_breaks'):
        case = data['correspondence_breaks'][0]['case']
    if case is None:
        print('replay file has no case (Lean-side problem only):', data.get('lean_problems'))
        return 1
    res = chk.run_cases('scen_eager', [case])
    case, r = res[0]
    hits = [m for m in r['monitors'] if m['prop'] == chk.prop]
    verdict = core.run_driver('eager', scen_eager.model_lines(0, case, r))
    print(json.dumps(dict(monitors=r['monitors'], model=verdict, events=r.get('events'), received=r.get('received')),
                     default=str)[:3000])
    if hits or not (verdict and verdict[-1].startswith('ok ')):
        print(f'VIOLATION property={chk.prop} replay=(replayed)' + ('' if hits else ' no-failing-input-found'))
        return 1
    return 0
