"""C20 — child-process log records all reach the parent, once and in order.  DESIGN §5 C20."""
import collections
import json

import core
import scen_log
import scen_proc

PROPS = ['Props/C20.lean', 'Legacy/LogPipe.lean']


def keyfn(case, res, m):
    return f"{m['rule']}:{':'.join(scen_log.case_class(case).split(':')[:2])}"


def build_cases(chk):
    rng = chk.rng
    cases = scen_log.boundary_cases(rng, chk.tier)
    n = 70 if chk.tier == 'quick' else 5000
    cases += [scen_log.gen_case(rng, chk.tier) for _ in range(n)]
    sv = [(0, 10), (5, 100), (400, 1000)] if chk.tier == 'quick' else [(0, 10), (1, 10), (5, 100), (400, 1000), (2000, 100), (10, 70000)] * 4
    cases += [scen_log.servlet_case(rng, a, b) for a, b in sv]
    pv = [(5, 100), (400, 1000)] if chk.tier == 'quick' else [(0, 10), (5, 100), (400, 1000), (2000, 100)] * 3
    cases += [scen_log.pool_case(rng, a, b) for a, b in pv]
    # stalled parent (the child needs the stall time to flush after it has delivered its result) and bursts
    # (the child gets tens of thousands of records ahead of the parent); these run longest, so they go first,
    # one per worker chunk (core.Pool chunks up to 16 consecutive cases)
    if chk.tier == 'quick':
        long = [scen_log.stall_case(rng, 'ret', 7.0, at=0), scen_log.stall_case(rng, 'raise', 7.0, n=4000, size=150, at=40),
                scen_log.stall_case(rng, 'exit3', 7.0, at=3),
                scen_log.burst_case(rng, 'ret', 16000), scen_log.burst_case(rng, 'raise', 13000)]
    else:
        long = [scen_log.burst_case(rng, e, 150000, secs=3.0) for e in ('ret', 'exit3')]
        long += [scen_log.burst_case(rng, e, n) for e in ('ret', 'raise', 'exitstr') for n in (12000, 30000)]
        long += [scen_log.stall_case(rng, e, secs, n=n, size=sz, at=None)
                 for e in ('ret', 'raise', 'exit0', 'exit3', 'exitstr')
                 for secs, n, sz in ((6.0, 600, 1000), (12.0, 4000, 150), (25.0, 200, 5000), (40.0, 1000, 700))]
        long += [scen_log.stall_case(rng, rng.choice(['ret', 'raise', 'exit3']), round(rng.uniform(5.5, 40.0), 1),
                                     n=rng.choice([300, 600, 2000, 5000]), size=rng.choice([150, 500, 1000, 3000]),
                                     at=rng.randrange(0, 120)) for _ in range(12)]
    # a slow parent handler with a tail of records emitted right before the target ends (all must have been handled
    # when join()/result() returns, whichever way the target ended), also with a daemonic child whose parent program
    # ends right after join
    if chk.tier == 'quick':
        long += [scen_log.slowtail_case(rng, 'raise'), scen_log.slowtail_case(rng, 'exit3', n=150, slow=0.025),
                 scen_log.slowtail_case(rng, 'ret', n=150),
                 scen_log.slowtail_case(rng, 'raise', daemon=True, prog_exit=True),
                 scen_log.slowtail_case(rng, 'exit3', n=160, slow=0.025, daemon=True, prog_exit=True)]
    else:
        long += [scen_log.slowtail_case(rng, e, n=rng.choice([100, 200, 300]), slow=rng.choice([0.01, 0.02, 0.025]),
                                        daemon=d, prog_exit=d)
                 for e in ('ret', 'raise', 'exit0', 'exit3', 'exitstr') for d in (False, True) for _ in range(3)]
    for i, c in enumerate(long):
        cases.insert(min(len(cases), i * 16), c)
    # a parent program that leaves logging unconfigured / has a non-propagating logger without a handler: the
    # child's records must show up on the parent's stderr exactly like the same records emitted in the parent
    if chk.tier == 'quick':
        cases += [scen_log.unconf_case(rng, 'bare', ending='ret', n=30), scen_log.unconf_case(rng, 'bare', ending='raise', n=200),
                  scen_log.unconf_case(rng, 'noprop', ending='exit3', n=60), scen_log.unconf_case(rng, 'noprop', ending='ret', n=3),
                  scen_log.unconf_case(rng, 'bare', via='pool'), scen_log.unconf_case(rng, 'noprop', via='pool')]
    else:
        cases += [scen_log.unconf_case(rng, v, via=via) for v in ('bare', 'noprop') for via in ('direct',) * 4 + ('pool',)
                  for _ in range(12)]
    # the parent changes its level settings while the child runs (own logger / ancestor / root), at quiescent points
    cases += [scen_log.levels_case(rng) for _ in range(8 if chk.tier == 'quick' else 200)]
    return cases


def run(chk):
    chk.audit(PROPS)
    cases = build_cases(chk)
    results = chk.run_cases('scen_log', cases, sched=False, per_case_timeout=400.0)
    results = scen_proc.recheck_hangs(chk, 'scen_log', results, scen_log.vol_class)
    chk.account(scen_log, results, 'E4-processes')
    chk.collect_monitors(results, {'C20'}, keyfn)
    scen_proc.validate_parallel(chk, 'logpipe', scen_log, results, nproc=chk.workers, cost=lambda c: scen_log.n_total(c) ** 2,
                                skip=lambda c: scen_log.n_total(c) > 40000)
    if chk.corr_breaks and not chk.violations:
        more = []
        for b in chk.corr_breaks[:8]:
            for _ in range(4):
                c = dict(b['case'])
                c['seed'] = chk.rng.randrange(1 << 30)
                c['gap'] = chk.rng.choice([0, 0.05, 0.2])
                c['first'] = chk.rng.choice(['join', 'result'])
                more.append(c)
        more += [scen_log.gen_case(chk.rng, chk.tier) for _ in range(40)]
        res2 = chk.run_cases('scen_log', more, sched=False, per_case_timeout=400.0)
        chk.account(scen_log, res2, 'E4-processes')
        chk.collect_monitors(res2, {'C20'}, keyfn)
        chk.notes.append(f'correspondence broke on {len(chk.corr_breaks)} cases; escalated search over {len(more)} more cases')
    # recogniser: does the failing behaviour match the legacy model's proven counterexample?
    if any(v['rule'] == 'hang' for v in chk.violations) and any(v['rule'] == 'lost' for v in chk.violations):
        chk.notes.append('behaviour matches Legacy/LogPipe.lean F15_witness: records lost and the child blocked behind a pipe nobody '
                         'reads (end mark injected before the child had flushed) - defect F15 is present')
    dist = collections.Counter(scen_log.case_class(c) for c, _ in results)
    vols = sorted(scen_log.n_total(c) for c, _ in results)
    chk.cov['distribution'] = dict(case_classes=dict(sorted(dist.items())), records_min=vols[0], records_max=vols[-1],
                                   records_median=vols[len(vols) // 2],
                                   bytes_max=max(scen_log.n_total(c) * (c['size'] if not c.get('sizes') else max(c['sizes'])) for c, _ in results),
                                   wall_median_s=sorted(r.get('wall', 0) for _, r in results)[len(results) // 2])
    for case, res in results:
        if scen_log.nontrivial(case, res) and scen_log.n_total(case) >= 50:
            chk.sample(dict(case=case, handled=len(res.get('handled') or []), expected=len(scen_log.expected(case)),
                            at_join=res.get('at_join'), ending=res.get('ending')))
    chk.cov['rule'] = (
        'cases = boundary volumes (0, 1, 2 records ... 2000x100 B, 50x2 kB, 20x64 kB, 3x200 kB; thorough: 20000x100 B, '
        '100x64 kB, 1x1 MB) x ending kind (return, raise, sys.exit 0/3/str), plus random (n, size or mixed sizes, ending, '
        'level pattern, root level, gap before the end, a record from handle_exception after the target ended, first accessor '
        'join/result, a custom level below DEBUG with parent root level 1), plus a stalled parent (its handler blocks 7 s - thorough: up to 40 s - at a generated record while the child has a backlog beyond the pipe buffer) and bursts (13000-16000 - thorough: 150000 - small records while the parent is stalled at its first record), a slow handler (20-25 ms per record) with 150-200 records right before return / raise / sys.exit(3) - also for a daemonic child whose parent program ends right after join -, level changes by the parent (own logger / ancestor / root) at hand-shake points while the child runs, a parent program that leaves logging unconfigured or has a non-propagating logger without handler (its captured stderr must show the records of the child exactly as the same records emitted in the parent itself; Process and pool worker), plus the same as a ProcessServlet worker inside a Server and as the worker of a one-process Pool (close+join); each case runs the REAL mpservice Process in a '
        'fresh interpreter in its own session with a recording handler on the parent\'s root logger; non-trivial = at least two '
        'records emitted and an observation obtained; distinct = distinct (case, summary of the handled sequence)')
    chk.trusted += TRUSTED
    chk.assumptions += ASSUMPTIONS


TRUSTED = [
    'Lean 4.33.0 kernel; axioms per theorem as listed in coverage.obligation_list (subset of propext, Classical.choice, Quot.sound)',
    'hand-written model lean/MpsVerif/Model/LogPipe.lean, tied to /repo on every run: for each real run the model\'s own step '
    'function is executed under a seeded random scheduler (drv logpipe) and must end Final with the same handled sequence and the '
    'same number handled when join()/result() returned',
    'harness/scen_log.py + scen_proc.run_inner (runner, recording handler, level bookkeeping)',
    'modelled not verified: OS pipe (FIFO, bounded, blocking writer), multiprocessing.Queue feeder threads (buffer order, whole '
    'messages, child joins its feeder at exit), process sentinel, logging.Logger.handle / level lookup',
    'OS schedule sampled, not controlled: the quantifier over interleavings (timing of result delivery vs. log flushing) is carried by the theorems',
]
ASSUMPTIONS = [
    'pipe capacity is counted in records (K >= 1 arbitrary); a record larger than the OS pipe buffer corresponds to K = 1',
    'the child does not configure logging itself (then mpservice deliberately does not forward) and is not killed (C12 covers kills)',
    'pools are exercised with one worker and close()+join(); Pool.terminate() / the context manager exit kill the workers (C12\'s signal path)',
]


def replay(chk, data):
    """the OS schedule is not controlled: a timing-dependent failure may need several attempts"""
    for attempt in range(1, 6):
        res = chk.run_cases('scen_log', [data['case']], sched=False, per_case_timeout=3600.0)
        case, r = res[0]
        hits = [m for m in r['monitors'] if m['prop'] == chk.prop]
        print(json.dumps(dict(attempt=attempt, monitors=r['monitors'], handled=len(r.get('handled') or []),
                              expected=len(scen_log.expected(case)), joined=r.get('joined'), at_join=r.get('at_join')),
                         default=str)[:2000])
        if hits:
            print(f'VIOLATION property={chk.prop} replay=(replayed)')
            return 1
    return 0
