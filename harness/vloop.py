"""
E2 — virtual-time asyncio event loop (DESIGN §3.2).

`VLoop` is a `SelectorEventLoop` whose clock is virtual: `time()` returns a counter that jumps to
the next timer as soon as the ready queue is empty (after dropping cancelled timer heads), so
`asyncio.sleep(d)` costs nothing and the *completion order* of concurrent coroutines is decided by
the generated durations alone.  Everything runs in one thread; a run is a deterministic function
of the case.  When nothing is ready and no timer is pending the loop would block in `select()`
forever: that is an exact hang of pure-asyncio code and is reported as `Hang`.

Only pure-asyncio code may run on it (no threads, no real I/O): a callback scheduled from another
thread would be a reason for the loop to wake up that `Hang` does not know about.
"""
import asyncio
import heapq
import selectors


class Hang(BaseException):
    """no ready callback and no timer: the loop would sleep forever"""


class VLoop(asyncio.SelectorEventLoop):
    def __init__(self):
        super().__init__(selectors.SelectSelector())
        self._vt = 0.0
        self.iterations = 0
        self.jumps = 0

    def time(self):
        return self._vt

    def _run_once(self):
        # drop cancelled timer heads, then jump the clock if nothing is ready
        while self._scheduled and self._scheduled[0]._cancelled:
            h = heapq.heappop(self._scheduled)
            h._scheduled = False
        if not self._ready:
            if self._scheduled:
                when = self._scheduled[0]._when
                if when > self._vt:
                    self._vt = when
                    self.jumps += 1
            elif not self._stopping:
                raise Hang('event loop idle: no ready callback, no timer')
        self.iterations += 1
        super()._run_once()


def run(coro_fn, max_iterations=1_000_000):
    """Run `await coro_fn()` to completion on a fresh virtual loop.
    -> (value, exception, loop statistics).  Pending tasks are cancelled and reaped at the end."""
    loop = VLoop()
    asyncio.set_event_loop(loop)
    value = exc = None
    try:
        try:
            value = loop.run_until_complete(coro_fn())
        except BaseException as e:  # noqa: BLE001 (Hang, CancelledError, anything the scenario lets out)
            exc = e
        stats = dict(vtime=loop._vt, iterations=loop.iterations, jumps=loop.jumps)
        # wind down whatever is left (as asyncio.run does); never let this mask the verdict
        try:
            left = [t for t in asyncio.all_tasks(loop) if not t.done()]
            for t in left:
                t.cancel()
            if left:
                loop.run_until_complete(asyncio.gather(*left, return_exceptions=True))
            loop.run_until_complete(loop.shutdown_asyncgens())
        except BaseException:  # noqa: BLE001
            pass
        return value, exc, stats
    finally:
        asyncio.set_event_loop(None)
        loop.close()
