import MpsVerif.Drv.Fifo
import MpsVerif.Drv.Frame
import MpsVerif.Drv.Mux

def main (args : List String) : IO UInt32 := do
  match args with
  | ["fifo"] => Fifo.Drv.main; return 0
  | ["frame"] => Frame.Drv.main; return 0
  | ["mux"] => Mux.Drv.main; return 0
  | _ => IO.eprintln s!"usage: drv <model>   (models: fifo)"; return 2
