import MpsVerif.Drv.Fifo
import MpsVerif.Drv.ProcOutcome
import MpsVerif.Drv.LogPipe

def main (args : List String) : IO UInt32 := do
  match args with
  | ["fifo"] => Fifo.Drv.main; return 0
  | ["procoutcome"] => ProcOutcome.Drv.main; return 0
  | ["logpipe"] => LogPipe.Drv.main; return 0
  | _ => IO.eprintln s!"usage: drv <model>   (models: fifo)"; return 2
