import MpsVerif.Drv.Fifo
import MpsVerif.Drv.Frame
import MpsVerif.Drv.Mux
import MpsVerif.Drv.Pipe

def main (args : List String) : IO UInt32 := do
  match args with
  | ["fifo"] => Fifo.Drv.main; return 0
  | ["frame"] => Frame.Drv.main; return 0
  | ["mux"] => Mux.Drv.main; return 0
  | ["pipe"] => Pipe.Drv.main; return 0
  | _ => IO.eprintln s!"usage: drv <model>   (models: fifo, frame, mux, pipe)"; return 2
