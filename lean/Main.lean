import MpsVerif.Drv.Fifo
import MpsVerif.Drv.Buffer
import MpsVerif.Drv.Batch
import MpsVerif.Drv.Lifecycle
import MpsVerif.Drv.Ledger
import MpsVerif.Drv.RemoteExc
import MpsVerif.Drv.AFifo
import MpsVerif.Drv.Eager
import MpsVerif.Drv.Pipeline
import MpsVerif.Drv.Tee
import MpsVerif.Drv.Refcount
import MpsVerif.Drv.ProxyCall
import MpsVerif.Drv.Servlet
import MpsVerif.Drv.IterQueue
import MpsVerif.Drv.Frame
import MpsVerif.Drv.Mux
import MpsVerif.Drv.Pipe
import MpsVerif.Drv.ProcOutcome
import MpsVerif.Drv.LogPipe
import MpsVerif.Drv.Lane
import MpsVerif.Drv.Wakeup

def main (args : List String) : IO UInt32 := do
  match args with
  | ["fifo"] => Fifo.Drv.main; return 0
  | ["buffer"] => Buffer.Drv.main; return 0
  | ["batch"] => Batch.Drv.main; return 0
  | ["lifecycle"] => Lifecycle.Drv.main; return 0
  | ["ledger"] => Ledger.Drv.main; return 0
  | ["remoteexc"] => RemoteExc.Drv.main; return 0
  | ["afifo"] => AFifo.Drv.main; return 0
  | ["afifostale"] => AFifo.Drv.mainStale; return 0
  | ["eager"] => Eager.Drv.main; return 0
  | ["pipeline"] => Pipeline.Drv.main; return 0
  | ["tee"] => Tee.Drv.main; return 0
  | ["tee-legacy"] => Tee.Drv.mainLegacy; return 0
  | ["refcount"] => Refcount.Drv.main; return 0
  | ["proxycall"] => ProxyCall.Drv.main; return 0
  | ["servlet"] => Servlet.Drv.main; return 0
  | ["iterq"] => IterQueue.Drv.main; return 0
  | ["frame"] => Frame.Drv.main; return 0
  | ["mux"] => Mux.Drv.main; return 0
  | ["pipe"] => Pipe.Drv.main; return 0
  | ["procoutcome"] => ProcOutcome.Drv.main; return 0
  | ["logpipe"] => LogPipe.Drv.main; return 0
  | ["lane"] => Lane.Drv.main; return 0
  | ["wakeup"] => Wakeup.Drv.main; return 0
  | _ => IO.eprintln s!"usage: drv <model>   (see lean/Main.lean for the list of models)"; return 2
