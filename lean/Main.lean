import MpsVerif.Drv.Fifo
import MpsVerif.Drv.Refcount
import MpsVerif.Drv.ProxyCall

def main (args : List String) : IO UInt32 := do
  match args with
  | ["fifo"] => Fifo.Drv.main; return 0
  | ["refcount"] => Refcount.Drv.main; return 0
  | ["proxycall"] => ProxyCall.Drv.main; return 0
  | _ => IO.eprintln s!"usage: drv <model>   (models: fifo)"; return 2
