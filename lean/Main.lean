import MpsVerif.Drv.Fifo
import MpsVerif.Drv.AFifo
import MpsVerif.Drv.Buffer

def main (args : List String) : IO UInt32 := do
  match args with
  | ["fifo"] => Fifo.Drv.main; return 0
  | ["afifo"] => AFifo.Drv.main; return 0
  | ["afifostale"] => AFifo.Drv.mainStale; return 0
  | ["buffer"] => Buffer.Drv.main; return 0
  | _ => IO.eprintln s!"usage: drv <model>   (models: fifo)"; return 2
