import MpsVerif.Drv.Fifo
import MpsVerif.Drv.Buffer
import MpsVerif.Drv.Servlet

def main (args : List String) : IO UInt32 := do
  match args with
  | ["fifo"] => Fifo.Drv.main; return 0
  | ["buffer"] => Buffer.Drv.main; return 0
  | ["servlet"] => Servlet.Drv.main; return 0
  | _ => IO.eprintln s!"usage: drv <model>   (models: fifo)"; return 2
