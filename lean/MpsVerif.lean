import MpsVerif.Core.Sys
import MpsVerif.Core.Validate
import MpsVerif.Drv.Fifo
import MpsVerif.Props.C01
import MpsVerif.Props.C05
import MpsVerif.Props.C08
import MpsVerif.Drv.ProcOutcome
import MpsVerif.Props.C12
