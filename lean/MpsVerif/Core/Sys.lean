/-!
# Labelled transition systems with executable step functions

Every concurrent mechanism is modelled as `step : σ → α → Option σ` where **every** source of
nondeterminism (which thread moves, which worker finishes first, when a timer fires, where the
consumer stops, …) is an action label.  A schedule is a list of actions; "for all schedules"
is `∀ as : List α`.
-/
namespace Core

variable {σ α : Type}

/-- run an action list; `none` as soon as an action is not enabled -/
def run (step : σ → α → Option σ) (s : σ) : List α → Option σ
  | [] => some s
  | a :: as => (step s a).bind (fun s' => run step s' as)

@[simp] theorem run_nil (step : σ → α → Option σ) (s : σ) : run step s [] = some s := rfl

theorem run_cons (step : σ → α → Option σ) (s : σ) (a : α) (as : List α) :
    run step s (a :: as) = (step s a).bind (fun s' => run step s' as) := rfl

theorem run_append (step : σ → α → Option σ) (s : σ) (as bs : List α) :
    run step s (as ++ bs) = (run step s as).bind (fun s1 => run step s1 bs) := by
  induction as generalizing s with
  | nil => simp
  | cons a as ih =>
    simp only [List.cons_append, run_cons]
    cases step s a with
    | none => simp
    | some s2 => simp [ih]

/-- `s'` is reachable from `s` -/
def Reach (step : σ → α → Option σ) (s s' : σ) : Prop := ∃ as, run step s as = some s'

theorem Reach.refl (step : σ → α → Option σ) (s : σ) : Reach step s s := ⟨[], rfl⟩

theorem Reach.tail {step : σ → α → Option σ} {s s1 s2 : σ} {a : α}
    (h : Reach step s s1) (hs : step s1 a = some s2) : Reach step s s2 := by
  obtain ⟨as, has⟩ := h
  refine ⟨as ++ [a], ?_⟩
  rw [run_append, has]; simp [run_cons, hs]

/-- An inductive invariant holds after every action list. -/
theorem invariant_run {step : σ → α → Option σ} {Inv : σ → Prop}
    (hstep : ∀ s a s', Inv s → step s a = some s' → Inv s') :
    ∀ (as : List α) (s s' : σ), Inv s → run step s as = some s' → Inv s' := by
  intro as
  induction as with
  | nil => intro s s' h hr; simp at hr; subst hr; exact h
  | cons a as ih =>
    intro s s' h hr
    rw [run_cons] at hr
    cases hst : step s a with
    | none => simp [hst] at hr
    | some s1 => simp [hst] at hr; exact ih s1 s' (hstep s a s1 h hst) hr

theorem invariant_reach {step : σ → α → Option σ} {Inv : σ → Prop}
    (hstep : ∀ s a s', Inv s → step s a = some s' → Inv s') {s s' : σ}
    (h0 : Inv s) (hr : Reach step s s') : Inv s' := by
  obtain ⟨as, has⟩ := hr
  exact invariant_run hstep as s s' h0 has

/-- If every enabled action strictly decreases a measure, no action list is longer than the
    measure of its start state: every execution ends within `μ s` steps. -/
theorem length_le_measure {step : σ → α → Option σ} (μ : σ → Nat)
    (hdec : ∀ s a s', step s a = some s' → μ s' < μ s) :
    ∀ (as : List α) (s s' : σ), run step s as = some s' → as.length + μ s' ≤ μ s := by
  intro as
  induction as with
  | nil => intro s s' hr; simp at hr; subst hr; simp
  | cons a as ih =>
    intro s s' hr
    rw [run_cons] at hr
    cases hst : step s a with
    | none => simp [hst] at hr
    | some s1 =>
      simp [hst] at hr
      have := ih s1 s' hr
      have := hdec s a s1 hst
      simp only [List.length_cons]; omega

/-- Same, relative to an invariant (the measure only needs to decrease in invariant states). -/
theorem length_le_measure_inv {step : σ → α → Option σ} (μ : σ → Nat) (Inv : σ → Prop)
    (hinv : ∀ s a s', Inv s → step s a = some s' → Inv s')
    (hdec : ∀ s a s', Inv s → step s a = some s' → μ s' < μ s) :
    ∀ (as : List α) (s s' : σ), Inv s → run step s as = some s' → as.length + μ s' ≤ μ s := by
  intro as
  induction as with
  | nil => intro s s' _ hr; simp at hr; subst hr; simp
  | cons a as ih =>
    intro s s' hi hr
    rw [run_cons] at hr
    cases hst : step s a with
    | none => simp [hst] at hr
    | some s1 =>
      simp [hst] at hr
      have := ih s1 s' (hinv s a s1 hi hst) hr
      have := hdec s a s1 hi hst
      simp only [List.length_cons]; omega

end Core
