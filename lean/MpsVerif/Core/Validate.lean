import MpsVerif.Core.Sys
/-!
# Observable-trace validator with inferred internal steps

The correspondence check records the *observable* events of a run of the real code and asks
whether that event sequence is the observable projection of a run of the proved model.
`validate` keeps the set of model states compatible with the events so far: before every event
it closes the set under internal (`τ`) actions, then fires the candidate actions for the event.
Soundness (`validate_sound`): every state the validator still holds after the whole trace is
reached by a genuine run of the model whose observable projection is exactly the trace.
The validator may *reject* a legitimate trace if `fuel`/`taus`/`cands` are too small — that is a
correspondence break to be investigated, never a wrong pass.

`prune` may drop states (used for de-duplication and for filtering on event payloads such as
"the index the consumer received"); dropping states only makes acceptance harder.
-/
namespace Core.Val

structure LSys (σ α ω : Type) where
  step  : σ → α → Option σ
  label : α → Option ω            -- `none` = internal action
  taus  : σ → List α              -- candidate internal actions
  cands : σ → ω → List α          -- candidate actions explaining an observable event

variable {σ α ω : Type}

def run (S : LSys σ α ω) (s : σ) : List α → Option σ
  | [] => some s
  | a :: as => (S.step s a).bind (fun s' => run S s' as)

def obs (S : LSys σ α ω) (as : List α) : List ω := as.filterMap S.label

structure WF (S : LSys σ α ω) : Prop where
  tau_internal : ∀ s a, a ∈ S.taus s → S.label a = none
  cand_label   : ∀ s e a, a ∈ S.cands s e → S.label a = some e

/-- de-duplicate (keeps the first occurrence) -/
def dedup [BEq σ] : List σ → List σ
  | [] => []
  | s :: ss => if (dedup ss).elem s then dedup ss else s :: dedup ss

theorem mem_of_mem_dedup [BEq σ] (ss : List σ) : ∀ s ∈ dedup ss, s ∈ ss := by
  induction ss with
  | nil => simp [dedup]
  | cons a ss ih =>
    intro s hs
    simp only [dedup] at hs
    split at hs
    · exact List.mem_cons_of_mem _ (ih s hs)
    · rcases List.mem_cons.mp hs with h | h
      · subst h; exact List.mem_cons_self
      · exact List.mem_cons_of_mem _ (ih s h)

def tauStep (S : LSys σ α ω) (ss : List σ) : List σ :=
  ss.flatMap (fun s => (S.taus s).filterMap (S.step s))

def tauClose [BEq σ] (S : LSys σ α ω) : Nat → List σ → List σ
  | 0, ss => ss
  | k+1, ss => tauClose S k (dedup (ss ++ tauStep S ss))

def obsStep (S : LSys σ α ω) (ss : List σ) (e : ω) : List σ :=
  ss.flatMap (fun s => (S.cands s e).filterMap (S.step s))

/-- One validation step for a recorded event `e : ε`: `proj e` is the observable action label it
    stands for, `keep e s'` filters the successor states on the event's payload (e.g. "the index the
    consumer received"). -/
def vstep [BEq σ] {ε : Type} (S : LSys σ α ω) (fuel : Nat) (proj : ε → ω) (keep : ε → σ → Bool)
    (ss : List σ) (e : ε) : List σ :=
  dedup ((obsStep S (tauClose S fuel ss) (proj e)).filter (keep e))

def validate [BEq σ] {ε : Type} (S : LSys σ α ω) (fuel : Nat) (proj : ε → ω) (keep : ε → σ → Bool) :
    List σ → List ε → List σ
  | ss, [] => tauClose S fuel ss
  | ss, e :: es => validate S fuel proj keep (vstep S fuel proj keep ss e) es

/-- `s'` is reachable from some state of `ss` by a run whose observable projection is `es` -/
def Reach (S : LSys σ α ω) (ss : List σ) (es : List ω) (s' : σ) : Prop :=
  ∃ s0, s0 ∈ ss ∧ ∃ as, run S s0 as = some s' ∧ obs S as = es

theorem run_append (S : LSys σ α ω) (s : σ) (as bs : List α) (s1 : σ) (h : run S s as = some s1) :
    run S s (as ++ bs) = run S s1 bs := by
  induction as generalizing s with
  | nil => simp [run] at h; subst h; rfl
  | cons a as ih =>
    simp only [run, List.cons_append] at h ⊢
    cases hs : S.step s a with
    | none => simp [hs] at h
    | some s2 => simp [hs] at h ⊢; exact ih s2 h

theorem obs_append (S : LSys σ α ω) (as bs : List α) : obs S (as ++ bs) = obs S as ++ obs S bs := by
  simp [obs]

theorem reach_tauStep (S : LSys σ α ω) (hw : WF S) (ss0 : List σ) (es : List ω) (ss : List σ)
    (h : ∀ s ∈ ss, Reach S ss0 es s) : ∀ s ∈ tauStep S ss, Reach S ss0 es s := by
  intro s hs
  simp only [tauStep, List.mem_flatMap, List.mem_filterMap] at hs
  obtain ⟨s1, hs1, a, ha, hstep⟩ := hs
  obtain ⟨s0, hs0, as, hrun, hobs⟩ := h s1 hs1
  refine ⟨s0, hs0, as ++ [a], ?_, ?_⟩
  · rw [run_append S s0 as [a] s1 hrun]; simp [run, hstep]
  · rw [obs_append, hobs]; simp [obs, hw.tau_internal s1 a ha]

theorem reach_tauClose [BEq σ] (S : LSys σ α ω) (hw : WF S) (ss0 : List σ) (es : List ω) (k : Nat) :
    ∀ ss, (∀ s ∈ ss, Reach S ss0 es s) → ∀ s ∈ tauClose S k ss, Reach S ss0 es s := by
  induction k with
  | zero => intro ss h s hs; exact h s hs
  | succ k ih =>
    intro ss h s hs
    simp only [tauClose] at hs
    apply ih (dedup (ss ++ tauStep S ss)) _ s hs
    intro s1 hs1
    rcases List.mem_append.mp (mem_of_mem_dedup _ s1 hs1) with h1 | h1
    · exact h s1 h1
    · exact reach_tauStep S hw ss0 es ss h s1 h1

theorem reach_obsStep (S : LSys σ α ω) (hw : WF S) (ss0 : List σ) (es : List ω) (ss : List σ) (e : ω)
    (h : ∀ s ∈ ss, Reach S ss0 es s) : ∀ s ∈ obsStep S ss e, Reach S ss0 (es ++ [e]) s := by
  intro s hs
  simp only [obsStep, List.mem_flatMap, List.mem_filterMap] at hs
  obtain ⟨s1, hs1, a, ha, hstep⟩ := hs
  obtain ⟨s0, hs0, as, hrun, hobs⟩ := h s1 hs1
  refine ⟨s0, hs0, as ++ [a], ?_, ?_⟩
  · rw [run_append S s0 as [a] s1 hrun]; simp [run, hstep]
  · rw [obs_append, hobs]; simp [obs, hw.cand_label s1 e a ha]

theorem validate_sound_aux [BEq σ] {ε : Type} (S : LSys σ α ω) (hw : WF S) (fuel : Nat)
    (proj : ε → ω) (keep : ε → σ → Bool) (ss0 : List σ) :
    ∀ (es : List ε) (done : List ω) (ss : List σ), (∀ s ∈ ss, Reach S ss0 done s) →
      ∀ s ∈ validate S fuel proj keep ss es, Reach S ss0 (done ++ es.map proj) s := by
  intro es
  induction es with
  | nil =>
    intro done ss h s hs
    simp only [validate] at hs
    simpa using reach_tauClose S hw ss0 done fuel ss h s hs
  | cons e es ih =>
    intro done ss h s hs
    simp only [validate] at hs
    have h1 := reach_tauClose S hw ss0 done fuel ss h
    have h2 := reach_obsStep S hw ss0 done (tauClose S fuel ss) (proj e) h1
    have h3 : ∀ s ∈ vstep S fuel proj keep ss e, Reach S ss0 (done ++ [proj e]) s := by
      intro s hs
      exact h2 s (List.mem_filter.mp (mem_of_mem_dedup _ s hs)).1
    have := ih (done ++ [proj e]) _ h3 s hs
    simpa using this

/-- Soundness: whatever state the validator still considers possible after the whole trace is
    reached by a genuine run of the model from the initial state whose observable projection is
    exactly the recorded event sequence. -/
theorem validate_sound [BEq σ] {ε : Type} (S : LSys σ α ω) (hw : WF S) (fuel : Nat)
    (proj : ε → ω) (keep : ε → σ → Bool) (s0 : σ) (es : List ε) (s : σ)
    (h : s ∈ validate S fuel proj keep [s0] es) :
    ∃ as, run S s0 as = some s ∧ obs S as = es.map proj := by
  have hinit : ∀ t ∈ [s0], Reach S [s0] [] t := by
    intro t ht; simp at ht; subst ht; exact ⟨t, by simp, [], rfl, rfl⟩
  obtain ⟨t, ht, as, hrun, hobs⟩ := validate_sound_aux S hw fuel proj keep [s0] es [] [s0] hinit s h
  simp at ht; subst ht
  exact ⟨as, hrun, by simpa using hobs⟩

/-- `Val.run` is `Core.run` of the same step function (so reachability notions coincide). -/
theorem run_eq (S : LSys σ α ω) (s : σ) (as : List α) : run S s as = Core.run S.step s as := by
  induction as generalizing s with
  | nil => rfl
  | cons a as ih => simp only [run, Core.run]; cases S.step s a <;> simp [ih]

end Core.Val
