import MpsVerif.Core.Validate
import Std.Data.HashSet
/-!
# Worklist version of the τ-closure (hash-set de-duplication, stops at the fixpoint)

Same soundness statement as `Core.Val.validate_sound`: every state the validator still holds was
reached by a genuine run of the model whose observable projection is the recorded trace.  Which
states the hash set filters out is irrelevant for soundness (any filter only drops states).
-/
namespace Core.Val

variable {σ α ω : Type}

/-- insert the not-yet-seen elements of `xs` into `seen`; returns the new set and the new elements -/
def addNew [BEq σ] [Hashable σ] (seen : Std.HashSet σ) (xs : List σ) : Std.HashSet σ × List σ :=
  xs.foldl (fun (p : Std.HashSet σ × List σ) s =>
    if p.1.contains s then p else (p.1.insert s, s :: p.2)) (seen, [])

theorem addNew_subset_aux [BEq σ] [Hashable σ] (xs : List σ) :
    ∀ (p : Std.HashSet σ × List σ) (P : σ → Prop), (∀ s ∈ p.2, P s) → (∀ s ∈ xs, P s) →
      ∀ s ∈ (xs.foldl (fun (p : Std.HashSet σ × List σ) s =>
        if p.1.contains s then p else (p.1.insert s, s :: p.2)) p).2, P s := by
  induction xs with
  | nil => intro p P h1 _ s hs; exact h1 s hs
  | cons x xs ih =>
    intro p P h1 h2 s hs
    simp only [List.foldl_cons] at hs
    apply ih _ P _ (fun s hs => h2 s (List.mem_cons_of_mem _ hs)) s hs
    intro t ht
    split at ht
    · exact h1 t ht
    · rcases List.mem_cons.mp ht with h | h
      · subst h; exact h2 _ List.mem_cons_self
      · exact h1 t h

theorem addNew_subset [BEq σ] [Hashable σ] (seen : Std.HashSet σ) (xs : List σ) :
    ∀ s ∈ (addNew seen xs).2, s ∈ xs :=
  addNew_subset_aux xs (seen, []) (· ∈ xs) (by simp) (fun s hs => hs)

def closeW [BEq σ] [Hashable σ] (S : LSys σ α ω) : Nat → Std.HashSet σ → List σ → List σ → List σ
  | 0, _, acc, _ => acc
  | k+1, seen, acc, fr =>
    let p := addNew seen (tauStep S fr)
    if p.2.isEmpty then acc else closeW S k p.1 (acc ++ p.2) p.2

/-- τ-closure of `ss` (worklist; at most `fuel` rounds, normally ends earlier at the fixpoint) -/
def tauCloseW [BEq σ] [Hashable σ] (S : LSys σ α ω) (fuel : Nat) (ss : List σ) : List σ :=
  let p := addNew {} ss
  closeW S fuel p.1 p.2 p.2

theorem reach_closeW [BEq σ] [Hashable σ] (S : LSys σ α ω) (hw : WF S) (ss0 : List σ) (es : List ω) (k : Nat) :
    ∀ (seen : Std.HashSet σ) (acc fr : List σ), (∀ s ∈ acc, Reach S ss0 es s) → (∀ s ∈ fr, Reach S ss0 es s) →
      ∀ s ∈ closeW S k seen acc fr, Reach S ss0 es s := by
  induction k with
  | zero => intro seen acc fr h1 _ s hs; exact h1 s hs
  | succ k ih =>
    intro seen acc fr h1 h2 s hs
    simp only [closeW] at hs
    have hnew : ∀ t ∈ (addNew seen (tauStep S fr)).2, Reach S ss0 es t := by
      intro t ht
      exact reach_tauStep S hw ss0 es fr h2 t (addNew_subset seen _ t ht)
    split at hs
    · exact h1 s hs
    · apply ih _ _ _ _ hnew s hs
      intro t ht
      rcases List.mem_append.mp ht with h | h
      · exact h1 t h
      · exact hnew t h

theorem reach_tauCloseW [BEq σ] [Hashable σ] (S : LSys σ α ω) (hw : WF S) (ss0 : List σ) (es : List ω)
    (fuel : Nat) (ss : List σ) (h : ∀ s ∈ ss, Reach S ss0 es s) :
    ∀ s ∈ tauCloseW S fuel ss, Reach S ss0 es s := by
  intro s hs
  simp only [tauCloseW] at hs
  have h0 : ∀ t ∈ (addNew (∅ : Std.HashSet σ) ss).2, Reach S ss0 es t :=
    fun t ht => h t (addNew_subset _ ss t ht)
  exact reach_closeW S hw ss0 es fuel _ _ _ h0 h0 s hs

/-- one validation step (as `vstep`, with the worklist closure; `filt` is an arbitrary extra filter
    on the closed set, used for state observations such as "the backlog is k") -/
def vstepW [BEq σ] [Hashable σ] {ε : Type} (S : LSys σ α ω) (fuel : Nat) (proj : ε → ω) (keep : ε → σ → Bool)
    (ss : List σ) (e : ε) : List σ :=
  (addNew {} ((obsStep S (tauCloseW S fuel ss) (proj e)).filter (keep e))).2

def validateW [BEq σ] [Hashable σ] {ε : Type} (S : LSys σ α ω) (fuel : Nat) (proj : ε → ω)
    (keep : ε → σ → Bool) : List σ → List ε → List σ
  | ss, [] => tauCloseW S fuel ss
  | ss, e :: es => validateW S fuel proj keep (vstepW S fuel proj keep ss e) es

theorem validateW_sound_aux [BEq σ] [Hashable σ] {ε : Type} (S : LSys σ α ω) (hw : WF S) (fuel : Nat)
    (proj : ε → ω) (keep : ε → σ → Bool) (ss0 : List σ) :
    ∀ (es : List ε) (done : List ω) (ss : List σ), (∀ s ∈ ss, Reach S ss0 done s) →
      ∀ s ∈ validateW S fuel proj keep ss es, Reach S ss0 (done ++ es.map proj) s := by
  intro es
  induction es with
  | nil =>
    intro done ss h s hs
    simp only [validateW] at hs
    simpa using reach_tauCloseW S hw ss0 done fuel ss h s hs
  | cons e es ih =>
    intro done ss h s hs
    simp only [validateW] at hs
    have h1 := reach_tauCloseW S hw ss0 done fuel ss h
    have h2 := reach_obsStep S hw ss0 done (tauCloseW S fuel ss) (proj e) h1
    have h3 : ∀ s ∈ vstepW S fuel proj keep ss e, Reach S ss0 (done ++ [proj e]) s := by
      intro s hs
      exact h2 s (List.mem_filter.mp (addNew_subset _ _ s hs)).1
    have := ih (done ++ [proj e]) _ h3 s hs
    simpa using this

/-- Soundness of the worklist validator. -/
theorem validateW_sound [BEq σ] [Hashable σ] {ε : Type} (S : LSys σ α ω) (hw : WF S) (fuel : Nat)
    (proj : ε → ω) (keep : ε → σ → Bool) (s0 : σ) (es : List ε) (s : σ)
    (h : s ∈ validateW S fuel proj keep [s0] es) :
    ∃ as, run S s0 as = some s ∧ obs S as = es.map proj := by
  have hinit : ∀ t ∈ [s0], Reach S [s0] [] t := by
    intro t ht; simp at ht; subst ht; exact ⟨t, by simp, [], rfl, rfl⟩
  obtain ⟨t, ht, as, hrun, hobs⟩ := validateW_sound_aux S hw fuel proj keep [s0] es [] [s0] hinit s h
  simp at ht; subst ht
  exact ⟨as, hrun, by simpa using hobs⟩

end Core.Val
