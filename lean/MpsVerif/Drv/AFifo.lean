import MpsVerif.Model.AFifo
import MpsVerif.Legacy.AFifoStale
import MpsVerif.Core.Validate
import MpsVerif.Drv.Util
/-! Trace-validation and differential driver for the `async_fifo_stream` model (`drv afifo`).

Protocol (one line each):
* `case <id> n= cap= rexc= src=clean|exc pf=i,j re=i,j [detach=1]` — opens a case (`detach`: see `tausFor`);
* `e <event> [idx [idx2]]` — an observed event of the real run (`yld t x`: outcome of awaitable `t`
  delivered, paired with element `x` when `return_x`);
* `end out=<k> raised=none|src|item:<i> close=0|1 final=0|1 [partial=1]` — closes the case; answer
  `ok <id> … dl=<delivered pairs of the model state> oc=<outcome c>` or `REJECT` / `NOFINAL`.
  `dl`/`oc` are computed by `AFifo.delivered` / `AFifo.outcome` (the definitions the theorems
  are about); the harness compares them with what the real code delivered. -/
namespace AFifo.Drv
open Core.Val
open Fifo (Cfg SrcEnd Raised)

deriving instance DecidableEq for State

def isTau : Act → Bool
  | .fcheck | .stopSeen | .put | .unbound | .putEnd | .putExc | .get | .raiseItem | .setStop
  | .drainCancel | .drainCancelRun | .drainDetach | .drainSkip | .drainMark | .drainEmpty | .reap => true
  | _ => false

def tauActs : List Act :=
  [.fcheck, .stopSeen, .put, .unbound, .putEnd, .putExc, .get, .raiseItem, .setStop,
   .drainCancel, .drainCancelRun, .drainDetach, .drainSkip, .drainMark, .drainEmpty, .reap]

/-- internal actions the validator may infer.  `detach = false`: the awaitables are asyncio *tasks*
    (`AsyncParmapperAsync`, `create_task`): cancelling is `drainCancel` / `drainCancelRun`;
    `detach = true`: they are plain futures standing for work done elsewhere (`AsyncServer._enqueue`,
    `run_in_executor`): cancelling is `drainDetach`.  (Restricting the candidates only makes
    acceptance harder; it keeps the set of compatible states small.) -/
def tausFor (detach : Bool) : List Act :=
  tauActs.filter fun a =>
    if detach then !(a == .drainCancel || a == .drainCancelRun) else !(a == .drainDetach)

/-- `stepf` is `AFifo.step` (the model the theorems are about) or `AFifoStale.step` (the pinned,
    defective behaviour: used only to *name* defect F1 when the main model rejects a trace) -/
def sysOf (stepf : Cfg → State → Act → Option State) (detach : Bool) (c : Cfg) : LSys State Act Act :=
  { step := stepf c
    label := fun a => if isTau a then none else some a
    taus := fun _ => tausFor detach
    cands := fun _ e => if isTau e then [] else [e] }

def sys (c : Cfg) : LSys State Act Act := sysOf step false c

theorem sysOf_wf (stepf : Cfg → State → Act → Option State) (detach : Bool) (c : Cfg) :
    WF (sysOf stepf detach c) := by
  constructor
  · intro s a ha
    replace ha : a ∈ tauActs := (List.mem_filter.mp ha).1
    simp only [tauActs, List.mem_cons, List.not_mem_nil, or_false] at ha
    rcases ha with h | h | h | h | h | h | h | h | h | h | h | h | h | h | h | h <;> subst h <;> rfl
  · intro s e a ha
    simp only [sysOf] at ha ⊢
    split at ha
    · simp at ha
    · simp at ha; subst ha; simp_all

theorem sys_wf (c : Cfg) : WF (sys c) := sysOf_wf step false c

/-- a recorded event: the action it stands for and the indices the implementation reported -/
structure Ev where
  act : Act
  idx : Option Nat
  idx2 : Option Nat

/-- payload check on the successor state -/
def keep (e : Ev) (s : State) : Bool :=
  match e.idx with
  | none => true
  | some i =>
    match e.act with
    | .pull => s.fpc == .check i
    | .submit => s.fpc == .hold i && s.tvar == some i
    | .preFail => s.fpc == .hold i
    | .yld =>
      match s.out.getLast? with
      | some (x, t) => t == i && (match e.idx2 with | some x' => x == x' | none => true)
      | none => false
    | _ => true

def parseAct (name : String) (idx : Option Nat) : Option Act :=
  match name with
  | "pull" => some .pull | "srcEnd" => some .srcEnd | "srcRaise" => some .srcRaise
  | "submit" => some .submit | "preFail" => some .preFail
  | "start" => idx.map .start | "finish" => idx.map .finish
  | "yld" => some .yld | "next" => some .next | "close" => some .close | "join" => some .join
  | _ => none

def showRaised : Option Raised → String
  | none => "none" | some .src => "src" | some (.item i) => s!"item:{i}"

def showRes : Res → String
  | .ok i => s!"o{i}" | .workErr i => s!"w{i}" | .preErr i => s!"p{i}"

def showDelivered (l : List (Nat × Res)) : String :=
  ",".intercalate (l.map fun p => s!"{p.1}:{showRes p.2}")

def mkCfg (kv : List (String × String)) : Cfg :=
  let pf := Drv.getL kv "pf"
  let re := Drv.getL kv "re"
  { n := Drv.getN kv "n", srcEnd := if Drv.getS kv "src" == "exc" then .exc else .clean,
    cap := Drv.getN kv "cap" 1, conc := 1,
    preFail := fun i => pf.contains i, resErr := fun i => re.contains i,
    returnExc := Drv.getN kv "rexc" == 1 }

def outcomeStr (c : Cfg) : String :=
  let o := outcome c
  s!"{o.1}/{showRaised o.2}"

structure St where
  id : String := ""
  cfg : Cfg := mkCfg []
  fuel : Nat := 0
  ss : List State := []
  k : Nat := 0
  dead : Bool := true      -- no case open / already rejected
  maxStates : Nat := 0
  detach : Bool := false

def summaryOk (kv : List (String × String)) (s : State) : Bool :=
  s.out.length == Drv.getN kv "out" && showRaised s.raised == Drv.getS kv "raised" "none"
    && s.closeReq == (Drv.getN kv "close" == 1)

partial def loop (stepf : Cfg → State → Act → Option State) (h : IO.FS.Stream) (st : St) : IO Unit := do
  let line ← h.getLine
  if line.isEmpty then return ()
  let ws := Drv.words line
  match ws with
  | "case" :: id :: rest =>
    let c := mkCfg (Drv.kvs rest)
    loop stepf h { id := id, cfg := c, fuel := c.cap + 10, ss := [init], k := 0, dead := false,
                   detach := Drv.getN (Drv.kvs rest) "detach" == 1 }
  | "e" :: name :: rest =>
    if st.dead then loop stepf h st else
    let idx := rest.head?.bind String.toNat?
    let idx2 := (rest.drop 1).head?.bind String.toNat?
    match parseAct name idx with
    | none =>
      IO.println s!"REJECT {st.id} {st.k} bad-event {name}"
      loop stepf h { st with dead := true }
    | some a =>
      let ss' := vstep (sysOf stepf st.detach st.cfg) st.fuel Ev.act keep st.ss { act := a, idx := idx, idx2 := idx2 }
      if ss'.isEmpty then
        IO.println s!"REJECT {st.id} {st.k} event `{name} {rest}` not enabled in any of {(tauClose (sysOf stepf st.detach st.cfg) st.fuel st.ss).length} compatible model states"
        loop stepf h { st with dead := true }
      else loop stepf h { st with ss := ss', k := st.k + 1, maxStates := max st.maxStates ss'.length }
  | "end" :: rest =>
    if st.dead then loop stepf h st else
    let kv := Drv.kvs rest
    let fin := tauClose (sysOf stepf st.detach st.cfg) st.fuel st.ss
    let wantFinal := Drv.getN kv "final" == 1
    let partialRun := Drv.getN kv "partial" == 1
    let good := fin.filter (fun s => partialRun || (summaryOk kv s && (!wantFinal || decide (Final s))))
    match good.head? with
    | none =>
      let descr := match fin.head? with
        | some s => s!"out={s.out.length} raised={showRaised s.raised} close={s.closeReq} cpc={repr s.cpc} fpc={repr s.fpc}"
        | none => "-"
      IO.println s!"NOFINAL {st.id} {st.k} no compatible model state matches the summary {rest}; e.g. model state: {descr}"
    | some s =>
      IO.println s!"ok {st.id} events={st.k} maxstates={st.maxStates} dl={showDelivered (delivered st.cfg s.out)} oc={outcomeStr st.cfg}"
    loop stepf h { st with dead := true }
  | _ => loop stepf h st

def main : IO Unit := do loop step (← IO.getStdin) {}

/-- the same protocol against the Legacy model of the pinned code (recogniser for defect F1) -/
def mainStale : IO Unit := do loop AFifoStale.step (← IO.getStdin) {}

end AFifo.Drv
