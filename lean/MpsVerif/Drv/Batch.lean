import MpsVerif.Model.Batch
import MpsVerif.Drv.Util
/-!
Trace-replay driver for the batching-worker model (`drv batch`).

Every action of the model has a recorded counterpart in the instrumented run of the real code
(queue views, lock view, buffer / event proxies, instrumented `preprocess` and `call`), so the
driver replays the trace action by action through `Batch.step` — the very function the theorems
are about — and compares the payload of every event with the model state (which element was
taken, flag value, the list passed to `call`, the outputs written).  Clock ticks are inferred from
the virtual time stamps.  At the end of a run that came to rest the model must be at rest too
(no worker action enabled), otherwise the implementation stopped where the model can still move.
-/
namespace Batch.Drv

def parseKind : String → Option Kind
  | "g" => some .good | "r" => some .rej | "x" => some .exc | _ => none

def showItem : Item → String
  | .stop => "stop"
  | .req r => toString r.uid

def itemMatches (z : Item) (tok : String) : Bool := showItem z == tok

structure St where
  id : String := ""
  cfg : Cfg := { k := 1, b := 0, wait := 0, pool := false }
  s : State := init
  n : Nat := 0
  dead : Bool := true

/-- all worker (non-environment, non-tick) actions that could be enabled -/
def sysActs (c : Cfg) (s : State) : List Act :=
  (List.range c.k).flatMap fun i =>
    [.cLock i, .cGet i, .cPut i, .cMore i, .cNoMore i, .cDecide i, .gFirst i, .gNext i, .gTimeout i,
     .gRelease i, .sGet i, .emit i] ++
    (List.range (s.ws i).pd.length).flatMap (fun j => [Act.callEnter i j, Act.callRet i j true])

def enabledSys (c : Cfg) (s : State) : List Act := (sysActs c s).filter (fun a => (step c s a).isSome)

/-- advance the model clock to `t`; `none` if a tick is refused -/
def advance (c : Cfg) : Nat → State → Nat → Option State
  | 0, s, t => if s.clock = t then some s else none
  | fuel + 1, s, t =>
    if t ≤ s.clock then some s
    else match step c s .tick with
      | some s' => advance c fuel s' t
      | none => none

def uidsOf (l : List Req) : List Nat := l.map (·.uid)

/-- interpret one event (after the clock was advanced): the resulting state or a reason -/
def apply (c : Cfg) (s : State) (name : String) (args : List String) : Except String State := do
  let fire (a : Act) : Except String State :=
    match step c s a with
    | some s' => pure s'
    | none => throw s!"model action {repr a} not enabled"
  let i := (args.head?.bind String.toNat?).getD 0
  let a1 := (args.drop 1).head?.getD ""
  let a2 := (args.drop 2).head?.getD ""
  let w := s.ws i
  match name with
  | "arr" =>
    match parseKind (args.head?.getD "") with
    | some kd =>
      if a1 != "" && a1 != toString s.nextId then throw s!"arrival uid {a1} but model allocates {s.nextId}"
      else fire (.arrive kd)
    | none => throw "bad kind"
  | "stop" => fire .stop
  | "lock" => fire (.cLock i)
  | "qget" =>
    match s.qin with
    | z :: _ =>
      if !itemMatches z a1 then throw s!"took {a1} from q_in but the model's head is {showItem z}"
      else if c.b ≤ 1 then fire (.sGet i)
      else if w.cph = .locked then fire (.cGet i) else fire (.cMore i)
    | [] => throw "took from q_in but the model's q_in is empty"
  | "cput" =>
    -- a1 = buf | stop | short, a2 = uid
    match w.cph with
    | .have z =>
      let okKind : Bool := match z with
        | .stop => a1 == "stop"
        | .req r => (if r.kind = .good then a1 == "buf" else a1 == "short") && a2 == toString r.uid
      if okKind then fire (.cPut i) else throw s!"collector dispatched {a1} {a2} but holds {showItem z} in the model"
    | _ => throw "collector dispatch but the model's collector holds nothing"
  | "empty" =>
    match step c s (.cNoMore i) with
    | some s' => pure s'
    | none =>
      if w.cph = .after ∧ s.qin ≠ [] ∧ w.buf.length < c.b then pure s
      else throw "greedy-read test in a state where the model's collector is not after a dispatch"
  | "isset" =>
    if (a1 == "1") != w.flag then throw s!"_batch_get_called read as {a1} but the model has {w.flag}"
    else fire (.cDecide i)
  | "bget" =>
    match w.buf with
    | z :: _ =>
      if !itemMatches z a1 then throw s!"consumer took {a1} but the model's buffer head is {showItem z}"
      else if w.gph = .idle then fire (.gFirst i) else fire (.gNext i)
    | [] => throw "consumer took from an empty model buffer"
  | "bempty" => fire (.gTimeout i)
  | "fset" => fire (.gRelease i)
  | "call" =>
    match w.pd.findIdx? (fun e => e.st == .queued && Drv.showNats (uidsOf e.batch) == a2) with
    | some j =>
      if (a1 == "1") != decide (0 < c.b) then throw s!"call argument list-ness {a1} differs from the model"
      else fire (.callEnter i j)
    | none => throw s!"call got [{a2}] but the model has no such released batch (released: {w.pd.map (fun e => uidsOf e.batch)})"
  | "ret" =>
    let cid := a1.toNat?.getD 0
    match w.pd.findIdx? (fun e => e.st == .running cid) with
    | some j => fire (.callRet i j (a2 == "1"))
    | none => throw s!"call {cid} returned but the model has no such running call"
  | "emit" =>
    match w.pd with
    | e :: _ =>
      if Drv.showNats (uidsOf e.batch) != a2 then
        throw s!"outputs written for [{a2}] but the model's oldest batch is [{Drv.showNats (uidsOf e.batch)}]"
      else match e.st with
        | .done _ ok =>
          if ok != (a1 == "1") then throw s!"outputs written with ok={a1} but the model's call ended ok={ok}"
          else fire (.emit i)
        | _ => throw "outputs written but the model's oldest call has not returned"
    | [] => throw "outputs written but the model has no batch in flight"
  | _ => throw s!"unknown event {name}"

partial def loop (h : IO.FS.Stream) (st : St) : IO Unit := do
  let line ← h.getLine
  if line.isEmpty then return ()
  let ws := Drv.words line
  match ws with
  | "case" :: id :: rest =>
    let kv := Drv.kvs rest
    let c : Cfg := { k := Drv.getN kv "k" 1, b := Drv.getN kv "b", wait := Drv.getN kv "wait",
                     pool := Drv.getN kv "pool" == 1 }
    loop h { id := id, cfg := c, s := init, n := 0, dead := false }
  | "e" :: t :: name :: args =>
    if st.dead then loop h st else
    match advance st.cfg 100000 st.s (t.toNat?.getD 0) with
    | none =>
      IO.println s!"REJECT {st.id} {st.n} clock advanced to {t} (event {name} {args}) although a consumer had to move first (model clock stuck at a deadline / assembled batch)"
      loop h { st with dead := true }
    | some s1 =>
      match apply st.cfg s1 name args with
      | .ok s2 => loop h { st with s := s2, n := st.n + 1 }
      | .error msg =>
        IO.println s!"REJECT {st.id} {st.n} event `{name} {args}` at t={t}: {msg}"
        loop h { st with dead := true }
  | "end" :: rest =>
    if st.dead then loop h st else
    let kv := Drv.kvs rest
    let s := st.s
    let en := enabledSys st.cfg s
    if Drv.getN kv "rest" == 1 && !en.isEmpty then
      IO.println s!"NOFINAL {st.id} {st.n} the implementation is at rest but the model can still do {repr (en.take 3)}"
    else if Drv.getN kv "calls" != s.calls.length then
      IO.println s!"MISMATCH {st.id} {st.n} calls: implementation {Drv.getN kv "calls"} model {s.calls.length}"
    else
      IO.println s!"ok {st.id} events={st.n} calls={s.calls.length} outs={s.out.length} clock={s.clock}"
    loop h { st with dead := true }
  | _ => loop h st

def main : IO Unit := do loop (← IO.getStdin) {}

end Batch.Drv
