import MpsVerif.Model.EagerBatcher
import MpsVerif.Core.Validate
import MpsVerif.Drv.Util
/-! Trace-validation driver for the `EagerBatcher` model (`drv eager`).

Protocol (one line each):
```
case <id> bs=<n> wait=<n|D> [ups=<units per second>] end=<N|k> strict=<0|1>     (wait=D: constructor default)
e arrive <N|k> | e tick <d> | e take <N|k> | e emit <x,x,…> | e resume | e stop
cf takes=<x@t;x@t;…> out=<x,x|x,…> at=<t,t,…>       (optional, before `end`; complete strict runs only)
end pc=<idle|coll|flush|held|closing|done> out=<#batches> clock=<n> q=<#queued>
```
`cf` is a plain differential check of the closed form `Eager.greedy` (proved equal to the model's
batches for tie-free runs, `C19_closed_form`) against what the implementation delivered: the take
events of the real run are grouped greedily and compared with the batches and clocks the consumer
saw; skipped (`cf=tie`) when an entry was taken at exactly `t0 + wait` of an open batch.
`timeout` (the timed get raising `queue.Empty`) is the only internal action; it is inferred. -/
namespace Eager.Drv
open Core.Val

def sys (c : Cfg) : LSys State Act Act :=
  { step := step c
    label := fun a => if a = .timeout then none else some a
    taus := fun _ => [.timeout]
    cands := fun _ e => if e = .timeout then [] else [e] }

theorem sys_wf (c : Cfg) : WF (sys c) := by
  constructor
  · intro s a ha
    simp only [sys, List.mem_singleton] at ha
    subst ha; rfl
  · intro s e a ha
    simp only [sys] at ha ⊢
    split at ha
    · simp at ha
    · simp at ha; subst ha; simp_all

/-- a recorded event: the action it stands for and the data the implementation reported -/
structure Ev where
  act : Act
  item : Option Item := none          -- `take`: what the get returned
  batch : Option (List Item) := none  -- `emit`: the batch the consumer received

/-- payload check on the successor state -/
def keep (e : Ev) (s : State) : Bool :=
  match e.act with
  | .take => match e.item with
    | some x => s.taken.getLast? == some x
    | none => true
  | .emit => match e.batch with
    | some b => s.out.getLast? == some b
    | none => true
  | _ => true

def parseItem (w : String) : Option Item :=
  if w == "N" then some none else w.toNat?.map some

def parseBatch (w : String) : Option (List Item) :=
  (w.splitOn ",").mapM parseItem

def parseEv (name : String) (arg : Option String) : Option Ev :=
  match name, arg with
  | "arrive", some w => (parseItem w).map fun x => { act := .arrive x }
  | "tick", some w => w.toNat?.map fun d => { act := .tick d }
  | "take", some w => (parseItem w).map fun x => { act := .take, item := some x }
  | "emit", some w => (parseBatch w).map fun b => { act := .emit, batch := some b }
  | "resume", _ => some { act := .resume }
  | "stop", _ => some { act := .stop }
  | _, _ => none

def mkCfg (kv : List (String × String)) : Cfg :=
  let bs := Drv.getN kv "bs" 1
  { bs := bs,
    wait := if Drv.getS kv "wait" == "D" then defaultWait bs (Drv.getN kv "ups" 1) else Drv.getN kv "wait" 0,
    endm := (parseItem (Drv.getS kv "end" "N")).getD none,
    strict := Drv.getN kv "strict" 1 == 1 }

def pcName : Pc → String
  | .idle => "idle" | .coll => "coll" | .flush => "flush" | .held => "held"
  | .closing => "closing" | .done => "done"

structure St where
  id : String := ""
  cfg : Cfg := mkCfg []
  ss : List State := []
  k : Nat := 0
  dead : Bool := true      -- no case open / already rejected
  maxStates : Nat := 0
  cf : String := "none"    -- closed-form comparison: none | checked | tie | BAD …

def parseTakes (w : String) : Option (List (Item × Nat)) :=
  if w == "" then some [] else
  (w.splitOn ";").mapM fun e =>
    match e.splitOn "@" with
    | [x, t] => do let i ← parseItem x; let n ← t.toNat?; pure (i, n)
    | _ => none

def parseBatches (w : String) : Option (List (List Item)) :=
  if w == "" then some [] else (w.splitOn "|").mapM parseBatch

def showItem : Item → String
  | none => "N" | some k => toString k

def showBatches (l : List (List Item)) : String :=
  "|".intercalate (l.map fun b => ",".intercalate (b.map showItem))

/-- closed form vs. what the implementation delivered -/
def closedForm (c : Cfg) (kv : List (String × String)) : String :=
  match parseTakes (Drv.getS kv "takes"), parseBatches (Drv.getS kv "out") with
  | some takes, some out =>
    let at_ := Drv.getL kv "at"
    let g := greedy c takes
    if g.tie then "tie"
    else if g.closed == out && g.closedAt c == at_ then "checked"
    else s!"BAD closed form gives batches {showBatches g.closed} at {Drv.showNats (g.closedAt c)}, implementation delivered {showBatches out} at {Drv.showNats at_}"
  | _, _ => "BAD unparsable cf line"

def fuel : Nat := 2

def summaryOk (kv : List (String × String)) (s : State) : Bool :=
  pcName s.pc == Drv.getS kv "pc" && s.out.length == Drv.getN kv "out" &&
  s.clock == Drv.getN kv "clock" && s.q.length == Drv.getN kv "q"

partial def loop (h : IO.FS.Stream) (st : St) : IO Unit := do
  let line ← h.getLine
  if line.isEmpty then return ()
  let ws := Drv.words line
  match ws with
  | "case" :: id :: rest =>
    loop h { id := id, cfg := mkCfg (Drv.kvs rest), ss := [init], k := 0, dead := false }
  | "e" :: name :: rest =>
    if st.dead then loop h st else
    match parseEv name rest.head? with
    | none =>
      IO.println s!"REJECT {st.id} {st.k} bad-event {name} {rest}"
      loop h { st with dead := true }
    | some ev =>
      let ss' := vstep (sys st.cfg) fuel Ev.act keep st.ss ev
      if ss'.isEmpty then
        let cl := tauClose (sys st.cfg) fuel st.ss
        let descr := match cl.head? with
          | some s => s!"pc={pcName s.pc} clock={s.clock} t0={s.t0} cur={s.cur.length} q={s.q.length} fin={s.fin}"
          | none => "-"
        IO.println s!"REJECT {st.id} {st.k} event `{name} {rest}` not enabled (or wrong data) in any of {cl.length} compatible model states; e.g. {descr}"
        loop h { st with dead := true }
      else loop h { st with ss := ss', k := st.k + 1, maxStates := max st.maxStates ss'.length }
  | "cf" :: rest =>
    if st.dead then loop h st else
    loop h { st with cf := closedForm st.cfg (Drv.kvs rest) }
  | "end" :: rest =>
    if st.dead then loop h st else
    let kv := Drv.kvs rest
    let fin := tauClose (sys st.cfg) fuel st.ss
    let good := fin.filter (summaryOk kv)
    if good.isEmpty then
      let descr := match fin.head? with
        | some s => s!"pc={pcName s.pc} out={s.out.length} clock={s.clock} q={s.q.length}"
        | none => "-"
      IO.println s!"NOFINAL {st.id} {st.k} no compatible model state matches the summary {rest}; e.g. model state: {descr}"
    else if st.cf.startsWith "BAD" then
      IO.println s!"MISMATCH {st.id} {st.k} {st.cf}"
    else
      IO.println s!"ok {st.id} events={st.k} maxstates={st.maxStates} cf={st.cf}"
    loop h { st with dead := true }
  | _ => loop h st

def main : IO Unit := do loop (← IO.getStdin) {}

end Eager.Drv
