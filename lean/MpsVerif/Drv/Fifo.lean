import MpsVerif.Model.Fifo
import MpsVerif.Core.ValidateFast
import MpsVerif.Drv.Util
/-! Trace-validation driver for the `fifo_stream` model (`drv fifo`). -/
namespace Fifo.Drv
open Core.Val

deriving instance DecidableEq for State
deriving instance Hashable for SrcEnd, QItem, FPc, CPc, Raised, State

def isTau (obsSubmit : Bool) : Act → Bool
  | .fcheck | .stopSeen | .put | .putEnd | .putExc | .get | .raiseItem | .setStop
  | .drainCancel | .drainSkip | .drainMark | .drainEmpty => true
  | .submit => !obsSubmit
  | _ => false

def tauActs (obsSubmit : Bool) : List Act :=
  [.fcheck, .stopSeen, .put, .putEnd, .putExc, .get, .raiseItem, .setStop,
   .drainCancel, .drainSkip, .drainMark, .drainEmpty] ++ (if obsSubmit then [] else [.submit])

/-- `obsSubmit = false`: the harness could not observe the hand-over of an element to the pool
    (e.g. the executor is created somewhere it cannot shadow): `submit` is then inferred like the
    other internal steps instead of being required as an event. -/
def sys (c : Cfg) (obsSubmit : Bool := true) : LSys State Act Act :=
  { step := step c
    label := fun a => if isTau obsSubmit a then none else some a
    taus := fun _ => tauActs obsSubmit
    cands := fun _ e => if isTau obsSubmit e then [] else [e] }

theorem mem_tauActs (b : Bool) (a : Act) (h : a ∈ tauActs b) : isTau b a = true := by
  cases b
  · simp [tauActs] at h
    rcases h with h | h | h | h | h | h | h | h | h | h | h | h | h <;> subst h <;> rfl
  · simp [tauActs] at h
    rcases h with h | h | h | h | h | h | h | h | h | h | h | h <;> subst h <;> rfl

theorem sys_wf (c : Cfg) (obsSubmit : Bool) : WF (sys c obsSubmit) := by
  constructor
  · intro s a ha
    have := mem_tauActs obsSubmit a ha
    simp [sys, this]
  · intro s e a ha
    simp only [sys] at ha ⊢
    split at ha
    · simp at ha
    · simp at ha; subst ha; simp_all

/-- a recorded event: the action it stands for and the index the implementation reported -/
structure Ev where
  act : Act
  idx : Option Nat

/-- payload check on the successor state -/
def keep (e : Ev) (s : State) : Bool :=
  match e.idx with
  | none => true
  | some i =>
    match e.act with
    | .pull => s.fpc == .check i
    | .submit => s.fpc == .hold i
    | .preFail => s.fpc == .hold i
    | .yld => s.out.getLast? == some i
    | _ => true

def parseAct (name : String) (idx : Option Nat) : Option Act :=
  match name with
  | "pull" => some .pull | "srcEnd" => some .srcEnd | "srcRaise" => some .srcRaise
  | "submit" => some .submit | "preFail" => some .preFail
  | "start" => idx.map .start | "finish" => idx.map .finish
  | "yld" => some .yld | "next" => some .next | "close" => some .close | "join" => some .join
  | _ => none

def showRaised : Option Raised → String
  | none => "none" | some .src => "src" | some (.item i) => s!"item:{i}"

def mkCfg (kv : List (String × String)) : Cfg :=
  let pf := Drv.getL kv "pf"
  let re := Drv.getL kv "re"
  { n := Drv.getN kv "n", srcEnd := if Drv.getS kv "src" == "exc" then .exc else .clean,
    cap := Drv.getN kv "cap" 1, conc := Drv.getN kv "conc" 1,
    preFail := fun i => pf.contains i, resErr := fun i => re.contains i,
    returnExc := Drv.getN kv "rexc" == 1 }

structure St where
  id : String := ""
  cfg : Cfg := mkCfg []
  fuel : Nat := 0
  ss : List State := []
  k : Nat := 0
  dead : Bool := true      -- no case open / already rejected
  maxStates : Nat := 0
  obsSubmit : Bool := true

def summaryOk (kv : List (String × String)) (s : State) : Bool :=
  s.out.length == Drv.getN kv "out" && showRaised s.raised == Drv.getS kv "raised" "none"
    && s.closeReq == (Drv.getN kv "close" == 1)

partial def loop (h : IO.FS.Stream) (st : St) : IO Unit := do
  let line ← h.getLine
  if line.isEmpty then return ()
  let ws := Drv.words line
  match ws with
  | "case" :: id :: rest =>
    let c := mkCfg (Drv.kvs rest)
    loop h { id := id, cfg := c, fuel := 4 * c.cap + 40, ss := [init], k := 0, dead := false,
             obsSubmit := Drv.getN (Drv.kvs rest) "obs_submit" 1 == 1 }
  | "e" :: name :: rest =>
    if st.dead then loop h st else
    let idx := rest.head?.bind String.toNat?
    match parseAct name idx with
    | none =>
      IO.println s!"REJECT {st.id} {st.k} bad-event {name}"
      loop h { st with dead := true }
    | some a =>
      let ss' := vstepW (sys st.cfg st.obsSubmit) st.fuel Ev.act keep st.ss { act := a, idx := idx }
      if ss'.isEmpty then
        IO.println s!"REJECT {st.id} {st.k} event `{name} {rest}` not enabled in any of {(tauCloseW (sys st.cfg st.obsSubmit) st.fuel st.ss).length} compatible model states"
        loop h { st with dead := true }
      else loop h { st with ss := ss', k := st.k + 1, maxStates := max st.maxStates ss'.length }
  | "end" :: rest =>
    if st.dead then loop h st else
    let kv := Drv.kvs rest
    let fin := tauCloseW (sys st.cfg st.obsSubmit) st.fuel st.ss
    let wantFinal := Drv.getN kv "final" == 1
    let partialRun := Drv.getN kv "partial" == 1
    let good := fin.filter (fun s => partialRun || (summaryOk kv s && (!wantFinal || decide (Final s))))
    if good.isEmpty then
      let descr := match fin.head? with
        | some s => s!"out={s.out.length} raised={showRaised s.raised} close={s.closeReq} cpc={repr s.cpc} fpc={repr s.fpc}"
        | none => "-"
      IO.println s!"NOFINAL {st.id} {st.k} no compatible model state matches the summary {rest}; e.g. model state: {descr}"
    else
      IO.println s!"ok {st.id} events={st.k} maxstates={st.maxStates}"
    loop h { st with dead := true }
  | _ => loop h st

def main : IO Unit := do loop (← IO.getStdin) {}

end Fifo.Drv
