import MpsVerif.Model.Frame
import MpsVerif.Drv.Util
/-!
Differential driver for the record framing model (`drv frame`).

```
case <id> lim=<n>
recs <rid>:<enc>:<payload>;...     records given to the real write_record (hex fields, `-` = empty)
wire <hex>                         bytes the real write_record produced      (checked = encodeStream recs)
feed <hex> | feed =                bytes fed to the real StreamReader (`=`: exactly the wire bytes, which the
                                   `wire` line has already shown to equal encodeStream recs)
got <end> <rid>:<enc>:<payload>;...  what the real read_record loop returned   (checked = decodeStream lim feed)
got <end> =                        … it returned exactly `recs`
end                                → `ok <id> …` or `MISMATCH <id> …`
```
-/
namespace Frame.Drv

def hexVal (c : Char) : Option Nat :=
  if '0' ≤ c ∧ c ≤ '9' then some (c.toNat - 48)
  else if 'a' ≤ c ∧ c ≤ 'f' then some (c.toNat - 87)
  else none

def unhexAux : List Char → List UInt8 → Option (List UInt8)
  | [], acc => some acc.reverse
  | [_], _ => none
  | a :: b :: cs, acc =>
    match hexVal a, hexVal b with
    | some x, some y => unhexAux cs (UInt8.ofNat (x * 16 + y) :: acc)
    | _, _ => none

def unhex (s : String) : Option Bytes := if s == "-" then some [] else unhexAux s.toList []

def hexDigit (n : Nat) : Char := if n < 10 then Char.ofNat (48 + n) else Char.ofNat (87 + n)

def hex (bs : Bytes) : String :=
  if bs.isEmpty then "-" else
  String.ofList (bs.foldr (fun b acc => hexDigit (b.toNat / 16) :: hexDigit (b.toNat % 16) :: acc) [])

def encOfName (s : String) : Option Enc :=
  match s with
  | "pickle" => some .pickle | "utf8" => some .utf8 | "none" => some .none | _ => none

def encName : Enc → String
  | .pickle => "pickle" | .utf8 => "utf8" | .none => "none"

def parseRec (s : String) : Option Rec :=
  match s.splitOn ":" with
  | [a, e, p] =>
    match unhex a, encOfName e, unhex p with
    | some rid, some enc, some pl => some { rid := rid, enc := enc, payload := pl }
    | _, _, _ => none
  | _ => none

def parseRecs (s : String) : Option (List Rec) :=
  if s == "-" || s == "" then some [] else (s.splitOn ";").mapM parseRec

def showRec (r : Rec) : String := s!"{hex r.rid}:{encName r.enc}:{hex r.payload}"

def showRecs (rs : List Rec) : String := if rs.isEmpty then "-" else ";".intercalate (rs.map showRec)

def showEnd : End → String
  | .eof => "eof" | .incomplete => "incomplete" | .overrun => "overrun" | .bad => "bad" | .fuel => "fuel"

structure St where
  id : String := ""
  lim : Nat := defaultLimit
  recs : List Rec := []
  feed : Bytes := []
  errs : List String := []
  checks : Nat := 0
  live : Bool := false
  feedIsWire : Bool := false

/-- abbreviate long hex strings in messages -/
def brief (s : String) : String := if s.length > 160 then (s.take 160).toString ++ s!"…({s.length})" else s

partial def loop (h : IO.FS.Stream) (st : St) : IO Unit := do
  let line ← h.getLine
  if line.isEmpty then return ()
  let ws := Drv.words line
  match ws with
  | "case" :: id :: rest =>
    let kv := Drv.kvs rest
    loop h { id := id, lim := Drv.getN kv "lim" defaultLimit, live := true }
  | ["recs", s] =>
    match parseRecs s with
    | some rs => loop h { st with recs := rs }
    | none => loop h { st with errs := "unparsable recs line" :: st.errs }
  | ["wire", s] =>
    match unhex s with
    | some bs =>
      let m := encodeStream st.recs
      if m == bs then loop h { st with checks := st.checks + 1 }
      else loop h { st with errs := s!"write_record bytes differ: model={brief (hex m)} impl={brief (hex bs)}" :: st.errs }
    | none => loop h { st with errs := "unparsable wire line" :: st.errs }
  | ["feed", "="] => loop h { st with feed := encodeStream st.recs, feedIsWire := true }
  | ["feed", s] =>
    match unhex s with
    | some bs => loop h { st with feed := bs }
    | none => loop h { st with errs := "unparsable feed line" :: st.errs }
  | ["got", e, "="] =>
    -- the implementation read back exactly the records it wrote (compared structurally)
    let (rs, en) := decodeStream st.lim st.feed
    if rs == st.recs && showEnd en == e then loop h { st with checks := st.checks + 1 }
    else loop h { st with errs := s!"read_record results differ: model={brief (showEnd en ++ " " ++ showRecs rs)} impl={e} (the records written)" :: st.errs }
  | ["got", e, s] =>
    let (rs, en) := decodeStream st.lim st.feed
    let mine := s!"{showEnd en} {showRecs rs}"
    if mine == s!"{e} {s}" then loop h { st with checks := st.checks + 1 }
    else loop h { st with errs := s!"read_record results differ: model={brief mine} impl={brief (e ++ " " ++ s)}" :: st.errs }
  | "end" :: _ =>
    if st.live then
      if st.errs.isEmpty then IO.println s!"ok {st.id} checks={st.checks}"
      else IO.println s!"MISMATCH {st.id} {" | ".intercalate st.errs.reverse}"
    loop h { st with live := false }
  | _ => loop h st

def main : IO Unit := do loop (← IO.getStdin) {}

end Frame.Drv
