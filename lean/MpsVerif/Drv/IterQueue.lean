import MpsVerif.Model.IterQueue
import MpsVerif.Legacy.IterQueue
import MpsVerif.Core.Validate
import MpsVerif.Drv.Util
/-! Trace-validation driver for the `IterableQueue` model (`drv iterq`).

Observable events (logged by the harness at the linearisation point of the real operation, in the
thread that performs it): `pbeg i x` (supplier `i` calls `put(x)`), `put i x` (the data queue took
`x`), `mark i` (`put_end` enqueued its marker), `deq j x` / `deqm j` (consumer `j` dequeued a value /
a marker), `xput j` (consumer `j` enqueued a marker: `cReput` or `cExtra`), `sstop i` / `cstop j` /
`rstop` (`StopRequested` raised), `rstart`, `rdeq` (renew: called / dequeued), `setstop`, `tick`.
Everything else (token moves, `used.full()` tests, the lock, retries after a timed-out wait) is
internal and inferred.  `probe` lines filter the compatible model states on the token-queue sizes
and the data-queue length the harness read off the real object at a quiescent point. -/
namespace IterQueue.Drv
open Core.Val

/-- internal actions.  Coarse mode: only the data queue is observed.  Fine mode (`fine = true`): the
    harness also wraps the three token queues, so token moves and `used.full()` reads are observed. -/
def isTau (fine : Bool) : Act → Bool
  | .sRetry _ | .cLock _ | .cUnlock _ | .cRetry _ | .rRetry => true
  | .sEndBeg _ | .sApply _ | .cChk1 _ | .cChk2 _ | .cTake _ | .cGive _ | .cTest _ => !fine
  | _ => false

/-- `cReput j` is reported as `cExtra j` (the harness cannot tell the two `put(None)` apart);
    `cChk2 j` and `cTest j` are reported as `cChk1 j` (all three are a `used.full()` read) -/
def label (fine : Bool) (a : Act) : Option Act :=
  if isTau fine a then none else
  match a with
  | .cReput j => some (.cExtra j)
  | .cChk2 j => some (.cChk1 j)
  | .cTest j => some (.cChk1 j)
  | a => some a

def allTaus (c : Cfg) : List Act :=
  (List.range c.m).flatMap (fun i => [.sEndBeg i, .sApply i, .sRetry i]) ++
  (List.range c.n).flatMap (fun j => [.cChk1 j, .cChk2 j, .cLock j, .cTake j, .cGive j, .cTest j,
                                       .cUnlock j, .cRetry j]) ++ [.rRetry]

def tauActs (fine : Bool) (c : Cfg) : List Act := (allTaus c).filter (isTau fine)

def candsAll (e : Act) : List Act :=
  match e with
  | .cExtra j => [.cExtra j, .cReput j]
  | .cChk1 j => [.cChk1 j, .cChk2 j, .cTest j]
  | e => [e]

def cands (fine : Bool) (e : Act) : List Act := (candsAll e).filter (fun a => label fine a == some e)

def sys (fine : Bool) (c : Cfg) (legacy : Bool := false) : LSys State Act Act :=
  { step := if legacy then Legacy.step c else step c, label := label fine, taus := fun _ => tauActs fine c, cands := fun _ e => cands fine e }

theorem sys_wf (fine : Bool) (c : Cfg) (legacy : Bool) : WF (sys fine c legacy) := by
  constructor
  · intro s a ha
    simp only [sys, tauActs, List.mem_filter] at ha
    simp [sys, label, ha.2]
  · intro s e a ha
    simp only [sys, cands, List.mem_filter] at ha
    have h2 := ha.2
    simp only [beq_iff_eq] at h2
    exact h2

/-- a recorded event: the action it stands for and a payload test on the successor state -/
structure Ev where
  act : Act
  chk : State → Bool

def pcOf (s : State) (j : Nat) : Option CPc := (s.cons[j]?).map (·.pc)

/-- The harness lets the clock advance only when no thread is enabled, so at a `tick` no actor is at a
    pc from which it could run on; states in which one is are dropped (dropping states can only make
    the validator reject, never accept wrongly). -/
def quiescent (s : State) : Bool :=
  s.cons.all (fun a => match a.pc with | .chk2 | .give | .test | .unl _ => false | _ => true) &&
  s.sups.all (fun a => match a.pc with | .pe1 => false | _ => true)

def parseEv (name : String) (a : List Nat) : Option Ev :=
  let yes : State → Bool := fun _ => true
  match name, a with
  | "pbeg", [i, x] => some ⟨.sPutBeg i x, yes⟩
  | "put", [i, x] => some ⟨.sPut i, fun s => s.putLog.getLast? == some (i, x)⟩
  | "mark", [i] => some ⟨.sMark i, yes⟩
  | "sstop", [i] => some ⟨.sStop i, yes⟩
  | "deq", [j, x] => some ⟨.cGet j, fun s => s.gotLog.getLast? == some (j, x) && pcOf s j == some .chk1⟩
  | "deqm", [j] => some ⟨.cGet j, fun s => pcOf s j == some .chk2⟩
  | "xput", [j] => some ⟨.cExtra j, yes⟩
  | "cstop", [j] => some ⟨.cStop j, yes⟩
  | "rstart", [] => some ⟨.rStart, yes⟩
  | "rdeq", [] => some ⟨.rGet, yes⟩
  | "rstop", [] => some ⟨.rStop, yes⟩
  | "setstop", [] => some ⟨.setStop, yes⟩
  | "tick", [] => some ⟨.tick, quiescent⟩
  | "sbeg", [i] => some ⟨.sEndBeg i, yes⟩
  | "sapp", [i] => some ⟨.sApply i, yes⟩
  | "take", [j] => some ⟨.cTake j, yes⟩
  | "give", [j] => some ⟨.cGive j, yes⟩
  | "full", [j, b] => some ⟨.cChk1 j, fun s =>
      if b == 1 then [some .done, some .reput, some (.unl true)].contains (pcOf s j)
      else [some .get, some .lock, some (.unl false)].contains (pcOf s j)⟩
  | _, _ => none

def mkCfg (kv : List (String × String)) : Cfg :=
  { m := Drv.getN kv "m" 1, n := Drv.getN kv "n" 1, cap := Drv.getN kv "cap" 0, w := Drv.getN kv "w" 1 }

def conCh : CPc → Char
  | .done => 'd' | .stopped => 's' | .chk1 => 'f' | _ => 'x'

def supCh : SPc → Char
  | .ended => 'e' | .stoppedP => 's' | .stoppedE => 's' | .idle => 'i' | _ => 'x'

def rCh : RPc → String
  | .off => "off" | .get => "get" | .failed => "failed" | .stopped => "stopped"

def consStr (s : State) : String := String.ofList (s.cons.map (fun a => conCh a.pc))
def supsStr (s : State) : String := String.ofList (s.sups.map (fun a => supCh a.pc))

/-- test of a model state against `k=v` observations; absent keys are not tested -/
def agrees (kv : List (String × String)) (s : State) : Bool :=
  let num (k : String) (v : Nat) : Bool := match (Drv.getS kv k).toNat? with | some x => x == v | none => true
  let str (k : String) (v : String) : Bool := let x := Drv.getS kv k; x == "" || x == v
  num "spare" s.spare && num "applied" s.applied && num "used" s.used && num "qlen" s.queue.length
    && num "qmarks" (marksOf s.queue) && num "round" s.round && num "got" s.gotLog.length
    && str "cons" (consStr s) && str "sups" (supsStr s) && str "rpc" (rCh s.rpc)

structure St where
  id : String := ""
  cfg : Cfg := mkCfg []
  fine : Bool := false
  legacy : Bool := false     -- validate against Legacy/IterQueue (pinned code, defect F14) instead
  fuel : Nat := 0
  ss : List State := []
  k : Nat := 0
  dead : Bool := true
  maxStates : Nat := 0

def descr (s : State) : String :=
  s!"cons={consStr s} sups={supsStr s} rpc={rCh s.rpc} spare={s.spare} applied={s.applied} used={s.used} qlen={s.queue.length} qmarks={marksOf s.queue} round={s.round} now={s.now}"

partial def loop (h : IO.FS.Stream) (st : St) : IO Unit := do
  let line ← h.getLine
  if line.isEmpty then return ()
  let ws := Drv.words line
  match ws with
  | "case" :: id :: rest =>
    let c := mkCfg (Drv.kvs rest)
    let fine := Drv.getN (Drv.kvs rest) "fine" == 1
    let fuel := if fine then 3 * c.n + c.m + 2 else 8 * c.n + 3 * c.m + 2
    let legacy := Drv.getN (Drv.kvs rest) "legacy" == 1
    loop h { id := id, cfg := c, fine := fine, legacy := legacy, fuel := fuel, ss := [init c], k := 0, dead := false }
  | "e" :: name :: rest =>
    if st.dead then loop h st else
    match parseEv name (rest.filterMap String.toNat?) with
    | none =>
      IO.println s!"REJECT {st.id} {st.k} bad-event {name} {rest}"
      loop h { st with dead := true }
    | some ev =>
      let ss' := vstep (sys st.fine st.cfg st.legacy) st.fuel Ev.act Ev.chk st.ss ev
      if ss'.isEmpty then
        let cl := tauClose (sys st.fine st.cfg st.legacy) st.fuel st.ss
        let d := match cl.head? with | some s => descr s | none => "-"
        IO.println s!"REJECT {st.id} {st.k} event `{name} {rest}` not enabled in any of {cl.length} compatible model states; e.g. {d}"
        loop h { st with dead := true }
      else loop h { st with ss := ss', k := st.k + 1, maxStates := max st.maxStates ss'.length }
  | "probe" :: rest =>
    if st.dead then loop h st else
    let kv := Drv.kvs rest
    let cl := tauClose (sys st.fine st.cfg st.legacy) st.fuel st.ss
    let ss' := cl.filter (agrees kv)
    if ss'.isEmpty then
      let d := match cl.head? with | some s => descr s | none => "-"
      IO.println s!"MISMATCH {st.id} {st.k} probe {rest} matches none of {cl.length} compatible model states; e.g. {d}"
      loop h { st with dead := true }
    else loop h { st with ss := ss' }
  | "tc" :: id :: rest =>
    -- one timed ResponsiveQueue call: `tc <id> w= [T=] [s=] tie= [r=]` -> how and when it ends
    let kv := Drv.kvs rest
    let opt (k : String) : Option Nat := (Drv.getS kv k).toNat?
    let e := timedCall (Drv.getN kv "w" 1) (opt "T") (opt "s") (Drv.getN kv "tie" == 1) (opt "r") (Drv.getN kv "fuel" 64) 0
    let txt := match e with
      | .ok t => s!"ok {t}" | .stop t => s!"stop {t}" | .expire t => s!"expire {t}" | .running => "running 0"
    IO.println s!"out {id} {txt}"
    loop h st
  | "dump" :: _ =>
    for s in st.ss do
      IO.println s!"STATE {descr s} cons={repr (s.cons.map fun a => (a.pc, a.t0, a.tw))} sups={repr (s.sups.map fun a => (a.pc, a.t0, a.tw))} rtw={s.rtw}"
    loop h st
  | "end" :: rest =>
    if st.dead then loop h st else
    let kv := Drv.kvs rest
    let fin := tauClose (sys st.fine st.cfg st.legacy) st.fuel st.ss
    let partialRun := Drv.getN kv "partial" == 1
    let good := fin.filter (fun s => partialRun || agrees kv s)
    if good.isEmpty then
      let d := match fin.head? with | some s => descr s | none => "-"
      IO.println s!"NOFINAL {st.id} {st.k} no compatible model state matches the summary {rest}; e.g. model state: {d}"
    else
      IO.println s!"ok {st.id} events={st.k} maxstates={st.maxStates}"
    loop h { st with dead := true }
  | _ => loop h st

def main : IO Unit := do loop (← IO.getStdin) {}

end IterQueue.Drv
