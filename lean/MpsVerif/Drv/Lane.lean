import MpsVerif.Model.Lane
import MpsVerif.Core.ValidateFast
import MpsVerif.Drv.Util
/-! Trace-validation driver for the `SingleLane` model (`drv lane`).

Observable events, logged by the harness in the thread that performs them: `call t mode x q` (thread `t` is about
to call `put(x, …)` / `get(…)`), `act t x q` (the deque's own `append(x)` / `popleft() -> x` — the linearisation
point — seen through a logging `deque` subclass), `actu t q` (`popleft` raised `IndexError`), `ret t res v q` (the
call returned / raised).  `q` is `len(lane._queue)` sampled with the event.  Everything else — the mutex, the
conditions' waiter lists, notifications, the expiry of timed waits — is internal and inferred. -/
namespace Lane.Drv
open Core.Val

def isTau : Act → Bool
  | .acquire _ | .check _ | .wake _ | .timeoutFire _ | .reacq _ | .notify _ | .unlock _ => true
  | _ => false

def tauActs (c : Cfg) : List Act :=
  (List.range (c.nw + c.nr)).flatMap fun t =>
    [.acquire t, .check t, .wake t, .timeoutFire t, .reacq t, .notify t, .unlock t]

def sys (c : Cfg) : LSys State Act Act :=
  { step := step c
    label := fun a => if isTau a then none else some a
    taus := fun _ => tauActs c
    cands := fun _ e => if isTau e then [] else [e] }

theorem mem_tauActs (c : Cfg) (a : Act) (h : a ∈ tauActs c) : isTau a = true := by
  simp only [tauActs, List.mem_flatMap, List.mem_range] at h
  obtain ⟨t, _, h⟩ := h
  simp at h
  rcases h with h | h | h | h | h | h | h <;> subst h <;> rfl

theorem sys_wf (c : Cfg) : WF (sys c) := by
  constructor
  · intro s a ha
    have := mem_tauActs c a ha
    simp [sys, this]
  · intro s e a ha
    simp only [sys] at ha ⊢
    split at ha
    · simp at ha
    · simp at ha; subst ha; simp_all

/-- a recorded event: the action it stands for and the payload test on the successor state -/
structure Ev where
  act : Act
  chk : State → Bool

def modeOf : Nat → Mode
  | 0 => .block | 1 => .nowait | _ => .timed

def resOf : Nat → Res
  | 0 => .ok | 1 => .full | 2 => .empty | _ => .under

def parseEv (c : Cfg) (name : String) (a : List Nat) : Option Ev :=
  match name, a with
  | "call", [t, m, x, q] => some ⟨.call t (modeOf m) x, fun s => s.q.length == q⟩
  | "act", [t, x, q] =>
    some ⟨.act t, fun s => s.q.length == q && (s.th t).pc == .note &&
      (if c.isWriter t then s.putH.getLast? == some x else s.gotH.getLast? == some x)⟩
  | "actu", [t, q] => some ⟨.act t, fun s => s.q.length == q && (s.th t).pc == .leave .under⟩
  | "ret", [t, r, v, q] => some ⟨.ret t (resOf r) v, fun s => s.q.length == q⟩
  | _, _ => none

def mkCfg (kv : List (String × String)) : Cfg :=
  { maxsize := Drv.getN kv "maxsize" 0, nw := Drv.getN kv "nw" 1, nr := Drv.getN kv "nr" 1 }

/-- `i` = idle, `p` = parked in `wait` and not notified, `x` = anything else -/
def thrCh (th : Thr) : Char :=
  match th.pc with
  | .idle => 'i'
  | .wait => if th.notified then 'x' else 'p'
  | _ => 'x'

def thrStr (s : State) : String := String.ofList (s.thr.map thrCh)

def descr (s : State) : String :=
  s!"thr={thrStr s} q={s.q} owner={s.owner} nfW={s.nfW} neW={s.neW} put={s.putH.length} got={s.gotH.length} pcs={repr (s.thr.map (·.pc))}"

/-- final summary: `thr=` one letter per thread, `q=` deque length, `put=` / `got=` numbers of appends / pops -/
def summaryOk (kv : List (String × String)) (s : State) : Bool :=
  thrStr s == Drv.getS kv "thr" && s.q.length == Drv.getN kv "q" && s.putH.length == Drv.getN kv "put"
    && s.gotH.length == Drv.getN kv "got" && s.owner == none

structure St where
  id : String := ""
  cfg : Cfg := mkCfg []
  fuel : Nat := 0
  ss : List State := []
  k : Nat := 0
  dead : Bool := true
  maxStates : Nat := 0

partial def loop (h : IO.FS.Stream) (st : St) : IO Unit := do
  let line ← h.getLine
  if line.isEmpty then return ()
  let ws := Drv.words line
  match ws with
  | "case" :: id :: rest =>
    let c := mkCfg (Drv.kvs rest)
    loop h { id := id, cfg := c, fuel := 8 * (c.nw + c.nr) + 8, ss := [init c], k := 0, dead := false }
  | "e" :: name :: rest =>
    if st.dead then loop h st else
    match parseEv st.cfg name (rest.filterMap String.toNat?) with
    | none =>
      IO.println s!"REJECT {st.id} {st.k} bad-event {name} {rest}"
      loop h { st with dead := true }
    | some ev =>
      let ss' := vstepW (sys st.cfg) st.fuel Ev.act Ev.chk st.ss ev
      if ss'.isEmpty then
        let cl := tauCloseW (sys st.cfg) st.fuel st.ss
        let d := match cl.head? with | some s => descr s | none => "-"
        IO.println s!"REJECT {st.id} {st.k} event `{name} {rest}` not enabled in any of {cl.length} compatible model states; e.g. {d}"
        loop h { st with dead := true }
      else loop h { st with ss := ss', k := st.k + 1, maxStates := max st.maxStates ss'.length }
  | "end" :: rest =>
    if st.dead then loop h st else
    let kv := Drv.kvs rest
    let fin := tauCloseW (sys st.cfg) st.fuel st.ss
    let partialRun := Drv.getN kv "partial" == 1
    let good := fin.filter (fun s => partialRun || summaryOk kv s)
    if good.isEmpty then
      let d := match fin.head? with | some s => descr s | none => "-"
      IO.println s!"NOFINAL {st.id} {st.k} no compatible model state matches the summary {rest}; e.g. model state: {d}"
    else
      IO.println s!"ok {st.id} events={st.k} maxstates={st.maxStates}"
    loop h { st with dead := true }
  | _ => loop h st

def main : IO Unit := do loop (← IO.getStdin) {}

end Lane.Drv
