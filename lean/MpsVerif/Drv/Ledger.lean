import MpsVerif.Model.Ledger
import MpsVerif.Core.ValidateFast
import MpsVerif.Drv.Util
/-! Trace-validation driver for the server-ledger model (`drv ledger`). -/
namespace Ledger
deriving instance Hashable for Outcome, Fut, CPc, Caller, Holder, GPc, NPc, State
end Ledger

namespace Ledger.Drv
open Core.Val

/-- Observable *actions*: the harness logs `call r` right before the caller enters `Server.call`
    (the id is minted after that) and `emit r` when the worker function has produced the response
    (it is queued after that).  Everything else the harness sees — the public backlog after every
    scheduling step, and each caller's outcome once its call has returned — is an observation of
    the *state* ("by now request r has ended with outcome o"), because the outcome is logged some
    time after the action that produced it: those are filters on the compatible state set. -/
inductive Obs where
  | call (r : Nat) | emit (r : Nat)
  deriving Repr, DecidableEq

def label : Act → Option Obs
  | .mint r => some (.call r)
  | .emit _ r => some (.emit r)
  | _ => none

/-- internal actions that may be enabled in `s`; timers (`timeoutWait`, `expire`) only for the
    requests the case declares as having a finite deadline / being abandonable -/
def taus (timed : List Nat) (s : State) : List Act :=
  let rs := List.range s.callers.length
  rs.flatMap (fun r =>
    match (s.get r).pc with
    | .start => [.acquire r]
    | .woken => [.acquire r]
    | .inCS => [.testPass r, .reject r, .wait r, .noTime r]
    | .passed => [.insert r]
    | .ledgered => [.enqueue r]
    | .waiting => .nnotify r :: (if timed.contains r then [.timeoutWait r] else [])
    | .expired => [.giveUp r]
    | .pending => .receive r :: (if timed.contains r then [.expire r] else [])
    | .cancelling => [.cancel r]
    | _ => [])
  ++ s.outq.map (fun e => .pop e.1 e.2)
  ++ [.gcheck, .gset, .ntake, .nacquire, .nnone]

def cands (s : State) : Obs → List Act
  | .call r => [.mint r]
  | .emit r => (s.inflight.filter (fun e => e.2 == r)).map (fun e => .emit e.1 r)

def sys (c : Cfg) (timed : List Nat) : LSys State Act Obs :=
  { step := step c, label := label, taus := taus timed, cands := cands }

theorem sys_wf (c : Cfg) (timed : List Nat) : WF (sys c timed) := by
  constructor
  · intro s a ha
    simp only [sys, taus, List.mem_append, List.mem_flatMap, List.mem_range, List.mem_cons,
      List.not_mem_nil, or_false, List.mem_map] at ha
    rcases ha with (⟨r, _, h⟩ | ⟨e, _, h⟩) | h
    · split at h <;> simp at h
      · subst h; rfl
      · subst h; rfl
      · rcases h with h | h | h | h <;> subst h <;> rfl
      · subst h; rfl
      · subst h; rfl
      · rcases h with h | h
        · subst h; rfl
        · obtain ⟨_, h⟩ := h; subst h; rfl
      · subst h; rfl
      · rcases h with h | h
        · subst h; rfl
        · obtain ⟨_, h⟩ := h; subst h; rfl
      · subst h; rfl
    · subst h; rfl
    · rcases h with h | h | h | h | h <;> subst h <;> rfl
  · intro s e a ha
    cases e <;> simp only [sys, cands, List.mem_cons, List.not_mem_nil, or_false, List.mem_map] at ha
    · subst ha; rfl
    · obtain ⟨e', _, rfl⟩ := ha; rfl

def parseObs (name : String) (r : Nat) : Option Obs :=
  match name with
  | "call" => some (.call r) | "emit" => some (.emit r)
  | _ => none

/-- state observation "request r has ended with this outcome" -/
def outcomeIs (name : String) (r : Nat) (src : Option Nat) (s : State) : Bool :=
  match name, src with
  | "answered", some x => (s.get r).pc == .done (.answered x)
  | "full", _ => (s.get r).pc == .done .full
  | "timeout", _ => (s.get r).pc == .done .timeout
  | _, _ => false

structure St where
  id : String := ""
  cfg : Cfg := { cap := 1, guardSet := true }
  timed : List Nat := []
  fuel : Nat := 0
  ss : List State := []
  k : Nat := 0
  dead : Bool := true
  maxStates : Nat := 0

def limit : Nat := 20000

partial def loop (h : IO.FS.Stream) (st : St) : IO Unit := do
  let line ← h.getLine
  if line.isEmpty then return ()
  let ws := Drv.words line
  match ws with
  | "case" :: id :: rest =>
    let kv := Drv.kvs rest
    let n := Drv.getN kv "n"
    let bps := Drv.getL kv "bp"
    let callers : List Caller := (List.range n).map (fun r => { bp := bps.contains r })
    loop h { id := id, cfg := { cap := Drv.getN kv "cap" 1, guardSet := true }, timed := Drv.getL kv "timed",
             fuel := 20 * n + 40, ss := [init callers], k := 0, dead := false }
  | "e" :: "blen" :: k :: _ =>
    if st.dead then loop h st else
    -- observation of the public `Server.backlog`: keep the compatible states whose ledger has that size
    let cl := tauCloseW (sys st.cfg st.timed) st.fuel st.ss
    let ss' := cl.filter (fun s => s.ledger.length == k.toNat!)
    if ss'.isEmpty then
      IO.println s!"REJECT {st.id} {st.k} backlog {k} observed; sizes possible in the model: {(cl.map (fun s => s.ledger.length)).eraseDups}"
      loop h { st with dead := true }
    else loop h { st with ss := ss', k := st.k + 1, maxStates := max st.maxStates ss'.length }
  | "e" :: name :: r :: rest =>
    if st.dead then loop h st else
    if name == "answered" || name == "full" || name == "timeout" then
      let cl := tauCloseW (sys st.cfg st.timed) st.fuel st.ss
      let ss' := cl.filter (outcomeIs name r.toNat! (rest.head?.bind String.toNat?))
      if ss'.isEmpty then
        IO.println s!"REJECT {st.id} {st.k} outcome `{name} {r} {rest}` not possible in any of {cl.length} compatible model states; model pcs of that request: {(cl.map (fun s => toString (repr (s.get r.toNat!).pc))).eraseDups}"
        loop h { st with dead := true }
      else loop h { st with ss := ss', k := st.k + 1, maxStates := max st.maxStates ss'.length }
    else
    match parseObs name r.toNat! with
    | none =>
      IO.println s!"REJECT {st.id} {st.k} bad-event {name}"
      loop h { st with dead := true }
    | some o =>
      let ss' := vstepW (sys st.cfg st.timed) st.fuel id (fun _ _ => true) st.ss o
      if ss'.isEmpty then
        IO.println s!"REJECT {st.id} {st.k} event `{name} {r} {rest}` not enabled in any of {(tauCloseW (sys st.cfg st.timed) st.fuel st.ss).length} compatible model states"
        loop h { st with dead := true }
      else if ss'.length > limit then
        IO.println s!"ok {st.id} events={st.k} maxstates={ss'.length} truncated=1"
        loop h { st with dead := true }
      else loop h { st with ss := ss', k := st.k + 1, maxStates := max st.maxStates ss'.length }
  | "end" :: rest =>
    if st.dead then loop h st else
    let kv := Drv.kvs rest
    let fin := tauCloseW (sys st.cfg st.timed) st.fuel st.ss
    let partialRun := Drv.getN kv "partial" == 1
    let good := fin.filter (fun s => partialRun ||
      (s.ledger.length == Drv.getN kv "idle" && s.inflight.isEmpty && s.outq.isEmpty && s.gpc == .idle))
    if good.isEmpty then
      let descr := match fin.head? with
        | some s => s!"ledger={s.ledger.length} inflight={s.inflight.length} outq={s.outq.length} gpc={repr s.gpc}"
        | none => "-"
      IO.println s!"NOFINAL {st.id} {st.k} no compatible model state is at rest with backlog {Drv.getN kv "idle"}; e.g. {descr}"
    else
      IO.println s!"ok {st.id} events={st.k} maxstates={st.maxStates}"
    loop h { st with dead := true }
  | _ => loop h st

def main : IO Unit := do loop (← IO.getStdin) {}

end Ledger.Drv
