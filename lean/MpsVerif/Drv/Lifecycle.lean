import MpsVerif.Model.Lifecycle
import MpsVerif.Drv.Util
/-!
Driver for the life-cycle model (`drv lifecycle`).

`case <id> kind=start tree=<prefix tokens> bad=<sv>:<w>|none` + `obs err=… launched=… alive=…`:
differential comparison with `startServer`.

`case <id> kind=stop tree=… K=<k> pinned=0|1` + events (`e inject`, `e get n c stop`, `e put n c stop`,
`e mput c`, `e mjoin n`) + `end final=0|1 ledger=<n>`: the recorded run of the real server is replayed
through `step` (every event must be enabled in the model state it is replayed in and must carry the same
kind of message; the plan a node follows for a data message is inferred), and the state reached must be the
model's final state — or, when the real server is stuck, a model state in which nothing is enabled.
-/
namespace Lifecycle.Drv

def parseTree : Nat → List String → Option (Tree × List String)
  | 0, _ => none
  | _, [] => none
  | fuel + 1, tok :: rest =>
    match tok.toList with
    | 'T' :: ds => (String.ofList ds).toNat?.map (fun k => (Tree.simple k false, rest))
    | 'P' :: ds => (String.ofList ds).toNat?.map (fun k => (Tree.simple k true, rest))
    | [c] =>
      if c == 'S' || c == 'E' || c == 'W' then
        match parseTree fuel rest with
        | none => none
        | some (a, r1) =>
          match parseTree fuel r1 with
          | none => none
          | some (b, r2) =>
            some ((if c == 'S' then Tree.seq a b else if c == 'E' then Tree.ens a b else Tree.sw a b), r2)
      else none
    | _ => none

def getTree (kv : List (String × String)) : Option Tree :=
  let toks := (Drv.getS kv "tree").splitOn ","
  match parseTree (toks.length + 1) toks with
  | some (t, []) => some t
  | _ => none

def showTid (t : Tid) : String := s!"{t.1}:{t.2}"
def showTids (l : List Tid) : String := ";".intercalate (l.map showTid)
def sortTids (l : List Tid) : List Tid :=
  l.mergeSort (fun x y => x.1 < y.1 || (x.1 == y.1 && x.2 ≤ y.2))

def parseBad (s : String) : Nat → Nat → Bool :=
  match s.splitOn ":" with
  | [a, b] =>
    match a.toNat?, b.toNat? with
    | some sv, some w => fun x y => x == sv && y == w
    | _, _ => fun _ _ => false
  | _ => fun _ _ => false

structure St where
  id : String := ""
  kind : String := ""
  tree : Tree := .simple 1 false
  bad : String := "none"
  net : Net := { nodes := [], caps := [], ws := [], entry := 0, script := [] }
  ss : List State := []
  k : Nat := 0
  dead : Bool := true
  maxStates : Nat := 0

def allExited (net : Net) (s : State) : Bool :=
  (List.range net.nodes.length).all (fun n => s.nodes n == .s [])

def showNSt : NSt → String
  | .d l => s!"d{l}"
  | .s l => s!"s{l}"

def descr (net : Net) (s : State) : String :=
  let ns := " ".intercalate ((List.range net.nodes.length).map (fun n => s!"{n}:{showNSt (s.nodes n)}"))
  let cs := " ".intercalate ((List.range net.caps.length).map (fun c =>
    s!"{c}:[{"".intercalate ((s.chans c).map (fun m => if m == .stop then "S" else "d"))}]"))
  s!"nodes {ns} | chans {cs} | pc.length={s.pc.length} ledger={s.ledger} enabled={repr (enabled net s)}"

def stepEv (net : Net) (ss : List State) (ws : List String) : Option (List State) :=
  match ws with
  | ["inject"] => some (ss.filterMap (fun s => step net s .inject))
  | ["get", n, c, st] =>
    match n.toNat?, c.toNat? with
    | some n, some c =>
      let want : Msg := if st == "1" then .stop else .data
      let np := match net.nodes[n]? with
        | some nd => max 1 nd.plans.length
        | none => 1
      some (ss.flatMap (fun s =>
        if (s.chans c).head? == some want then
          (List.range np).filterMap (fun k => step net s (.get n c k))
        else []))
    | _, _ => none
  | ["put", n, c, st] =>
    match n.toNat?, c.toNat? with
    | some n, some c =>
      some (ss.filterMap (fun s =>
        let ok := match s.nodes n with
          | .d (c' :: _) => c' == c && st == "0"
          | .s (c' :: _) => c' == c && st == "1"
          | _ => false
        if ok then step net s (.put n) else none))
    | _, _ => none
  | ["mput", c] =>
    match c.toNat? with
    | some c => some (ss.filterMap (fun s => if s.pc.head? == some (.put c) then step net s .main else none))
    | none => none
  | ["mjoin", n] =>
    match n.toNat? with
    | some n => some (ss.filterMap (fun s => if s.pc.head? == some (.join n) then step net s .main else none))
    | none => none
  | _ => none

partial def loop (h : IO.FS.Stream) (st : St) : IO Unit := do
  let line ← h.getLine
  if line.isEmpty then return ()
  let ws := Drv.words line
  match ws with
  | "case" :: id :: rest =>
    let kv := Drv.kvs rest
    match getTree kv with
    | none =>
      IO.println s!"REJECT {id} 0 bad-tree {Drv.getS kv "tree"}"
      loop h { st with dead := true }
    | some t =>
      let kind := Drv.getS kv "kind"
      let net := compileServer (Drv.getN kv "K" 1) t (Drv.getN kv "pinned" == 1)
      if kind == "stop" && !net.wf && Drv.getN kv "pinned" != 1 then
        IO.println s!"REJECT {id} 0 compiled network is not well-formed (Net.wf = false)"
        loop h { st with dead := true }
      else
        loop h { id := id, kind := kind, tree := t, bad := Drv.getS kv "bad" "none", net := net,
                 ss := [init net], k := 0, dead := false }
  | "obs" :: rest =>
    if st.dead || st.kind != "start" then loop h st else
    let kv := Drv.kvs rest
    let r := startServer (parseBad st.bad) st.tree
    let err := match r.err with | some e => showTid e | none => "none"
    let lw := showTids ((launched r.evs).filter (fun t => t.2 < 100 && t.1 < 1000))
    let al := showTids (sortTids (alive r.evs))
    let gerr := Drv.getS kv "err" "none"
    let glw := Drv.getS kv "launched"
    let gal := Drv.getS kv "alive"
    if err == gerr && lw == glw && al == gal then
      IO.println s!"ok {st.id} start err={err} launched={(launched r.evs).length}"
    else
      IO.println s!"MISMATCH {st.id} start: model err={err} launched={lw} alive={al}; code err={gerr} launched={glw} alive={gal}"
    loop h { st with dead := true }
  | "e" :: rest =>
    if st.dead then loop h st else
    match stepEv st.net st.ss rest with
    | none =>
      IO.println s!"REJECT {st.id} {st.k} bad-event {rest}"
      loop h { st with dead := true }
    | some ss' =>
      if ss'.isEmpty then
        let d := match st.ss.head? with | some s => descr st.net s | none => "-"
        IO.println s!"REJECT {st.id} {st.k} event {rest} not enabled in any of {st.ss.length} compatible model states; e.g. {d}"
        loop h { st with dead := true }
      else
        let ss' := ss'.take 3000
        loop h { st with ss := ss', k := st.k + 1, maxStates := max st.maxStates ss'.length }
  | "end" :: rest =>
    if st.dead then loop h st else
    let kv := Drv.kvs rest
    if Drv.getN kv "partial" == 1 then
      IO.println s!"ok {st.id} events={st.k} partial"
      loop h { st with dead := true }
    else
    let wantFinal := Drv.getN kv "final" == 1
    let ledger := Drv.getN kv "ledger"
    let fin := st.ss.map (fun s =>
      if wantFinal && s.pc == [.clear] then (step st.net s .main).getD s else s)
    let good := fin.filter (fun s =>
      if wantFinal then decide (Final s) && s.ledger == ledger && allExited st.net s
      else !decide (Final s) && (enabled st.net s).isEmpty)
    if good.isEmpty then
      let d := match fin.head? with | some s => descr st.net s | none => "-"
      IO.println s!"NOFINAL {st.id} {st.k} no compatible model state matches {rest}; e.g. {d}"
    else
      IO.println s!"ok {st.id} events={st.k} maxstates={st.maxStates}"
    loop h { st with dead := true }
  | _ => loop h st

def main : IO Unit := do loop (← IO.getStdin) {}

end Lifecycle.Drv
