import MpsVerif.Model.LogPipe
import MpsVerif.Drv.Util
/-!
Driver for the `LogPipe` model (`drv logpipe`): differential replay of an observed history.

    case <id> n=<records> K=<pipe capacity in records> fail=<ids that do not pass the parent's levels> seed=<s>
    handled <ids in the order the parent's logging configuration handled them>
    atjoin <how many had been handled when join()/result() returned>
    end joined=<0|1>

The driver runs the model's own `step` function from `init` under a pseudo-random scheduler
(seeded; every enabled action equally likely) until no action is enabled, at most `3n+19` steps.
The run must end in `Final`; the model's `handled` list must equal the implementation's, and so
must the number handled when the future was resolved.  `ok` / `MISMATCH` / `NOFINAL`.
-/
namespace LogPipe.Drv

def allActs : List Act :=
  [.emit, .targetEnd, .send1, .send2, .closeQ, .feed, .feedEnd, .exit, .kRecv, .kSentinel, .kPutEnd,
   .pfeed, .lget, .lend, .kJoinLog, .kResolve, .fin]

def lcg (x : UInt64) : UInt64 := x * 6364136223846793005 + 1442695040888963407

/-- run until nothing is enabled (or fuel is out); returns the state and the number of steps -/
def runRandom (c : Cfg) : Nat → UInt64 → State → Nat → State × Nat
  | 0, _, s, k => (s, k)
  | fuel+1, x, s, k =>
    let succs := allActs.filterMap (step c s)
    match succs with
    | [] => (s, k)
    | _ =>
      let x' := lcg x
      let i := ((x' >>> 33).toNat) % succs.length
      match succs[i]? with
      | some s' => runRandom c fuel x' s' (k + 1)
      | none => (s, k)

structure St where
  id : String := ""
  dead : Bool := true
  n : Nat := 0
  fin : Option State := none
  steps : Nat := 0

partial def loop (h : IO.FS.Stream) (st : St) : IO Unit := do
  let line ← h.getLine
  if line.isEmpty then return ()
  let ws := Drv.words line
  match ws with
  | "case" :: id :: rest =>
    let kv := Drv.kvs rest
    let n := Drv.getN kv "n"
    let fail := Drv.getL kv "fail"
    let arr : Array Bool := fail.foldl (fun a i => a.setIfInBounds i false) (Array.replicate n true)
    let c : Cfg := { n := n, K := Drv.getN kv "K" 1, pass := fun i => arr.getD i true }
    let (s, k) := runRandom c (3 * n + 19) (UInt64.ofNat (Drv.getN kv "seed")) init 0
    if decide (Final s) then
      loop h { id := id, dead := false, n := n, fin := some s, steps := k }
    else
      IO.println s!"NOFINAL {id} 0 the model run stopped after {k} steps in a non-final state: cpc={repr s.cpc} kpc={repr s.kpc} lstopped={s.lstopped}"
      loop h { st with dead := true }
  | ["handled"] | ["handled", _] =>
    if st.dead then loop h st else
    let impl := match ws with | [_, l] => Drv.natList l | _ => []
    match st.fin with
    | some s =>
      if s.handled == impl then loop h st
      else
        IO.println s!"MISMATCH {st.id} 0 handled: model has {s.handled.length} records {Drv.showNats (s.handled.take 12)}…, impl has {impl.length} records {Drv.showNats (impl.take 12)}…"
        loop h { st with dead := true }
    | none => loop h st
  | ["atjoin", k] =>
    if st.dead then loop h st else
    match st.fin with
    | some s =>
      if some s.handledAtResolve == k.toNat? then loop h st
      else
        IO.println s!"MISMATCH {st.id} 1 handled-when-join-returned: model {s.handledAtResolve}, impl {k}"
        loop h { st with dead := true }
    | none => loop h st
  | "end" :: rest =>
    if st.dead then loop h st else
    let kv := Drv.kvs rest
    if Drv.getN kv "joined" == 1 then
      IO.println s!"ok {st.id} steps={st.steps}"
    else
      IO.println s!"MISMATCH {st.id} 2 join()/result() did not return in the implementation; the model run is final (future resolved) after {st.steps} steps"
    loop h { st with dead := true }
  | _ => loop h st

def main : IO Unit := do loop (← IO.getStdin) {}

end LogPipe.Drv
