import MpsVerif.Model.Mux
import MpsVerif.Drv.Util
/-!
Trace-replay driver for the multiplexing model (`drv mux`).  Every action of the model is observable
in the instrumented real run, so validation is a deterministic replay with `Mux.step`:

```
case <id> nconn=<n> errs=<payload numbers whose handler raises> [pend=<n>] [srv=<backlog+2>] [wire=<n>] [back=<n>]
a submit <x> <id> | a ssubmit <x> <id> | a send <c> [x] | a srvRecv <c> [x] | a finish <c> <j>
a respond <c> | a recv <c> [<k> <resp>] | a syield [<x> <resp>]
end results=<k>:<resp>,...  sout=<x>:<resp>,...  quiet=<0|1>
```
`resp` is `ok<v>` / `err<e>`.  Optional arguments are data the implementation reported; they are
compared with what the model computes in that step.  `ok <id>` / `REJECT <id> <k> …` / `MISMATCH <id> …`.
-/
namespace Mux.Drv

def showResp : Resp → String
  | .ok v => s!"ok{v}" | .err e => s!"err{e}"

def showPairs (l : List (Nat × Resp)) : String :=
  if l.isEmpty then "-" else ",".intercalate (l.map fun p => s!"{p.1}:{showResp p.2}")

def mkCfg (kv : List (String × String)) : Cfg :=
  let errs := Drv.getL kv "errs"
  { nconn := Drv.getN kv "nconn" 1, handler := fun x => if errs.contains x then .err x else .ok x,
    pendCap := Drv.getN kv "pend" 2048, srvCap := Drv.getN kv "srv" 258,
    -- the socket buffers are counted in bytes by the OS; in records they are unbounded for the replay
    wireCap := Drv.getN kv "wire" 1000000000, backCap := Drv.getN kv "back" 1000000000 }

def parseAct (ws : List String) : Option Act :=
  match ws with
  | "submit" :: x :: id :: _ => do some (.submit (← x.toNat?) (← id.toNat?))
  | "ssubmit" :: x :: id :: _ => do some (.ssubmit (← x.toNat?) (← id.toNat?))
  | "send" :: c :: _ => do some (.send (← c.toNat?))
  | "srvRecv" :: c :: _ => do some (.srvRecv (← c.toNat?))
  | "finish" :: c :: j :: _ => do some (.finish (← c.toNat?) (← j.toNat?))
  | "respond" :: c :: _ => do some (.respond (← c.toNat?))
  | "recv" :: c :: _ => do some (.recv (← c.toNat?))
  | "syield" :: _ => some .syield
  | _ => none

/-- data check of a step against what the implementation reported (extra words of the line) -/
def dataOk (a : Act) (extra : List String) (s s' : State) : Bool :=
  match a, extra with
  | .send c, [x] =>
    match s'.conns[c]? with
    | some cn => (cn.wire.getLast?.map (fun m => toString m.data)) == some x
    | none => false
  | .srvRecv c, [x] =>
    match s'.conns[c]? with
    | some cn => (cn.srvq.getLast?.map (fun m => toString m.data)) == some x
    | none => false
  | .recv _, [k, r] => (s'.results.getLast?.map (fun p => (toString p.1, showResp p.2))) == some (k, r)
  | .syield, [x, r] => (s'.sout.getLast?.map (fun p => (toString p.1, showResp p.2))) == some (x, r)
  | _, _ => s.reqs.length ≤ s'.reqs.length

structure St where
  id : String := ""
  cfg : Cfg := mkCfg []
  s : State := init (mkCfg [])
  k : Nat := 0
  dead : Bool := true
  counts : List Nat := []

def quiet (s : State) : Bool :=
  s.pending.isEmpty && s.active.isEmpty && s.tasks.isEmpty &&
    s.conns.all (fun cn => cn.wire.isEmpty && cn.srvq.isEmpty && cn.back.isEmpty)

partial def loop (h : IO.FS.Stream) (st : St) : IO Unit := do
  let line ← h.getLine
  if line.isEmpty then return ()
  let ws := Drv.words line
  match ws with
  | "case" :: id :: rest =>
    let c := mkCfg (Drv.kvs rest)
    loop h { id := id, cfg := c, s := init c, k := 0, dead := false }
  | "a" :: rest =>
    if st.dead then loop h st else
    match parseAct rest with
    | none =>
      IO.println s!"REJECT {st.id} {st.k} bad-action {rest}"
      loop h { st with dead := true }
    | some a =>
      match step st.cfg st.s a with
      | none =>
        IO.println s!"REJECT {st.id} {st.k} action `{" ".intercalate rest}` is not enabled in the model state"
        loop h { st with dead := true }
      | some s' =>
        let nargs := match a with
          | .submit .. | .ssubmit .. | .finish .. => 3
          | .syield => 1
          | _ => 2
        let extra := rest.drop nargs
        if dataOk a extra st.s s' then loop h { st with s := s', k := st.k + 1 }
        else
          IO.println s!"MISMATCH {st.id} {st.k} action `{" ".intercalate rest}`: the model delivers different data (results={showPairs s'.results} sout={showPairs s'.sout})"
          loop h { st with dead := true }
  | "end" :: rest =>
    if st.dead then loop h st else
    let kv := Drv.kvs rest
    let r := showPairs st.s.results
    let so := showPairs st.s.sout
    if r != Drv.getS kv "results" "-" then
      IO.println s!"MISMATCH {st.id} {st.k} final results: model={r} impl={Drv.getS kv "results" "-"}"
    else if so != Drv.getS kv "sout" "-" then
      IO.println s!"MISMATCH {st.id} {st.k} stream outputs: model={so} impl={Drv.getS kv "sout" "-"}"
    else if Drv.getN kv "quiet" == 1 && !quiet st.s then
      IO.println s!"NOFINAL {st.id} {st.k} the implementation came to rest but the model still has requests in flight"
    else IO.println s!"ok {st.id} actions={st.k} requests={st.s.reqs.length}"
    loop h { st with dead := true }
  | _ => loop h st

def main : IO Unit := do loop (← IO.getStdin) {}

end Mux.Drv
