import MpsVerif.Model.Pipe
import MpsVerif.Drv.Frame
/-!
Replay driver for the named-pipe model (`drv pipe`).

```
case <id>
a send <s|c> <hex message>        endpoint calls send_bytes / send (pickled bytes)
a flushall <s|c>                  the kernel has taken the whole message
a recv <s|c> <hex message>        recv_bytes returned this message at that endpoint
frame <hex message> <hex wire>    raw bytes a real Connection wrote for the message (checked = frame m,
                                  and readFrame (wire ++ wire) = (m, wire))
end quiet=<0|1>                   → `ok <id> …` / `REJECT …` / `MISMATCH …` / `NOFINAL …` (quiet: nothing may be left in transit)
```
-/
namespace Pipe.Drv
open Frame.Drv (hex unhex brief)

def role? : String → Option Role
  | "s" => some .server | "c" => some .client | _ => none

structure St where
  id : String := ""
  s : State := init
  k : Nat := 0
  dead : Bool := true
  frames : Nat := 0

partial def loop (h : IO.FS.Stream) (st : St) : IO Unit := do
  let line ← h.getLine
  if line.isEmpty then return ()
  let ws := _root_.Drv.words line
  match ws with
  | "case" :: id :: _ => loop h { id := id, s := init, k := 0, dead := false }
  | ["a", "send", r, m] =>
    if st.dead then loop h st else
    match role? r, unhex m with
    | some r, some m =>
      match step st.s (.send r m) with
      | some s' => loop h { st with s := s', k := st.k + 1 }
      | none =>
        IO.println s!"REJECT {st.id} {st.k} send not enabled (previous send of that endpoint not complete)"
        loop h { st with dead := true }
    | _, _ => IO.println s!"REJECT {st.id} {st.k} bad-line"; loop h { st with dead := true }
  | ["a", "flushall", r] =>
    if st.dead then loop h st else
    match role? r with
    | some r =>
      let n := (st.s.chan (wpath r)).outbuf.length
      if n == 0 then loop h st else
      match step st.s (.flush r (n - 1)) with
      | some s' => loop h { st with s := s', k := st.k + 1 }
      | none => IO.println s!"REJECT {st.id} {st.k} flush not enabled"; loop h { st with dead := true }
    | none => IO.println s!"REJECT {st.id} {st.k} bad-line"; loop h { st with dead := true }
  | ["a", "recv", r, m] =>
    if st.dead then loop h st else
    match role? r, unhex m with
    | some r, some m =>
      match step st.s (.recv r) with
      | some s' =>
        if (s'.rcvdBy r).getLast? == some m then loop h { st with s := s', k := st.k + 1 }
        else
          IO.println s!"MISMATCH {st.id} {st.k} recv: model delivers {brief (hex ((s'.rcvdBy r).getLast?.getD []))}, implementation {brief (hex m)}"
          loop h { st with dead := true }
      | none =>
        IO.println s!"REJECT {st.id} {st.k} recv not enabled: no complete message for that endpoint in the model"
        loop h { st with dead := true }
    | _, _ => IO.println s!"REJECT {st.id} {st.k} bad-line"; loop h { st with dead := true }
  | ["frame", m, w] =>
    if st.dead then loop h st else
    match unhex m, unhex w with
    | some m, some w =>
      if frame m != w then
        IO.println s!"MISMATCH {st.id} {st.k} frame: model {brief (hex (frame m))} implementation {brief (hex w)}"
        loop h { st with dead := true }
      else if readFrame (w ++ w) != some (m, w) then
        IO.println s!"MISMATCH {st.id} {st.k} readFrame does not return the message"
        loop h { st with dead := true }
      else loop h { st with frames := st.frames + 1 }
    | _, _ => IO.println s!"REJECT {st.id} {st.k} bad-line"; loop h { st with dead := true }
  | "end" :: rest =>
    if !st.dead then
      let quiet := _root_.Drv.getN (_root_.Drv.kvs rest) "quiet" == 1
      if quiet && (st.s.rcvdBy .server != st.s.sentBy .client || st.s.rcvdBy .client != st.s.sentBy .server) then
        IO.println s!"NOFINAL {st.id} {st.k} the implementation came to rest but the model still has messages in transit"
      else
        IO.println s!"ok {st.id} actions={st.k} frames={st.frames} rs={(st.s.rcvdBy .server).length} rc={(st.s.rcvdBy .client).length}"
    loop h { st with dead := true }
  | _ => loop h st

def main : IO Unit := do loop (← IO.getStdin) {}

end Pipe.Drv
