import MpsVerif.Model.Pipeline
import MpsVerif.Drv.Util
/-!
Differential driver for the `Stream` pipeline model (`drv pipeline`).

```
case <id>
src <vals> <err|->                 -- e.g.  src [1,E0:5,[1,2],(3,N)] E2:7
op <name> <args…>                  -- in pipeline order
obs full <vals> <end> <pulled> <ended>     -- what the real Stream did when consumed completely
obs take <k> <vals> <end> <pulled> <ended> -- … when only k items were requested
nobs <n>                                   -- number of obs lines sent
end
```
`<end>` is `done`, `more` (the k requested items all arrived) or `E<tag>:<arg>`.
For every observation the driver evaluates `semAll` and the pull machine (`takeK` over `next`)
with the lazy oracle (`[]`) and the greedy oracle (always prefetch) and compares outputs, ending,
pull count and whether the source was asked beyond its last element (`<ended>` = 0/1), the last two
as `lazy ≤ observed ≤ greedy` (for chains of one-to-one operators the driver also checks its own
`greedy ≤ handed + slack`).  Verdict per case: `ok <id> …` or `MISMATCH <id> …`.
-/
namespace Pipeline.Drv
open Pipeline

/-! ### value syntax -/

partial def showVal : Val → String
  | .int n => toString n
  | .none => "N"
  | .exc t a => s!"E{t}:{a}"
  | .pair a b => s!"({showVal a},{showVal b})"
  | v =>
    match v.elems with
    | some l => "[" ++ ",".intercalate (l.map showVal) ++ "]"
    | Option.none => "?improper"

def showVals (l : List Val) : String := "[" ++ ",".intercalate (l.map showVal) ++ "]"

def showErr (e : Err) : String := s!"E{e.tag}:{e.arg}"

def parseIntChars (cs : List Char) : Option (Int × List Char) :=
  let (neg, cs) := match cs with
    | '-' :: r => (true, r)
    | _ => (false, cs)
  let ds := cs.takeWhile Char.isDigit
  if ds.isEmpty then Option.none else
  let n : Nat := ds.foldl (fun a c => 10 * a + (c.toNat - '0'.toNat)) 0
  some (if neg then -(n : Int) else (n : Int), cs.drop ds.length)

mutual
partial def parseVal (cs : List Char) : Option (Val × List Char) :=
  match cs with
  | 'N' :: r => some (.none, r)
  | 'E' :: r =>
    match parseIntChars r with
    | some (t, ':' :: r2) =>
      match parseIntChars r2 with
      | some (a, r3) => some (.exc t.toNat a, r3)
      | Option.none => Option.none
    | _ => Option.none
  | '(' :: r =>
    match parseVal r with
    | some (a, ',' :: r2) =>
      match parseVal r2 with
      | some (b, ')' :: r3) => some (.pair a b, r3)
      | _ => Option.none
    | _ => Option.none
  | '[' :: r =>
    match parseItems r with
    | some (l, r2) => some (Val.ofList l, r2)
    | Option.none => Option.none
  | _ =>
    match parseIntChars cs with
    | some (n, r) => some (.int n, r)
    | Option.none => Option.none

/-- after `[`: items up to and including `]` -/
partial def parseItems (cs : List Char) : Option (List Val × List Char) :=
  match cs with
  | ']' :: r => some ([], r)
  | _ =>
    match parseVal cs with
    | some (v, ',' :: r) =>
      match parseItems r with
      | some (l, r2) => some (v :: l, r2)
      | Option.none => Option.none
    | some (v, ']' :: r) => some ([v], r)
    | _ => Option.none
end

def parseValS (s : String) : Option Val :=
  match parseVal s.toList with
  | some (v, []) => some v
  | _ => Option.none

def parseValsS (s : String) : Option (List Val) := (parseValS s).bind Val.elems

def parseErrS (s : String) : Option (Option Err) :=
  if s == "-" then some Option.none else
  match parseValS s with
  | some (.exc t a) => some (some ⟨t, a⟩)
  | _ => Option.none

/-! ### operators -/

def parseFn (s : String) : Option Fn :=
  match s.splitOn ":" with
  | ["ident"] => some .ident
  | ["add", k] => k.toInt?.map .add
  | ["mul", k] => k.toInt?.map .mul
  | ["isEven"] => some .isEven
  | ["mod", k] => k.toNat?.map .mod
  | ["lenOf"] => some .lenOf
  | ["raiseIfMul", k, t] => do some (.raiseIfMul (← k.toNat?) (← t.toNat?))
  | ["excIfMul", k, t] => do some (.excIfMul (← k.toNat?) (← t.toNat?))
  | ["explode"] => some .explode
  | ["dup"] => some .dup
  | ["wrap"] => some .wrap
  | ["first"] => some .first
  | ["sumOf"] => some .sumOf
  | _ => Option.none

def parseFn2 (s : String) : Option Fn2 :=
  match s.splitOn ":" with
  | ["add"] => some .add
  | ["max"] => some .max
  | ["second"] => some .second
  | ["pairUp"] => some .pairUp
  | ["failOn", k, t] => do some (.failOn (← k.toNat?) (← t.toNat?))
  | _ => Option.none

def parseSel (s : String) : Option ExcSel :=
  if s == "none" then some .nothing
  else if s == "all" then some .all
  else match s.splitOn ":" with
    | ["t", l] => some (.tags (Drv.natList l))
    | _ => Option.none

def parseNats (s : String) : List Nat := if s == "-" then [] else Drv.natList s

def parseOp (ws : List String) : Option Op :=
  match ws with
  | ["map", f] => (parseFn f).map (fun f => .map f.eval)
  | ["filter", f] => (parseFn f).map (fun f => .filter f.eval)
  | ["filterExc", d, k] => do some (.filterExc (← parseSel d) (← parseSel k))
  | ["peek"] => some .peek
  | ["head", n] => n.toNat?.map .head
  | ["tail", n] => n.toNat?.map .tail
  | ["batch", n] => n.toNat?.map .batch
  | ["unbatch"] => some .unbatch
  | ["groupby", f] => (parseFn f).map (fun f => .groupby f.eval)
  | ["accumulate", g, i] => do
    let g ← parseFn2 g
    let init ← if i == "-" then some Option.none else (parseValS i).map some
    some (.accumulate g.eval init)
  | ["buffer", n] => n.toNat?.map .buffer
  | ["parmap", f, c, rx, re] => do
    some (.parmap (← parseFn f).eval (← c.toNat?) (rx == "1") (re == "1"))
  | ["shuffle", n, idx, perm] => do some (.shuffle (← n.toNat?) (parseNats idx) (parseNats perm))
  | _ => Option.none

/-! ### evaluation -/

def FUEL : Nat := 20000

/-- `slackAll` for chains of one-to-one operators (`none` otherwise) — the very definitions
    `C03_incremental` is stated with -/
def chainSlack (ops : List Op) : Option Nat :=
  if ops.all Op.oneOne then some (slackAll ops) else Option.none

structure RunRes where
  vals : List Val
  last : Option Resp
  pulled : Nat
  ended : Nat       -- 1 iff the source was asked for more than it has
  handed : Nat      -- answers (values or an error) handed to the consumer

def runK (ops : List Op) (vals : List Val) (err : Option Err) (orc : List Bool) (k : Nat) : RunRes :=
  let (vs, r, _, w) := takeK FUEL k (build ops) (World.init vals err orc)
  { vals := vs, last := r, pulled := w.src.pulled, ended := if w.src.ended then 1 else 0,
    handed := vs.length + (match r with | some (.err _) => 1 | _ => 0) }

def showEnd : Option Resp → String
  | Option.none => "more"
  | some .done => "done"
  | some (.err e) => showErr e
  | some .fuel => "FUEL"
  | some (.val _) => "?"

def semEnd (s : Strm) : String :=
  match s.err with
  | Option.none => "done"
  | some e => showErr e

structure St where
  id : String := ""
  vals : List Val := []
  err : Option Err := Option.none
  ops : List Op := []
  bad : Option String := Option.none     -- first problem found in this case
  nobs : Nat := 0
  opened : Bool := false

def St.flag (st : St) (msg : String) : St :=
  match st.bad with
  | some _ => st
  | Option.none => { st with bad := some msg }

/-- compare one observation of the real code with the model -/
def checkObs (st : St) (k : Option Nat) (ovals : String) (oend : String) (opulled oended : Nat) : St :=
  let st := { st with nobs := st.nobs + 1 }
  let total := st.vals.length
  let greedyOrc := List.replicate (50000 + total) true
  -- number of `next` calls the consumer makes
  let kk := match k with
    | some k => k
    | Option.none => FUEL
  let lazy := runK st.ops st.vals st.err [] kk
  let greedy := runK st.ops st.vals st.err greedyOrc kk
  let what := match k with
    | some k => s!"take {k}"
    | Option.none => "full"
  if lazy.last == some .fuel || greedy.last == some .fuel then st.flag s!"{what}: model ran out of fuel" else
  -- the denotational semantics, cut to what k requests can see
  let s := semAll st.ops ⟨st.vals, st.err⟩
  let semVals := s.vals.take kk
  let semE := if kk ≤ s.vals.length then "more" else semEnd s
  if showVals semVals != showVals lazy.vals || semE != showEnd lazy.last then
    st.flag s!"{what}: MODEL INCONSISTENT sem={showVals semVals}|{semE} pull={showVals lazy.vals}|{showEnd lazy.last}"
  else if showVals greedy.vals != showVals lazy.vals || showEnd greedy.last != showEnd lazy.last then
    st.flag s!"{what}: MODEL INCONSISTENT lazy/greedy outputs differ"
  else if ovals != "-" && ovals != showVals lazy.vals then
    st.flag s!"{what}: outputs model={showVals lazy.vals} observed={ovals}"
  else if oend != showEnd lazy.last then
    st.flag s!"{what}: ending model={showEnd lazy.last} observed={oend}"
  else if opulled < lazy.pulled || greedy.pulled < opulled then
    st.flag s!"{what}: pulled observed={opulled} model lazy={lazy.pulled} greedy={greedy.pulled}"
  else if oended < lazy.ended || greedy.ended < oended then
    st.flag s!"{what}: source-end-reached observed={oended} model lazy={lazy.ended} greedy={greedy.ended}"
  else
    match chainSlack st.ops with
    | some sl =>
      if greedy.pulled > greedy.handed + sl then
        st.flag s!"{what}: MODEL INCONSISTENT greedy pulled {greedy.pulled} > handed {greedy.handed} + slack {sl}"
      else st
    | Option.none => st

partial def loop (h : IO.FS.Stream) (st : St) : IO Unit := do
  let line ← h.getLine
  if line.isEmpty then return ()
  let ws := Drv.words line
  match ws with
  | ["case", id] => loop h { id := id, opened := true }
  | ["src", vs, e] =>
    match parseValsS vs, parseErrS e with
    | some l, some e => loop h { st with vals := l, err := e }
    | _, _ => loop h (st.flag s!"cannot parse src `{vs}` `{e}`")
  | "op" :: rest =>
    match parseOp rest with
    | some op => loop h { st with ops := st.ops ++ [op] }
    | Option.none => loop h (st.flag s!"cannot parse op {rest}")
  | ["obs", "full", vs, e, p, en] => loop h (checkObs st Option.none vs e (p.toNat?.getD 0) (en.toNat?.getD 0))
  | ["obs", "take", k, vs, e, p, en] =>
    loop h (checkObs st (some (k.toNat?.getD 0)) vs e (p.toNat?.getD 0) (en.toNat?.getD 0))
  | "obs" :: rest => loop h (st.flag s!"malformed obs line {rest}")
  | ["nobs", n] =>
    -- the harness says how many observations it sent: none may get lost on the way
    if n.toNat? == some st.nobs then loop h st
    else loop h (st.flag s!"{st.nobs} observations checked but the harness sent {n}")
  | ["end"] =>
    if st.opened then
      match st.bad with
      | some msg => IO.println s!"MISMATCH {st.id} {msg}"
      | Option.none => IO.println s!"ok {st.id} obs={st.nobs}"
    loop h {}
  | ["eval", k] =>
    -- debugging aid: print the model's own answer for the current case
    let kk := k.toNat?.getD FUEL
    let r := runK st.ops st.vals st.err [] kk
    let s := semAll st.ops ⟨st.vals, st.err⟩
    IO.println s!"model {st.id} sem={showVals s.vals}|{semEnd s} pull={showVals r.vals}|{showEnd r.last} pulled={r.pulled}"
    loop h st
  | _ => loop h st

def main : IO Unit := do loop (← IO.getStdin) {}

end Pipeline.Drv
