import MpsVerif.Model.ProcOutcome
import MpsVerif.Drv.Util
/-!
Driver for the `ProcOutcome` model (`drv procoutcome`): differential replay of an observed history.

    case <id> kind=process|thread outcome=<o> kill=none|<phase>:<sig>
    early <accessor> <answer>        -- non-blocking accessor asked while the target runs
    ask <accessor> <answer>          -- accessor asked after the kill / the end, in this order
    end

For the case's (outcome, kill) the driver runs the model's own `step` function along two
different schedules (child first / collector first): child steps up to the kill phase, `kill sig`,
then every enabled non-accessor action until none is left; the state must then be `Final`; the
`ask` actions must be enabled in the order the implementation was asked, and the answers the model
records must equal the implementation's.  Prints `ok <id> …`, `MISMATCH …`, `REJECT …` or `NOFINAL …`.
-/
namespace ProcOutcome.Drv

def showCode : Code → String
  | .none => "none" | .int k => s!"int:{k}" | .str i => s!"str:{i}"

def showObj : Obj → String
  | .none => "none" | .val v => toString v
  | .exc (.child e) => s!"child:{e}" | .exc (.sysExit c) => "sysexit:" ++ showCode c
  | .exc (.osErr n) => s!"oserror:{n}"

def showAns : Ans → String
  | .returned v => "ret:" ++ showObj v
  | .raised e => "raise:" ++ showObj e
  | .flag b => if b then "ret:true" else "ret:false"
  | .code none => "ret:none"
  | .code (some k) => s!"ret:{k}"
  | .completed => "ret:completed"

def parseOutcome (s : String) : Option Outcome :=
  match s.splitOn ":" with
  | ["ret", "none"] => some (.ret .none)
  | ["ret", "unpicklable"] => some (.retU 1000)
  | ["raise", "unpicklable"] => some (.raiseU 97)
  | ["ret", v] => v.toNat?.map (fun n => .ret (.val n))
  | ["raise", e] => e.toNat?.map .raise
  | ["exit", "none"] => some (.exit .none)
  | ["exit", "int", k] => k.toInt?.map (fun n => .exit (.int n))
  | ["exit", "str", i] => i.toNat?.map (fun n => .exit (.str n))
  | _ => none

def parseAcc : String → Option Acc
  | "join" => some .join | "result" => some .result | "exception" => some .exception
  | "done" => some .done | "exitcode" => some .exitcode | "wait" => some .wait
  | "as_completed" => some .asCompleted | _ => none

def parsePhase : String → Option Phase
  | "before" => some .before | "during" => some .during | "between" => some .between
  | "after" => some .after | _ => none

def parseKill (s : String) : Option (Option (Phase × Nat)) :=
  if s == "none" then some none else
  match s.splitOn ":" with
  | [p, n] => match parsePhase p, n.toNat? with
    | some ph, some sig => some (some (ph, sig))
    | _, _ => none
  | _ => none

def childActs : List Act := [.cBoot, .cTargetEnd, .cSend1, .cSend2, .cSendFail, .cExit]
def parentActs : List Act := [.kRecv, .kEof, .kEofCode, .kSentinel, .kPutEnd, .logStop, .kJoinLog, .kResolve]

/-- fire the first enabled action of `acts`, if any -/
def fireFirst (c : Cfg) (s : State) : List Act → Option State
  | [] => none
  | a :: as => match step c s a with
    | some s' => some s'
    | none => fireFirst c s as

def saturate (c : Cfg) (acts : List Act) : Nat → State → State
  | 0, s => s
  | k+1, s => match fireFirst c s acts with
    | some s' => saturate c acts k s'
    | none => s

/-- `n` child steps; with `eager` the parent side runs as far as it can after each -/
def advance (c : Cfg) (eager : Bool) : Nat → State → State
  | 0, s => if eager then saturate c parentActs 20 s else s
  | k+1, s =>
    let s := if eager then saturate c parentActs 20 s else s
    match fireFirst c s childActs with
    | some s' => advance c eager k s'
    | none => s

def stepsTo : Phase → Nat
  | .before => 0 | .during => 1 | .between => 3 | .after => 4

structure St where
  id : String := ""
  dead : Bool := true
  thread : Bool := false
  cfg : Cfg := { outcome := .ret .none }
  kill : Option (Phase × Nat) := none
  -- the two model runs (process) / one (thread)
  ps : List State := []
  ts : Option Thr.State := none
  settled : Bool := false
  k : Nat := 0

/-- bring the process runs to the point where the accessors are asked after the end -/
def settle (st : St) : Except String (List State) :=
  let go (eager : Bool) (s : State) : Except String State :=
    let s1 := match st.kill with
      | none => s
      | some (ph, sig) =>
        let s0 := advance st.cfg eager (stepsTo ph - (crankDone s)) s
        match step st.cfg s0 (.kill sig) with
        | some s' => s'
        | none => s0
    let s2 := saturate st.cfg (if eager then parentActs ++ childActs else childActs ++ parentActs) 60 s1
    if decide (Final s2) then
      match st.kill with
      | some (ph, sig) =>
        if s2.killed == some (sig, ph) ∨ (ph == .during ∧ s2.killed == some (sig, .during)) then .ok s2
        else .error s!"kill phase not reproduced: {repr s2.killed}"
      | none => .ok s2
    else .error s!"model run does not reach Final: cpc={repr s2.cpc} kpc={repr s2.kpc}"
  match st.ps with
  | [a, b] => do
    let a' ← go false a
    let b' ← go true b
    pure [a', b']
  | _ => .error "no runs"
where
  crankDone (s : State) : Nat :=
    match s.cpc with
    | .boot => 0 | .target => 1 | .send1 => 2 | .send2 => 3 | .closing => 4 | .exited => 5

def askAll (c : Cfg) (ss : List State) (a : Acc) : Except String (List State × List Ans) :=
  ss.foldlM (init := ([], [])) fun (acc : List State × List Ans) s =>
    match step c s (.ask a) with
    | some s' => match s'.answers.getLast? with
      | some (_, r) => .ok (acc.1 ++ [s'], acc.2 ++ [r])
      | none => .error "no answer recorded"
    | none => .error s!"accessor {repr a} cannot return in the model state (cpc={repr s.cpc} kpc={repr s.kpc} fut={repr s.fut})"

partial def loop (h : IO.FS.Stream) (st : St) : IO Unit := do
  let line ← h.getLine
  if line.isEmpty then return ()
  let ws := Drv.words line
  match ws with
  | "case" :: id :: rest =>
    let kv := Drv.kvs rest
    match parseOutcome (Drv.getS kv "outcome"), parseKill (Drv.getS kv "kill" "none") with
    | some o, some k =>
      let thread := Drv.getS kv "kind" == "thread"
      loop h { id := id, dead := false, thread := thread, cfg := { outcome := o }, kill := k,
               ps := [init, init], ts := some Thr.init, settled := false, k := 0 }
    | _, _ =>
      IO.println s!"REJECT {id} 0 bad case line"
      loop h { st with dead := true }
  | [kind, acc, impl] =>
    if st.dead || (kind != "early" && kind != "ask") then loop h st else
    match parseAcc acc with
    | none =>
      IO.println s!"REJECT {st.id} {st.k} unknown accessor {acc}"
      loop h { st with dead := true }
    | some a =>
      if st.thread then
        -- thread: early asks before `tSet`; others after `tSet, tEnd`
        let ts := st.ts.getD Thr.init
        let ts := if kind == "ask" && !st.settled then
            ((Thr.step st.cfg ts .tSet).bind (fun t => Thr.step st.cfg t .tEnd)).getD ts else ts
        match Thr.step st.cfg ts (.ask a) with
        | none =>
          IO.println s!"REJECT {st.id} {st.k} {acc} cannot return in the model state tpc={repr ts.tpc}"
          loop h { st with dead := true }
        | some ts' =>
          let r := match ts'.answers.getLast? with | some (_, r) => showAns r | none => "?"
          if r == impl then loop h { st with ts := some ts', settled := kind == "ask", k := st.k + 1 }
          else
            IO.println s!"MISMATCH {st.id} {st.k} {acc} model={r} impl={impl}"
            loop h { st with dead := true }
      else
        -- process
        let prep : Except String (List State) :=
          if kind == "early" then
            -- the target is running (kill phase `after`: the child has left run() but is alive)
            let n := match st.kill with | some (.after, _) => 4 | _ => 1
            .ok (st.ps.map (fun s => if s.cpc == .boot then advance st.cfg false n s else s))
          else if st.settled then .ok st.ps else settle st
        match prep with
        | .error e =>
          IO.println s!"NOFINAL {st.id} {st.k} {e}"
          loop h { st with dead := true }
        | .ok ss =>
          match askAll st.cfg ss a with
          | .error e =>
            IO.println s!"REJECT {st.id} {st.k} {e}"
            loop h { st with dead := true }
          | .ok (ss', rs) =>
            let shown := rs.map showAns
            if shown.all (· == impl) then
              loop h { st with ps := ss', settled := st.settled || kind == "ask", k := st.k + 1 }
            else
              IO.println s!"MISMATCH {st.id} {st.k} {acc} model={shown} impl={impl}"
              loop h { st with dead := true }
  | "end" :: _ =>
    if st.dead then loop h st else
    IO.println s!"ok {st.id} asks={st.k}"
    loop h { st with dead := true }
  | _ => loop h st

def main : IO Unit := do loop (← IO.getStdin) {}

end ProcOutcome.Drv
