import MpsVerif.Model.ProxyCall
import MpsVerif.Core.Sys
import MpsVerif.Drv.Util
/-!
Differential driver for the proxy-call model (`drv proxycall`).

    case <id>
    new <addr> list <vals> | dict | ns | cell <val> | ctr <int> <logaddr>
    op <client> <addr> <opname> <args…> => <observed outcome>
    psend <conn> <addr> <opname> <args…>      (a batch issued concurrently: all sends, …
    pexec <conn>                              … then the order in which the methods ran, as observed)
    pend => <observed outcome of every call>  (runs `Core.run (cstep pySem)`: sends, execs, recvs)
    state <addr> => <observed object>
    end

Every `op` is one `proxyStep pySem` (the definitions the C14 theorems are about); its outcome must
equal what the harness observed on the real manager server; `state` compares the hosted object.
Values: `n` None, `b0`/`b1`, `i<int>`, `p<code>` (plain value interned by the harness), `r<addr>`
(proxy); lists of values are comma separated, `-` when empty.
-/
namespace ProxyCall.Drv

def parseInt (s : String) : Option Int :=
  if s.startsWith "-" then (s.drop 1).toNat?.map (fun n => -(n : Int)) else s.toNat?.map (fun n => (n : Int))

def parseVal (s : String) : Option Val :=
  if s == "n" then some .none
  else if s == "b0" then some (.bool false)
  else if s == "b1" then some (.bool true)
  else if s.startsWith "i" then (parseInt (s.drop 1).toString).map .int
  else if s.startsWith "p" then (s.drop 1).toNat?.map .plain
  else if s.startsWith "r" then (s.drop 1).toNat?.map .ref
  else none

def parseVals (s : String) : Option (List Val) :=
  if s == "-" then some [] else (s.splitOn ",").mapM parseVal

def showVal : Val → String
  | .none => "n" | .bool b => if b then "b1" else "b0" | .int n => s!"i{n}" | .plain c => s!"p{c}" | .ref i => s!"r{i}"

def showVals (vs : List Val) : String := if vs.isEmpty then "-" else ",".intercalate (vs.map showVal)

def parseCls : String → ErrCls
  | "IndexError" => .index | "KeyError" => .key | "AttributeError" => .attr | "ValueError" => .value
  | "ZeroDivisionError" => .zeroDiv | "Boom" => .boom | _ => .type

def showCls : ErrCls → String
  | .index => "IndexError" | .key => "KeyError" | .attr => "AttributeError" | .value => "ValueError"
  | .zeroDiv => "ZeroDivisionError" | .boom => "Boom" | .type => "TypeError"

def parseOp : List String → Option POp
  | ["append", v] => do some (.append (← parseVal v))
  | ["extend", vs] => do some (.extend (← parseVals vs))
  | ["insert", k, v] => do some (.insert (← parseInt k) (← parseVal v))
  | ["popLast"] => some .popLast
  | ["pop", k] => do some (.pop (← parseInt k))
  | ["getitem", k] => do some (.getitem (← parseInt k))
  | ["setitem", k, v] => do some (.setitem (← parseInt k) (← parseVal v))
  | ["delitem", k] => do some (.delitem (← parseInt k))
  | ["len"] => some .len
  | ["reverse"] => some .reverse
  | ["slice"] => some .slice
  | ["imul", k] => do some (.imul (← parseInt k))
  | ["iadd", vs] => do some (.iadd (← parseVals vs))
  | ["view0"] => some .view0
  | ["view1"] => some .view1
  | ["dset", k, v] => do some (.dset (← parseVal k) (← parseVal v))
  | ["dget", k] => do some (.dget (← parseVal k))
  | ["ddel", k] => do some (.ddel (← parseVal k))
  | ["dpop", k] => do some (.dpop (← parseVal k))
  | ["dpopd", k, d] => do some (.dpopd (← parseVal k) (← parseVal d))
  | ["dgetd", k, d] => do some (.dgetd (← parseVal k) (← parseVal d))
  | ["dcontains", k] => do some (.dcontains (← parseVal k))
  | ["dcopy"] => some .dcopy
  | ["dclear"] => some .dclear
  | ["dsetdefault", k, v] => do some (.dsetdefault (← parseVal k) (← parseVal v))
  | ["dpopitem"] => some .dpopitem
  | ["nset", a, v] => do some (.nset (← a.toNat?) (← parseVal v))
  | ["nget", a] => do some (.nget (← a.toNat?))
  | ["ndel", a] => do some (.ndel (← a.toNat?))
  | ["vget"] => some .vget
  | ["vset", v] => do some (.vset (← parseVal v))
  | ["add", k] => do some (.add (← parseInt k))
  | ["cget"] => some .cget
  | ["fail", tag, cls] => do some (.fail (← tag.toNat?) (parseCls cls))
  | ["history"] => some .history
  | ["snapshot"] => some .snapshot
  | ["echo", vs] => do some (.echo (← parseVals vs))
  | ["poke", t, v] => do some (.poke (← parseVal t) (← parseVal v))
  | ["pokePop", t] => do some (.pokePop (← parseVal t))
  | ["relayFail", t, tag, cls] => do some (.relayFail (← parseVal t) (← tag.toNat?) (parseCls cls))
  | _ => none

def showOutcome : Outcome → String
  | .returned v => s!"ret {showVal v}"
  | .returnedVals vs => s!"vals {showVals vs}"
  | .raised e tb => s!"exc {showCls e} {if tb then "tb" else "notb"}"
  | .remoteError => "remoteError"

def showObj : Option Obj → String
  | some (.lst vs) => s!"L:{showVals vs}"
  | some (.dct kv) => "D:" ++ (if kv.isEmpty then "-" else ",".intercalate (kv.map fun p => s!"{showVal p.1}={showVal p.2}"))
  | some (.ns kv) => "N:" ++ (if kv.isEmpty then "-" else ",".intercalate (kv.map fun p => s!"{p.1}={showVal p.2}"))
  | some (.cell v) => s!"C:{showVal v}"
  | some (.ctr n _) => s!"T:{n}"
  | some (.hub _ _) => "H"
  | none => "none"

structure St where
  id : String := ""
  P : PState Heap := { srv := { heap := fun _ => none, hosted := fun _ => false }, conn := fun _ => false }
  k : Nat := 0
  dead : Bool := true
  sends : List (CAct POp) := []
  execs : List (CAct POp) := []

def splitArrow (ws : List String) : List String × String :=
  let pre := ws.takeWhile (· ≠ "=>")
  let post := (ws.dropWhile (· ≠ "=>")).drop 1
  (pre, " ".intercalate post)

def newObj (st : St) (addr : Nat) (o : Obj) (host : Bool := true) : St :=
  { st with P := { st.P with srv := { heap := upd st.P.srv.heap addr o,
                                        hosted := fun j => if j = addr then host else st.P.srv.hosted j } } }

partial def loop (h : IO.FS.Stream) (st : St) : IO Unit := do
  let line ← h.getLine
  if line.isEmpty then return ()
  match Drv.words line with
  | "case" :: id :: _ => loop h { id := id, dead := false }
  | "new" :: addr :: kind :: rest =>
    if st.dead then loop h st else
    let a := addr.toNat?.getD 0
    match kind, rest with
    | "list", [vs] => loop h (newObj st a (.lst ((parseVals vs).getD [])))
    | "dict", _ => loop h (newObj st a (.dct []))
    | "ns", _ => loop h (newObj st a (.ns []))
    | "cell", [v] => loop h (newObj st a (.cell ((parseVal v).getD .none)))
    | "hub", [x, y] =>
      let xa := x.toNat?.getD 0
      let ya := y.toNat?.getD 0
      loop h (newObj (newObj (newObj st xa (.lst []) false) ya (.lst []) false) a (.hub xa ya))
    | "ctr", [n, l] =>
      let la := l.toNat?.getD 0
      loop h (newObj (newObj st la (.lst []) false) a (.ctr ((parseInt n).getD 0) la))
    | _, _ =>
      IO.println s!"REJECT {st.id} {st.k} bad-new {kind} {rest}"
      loop h { st with dead := true }
  | "op" :: c :: addr :: rest =>
    if st.dead then loop h st else
    let (pre, want) := splitArrow rest
    match parseOp pre with
    | none =>
      IO.println s!"REJECT {st.id} {st.k} bad-op {pre}"
      loop h { st with dead := true }
    | some op =>
      let (P', o) := proxyStep pySem st.P ⟨c.toNat?.getD 0, addr.toNat?.getD 0, op⟩
      let got := showOutcome o
      if got == want then loop h { st with P := P', k := st.k + 1 }
      else
        IO.println s!"MISMATCH {st.id} op {st.k} `{" ".intercalate pre}` on {addr} by client {c}: model `{got}` / observed `{want}`"
        loop h { st with dead := true }
  | "psend" :: c :: addr :: rest =>
    if st.dead then loop h st else
    match parseOp rest with
    | none =>
      IO.println s!"REJECT {st.id} {st.k} bad-op {rest}"
      loop h { st with dead := true }
    | some op => loop h { st with sends := st.sends ++ [.send (c.toNat?.getD 0) (addr.toNat?.getD 0) op] }
  | "pexec" :: c :: _ =>
    if st.dead then loop h st else loop h { st with execs := st.execs ++ [.exec (c.toNat?.getD 0)] }
  | "pend" :: rest =>
    if st.dead then loop h st else
    let (_, want) := splitArrow rest
    let recvs := st.execs.map fun a => match a with
      | .exec c => CAct.recv c
      | a => a
    match Core.run (cstep pySem) (cinit st.P.srv) (st.sends ++ st.execs ++ recvs) with
    | none =>
      IO.println s!"REJECT {st.id} {st.k} the concurrent batch is not a run of the model"
      loop h { st with dead := true }
    | some cs =>
      let bad := cs.got.filter fun x => showOutcome x.2 != want
      if bad.isEmpty && cs.got.length == st.sends.length then
        loop h { st with P := { st.P with srv := cs.srv }, k := st.k + cs.got.length, sends := [], execs := [] }
      else
        IO.println s!"MISMATCH {st.id} concurrent batch at {st.k}: model outcomes {cs.got.map (fun x => showOutcome x.2)} / observed all `{want}`"
        loop h { st with dead := true }
  | "state" :: addr :: rest =>
    if st.dead then loop h st else
    let (_, want) := splitArrow rest
    let got := showObj (st.P.srv.heap (addr.toNat?.getD 0))
    if got == want then loop h st
    else
      IO.println s!"MISMATCH {st.id} final state of {addr}: model `{got}` / observed `{want}`"
      loop h { st with dead := true }
  | "end" :: _ =>
    if st.dead then loop h st else
    IO.println s!"ok {st.id} ops={st.k}"
    loop h { st with dead := true }
  | _ => loop h st

def main : IO Unit := do loop (← IO.getStdin) {}

end ProxyCall.Drv
