import MpsVerif.Model.Refcount
import MpsVerif.Core.Sys
import MpsVerif.Drv.Util
/-!
Differential driver for the reference-counting model (`drv refcount`).

The harness sends, per step of a history run on the real manager server, the operation(s) it
performed (`m <macro> …`) and what it then observed on the real server once it had quiesced
(`obs rc=<ident>:<count>,… shm=<ident>,…`).  A macro is expanded into the list of atomic model
actions the real code performs for it (`expand`), run through `Core.run step` — the definitions
the C13 theorems are about — followed by `quiesce`; the model's table of hosted objects, their
counts and the linked shared-memory blocks must then equal the observation.
-/
namespace Refcount.Drv

inductive Macro where
  | create (p : Nat) (k : Kind) (i : Nat)   -- manager.<typeid>(…) or a hosted method returning managed(<new object>)
  | manage (p i : Nat)                      -- a hosted method returning managed(<object that already has an entry>)
  | pickle (p i : Nat)
  | unpickle (q i : Nat)                    -- ordinary, or while the spawned child `q` bootstraps
  | delete (p i : Nat)
  | store (p c i : Nat)                     -- c.append(x) / c[k] = x through p's proxies
  | pop (p c i : Nat)                       -- c.pop(…) returns the nested proxy to p
  | delitem (p c i : Nat)                   -- del c[k] / c.clear() / overwrite: the nested proxy is dropped in the server
  | getitem (p c i : Nat)                   -- c[k] returns (a copy of) the nested proxy to p
  | pass (p c i : Nat)                       -- a method of `c` gets the proxy as an argument and does not keep it
                                             --   (count / index / a call that raises): dropped with the request
  | fork (p q i : Nat)                       -- `q` forked from `p` inherits `p`'s proxy of `i` (one macro per inherited proxy)
  | call (p i : Nat)
  | exit (q : Nat)

def expand (s : State) : Macro → List Act
  | .create p k i => [.create k i, .pickle .temp i, .drop .temp i, .unpickle (.client p) i, .drop .rebuild i]
  | .manage p i => [.manage i, .pickle .temp i, .drop .temp i, .unpickle (.client p) i, .drop .rebuild i]
  | .pickle p i => [.pickle (.client p) i]
  | .unpickle q i => [.unpickle (.client q) i, .drop .rebuild i]
  | .delete p i => [.drop (.client p) i]
  | .store p c i => [.call p c, .pickle (.client p) i, .unpickle .temp i, .drop .rebuild i, .store c i]
  | .pop p c i => [.call p c, .unstore c i, .pickle .temp i, .drop .temp i, .unpickle (.client p) i, .drop .rebuild i]
  | .delitem p c i => [.call p c, .unstore c i, .drop .temp i]
  | .getitem p c i => [.call p c, .pickle (.item c) i, .unpickle (.client p) i, .drop .rebuild i]
  | .pass p c i => [.call p c, .pickle (.client p) i, .unpickle .temp i, .drop .rebuild i]   -- `quiesce` drops the temp
  | .fork p q i => [.fork p q i]
  | .call p i => [.call p i]
  | .exit q =>
    .exitBegin q :: ((s.refs.filter (fun r => r.1 == .client q)).map (fun r => .drop (.client q) r.2)) ++ [.exitEnd q]

def parseKind : String → Kind
  | "cont" => .cont | "mem" => .mem | _ => .plain

def parseMacro : List String → Option Macro
  | ["create", p, k, i] => do some (.create (← p.toNat?) (parseKind k) (← i.toNat?))
  | ["manage", p, i] => do some (.manage (← p.toNat?) (← i.toNat?))
  | ["pickle", p, i] => do some (.pickle (← p.toNat?) (← i.toNat?))
  | ["unpickle", q, i] => do some (.unpickle (← q.toNat?) (← i.toNat?))
  | ["delete", p, i] => do some (.delete (← p.toNat?) (← i.toNat?))
  | ["store", p, c, i] => do some (.store (← p.toNat?) (← c.toNat?) (← i.toNat?))
  | ["pop", p, c, i] => do some (.pop (← p.toNat?) (← c.toNat?) (← i.toNat?))
  | ["delitem", p, c, i] => do some (.delitem (← p.toNat?) (← c.toNat?) (← i.toNat?))
  | ["getitem", p, c, i] => do some (.getitem (← p.toNat?) (← c.toNat?) (← i.toNat?))
  | ["pass", p, c, i] => do some (.pass (← p.toNat?) (← c.toNat?) (← i.toNat?))
  | ["fork", p, q, i] => do some (.fork (← p.toNat?) (← q.toNat?) (← i.toNat?))
  | ["call", p, i] => do some (.call (← p.toNat?) (← i.toNat?))
  | ["exit", q] => do some (.exit (← q.toNat?))
  | _ => none

structure St where
  id : String := ""
  s : State := init
  n : Nat := 0            -- idents below `n` have been used
  k : Nat := 0            -- observations compared so far
  acts : Nat := 0         -- atomic model actions executed
  dead : Bool := true

def table (st : St) : String :=
  let ids := (List.range st.n).filter (fun i => st.s.hosted i)
  let rc := ",".intercalate (ids.map fun i => s!"{i}:{st.s.rc i}")
  let shm := Drv.showNats ((List.range st.n).filter (fun i => st.s.shm i))
  s!"rc={rc} shm={shm}"

def maxIdent : Macro → Nat
  | .create _ _ i | .manage _ i | .pickle _ i | .unpickle _ i | .delete _ i | .call _ i | .fork _ _ i => i + 1
  | .store _ c i | .pop _ c i | .delitem _ c i | .getitem _ c i | .pass _ c i => max c i + 1
  | .exit _ => 0

partial def loop (h : IO.FS.Stream) (st : St) : IO Unit := do
  let line ← h.getLine
  if line.isEmpty then return ()
  match Drv.words line with
  | "case" :: id :: _ => loop h { id := id, dead := false }
  | "m" :: rest =>
    if st.dead then loop h st else
    match parseMacro rest with
    | none =>
      IO.println s!"REJECT {st.id} {st.k} bad-macro {rest}"
      loop h { st with dead := true }
    | some m =>
      let as := expand st.s m
      match Core.run step st.s as with
      | none =>
        IO.println s!"REJECT {st.id} {st.k} macro `{" ".intercalate rest}` is not a run of the model from its current state ({table st})"
        loop h { st with dead := true }
      | some s' =>
        loop h { st with s := quiesce s'.refs.length s', n := max st.n (maxIdent m), acts := st.acts + as.length }
  | "obs" :: rest =>
    if st.dead then loop h st else
    let kv := Drv.kvs rest
    let want := s!"rc={Drv.getS kv "rc"} shm={Drv.getS kv "shm"}"
    let got := table st
    if want == got then loop h { st with k := st.k + 1 }
    else
      IO.println s!"MISMATCH {st.id} step {st.k}: model {got} / observed {want}"
      loop h { st with dead := true }
  | "end" :: _ =>
    if st.dead then loop h st else
    let left := st.s.refs.length
    IO.println s!"ok {st.id} steps={st.k} actions={st.acts} refsLeft={left}"
    loop h { st with dead := true }
  | _ => loop h st

def main : IO Unit := do loop (← IO.getStdin) {}

end Refcount.Drv
