import MpsVerif.Model.RemoteExc
import MpsVerif.Legacy.RemoteExc
import MpsVerif.Drv.Util
/-!
Differential driver for the `RemoteException` model (`drv remoteexc`).

    fmt H=<toks> N=<toks> S=<toks>
    case <id> <tree>
    okq <id>                                        → `okq <id> <0|1>`           (`Exc.ok`)
    hop <id> <k> proc=<toks> rr=<toks|-> arg=<d|s:<toks>|t:<toks>>
                                                    → `wrp <id> <k> t=<toks> <tree>` | `wrp <id> <k> none`
                                                      (the constructor alone: `wrapWith` = `(self.exc, self.tb)`)
                                                      `out <id> <k> <tree>` | `out <id> <k> none`

    memo <id> <oid>;<cls>;<arg>;<toks> ...          → `memo <id> P=<toks>|<toks>|… R=<toks>|…`
        one unpickling of a flat list of `RemoteException`s with object identities in the heap model
        of `Legacy/RemoteExc.lean`: the texts the entries arrive with under the pinned (`P`) and the
        repaired (`R`) `_rebuild_exception`

tree  ::= E <cls> a:<nats> l:<toks|-> k:n | k:r:<toks> | k:o:<toks>  entry* .
entry ::= V <nat> | X tree | W w:<toks> tree
`<toks>` = comma separated naturals (possibly empty).  After a successful hop the case's current
exception is the result (what the next `hop` line applies to); after `none` it is unchanged.
`arg=d` runs `RemoteExc.step` — the function the C15 theorems are about; the explicit `tb`
arguments run `hopWith` on the same (possibly re-raised) exception.
-/
namespace RemoteExc.Drv

def showToks (t : Text) : String := Drv.showNats t

def showCause : Cause → String
  | .none => "k:n"
  | .remote t => "k:r:" ++ showToks t
  | .other t => "k:o:" ++ showToks t

mutual
partial def showExc : Exc → String
  | .mk c a l k m =>
    s!"E {c} a:{Drv.showNats a} l:{match l with | none => "-" | some t => showToks t} {showCause k}{showMems m} ."
partial def showMems : Mems → String
  | .nil => ""
  | .val v r => s!" V {v}" ++ showMems r
  | .exc e r => " X " ++ showExc e ++ showMems r
  | .rem e t r => s!" W w:{showToks t} " ++ showExc e ++ showMems r
end

def afterColon (s : String) : String :=
  ":".intercalate ((s.splitOn ":").drop 1)

def parseOptToks (s : String) : Option Text := if s == "-" then none else some (Drv.natList s)

def parseCause (s : String) : Option Cause :=
  match s.splitOn ":" with
  | ["k", "n"] => some .none
  | ["k", "r", t] => some (.remote (Drv.natList t))
  | ["k", "o", t] => some (.other (Drv.natList t))
  | _ => none

mutual
partial def parseExc : List String → Option (Exc × List String)
  | "E" :: c :: a :: l :: k :: rest =>
    match c.toNat?, parseCause k, parseMems rest with
    | some c, some k, some (m, rest') =>
      some (.mk c (Drv.natList (afterColon a)) (parseOptToks (afterColon l)) k m, rest')
    | _, _, _ => none
  | _ => none
partial def parseMems : List String → Option (Mems × List String)
  | "." :: rest => some (.nil, rest)
  | "V" :: v :: rest =>
    match v.toNat?, parseMems rest with
    | some v, some (m, rest') => some (.val v m, rest')
    | _, _ => none
  | "X" :: rest =>
    match parseExc rest with
    | some (e, rest1) =>
      match parseMems rest1 with
      | some (m, rest2) => some (.exc e m, rest2)
      | none => none
    | none => none
  | "W" :: w :: rest =>
    match parseExc rest with
    | some (e, rest1) =>
      match parseMems rest1 with
      | some (m, rest2) => some (.rem e (Drv.natList (afterColon w)) m, rest2)
      | none => none
    | none => none
  | _ => none
end

def parseArg (s : String) : Option TbArg :=
  match s.splitOn ":" with
  | ["d"] => some .dflt
  | ["s", t] => some (.str (Drv.natList t))
  | ["t", t] => some (.tb (Drv.natList t))
  | _ => none

structure St where
  F : Fmt := ⟨[], [], []⟩
  id : String := ""
  cur : Option Exc := none

partial def loop (h : IO.FS.Stream) (st : St) : IO Unit := do
  let line ← h.getLine
  if line.isEmpty then return ()
  let ws := Drv.words line
  match ws with
  | "fmt" :: rest =>
    let kv := Drv.kvs rest
    loop h { st with F := ⟨Drv.getL kv "H", Drv.getL kv "N", Drv.getL kv "S"⟩ }
  | "case" :: id :: rest =>
    match parseExc rest with
    | some (e, []) => loop h { st with id := id, cur := some e }
    | _ =>
      IO.println s!"BAD {id} cannot parse the tree"
      loop h { st with id := id, cur := none }
  | ["okq", id] =>
    match st.cur with
    | some e => IO.println s!"okq {id} {if e.ok then 1 else 0}"
    | none => IO.println s!"BAD {id} no case"
    loop h st
  | "hop" :: id :: k :: rest =>
    let kv := Drv.kvs rest
    match st.cur, parseArg (Drv.getS kv "arg" "d") with
    | some e, some ar =>
      let hp : Hop := ⟨Drv.getL kv "proc", parseOptToks (Drv.getS kv "rr" "-")⟩
      let pre := match hp.reraise with | none => e | some own => e.raised own
      match wrapWith st.F hp.proc ar pre with
      | some (w, t) => IO.println s!"wrp {id} {k} t={showToks t} {showExc w}"
      | none => IO.println s!"wrp {id} {k} none"
      let r := match ar with
        | .dflt => step st.F e hp
        | ar => hopWith st.F hp.proc ar pre
      match r with
      | some e' =>
        IO.println s!"out {id} {k} {showExc e'}"
        loop h { st with cur := some e' }
      | none =>
        IO.println s!"out {id} {k} none"
        loop h st
    | _, _ =>
      IO.println s!"BAD {id} hop {k}"
      loop h st
  | "memo" :: id :: rest =>
    let ents : List Legacy.Ent := rest.filterMap fun w =>
      match w.splitOn ";" with
      | [o, c, a, t] => some ⟨o.toNat?.getD 0, c.toNat?.getD 0, Drv.natList a, Drv.natList t⟩
      | _ => none
    let sh (l : List Legacy.Out) : String := "|".intercalate (l.map fun o => showToks o.text)
    IO.println s!"memo {id} P={sh (Legacy.pkPinned ents)} R={sh (Legacy.pkRepaired ents)}"
    loop h st
  | _ => loop h st

def main : IO Unit := do loop (← IO.getStdin) {}

end RemoteExc.Drv
