import MpsVerif.Model.Servlet
import MpsVerif.Drv.Util
/-!
Driver for the servlet-tree model (`drv servlet`).

Two services per case, both running the definitions the theorems are about:
* outcome oracle: `out <req> <val>` asks whether `val ∈ outs tree (nat req)`;
* per-node trace validation: `node …` opens a node of the tree (worker / ensemble / switch) with its
  operational model, `a …` lines are the recorded events of the real run mapped to model actions
  (the driver resolves list positions — which held items form the batch, which pending entry a
  member answers — from the uids in the event), `endnode` closes it.  Every action must be enabled
  (`step … = some …`) and every message the real node put on its output queue must be the message
  the model puts.

Value code (prefix, no blanks): `N<n>` | `O` (None) | `Z` (nil) | `P<a><b>` (cons / pair) | `E<tag>:<payload>`.
Function library shared with `harness/scen_servlet.py`: a worker with mark `k` maps `x` to the pair
`(x, k)`; failure plans are sets of request numbers; the request number of a value is its leftmost
leaf (`reqOf`).
-/
namespace Servlet.Drv

def reqOf : Val → Nat
  | .nat n => n
  | .cons a _ => reqOf a
  | .exc _ p => reqOf p
  | _ => 0

structure WCfg where
  mark : Nat
  bs : Nat
  nw : Nat
  hasPre : Bool
  pf : List Nat
  cf : List Nat
  bp : List Nat

def mkW (c : WCfg) : WSpec :=
  { pre := fun x => if c.hasPre && c.pf.contains (reqOf x) then .exc (1000 + c.mark) (.nat (reqOf x)) else x
    f := fun x => if c.cf.contains (reqOf x) then .exc (2000 + c.mark) (.nat (reqOf x)) else .cons x (.nat c.mark)
    bs := c.bs
    bfail := fun B => if B.any (fun x => c.bp.contains (reqOf x)) then some (.exc (3000 + c.mark) .nil) else none
    berrs := [.exc (3000 + c.mark) .nil]
    nw := c.nw }

partial def showVal : Val → String
  | .nat n => s!"N{n}"
  | .none => "O"
  | .nil => "Z"
  | .cons a b => "P" ++ showVal a ++ showVal b
  | .exc t p => s!"E{t}:" ++ showVal p

def digits (cs : List Char) : Nat × List Char :=
  let ds := cs.takeWhile Char.isDigit
  (ds.foldl (fun n c => 10 * n + (c.toNat - '0'.toNat)) 0, cs.dropWhile Char.isDigit)

partial def parseVal : List Char → Option (Val × List Char)
  | 'N' :: cs => let (n, r) := digits cs; some (.nat n, r)
  | 'O' :: cs => some (.none, cs)
  | 'Z' :: cs => some (.nil, cs)
  | 'P' :: cs => do
    let (a, r1) ← parseVal cs
    let (b, r2) ← parseVal r1
    some (.cons a b, r2)
  | 'E' :: cs =>
    let (n, r) := digits cs
    match r with
    | ':' :: r' => do
      let (p, r2) ← parseVal r'
      some (.exc n p, r2)
    | _ => none
  | _ => none

def readVal (s : String) : Option Val :=
  match parseVal s.toList with
  | some (v, []) => some v
  | _ => none

def nats (s : String) : List Nat := if s == "-" then [] else Drv.natList s

/-- tree spec tokens: `w mark bs nw haspre pf cf bp` | `s n t…` | `e ff n t…` | `x n t…` -/
partial def parseTree : List String → Option (Tree × List String)
  | "w" :: mark :: bs :: nw :: hp :: pf :: cf :: bp :: rest =>
    some (.worker (mkW { mark := mark.toNat!, bs := bs.toNat!, nw := nw.toNat!, hasPre := hp == "1",
                         pf := nats pf, cf := nats cf, bp := nats bp }), rest)
  | "s" :: n :: rest => do
    let (ts, r) ← parseTrees n.toNat! rest
    some (.seq ts, r)
  | "e" :: ff :: n :: rest => do
    let (ts, r) ← parseTrees n.toNat! rest
    some (.ens ts (ff == "1"), r)
  | "x" :: n :: rest => do
    let (ts, r) ← parseTrees n.toNat! rest
    some (.switch ts (fun x => reqOf x % n.toNat!), r)
  | _ => none
where
  parseTrees : Nat → List String → Option (List Tree × List String)
    | 0, toks => some ([], toks)
    | k+1, toks => do
      let (t, r) ← parseTree toks
      let (ts, r2) ← parseTrees k r
      some (t :: ts, r2)

/-- the node under trace validation -/
inductive Node where
  | none
  | wk (w : WSpec) (s : Wk.State)
  | ens (ms : List (Val → List Val)) (ff : Bool) (s : Ens.State)
  | sw (ms : List (Val → List Val)) (sel : Val → Nat) (s : Sw.State)

structure St where
  id : String := ""
  tree : Option Tree := none
  dead : Bool := true
  node : Node := .none
  path : String := ""
  k : Nat := 0           -- events of the current node
  nOut : Nat := 0
  nEv : Nat := 0
  nNodes : Nat := 0

def uidsOf (s : String) : List Nat := nats s

def maskFor (held : List Wk.Item) (us : List Nat) : List Bool := held.map (fun t => us.contains t.1)

def findIdx {α : Type} (l : List α) (p : α → Bool) : Nat := (l.findIdx? p).getD l.length

/-- one recorded event → (model action, optional check on the successor state), or an error -/
def wkAct (s : Wk.State) : List String → Except String Wk.Act
  | ["arrive", u, v] => match readVal v with
    | some x => .ok (.arrive (u.toNat!, x))
    | none => .error "bad value"
  | ["take", u] => if (s.qin.head?.map (·.1)) == some u.toNat! then .ok .take else .error s!"take {u}: head of q_in is {repr (s.qin.head?.map (·.1))}"
  | ["start", us] =>
    let m := maskFor s.held (uidsOf us)
    if (Wk.pick s.held m).map (·.1) == uidsOf us then .ok (.start m)
    else .error s!"start {us}: held uids {repr (s.held.map (·.1))}"
  | ["finish", us] => .ok (.finish (findIdx s.busy (fun b => b.map (·.1) == uidsOf us)))
  | ["emit", u, v] =>
    let k := findIdx s.emitq (fun t => t.1 == u.toNat!)
    match s.emitq[k]?, readVal v with
    | some t, some y => if t.2.2 == y then .ok (.emit k) else .error s!"emit {u}: code put {v}, model puts {showVal t.2.2}"
    | _, _ => .error s!"emit {u}: nothing to emit for this uid in the model"
  | ["deliver", u] => if (s.qout.head?.map (·.1)) == some u.toNat! then .ok .deliver else .error s!"deliver {u}: not the head of q_out"
  | e => .error s!"bad event {e}"

def ensAct (s : Ens.State) : List String → Except String Ens.Act
  | ["arrive", u, v] => match readVal v with
    | some x => .ok (.arrive (u.toNat!, x))
    | none => .error "bad value"
  | ["enq", u] => if (s.qin.head?.map (·.1)) == some u.toNat! then .ok .enq else .error s!"enq {u}: not the head of q_in"
  | ["mout", i, u, v] => match readVal v with
    | some y => .ok (.memberOut (findIdx s.pend (fun m => m.1 == i.toNat! && m.2.1 == u.toNat!)) y)
    | none => .error "bad value"
  | ["deq", i, u] => .ok (.deq (findIdx s.mout (fun m => m.1 == i.toNat! && m.2.1 == u.toNat!)))
  | ["emit", u, v] =>
    let k := findIdx s.emitq (fun t => t.1 == u.toNat!)
    match s.emitq[k]?, readVal v with
    | some t, some y => if t.2.2 == y then .ok (.emit k) else .error s!"emit {u}: code put {v}, model puts {showVal t.2.2}"
    | _, _ => .error s!"emit {u}: nothing to emit for this uid in the model"
  | ["deliver", u] => if (s.qout.head?.map (·.1)) == some u.toNat! then .ok .deliver else .error s!"deliver {u}: not the head of q_out"
  | e => .error s!"bad event {e}"

def swAct (s : Sw.State) : List String → Except String Sw.Act
  | ["arrive", u, v] => match readVal v with
    | some x => .ok (.arrive (u.toNat!, x))
    | none => .error "bad value"
  | ["enq", u] => if (s.qin.head?.map (·.1)) == some u.toNat! then .ok .enq else .error s!"enq {u}: not the head of q_in"
  | ["mout", i, u, v] => match readVal v with
    | some y => .ok (.memberOut (findIdx s.pend (fun m => m.1 == i.toNat! && m.2.1 == u.toNat!)) y)
    | none => .error "bad value"
  | ["emit", u, v] =>
    let k := findIdx s.emitq (fun t => t.1 == u.toNat!)
    match s.emitq[k]?, readVal v with
    | some t, some y => if t.2.2 == y then .ok (.emit k) else .error s!"emit {u}: code put {v}, model puts {showVal t.2.2}"
    | _, _ => .error s!"emit {u}: nothing to emit for this uid in the model"
  | ["deliver", u] => if (s.qout.head?.map (·.1)) == some u.toNat! then .ok .deliver else .error s!"deliver {u}: not the head of q_out"
  | e => .error s!"bad event {e}"

def nodeStep (n : Node) (ev : List String) : Except String Node :=
  match n with
  | .none => .error "no node open"
  | .wk w s => do
    let a ← wkAct s ev
    match Wk.step w s a with
    | some s' => .ok (.wk w s')
    | none => .error s!"action {repr a} not enabled"
  | .ens ms ff s => do
    let a ← ensAct s ev
    match Ens.step ms ff s a with
    | some s' => .ok (.ens ms ff s')
    | none => .error s!"action {repr a} not enabled"
  | .sw ms sel s => do
    let a ← swAct s ev
    match Sw.step ms sel s a with
    | some s' => .ok (.sw ms sel s')
    | none => .error s!"action {repr a} not enabled"

/-- at the end of a node's trace: is the model state at rest, and did it answer everything? -/
def nodeRest (n : Node) : Bool × String :=
  match n with
  | .none => (true, "")
  | .wk _ s => (s.qin.isEmpty && s.held.isEmpty && s.busy.isEmpty && s.emitq.isEmpty && s.qout.isEmpty
                  && s.sentG.length == s.recv.length,
                s!"qin={s.qin.length} held={s.held.length} busy={s.busy.length} emitq={s.emitq.length} qout={s.qout.length} recv={s.recv.length} sent={s.sentG.length}")
  | .ens _ _ s => (s.qin.isEmpty && s.pend.isEmpty && s.mout.isEmpty && s.emitq.isEmpty && s.qout.isEmpty && s.cat.isEmpty
                  && s.sentG.length == s.recv.length,
                s!"qin={s.qin.length} pend={s.pend.length} mout={s.mout.length} emitq={s.emitq.length} cat={s.cat.length} qout={s.qout.length} recv={s.recv.length} sent={s.sentG.length}")
  | .sw _ _ s => (s.qin.isEmpty && s.pend.isEmpty && s.emitq.isEmpty && s.qout.isEmpty && s.sentG.length == s.recv.length,
                s!"qin={s.qin.length} pend={s.pend.length} emitq={s.emitq.length} qout={s.qout.length} recv={s.recv.length} sent={s.sentG.length}")

def openNode (toks : List String) : Option Node :=
  match parseTree toks with
  | some (.worker w, _) => some (.wk w Wk.init)
  | some (.ens ts ff, _) => some (.ens (ts.map outs) ff Ens.init)
  | some (.switch ts sel, _) => some (.sw (ts.map outs) sel Sw.init)
  | _ => none

partial def loop (h : IO.FS.Stream) (st : St) : IO Unit := do
  let line ← h.getLine
  if line.isEmpty then return ()
  let ws := Drv.words line
  match ws with
  | "case" :: id :: toks =>
    match parseTree toks with
    | some (t, []) => loop h { id := id, tree := some t, dead := false }
    | _ =>
      IO.println s!"REJECT {id} 0 bad tree spec"
      loop h { id := id, dead := true }
  | ["out", r, v] =>
    if st.dead then loop h st else
    match st.tree, readVal v with
    | some t, some y =>
      let allowed := outs t (.nat r.toNat!)
      if allowed.contains y then loop h { st with nOut := st.nOut + 1 }
      else
        IO.println s!"MISMATCH {st.id} request {r}: the code delivered {v}; the model allows {allowed.map showVal}"
        loop h { st with dead := true }
    | _, _ =>
      IO.println s!"REJECT {st.id} 0 bad outcome value {v}"
      loop h { st with dead := true }
  | ["dupuid", u] =>
    if st.dead then loop h st else
    IO.println s!"REJECT {st.id} proviso: uid {u} was handed to the servlet tree twice — the distinct-uid hypothesis of C02_tree / C02_node_ensemble does not hold on this run"
    loop h { st with dead := true }
  | "node" :: path :: toks =>
    if st.dead then loop h st else
    match openNode toks with
    | some n => loop h { st with node := n, path := path, k := 0, nNodes := st.nNodes + 1 }
    | none =>
      IO.println s!"REJECT {st.id} 0 bad node spec at {path}"
      loop h { st with dead := true }
  | "a" :: ev =>
    if st.dead then loop h st else
    match nodeStep st.node ev with
    | .ok n => loop h { st with node := n, k := st.k + 1, nEv := st.nEv + 1 }
    | .error msg =>
      IO.println s!"REJECT {st.id} node {st.path} event {st.k} `{" ".intercalate ev}`: {msg}"
      loop h { st with dead := true }
  | "endnode" :: rest =>
    if st.dead then loop h st else
    let wantRest := Drv.getN (Drv.kvs rest) "rest" == 1
    let (ok, descr) := nodeRest st.node
    if wantRest && !ok then
      IO.println s!"NOFINAL {st.id} node {st.path}: the code came to rest but the model state is not at rest / not complete: {descr}"
      loop h { st with dead := true }
    else loop h { st with node := .none }
  | "end" :: _ =>
    if st.dead then loop h st else
    IO.println s!"ok {st.id} outcomes={st.nOut} nodes={st.nNodes} events={st.nEv}"
    loop h { st with dead := true }
  | _ => loop h st

def main : IO Unit := do loop (← IO.getStdin) {}

end Servlet.Drv
