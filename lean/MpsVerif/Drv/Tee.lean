import MpsVerif.Model.Tee
import MpsVerif.Legacy.Tee
import MpsVerif.Core.Validate
import MpsVerif.Drv.Util
/-! Trace-validation driver for the `tee` model (`drv tee`).

Every recorded event is one model action (the harness observes every shared-state access of
`Fork.__next__`), so there are no internal steps to infer: the driver replays the event list with
`Tee.step` (through the generic validator with an empty τ set, so `validate_sound` applies) and
checks each event's payload (value read, box id, count, element index) against the model state. -/
namespace Tee.Drv
open Core.Val

/-- comparison used only for de-duplication inside the validator (first 16 forks / 64 boxes) -/
instance : BEq State where
  beq a b :=
    a.pulled == b.pulled && a.raised == b.raised && a.endPulls == b.endPulls && a.boxes == b.boxes
      && a.linked == b.linked && a.put == b.put && a.popped == b.popped && a.lock == b.lock
      && (List.range 16).all (fun f => a.forks f == b.forks f)
      && (List.range 64).all (fun j => a.cnt j == b.cnt j)

def sysOf (stp : State → Act → Option State) : LSys State Act Act :=
  { step := stp
    label := fun a => some a
    taus := fun _ => []
    cands := fun _ e => [e] }

def sys (c : Cfg) : LSys State Act Act :=
  { step := step c
    label := fun a => some a
    taus := fun _ => []
    cands := fun _ e => [e] }

theorem sys_wf (c : Cfg) : WF (sys c) := by
  constructor
  · intro s a ha; simp [sys] at ha
  · intro s e a ha; simp [sys] at ha; subst ha; rfl

/-- a recorded event: the action and its payload -/
structure Ev where
  act : Act
  args : List Nat

def arg (e : Ev) (i : Nat) : Nat := e.args.getD i 0

/-- payload check on the successor state -/
def keep (e : Ev) (s : State) : Bool :=
  let fk := s.forks e.act.f
  match e.act.k with
  | .hget => (s.linked == 0) == (arg e 0 == 1)
  | .pull => s.pulled == arg e 0 + 1
  | .put => s.put == arg e 0 + 1
  | .get => s.popped == arg e 0 + 1
  | .nget =>
    let box := arg e 0
    (decide (box + 1 < s.linked)) != (arg e 1 == 1)
      && (fk.cur == some box || fk.pc == .ret box || fk.pc == .retExc)
  | .nset => s.linked == arg e 0 + 2 && arg e 1 + 1 == s.boxes && arg e 1 == arg e 0 + 1
  | .inc => s.cnt (arg e 0) == arg e 1 && fk.cur == some (arg e 0)
  | .ncmp => s.cnt (arg e 0) == arg e 1 && fk.cur == some (arg e 0)
  | .bacq => fk.cur == some (arg e 0)
  | .brel => fk.cur == some (arg e 0)
  | .recv => fk.out.getLast? == some (arg e 0)
  | _ => true

def parseKind (name : String) (args : List Nat) : Option Kind :=
  match name with
  | "call" => some .call | "hget" => some .hget
  | "acq" => some (if args.getD 0 0 == 1 then .acqOk else .acqFail)
  | "rel" => some .rel | "pull" => some .pull | "srcEnd" => some .srcEnd | "srcExc" => some .srcExc
  | "put" => some .put | "get" => some .get | "hset" => some .hset | "nget" => some .nget
  | "nset" => some .nset | "bacq" => some .bacq | "brel" => some .brel | "inc" => some .inc | "ncmp" => some .ncmp
  | "recv" => some .recv | "stop" => some .stop | "exc" => some .exc
  | _ => none

def mkCfg (kv : List (String × String)) : Cfg :=
  { n := Drv.getN kv "forks" 2, bs := Drv.getN kv "bs" 2, len := Drv.getN kv "len",
    fail := Drv.getN kv "fail" == 1 }

structure St where
  legacy : Bool := false
  id : String := ""
  cfg : Cfg := mkCfg []
  ss : List State := []
  k : Nat := 0
  dead : Bool := true
  nspin : Nat := 0

def showFin : Option Fin → String
  | none => "none" | some .stop => "stop" | some .exc => "exc"

def allDone (c : Cfg) (s : State) : Bool := (List.range c.n).all (fun f => (s.forks f).pc == .done)

def summaryOk (c : Cfg) (kv : List (String × String)) (s : State) : Bool :=
  let outs := Drv.getL kv "outs"
  let fins := (Drv.getS kv "fins").splitOn ","
  allDone c s && s.lock == none
    && (List.range c.n).all (fun f =>
          (s.forks f).out == List.range (outs.getD f 0) && showFin (s.forks f).fin == fins.getD f "?")

def describe (c : Cfg) (s : State) : String :=
  let fs := (List.range c.n).map (fun f =>
    let fk := s.forks f
    s!"[{repr fk.pc} cur={fk.cur} out={fk.out.length} fin={showFin fk.fin}]")
  s!"pulled={s.pulled} raised={s.raised} boxes={s.boxes} linked={s.linked} put={s.put} popped={s.popped} lock={s.lock} forks={fs}"

partial def loop (h : IO.FS.Stream) (st : St) : IO Unit := do
  let line ← h.getLine
  if line.isEmpty then return ()
  let ws := Drv.words line
  match ws with
  | "case" :: id :: rest =>
    loop h { legacy := st.legacy, id := id, cfg := mkCfg (Drv.kvs rest), ss := [init], k := 0, dead := false }
  | "e" :: name :: fs :: rest =>
    if st.dead then loop h st else
    let args := rest.filterMap String.toNat?
    match parseKind name args, fs.toNat? with
    | some k, some f =>
      let ev : Ev := { act := { f := f, k := k }, args := args }
      let spin := match st.ss.head? with
        | some s => isSpin st.cfg s ev.act
        | none => false
      let S := if st.legacy then sysOf (Legacy.stepL st.cfg) else sys st.cfg
      let ss' := vstep S 0 Ev.act keep st.ss ev
      if ss'.isEmpty then
        let descr := match st.ss.head? with
          | some s => describe st.cfg s
          | none => "-"
        let why := if (obsStep S st.ss ev.act).isEmpty then "not enabled" else "payload differs"
        IO.println s!"REJECT {st.id} {st.k} event `{name} {fs} {rest}` {why} in model state {descr}"
        loop h { st with dead := true }
      else loop h { st with ss := ss', k := st.k + 1, nspin := st.nspin + (if spin then 1 else 0) }
    | _, _ =>
      IO.println s!"REJECT {st.id} {st.k} bad-event {name} {fs}"
      loop h { st with dead := true }
  | "end" :: rest =>
    if st.dead then loop h st else
    let kv := Drv.kvs rest
    let partialRun := Drv.getN kv "partial" == 1
    let good := st.ss.filter (fun s => partialRun || summaryOk st.cfg kv s)
    if good.isEmpty then
      let descr := match st.ss.head? with
        | some s => describe st.cfg s
        | none => "-"
      IO.println s!"NOFINAL {st.id} {st.k} the model state after the trace does not match the summary {rest}: {descr}"
    else
      IO.println s!"ok {st.id} events={st.k} spins={st.nspin}"
    loop h { st with dead := true }
  | _ => loop h st

def main : IO Unit := do loop (← IO.getStdin) {}

/-- `drv tee-legacy`: the same replay against the model of the pinned code (`Legacy/Tee.lean`);
    used as a recogniser: "the implementation behaves like the defective pinned code again" -/
def mainLegacy : IO Unit := do loop (← IO.getStdin) { legacy := true }

end Tee.Drv
