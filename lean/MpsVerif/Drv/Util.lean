/-! Small helpers for the line-protocol drivers (no proofs here). -/
namespace Drv

def words (line : String) : List String :=
  (line.trimAscii.toString.splitOn " ").filter (· ≠ "")

/-- `k=v` tokens → association list -/
def kvs (ws : List String) : List (String × String) :=
  ws.filterMap fun w =>
    match w.splitOn "=" with
    | [k, v] => some (k, v)
    | _ => none

def getS (kv : List (String × String)) (k : String) (d : String := "") : String :=
  match kv.find? (·.1 == k) with
  | some (_, v) => v
  | none => d

def getN (kv : List (String × String)) (k : String) (d : Nat := 0) : Nat :=
  ((getS kv k).toNat?).getD d

/-- comma separated naturals ("" → []) -/
def natList (s : String) : List Nat :=
  (s.splitOn ",").filterMap String.toNat?

def getL (kv : List (String × String)) (k : String) : List Nat := natList (getS kv k)

def showNats (l : List Nat) : String := ",".intercalate (l.map toString)

end Drv
