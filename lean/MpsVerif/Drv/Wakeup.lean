import MpsVerif.Model.Wakeup
import MpsVerif.Core.ValidateFast
import MpsVerif.Drv.Util
/-! Trace-validation driver for the wake-up model (`drv wakeup`).

Observable events, logged by the harness in the thread / task that performs them (wrappers around the server's own
condition object and ledger dict): `take n` / `wtake n` (ledger insert by a caller that has not / has waited; `n` =
ledger size afterwards), `park` / `wpark` (entry into `cond.wait`, first time / again), `pop n` (gather thread
removes an entry), `notify k` (`cond.notify()` by the notification thread / coroutine; `k` = number of waiters it
woke), `leave` (`cond.wait` came back with a time-out or a cancellation), `wleave` (a woken caller gives up without
waiting again), `passon k` / `bounce k` (`cond.notify()` by a leaving caller), `giveup` (a caller raised without
passing on).  Internal, inferred: queuing of the notification (`post`), expiry of a timed wait (`expire`), the
time-out hitting a notified caller (`raceFire`), and whom a `notify()` picked. -/
namespace Wakeup.Drv
open Core.Val

inductive Obs where
  | take | park | pop | notify (woke : Bool) | wokenTake | wokenPark | wokenLeave | leaveWait
  | passOn (woke : Bool) | giveUp | bounce (woke : Bool)
  deriving Repr, DecidableEq

def woke : Pick → Bool
  | .none => false
  | _ => true

def label : Act → Option Obs
  | .take => some .take
  | .park => some .park
  | .expire => none
  | .raceFire => none
  | .pop => some .pop
  | .post => none
  | .notify k => some (.notify (woke k))
  | .wokenTake => some .wokenTake
  | .wokenPark => some .wokenPark
  | .wokenLeave => some .wokenLeave
  | .leaveWait _ => some .leaveWait
  | .passOn k => some (.passOn (woke k))
  | .giveUp => some .giveUp
  | .bounce k => some (.bounce (woke k))

def picks : Bool → List Pick
  | false => [.none]
  | true => [.w, .x]

def cands : Obs → List Act
  | .take => [.take]
  | .park => [.park]
  | .pop => [.pop]
  | .notify b => (picks b).map .notify
  | .wokenTake => [.wokenTake]
  | .wokenPark => [.wokenPark]
  | .wokenLeave => [.wokenLeave]
  | .leaveWait => [.leaveWait false, .leaveWait true]
  | .passOn b => (picks b).map .passOn
  | .giveUp => [.giveUp]
  | .bounce b => (picks b).map .bounce

def sys (c : Cfg) : LSys State Act Obs :=
  { step := step c
    label := label
    taus := fun _ => [.expire, .raceFire, .post]
    cands := fun _ e => cands e }

theorem sys_wf (c : Cfg) : WF (sys c) := by
  constructor
  · intro s a ha
    simp [sys] at ha
    rcases ha with h | h | h <;> subst h <;> rfl
  · intro s e a ha
    simp only [sys] at ha ⊢
    cases e with
    | notify b => cases b <;> simp [cands, picks] at ha <;> (try rcases ha with h | h) <;> subst_vars <;> rfl
    | passOn b => cases b <;> simp [cands, picks] at ha <;> (try rcases ha with h | h) <;> subst_vars <;> rfl
    | bounce b => cases b <;> simp [cands, picks] at ha <;> (try rcases ha with h | h) <;> subst_vars <;> rfl
    | leaveWait => simp [cands] at ha; rcases ha with h | h <;> subst h <;> rfl
    | take | park | pop | wokenTake | wokenPark | wokenLeave | giveUp => simp [cands] at ha; subst ha; rfl

structure Ev where
  obs : Obs
  chk : State → Bool

def parseEv (name : String) (a : List Nat) : Option Ev :=
  match name, a with
  | "take", [n] => some ⟨.take, fun s => s.n == n⟩
  | "wtake", [n] => some ⟨.wokenTake, fun s => s.n == n⟩
  | "park", [] => some ⟨.park, fun _ => true⟩
  | "wpark", [] => some ⟨.wokenPark, fun _ => true⟩
  | "wleave", [] => some ⟨.wokenLeave, fun _ => true⟩
  | "pop", [n] => some ⟨.pop, fun s => s.n == n⟩
  | "notify", [k] => some ⟨.notify (k != 0), fun _ => true⟩
  | "leave", [] => some ⟨.leaveWait, fun _ => true⟩
  | "passon", [k] => some ⟨.passOn (k != 0), fun _ => true⟩
  | "bounce", [k] => some ⟨.bounce (k != 0), fun _ => true⟩
  | "giveup", [] => some ⟨.giveUp, fun _ => true⟩
  | _, _ => none

def descr (s : State) : String :=
  s!"n={s.n} w={s.w} x={s.x} nt={s.nt} nx={s.nx} p={s.p} g={s.g} t={s.t}"

/-- at rest: nobody waits, nothing is under way, the ledger has the reported size -/
def restOk (kv : List (String × String)) (s : State) : Bool :=
  s.n == Drv.getN kv "n" && s.w == 0 && s.x == 0 && s.nt == 0 && s.nx == 0 && s.p == 0 && s.g == 0 && s.t == 0

structure St where
  id : String := ""
  cfg : Cfg := { cap := 1 }
  ss : List State := []
  k : Nat := 0
  dead : Bool := true
  maxStates : Nat := 0

def fuel : Nat := 64

partial def loop (h : IO.FS.Stream) (st : St) : IO Unit := do
  let line ← h.getLine
  if line.isEmpty then return ()
  let ws := Drv.words line
  match ws with
  | "case" :: id :: rest =>
    let kv := Drv.kvs rest
    let c : Cfg := { cap := Drv.getN kv "cap" 1, passOn := Drv.getN kv "passon" 1 == 1 }
    loop h { id := id, cfg := c, ss := [init], k := 0, dead := false }
  | "e" :: name :: rest =>
    if st.dead then loop h st else
    match parseEv name (rest.filterMap String.toNat?) with
    | none =>
      IO.println s!"REJECT {st.id} {st.k} bad-event {name} {rest}"
      loop h { st with dead := true }
    | some ev =>
      let ss' := vstepW (sys st.cfg) fuel Ev.obs Ev.chk st.ss ev
      if ss'.isEmpty then
        let cl := tauCloseW (sys st.cfg) fuel st.ss
        let d := match cl.head? with | some s => descr s | none => "-"
        IO.println s!"REJECT {st.id} {st.k} event `{name} {rest}` not enabled in any of {cl.length} compatible model states; e.g. {d}"
        loop h { st with dead := true }
      else loop h { st with ss := ss', k := st.k + 1, maxStates := max st.maxStates ss'.length }
  | "end" :: rest =>
    if st.dead then loop h st else
    let kv := Drv.kvs rest
    let fin := tauCloseW (sys st.cfg) fuel st.ss
    let good := fin.filter (fun s => Drv.getN kv "partial" == 1 || restOk kv s)
    if good.isEmpty then
      let d := match fin.head? with | some s => descr s | none => "-"
      IO.println s!"NOFINAL {st.id} {st.k} no compatible model state is at rest with {rest}; e.g. model state: {d}"
    else
      IO.println s!"ok {st.id} events={st.k} maxstates={st.maxStates}"
    loop h { st with dead := true }
  | _ => loop h st

def main : IO Unit := do loop (← IO.getStdin) {}

end Wakeup.Drv
