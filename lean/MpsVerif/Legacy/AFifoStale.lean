import MpsVerif.Model.AFifo
import MpsVerif.Core.Sys
/-!
# Legacy: `async_fifo_stream` as pinned (defect F1) — the property fails, kernel-checked

The pinned feeder, on a preprocessor failure, builds the failed future in a variable `fut` that
is never used and then enqueues `(x, t)` with whatever `t` still refers to:

```
except Exception as e:
    fut = asyncio.Future()      # not `t`
    fut.set_exception(e)
...
await tasks.put((x, t))         # t = the PREVIOUS element's task; unbound on the first element
```

`step` below is `AFifo.step` with exactly that one difference (`preFail` leaves `tvar` alone).
Two witnesses, each a concrete action list checked by `decide` (the same lists are the schedules
the harness replays on the real pinned code: `boundary_cases()` in `harness/scen_afifo.py`):

* `stale_result`: element 1 is rejected → the consumer receives `(1, result of element 0)`;
* `unbound_first`: element 0 is rejected → `UnboundLocalError`, which the feeder's
  `except Exception` forwards as if the *source* had failed, although the source is fine.
-/
namespace AFifoStale
open Fifo (Cfg SrcEnd Raised)
open AFifo (State Act init delivered spec Res)

def step (c : Cfg) (s : State) : Act → Option State
  | .preFail =>
    match s.fpc with
    | .sub i =>
      if c.preFail i = true then
        some { s with fpc := .hold i, finished := i :: s.finished }     -- `t` is NOT reassigned
      else none
    | _ => none
  | a => AFifo.step c s a

/-- the repaired model differs from this one in the `preFail` step only -/
theorem step_eq_of_ne (c : Cfg) (s : State) (a : Act) (h : a ≠ .preFail) : step c s a = AFifo.step c s a := by
  cases a <;> first | rfl | exact absurd rfl h

/-- … so the pinned code behaves exactly like the repaired one (and all of `Props/C16.lean` applies
    to it) as long as the preprocessor never rejects an element: the defect is confined to rejections -/
theorem step_eq_of_no_reject (c : Cfg) (h : ∀ i, c.preFail i = false) (s : State) (a : Act) :
    step c s a = AFifo.step c s a := by
  by_cases ha : a = .preFail
  · subst ha
    simp only [step, AFifo.step]
    cases s.fpc <;> simp [h]
  · exact step_eq_of_ne c s a ha

/-- C16 fails on the pinned code: with the preprocessor rejecting element 1 (and
    `return_exceptions`), there is a run after which the consumer has been handed element 1 paired
    with element 0's *result* instead of element 1's own exception. -/
theorem stale_result :
    let c : Cfg := { n := 2, srcEnd := .clean, cap := 2, conc := 1, preFail := fun i => i == 1,
                     resErr := fun _ => false, returnExc := true }
    ∃ as s, Core.run (step c) init as = some s ∧ s.cpc = .closed ∧
      delivered c s.out = [(0, .ok 0), (1, .ok 0)] ∧ delivered c s.out ≠ spec c s.out.length := by
  refine ⟨[.pull, .fcheck, .submit, .put, .pull, .fcheck, .preFail, .put, .start 0, .finish 0, .get, .yld,
           .next, .get, .yld, .next, .srcEnd, .putEnd, .get, .drainEmpty, .reap, .join], _, rfl, ?_⟩
  decide

/-- … and when the *first* element is rejected, the iteration ends with an exception that is
    neither the element's nor the source's (`UnboundLocalError`, travelling on the source-failure
    path although `srcEnd = clean`), having delivered nothing. -/
theorem unbound_first :
    let c : Cfg := { n := 1, srcEnd := .clean, cap := 2, conc := 1, preFail := fun i => i == 0,
                     resErr := fun _ => false, returnExc := true }
    ∃ as s, Core.run (step c) init as = some s ∧ s.cpc = .closed ∧ c.srcEnd = .clean ∧
      s.raised = some .src ∧ s.out = [] ∧ spec c c.n = [(0, .preErr 0)] := by
  refine ⟨[.pull, .fcheck, .preFail, .unbound, .putExc, .get, .setStop, .drainEmpty, .reap, .join], _, rfl, ?_⟩
  decide

end AFifoStale
