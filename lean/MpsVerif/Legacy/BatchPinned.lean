import MpsVerif.Core.Sys
/-!
# The pinned loop head of `_build_input_batches` loses a wake-up (finding F25)

Pinned code (src/mpservice/mpserver/_worker.py:545-547):

    if buffer.full():                 # tested WITHOUT the buffer's mutex
        with buffer._not_full:
            buffer._not_full.wait()   # no timeout

`SingleLane.get` pops under the mutex and then does `self._not_full.notify()`, which wakes a
thread only if one is already waiting.  Between the test and the `wait` the consumer may take
elements (each `get` notifies nobody) — even all of them — and then block on the empty buffer;
the collector then waits for a notification that only a `get` could give.  Collector and consumer
of that worker are blocked forever; requests on `q_in` are never served.

This file models exactly that hand-shake (collector loop head / put, consumer get) for one worker
and exhibits the deadlock by a kernel-checked action list.  `cap` is the buffer size
(`batch_size + 10`), `qin` the number of requests waiting on `q_in`, `buf` the buffer level.
The repaired loop head (test under the mutex) is what `Model/Batch.lean` has (`cLock` is enabled
whenever the buffer is not full) and `C09_progress` proves deadlock-free.
-/
namespace BatchPinned

inductive CPc where
  | top          -- about to test `buffer.full()`
  | fullSeen     -- saw a full buffer, not yet inside `wait()`
  | waiting      -- registered on `_not_full`
  | go           -- may take the read lock and move one element from `q_in` to the buffer
  deriving Repr, DecidableEq

structure State where
  qin : Nat
  buf : Nat
  cpc : CPc
  taken : Nat        -- elements the consumer has taken (history)
  deriving Repr, DecidableEq

inductive Act where
  | check | register | put | get
  deriving Repr, DecidableEq

def step (cap : Nat) (s : State) : Act → Option State
  | .check =>
    if s.cpc = .top then some { s with cpc := if cap ≤ s.buf then .fullSeen else .go } else none
  | .register =>
    if s.cpc = .fullSeen then some { s with cpc := .waiting } else none
  | .put =>
    -- `q_in.get()` blocks while `q_in` is empty
    if s.cpc = .go ∧ 0 < s.qin then some { s with qin := s.qin - 1, buf := s.buf + 1, cpc := .top } else none
  | .get =>
    -- consumer: `buffer.get()` blocks while the buffer is empty; `notify` wakes a registered waiter only
    if 0 < s.buf then
      some { s with buf := s.buf - 1, taken := s.taken + 1, cpc := if s.cpc = .waiting then .go else s.cpc }
    else none

def init (n : Nat) : State := { qin := n, buf := 0, cpc := .top, taken := 0 }

/-- no thread of the worker can move -/
def Stuck (cap : Nat) (s : State) : Prop := ∀ a, step cap s a = none

instance (cap : Nat) (s : State) : Decidable (Stuck cap s) :=
  decidable_of_iff (step cap s .check = none ∧ step cap s .register = none ∧ step cap s .put = none ∧
      step cap s .get = none)
    ⟨fun h a => by cases a <;> simp [h.1, h.2.1, h.2.2.1, h.2.2.2], fun h => ⟨h _, h _, h _, h _⟩⟩

/-- `batch_size = 2` (buffer of 12), 14 requests: the collector fills the buffer, sees it full, is
    delayed; the consumer takes all 12 elements; the collector then waits forever although the
    buffer is empty, with 2 requests still on `q_in`: a reachable state in which nothing can move. -/
theorem pinned_deadlock :
    ∃ s, Core.Reach (step 12) (init 14) s ∧ Stuck 12 s ∧ s.qin = 2 ∧ s.buf = 0 := by
  refine ⟨_, ⟨[.check, .put, .check, .put, .check, .put, .check, .put, .check, .put, .check, .put,
              .check, .put, .check, .put, .check, .put, .check, .put, .check, .put, .check, .put,
              .check,
              .get, .get, .get, .get, .get, .get, .get, .get, .get, .get, .get, .get,
              .register], rfl⟩, ?_⟩
  decide

/-- with the test under the mutex (test and registration are one atomic step: `check` goes straight
    to `waiting`), a waiting collector always sees a non-empty buffer, so the consumer can move -/
def stepFixed (cap : Nat) (s : State) : Act → Option State
  | .check =>
    if s.cpc = .top then some { s with cpc := if cap ≤ s.buf then .waiting else .go } else none
  | a => step cap s a

theorem fixed_waiting_nonempty (cap : Nat) (hc : 0 < cap) (n : Nat) (s : State)
    (hr : Core.Reach (stepFixed cap) (init n) s) : (s.cpc = .waiting → 0 < s.buf) ∧ s.cpc ≠ .fullSeen := by
  refine Core.invariant_reach (Inv := fun s => (s.cpc = .waiting → 0 < s.buf) ∧ s.cpc ≠ .fullSeen) ?_ ?_ hr
  · intro s a s' hi hs
    cases a <;> simp only [stepFixed, step] at hs
    · split at hs <;> simp at hs; subst hs
      by_cases hb : cap ≤ s.buf <;> simp [hb] <;> omega
    · split at hs <;> simp at hs; rename_i h; exact absurd h hi.2
    · split at hs <;> simp at hs; subst hs; simp
    · split at hs <;> simp at hs; subst hs
      by_cases hw : s.cpc = .waiting <;> simp [hw, hi.2]
  · simp [init]

end BatchPinned
