import MpsVerif.Model.Buffer
import MpsVerif.Core.Sys
/-!
# The pinned `Buffer._finalize` (finding F6) and the pinned worker's `except Exception` (finding F7)

`Buffer.step` is the repaired code.  The pinned code differed in two places:

* `_finalize` emptied the queue **once** (`while not tasks.empty(): tasks.get()`) and then joined the
  worker (F6);
* the worker caught only `Exception`, so a source raising `StopRequested` (a `BaseException`)
  killed it without any end marker (F7).

`stepPinned` makes exactly these two changes (everything else is `Buffer.step`), and the witnesses
below are kernel-checked (`decide`) deadlocks: reachable, not final, no action enabled.
The same action lists are the schedules the check replays on the real code when the repairs are
reverted (`seeded/legacy-*`).
-/
namespace Buffer.Pinned
open Buffer

/-- how the pinned worker dies on `StopRequested`: no `STOPPED`, no exception object -/
structure PCfg extends Cfg where
  srcIsStopRequested : Bool

/-- pinned consumer phases after the flag is set: `drain` = the one-shot emptying loop,
    `closed` is reached through `joinWait` -/
inductive Phase where
  | normal | joinWait
  deriving Repr, DecidableEq

structure PState where
  base : State
  phase : Phase
  deriving Repr, DecidableEq

def pinit : PState := { base := init, phase := .normal }

def stepPinned (c : PCfg) (s : PState) : Act → Option PState
  | .srcRaise =>
    -- F7: StopRequested is not an `Exception`: the worker thread dies on the spot
    if c.srcIsStopRequested then
      if s.base.wpc = .idle ∧ s.base.pulled = c.n ∧ c.srcEnd = .exc then
        some { s with base := { s.base with wpc := .done } } else none
    else (step c.toCfg s.base .srcRaise).map (fun b => { s with base := b })
  | .drainPop =>
    -- F6: only while the one-shot loop runs
    if s.phase = .normal then (step c.toCfg s.base .drainPop).map (fun b => { s with base := b }) else none
  | .joined =>
    -- the loop ended (queue seen empty): from now on the consumer only waits for the worker
    match s.phase with
    | .normal =>
      if s.base.cpc = .drain ∧ s.base.queue = [] then some { s with phase := .joinWait } else none
    | .joinWait => (step c.toCfg s.base .joined).map (fun b => { s with base := b })
  | a => (step c.toCfg s.base a).map (fun b => { s with base := b })

def allActs : List Act :=
  [.pull, .srcEnd, .srcRaise, .wcheck, .stopSeen, .put, .putFin, .putStop, .putExc,
   .get, .yld, .getExc, .next, .close, .setFlag, .drainPop, .joined]

def stuck (c : PCfg) (s : PState) : Bool := allActs.all (fun a => (stepPinned c s a).isNone)

/-- F6: `buffer(1)` + `break` after the first element.  The worker holds element 2 while the queue
    holds element 1; `_finalize` empties the queue once and joins; the worker puts element 2, pulls
    element 3, sees the flag, and blocks putting `FINISHED` on the full one-slot queue. -/
theorem F6_buffer1_break_deadlock :
    ∃ s, Core.run (stepPinned { n := 9, srcEnd := .clean, maxsize := 1, srcIsStopRequested := false }) pinit
        [.pull, .wcheck, .put, .get, .pull, .wcheck, .put, .pull, .wcheck, .yld, .close, .setFlag,
         .drainPop, .joined, .put, .pull, .stopSeen] = some s ∧
      s.base.cpc ≠ .closed ∧ stuck { n := 9, srcEnd := .clean, maxsize := 1, srcIsStopRequested := false } s = true := by
  refine ⟨_, rfl, ?_, ?_⟩ <;> decide

/-- F7: a source that raises `StopRequested` after two elements: the worker dies, the consumer takes the
    two elements and then waits on the empty queue forever. -/
theorem F7_stoprequested_deadlock :
    ∃ s, Core.run (stepPinned { n := 2, srcEnd := .exc, maxsize := 4, srcIsStopRequested := true }) pinit
        [.pull, .wcheck, .put, .pull, .wcheck, .put, .srcRaise, .get, .yld, .next, .get, .yld, .next] = some s ∧
      s.base.cpc ≠ .closed ∧ stuck { n := 2, srcEnd := .exc, maxsize := 4, srcIsStopRequested := true } s = true := by
  refine ⟨_, rfl, ?_, ?_⟩ <;> decide

end Buffer.Pinned
