import MpsVerif.Core.Sys
/-!
# Legacy model: who gets the exit status (defect F28)

`Popen.poll` is `if returncode is None: try: pid, sts = os.waitpid(...) except OSError: return None;
if pid == self.pid: returncode = decode sts; return returncode`.  Only one `waitpid` ever receives
the status of a dead child; every other one fails with `ECHILD` and `poll` then returns `None` —
also when the winner has not yet stored `returncode`.  In mpservice two threads poll: the caller of
`join()` (`super().join()` = blocking `waitpid`, then — pinned code — `done()` = `exitcode` = `poll`)
and the result-collector thread (`while self.exitcode is None: sleep`).

`fixed = false`: pinned `join`: "not `done()`" is taken for a timeout and `join` returns silently.
`fixed = true` : repaired `join` (F28): "has the child ended" is read off the process sentinel, then
the collector thread is joined (it ends only after it has seen a stored exit status).

`F28_witness` (`decide`): on the pinned protocol `join()` of a dead child can return silently.
`F28_fixed`  (all schedules): on the repaired protocol it never does, and when it answers the exit
status is stored (`exitcode` is not `None` afterwards).
-/
namespace ExitRace

inductive Who where
  | collector | caller
  deriving Repr, DecidableEq

inductive CPc where
  | polling | holding | done      -- holding: its waitpid returned the status, `returncode` not yet stored
  deriving Repr, DecidableEq

inductive MPc where
  | blocked | check | joinCollector | answeredProperly | returnedSilently
  deriving Repr, DecidableEq

structure State where
  dead : Bool
  reapedBy : Option Who
  stored : Bool
  cpc : CPc
  mpc : MPc
  deriving Repr, DecidableEq

inductive Act where
  | die | cPoll | cStore | mWake | mCheck | mJoined
  deriving Repr, DecidableEq

def init : State := { dead := false, reapedBy := none, stored := false, cpc := .polling, mpc := .blocked }

def step (fixed : Bool) (s : State) : Act → Option State
  | .die => if s.dead = false then some { s with dead := true } else none
  | .cPoll =>
    -- one iteration of `while self.exitcode is None: sleep(0.001)`
    if s.cpc = .polling then
      if s.stored = true then some { s with cpc := .done }
      else if s.dead = true ∧ s.reapedBy = none then some { s with reapedBy := some .collector, cpc := .holding }
      else some s          -- not dead yet, or ECHILD: `None`, go round again
    else none
  | .cStore => if s.cpc = .holding then some { s with stored := true, cpc := .done } else none
  | .mWake =>
    -- the caller's blocking waitpid returns once the child is dead: with the status, or with ECHILD
    if s.mpc = .blocked ∧ s.dead = true then
      if s.reapedBy = none then some { s with reapedBy := some .caller, stored := true, mpc := .check }
      else some { s with mpc := .check }
    else none
  | .mCheck =>
    if s.mpc = .check then
      if fixed then some { s with mpc := .joinCollector }        -- `_exited()`: the sentinel says dead
      else if s.stored = true then some { s with mpc := .joinCollector }
      else some { s with mpc := .returnedSilently }               -- `done()` is False: "timed out"
    else none
  | .mJoined =>
    if s.mpc = .joinCollector ∧ s.cpc = .done then some { s with mpc := .answeredProperly } else none

/-- F28: pinned protocol — the collector wins the status, the caller's `done()` still sees `None`:
    `join()` returns silently although the child is dead. -/
theorem F28_witness :
    ∃ s, Core.run (step false) init [.die, .cPoll, .mWake, .mCheck] = some s ∧
      s.dead = true ∧ s.mpc = .returnedSilently := ⟨_, rfl, rfl, rfl⟩

structure Inv (s : State) : Prop where
  i1 : s.mpc ≠ .returnedSilently
  i2 : s.mpc ≠ .blocked → s.dead = true
  i3 : s.cpc = .done → s.stored = true
  i4 : s.mpc = .answeredProperly → s.stored = true

theorem inv_step (s s' : State) (a : Act) (hi : Inv s) (h : step true s a = some s') : Inv s' := by
  obtain ⟨i1, i2, i3, i4⟩ := hi
  cases a <;> simp only [step] at h
  case die => split at h <;> simp at h; subst h; exact ⟨i1, fun _ => rfl, i3, i4⟩
  case cPoll =>
    split at h
    · split at h
      · simp at h; subst h; rename_i hs; exact ⟨i1, i2, fun _ => hs, i4⟩
      · split at h
        · simp at h; subst h; exact ⟨i1, i2, fun h => (by cases h), i4⟩
        · simp at h; subst h; exact ⟨i1, i2, i3, i4⟩
    · simp at h
  case cStore => split at h <;> simp at h; subst h; exact ⟨i1, i2, fun _ => rfl, fun _ => rfl⟩
  case mWake =>
    split at h
    · rename_i hc
      split at h <;> simp at h <;> subst h
      · exact ⟨by simp, fun _ => hc.2, fun _ => rfl, fun _ => rfl⟩
      · exact ⟨by simp, fun _ => hc.2, i3, fun h => (by cases h)⟩
    · simp at h
  case mCheck =>
    split at h
    · simp at h; subst h; rename_i hc
      exact ⟨by simp, fun _ => i2 (by rw [hc]; simp), i3, fun h => (by cases h)⟩
    · simp at h
  case mJoined =>
    split at h <;> simp at h; subst h; rename_i hc
    exact ⟨by simp, fun _ => i2 (by rw [hc.1]; simp), i3, fun _ => i3 hc.2⟩

/-- F28 repaired: under every schedule `join()` never returns silently, and once it has answered
    the exit status is stored (the child is dead and `exitcode` is not `None`). -/
theorem F28_fixed (as : List Act) (s : State) (hr : Core.run (step true) init as = some s) :
    s.mpc ≠ .returnedSilently ∧ (s.mpc = .answeredProperly → s.dead = true ∧ s.stored = true) := by
  have hi : Inv s := Core.invariant_run (Inv := Inv) (fun s a s' hi h => inv_step s s' a hi h) as init s
    ⟨by simp [init], by simp [init], by simp [init], by simp [init]⟩ hr
  exact ⟨hi.i1, fun h => ⟨hi.i2 (by rw [h]; simp), hi.i4 h⟩⟩

/-- … and the repaired `join()` can always finish: a complete run -/
example : ∃ s, Core.run (step true) init [.die, .cPoll, .mWake, .mCheck, .cStore, .mJoined] = some s ∧
    s.mpc = .answeredProperly := ⟨_, rfl, rfl⟩

end ExitRace
