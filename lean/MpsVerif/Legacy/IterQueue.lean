import MpsVerif.Model.IterQueue
import MpsVerif.Core.Sys
/-!
# Legacy model: `IterableQueue.__next__` of the pinned tree (no `_lids_lock`) — defect F14

The pinned code moves the token and reads `used.full()` without mutual exclusion:

    z = self._applied_lids.get(); self._used_lids.put(z)
    if self._used_lids.full(): self.put(None); raise StopIteration

so two consumers can both complete their `used.put` before either reads `full()`; both then see
a full `used` queue, both decide they completed the set and both enqueue "the" extra marker.
The legacy step function is the repaired model with the lock acquisition made a no-op; everything
else is shared.  The witness below is kernel-checked (`decide` on a concrete schedule): with two
suppliers and two consumers the round ends with **two** markers in the queue, so
`C17_one_marker_left` / `C17_renew_clean` fail for this model; with `cap = 1` the second `put(None)`
blocks for ever (consumer hang).  The same schedule is what the check finds on the real pinned
code (see notes/C17.md).
-/
namespace IterQueue.Legacy
open IterQueue

/-- pinned code: entering the token hand-over needs no lock -/
def step (c : Cfg) (s : State) : Act → Option State
  | .cLock j =>
    match s.cons[j]? with
    | some a => if a.pc = .lock then some { s with cons := s.cons.set j { a with pc := .take } } else none
    | none => none
  | a => IterQueue.step c s a

/-- F14: both consumers add the extra marker -/
def witness : List Act :=
  [.sEndBeg 0, .sApply 0, .sMark 0, .cChk1 0, .cGet 0, .sEndBeg 1, .sApply 1, .sMark 1, .cChk1 1, .cGet 1,
   .cChk2 0, .cChk2 1,
   .cLock 0, .cLock 1, .cTake 0, .cTake 1, .cGive 0, .cGive 1,   -- both tokens moved …
   .cTest 0, .cTest 1,                                           -- … before either reads full()
   .cUnlock 0, .cUnlock 1, .cExtra 0, .cExtra 1]

/-- the same schedule without the last `put(None)` -/
def witness' : List Act :=
  [.sEndBeg 0, .sApply 0, .sMark 0, .cChk1 0, .cGet 0, .sEndBeg 1, .sApply 1, .sMark 1, .cChk1 1, .cGet 1,
   .cChk2 0, .cChk2 1, .cLock 0, .cLock 1, .cTake 0, .cTake 1, .cGive 0, .cGive 1,
   .cTest 0, .cTest 1, .cUnlock 0, .cUnlock 1, .cExtra 0]

theorem F14_two_markers :
    let c : Cfg := { m := 2, n := 2, cap := 0, w := 1 }
    ∃ s, Core.run (step c) (init c) witness = some s ∧ (∀ a ∈ s.cons, a.pc = .done) ∧
      s.queue = [.mark, .mark] := by
  refine ⟨_, rfl, ?_⟩
  decide

/-- with a data queue of size 1 the second consumer blocks for ever inside `put(None)` -/
theorem F14_hang_cap1 :
    let c : Cfg := { m := 2, n := 2, cap := 1, w := 1 }
    ∃ s, Core.run (step c) (init c) witness' = some s ∧ s.cons.map (·.pc) = [.done, .extra] ∧
      step c s (.cExtra 1) = none ∧ (∀ a ∈ s.sups, a.pc = .ended) := by
  refine ⟨_, rfl, ?_⟩
  decide

end IterQueue.Legacy
