import MpsVerif.Model.Lane
import MpsVerif.Core.Sys
/-!
# `SingleLane` with more than one writer (or reader): the `if` around the wait is not enough

Outside the properties: C01 / C08 speak of the single-writer / single-reader hand-off queue of the streams.
`mpservice.socket.SocketClient` however shares one `SingleLane` (`_pending_requests`, `maxsize = backlog`) between
every thread that calls `request()` and one reader.  The same `Lane.step`, with `nw = 2`, shows what the bound
relies on: a writer woken by `notify()` does **not** re-check `0 < maxsize <= len(queue)` (line 52 is an `if`, where
`queue.Queue` has a `while`), so a second writer that gets the mutex between the wake-up and the re-acquisition
fills the free slot first and the deque ends up with `maxsize + 1` items.  The witnesses are kernel-checked
(`decide` on a concrete action list).  `harness/scen_lane.py` (`gen_case_multi`) records how often the real code
shows it under the scheduler (about a quarter of the two-writer cases).
-/
namespace Lane.MultiWriter
open Lane

/-- two writers (threads 0 and 1), one reader (thread 2), one slot -/
def c2 : Cfg := { maxsize := 1, nw := 2, nr := 1 }

/-- Writer 0 puts 10, then parks in `put 11` (deque full).  The reader takes 10 and notifies; writer 0 wakes up but
    has not re-acquired the mutex yet.  Writer 1 calls `put_nowait 12`, finds room, appends.  Writer 0 re-acquires
    the mutex and appends 11 without looking again: two items in a lane of `maxsize = 1`. -/
def overshoot : List Act :=
  [.call 0 .block 10, .acquire 0, .check 0, .act 0, .notify 0, .unlock 0, .ret 0 .ok 10,
   .call 0 .block 11, .acquire 0, .check 0,
   .call 2 .block 0, .acquire 2, .check 2, .act 2, .notify 2, .unlock 2, .ret 2 .ok 10,
   .wake 0,
   .call 1 .nowait 12, .acquire 1, .check 1, .act 1, .notify 1, .unlock 1, .ret 1 .ok 12,
   .reacq 0, .act 0]

theorem two_writers_exceed_maxsize :
    ∃ s, Core.run (step c2) (init c2) overshoot = some s ∧ s.q = [12, 11] ∧ c2.maxsize = 1 ∧
      c2.maxsize < s.q.length := by
  refine ⟨_, rfl, ?_⟩
  decide

/-- one writer (thread 0), two readers (threads 1 and 2) -/
def c3 : Cfg := { maxsize := 1, nw := 1, nr := 2 }

/-- Symmetrically with two readers: reader 1 parks on the empty lane, the writer puts 5 and notifies, reader 2's
    `get_nowait` takes 5 first, and reader 1 goes on to `popleft()` on an empty deque: `IndexError` out of `get`. -/
def underflow : List Act :=
  [.call 1 .block 0, .acquire 1, .check 1,
   .call 0 .block 5, .acquire 0, .check 0, .act 0, .notify 0, .unlock 0, .ret 0 .ok 5,
   .wake 1,
   .call 2 .nowait 0, .acquire 2, .check 2, .act 2, .notify 2, .unlock 2, .ret 2 .ok 5,
   .reacq 1, .act 1]

theorem two_readers_pop_empty_deque :
    ∃ s, Core.run (step c3) (init c3) underflow = some s ∧ (s.th 1).pc = .leave .under ∧ s.gotH = [5] := by
  refine ⟨_, rfl, ?_⟩
  decide

end Lane.MultiWriter
