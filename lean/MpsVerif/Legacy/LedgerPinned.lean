import MpsVerif.Model.Ledger
import MpsVerif.Core.Sys
/-!
# The pinned `_enqueue` (findings F3 and F4)

`Ledger.step` is the repaired code.  The pinned `_enqueue` differed in two places:

* F4 — the size test was an `if` in front of `wait()`: a caller woken by a notification went on to
  insert **without testing again** (`acquire` from `woken` leads straight to `passed`);
* F3 — `(uid, x)` was put on the input queue **before** the ledger insert (`enqueue` comes first and
  `insert` releases the lock).

`stepPinned` makes exactly these changes; everything else is `Ledger.step`.  The two theorems are
kernel-checked (`decide`) runs of the pinned model that violate C06 / C02: the same schedules are
what the check finds on the real code when the repairs are reverted.
-/
namespace Ledger.Pinned
open Ledger

def stepPinned (c : Cfg) (s : State) : Act → Option State
  | .acquire r =>
    if s.lock = none then
      match (s.get r).pc with
      | .start => some { (s.set r { s.get r with pc := .inCS }) with lock := some (.caller r) }
      | .woken => some { (s.set r { s.get r with pc := .passed }) with lock := some (.caller r) }   -- F4
      | _ => none
    else none
  | .enqueue r =>                                                                                  -- F3: first
    match (s.get r).pc, (s.get r).uid with
    | .passed, some u => some { (s.set r { s.get r with pc := .ledgered }) with inflight := s.inflight ++ [(u, r)] }
    | _, _ => none
  | .insert r =>                                                                                   -- F3: second
    match (s.get r).pc, (s.get r).uid with
    | .ledgered, some u =>
      some { (s.set r { s.get r with pc := .pending }) with ledger := s.ledger ++ [(u, r)], lock := none }
    | _, _ => none
  | a => step c s a

/-- F4: capacity 1, three callers without backpressure.  Caller 1 waits on the full server; caller 0's
    result is gathered and the notification wakes caller 1; before caller 1 re-acquires the lock,
    caller 2 arrives, finds room and inserts; caller 1 then inserts without testing again:
    backlog 2 > capacity 1. -/
theorem F4_overshoot :
    ∃ s, Core.run (stepPinned { cap := 1, guardSet := true })
        (init [{ bp := false }, { bp := false }, { bp := false }])
        [.mint 0, .acquire 0, .testPass 0, .enqueue 0, .insert 0,
         .mint 1, .acquire 1, .wait 1,
         .emit 0 0, .pop 0 0, .gcheck, .gset, .ntake, .nacquire, .nnotify 1,
         .mint 2, .acquire 2, .testPass 2, .enqueue 2, .insert 2,
         .acquire 1, .enqueue 1, .insert 1] = some s ∧ s.ledger.length = 2 := by
  refine ⟨_, rfl, ?_⟩; decide

/-- F3: the input is on its way before the entry is recorded: a fast result reaches the gather thread
    first and is dropped ("not found in the backlog ledger"); the entry recorded afterwards is never
    removed — at rest the backlog is 1 and the caller is still waiting for a result that is gone. -/
theorem F3_dropped_response_and_leaked_slot :
    ∃ s, Core.run (stepPinned { cap := 2, guardSet := true }) (init [{}])
        [.mint 0, .acquire 0, .testPass 0, .enqueue 0, .emit 0 0, .pop 0 0, .insert 0] = some s ∧
      s.dropped = [(0, 0)] ∧ s.ledger = [(0, 0)] ∧ s.inflight = [] ∧ s.outq = [] ∧ (s.get 0).pc = .pending := by
  refine ⟨_, rfl, ?_⟩; decide

end Ledger.Pinned
