import MpsVerif.Proofs.LifecycleCands
import MpsVerif.Proofs.LifecycleStart
/-!
# The pinned (unrepaired) life-cycle code violates C11: kernel-checked witnesses

* F11 — `start` without clean-up (`startPinned`): workers started before the failing one stay alive.
* F12 — pinned `Server.__exit__` order (`compileServer K t (pinned := true)`: `servlet.stop()`, gather, and only
  then the onboarding thread): the sentinel overtakes inputs still in the onboarding buffer, the worker leaves,
  the onboarding thread blocks on the full pipe and `__exit__` never returns.
* F18 — pinned `__exit__` does not reset the ledger: a result overtaken by the sentinel leaves its entry behind.
The same action lists are schedules of the real pinned code (see notes/C11.md for the replays found by the check).
-/
namespace Lifecycle.Pinned
open Lifecycle

/-- the pinned `ThreadServlet/ProcessServlet.start`: on a failing worker the error propagates, nothing is stopped -/
def workerEvs (sv : Nat) (bad : Nat → Nat → Bool) : (todo : Nat) → (i : Nat) → SRes
  | 0, _ => { evs := [], err := none }
  | todo + 1, i =>
    if bad sv i then { evs := [.launch (sv, i), .fail (sv, i)], err := some (sv, i) }
    else
      let r := workerEvs sv bad todo (i + 1)
      { evs := .launch (sv, i) :: r.evs, err := r.err }

/-- pinned compound servlets do not stop the members already started either -/
def startT (bad : Nat → Nat → Bool) : Tree → Nat → SRes
  | .simple k _, sv => workerEvs sv bad k 0
  | .seq a b, sv | .ens a b, sv | .sw a b, sv =>
    let ra := startT bad a (sv + 1)
    match ra.err with
    | some e => { evs := ra.evs, err := some e }
    | none =>
      let rb := startT bad b (sv + 1 + a.size)
      { evs := ra.evs ++ rb.evs, err := rb.err }

/-- F11: second worker of the second servlet fails; the three workers started before it keep running -/
theorem F11_witness :
    let r := startT (fun sv w => sv == 2 && w == 1) (.seq (.simple 2 false) (.simple 2 false)) 0
    r.err = some (2, 1) ∧ alive r.evs = [(1, 0), (1, 1), (2, 0)] := by
  decide

/-- F12: one process worker, pipe of one message, three abandoned inputs -/
theorem F12_witness :
    ∃ s, Reachable (compileServer 1 (.simple 1 true) (pinned := true)) s ∧ ¬ Final s ∧
      ∀ a, step (compileServer 1 (.simple 1 true) (pinned := true)) s a = none := by
  apply deadlocks_sound _
    [.inject, .inject, .inject, .get 2 2 0, .put 2, .main, .get 0 0 0, .put 0, .get 0 0 0, .put 0, .put 0,
     .get 1 1 0, .get 1 1 0, .main, .main, .get 2 2 0, .put 2, .get 2 2 0, .main]
  decide

/-- F18: two thread workers; worker 1 forwards the sentinel while worker 0 still holds a result; the gather thread
    leaves; `__exit__` returns with the entry of that request still in the ledger -/
theorem F18_witness :
    (match Core.run (step (compileServer 1 (.simple 2 false) (pinned := true)))
        (init (compileServer 1 (.simple 2 false) (pinned := true)))
        [.inject, .get 0 0 0, .main, .get 1 0 0, .put 1, .put 1, .get 2 1 0, .put 0, .get 0 0 0, .put 0, .put 0,
         .main, .main, .main] with
     | some s => decide (Final s) && s.ledger == 1
     | none => false) = true := by
  decide

end Lifecycle.Pinned
