import MpsVerif.Model.LogPipe
/-!
# Legacy model: the pinned `_collect_result` (defect F15)

The pinned collector puts the end mark into the log queue **as soon as result and error have
arrived** and resolves the future, without waiting for the child to exit and without joining the
logger thread.  Same state and actions as `Model/LogPipe.lean`; only the collector's path differs:
`recv2 → putEnd → resolve` (no `waitExit`, no `joinLog`).

Kernel-checked witness (`decide`): two records, a pipe that holds one.  The end mark overtakes the
records, the logger thread stops, the future is resolved (`result()` returns) with **nothing
handled**, the child's feeder fills the pipe that nobody reads any more and the child can never
exit: a reachable, non-final state without any enabled action.  This is the history the check
replays on the real pinned code (2000 × 100 B: 628 of 1333 handled, `join()` hangs).
-/
namespace LogPipe.Legacy

def step (c : Cfg) (s : State) : Act → Option State
  | .kRecv =>
    if s.recvd < s.sent then
      match s.kpc with
      | .recv1 => some { s with kpc := .recv2, recvd := s.recvd + 1 }
      | .recv2 => some { s with kpc := .putEnd, recvd := s.recvd + 1 }      -- pinned: no wait for the sentinel
      | _ => none
    else none
  | .kPutEnd => if s.kpc = .putEnd then some { s with kpc := .resolve, pbuf := s.pbuf + 1 } else none  -- no join
  | .kSentinel => none
  | .kJoinLog => none
  | a => LogPipe.step c s a

def witnessCfg : Cfg := { n := 2, K := 1, pass := fun _ => true }

def witness : List Act :=
  [.emit, .emit, .targetEnd, .send1, .send2, .kRecv, .kRecv, .kPutEnd, .pfeed, .lend, .kResolve,
   .closeQ, .feed, .fin]

/-- F15: on the pinned protocol the property fails — a reachable deadlock in which the future is
    resolved, no record has been handled although both pass, and the child has not exited. -/
theorem F15_witness :
    ∃ s, Core.run (step witnessCfg) init witness = some s ∧
      (∀ a, step witnessCfg s a = none) ∧ ¬ Final s ∧ s.cpc = .joinF ∧ s.fut = true ∧
      s.handled = [] ∧ expected witnessCfg = [0, 1] ∧ s.cbuf = [1] ∧ s.pipe = [.record 0] := by
  refine ⟨_, rfl, ?_, ?_⟩
  · intro a; cases a <;> decide
  · decide

end LogPipe.Legacy
