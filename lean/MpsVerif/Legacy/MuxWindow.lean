import MpsVerif.Model.Mux
/-!
# What the suspected window F17 would mean (hypothetical interleaving, NOT exhibited on the real code)

`SocketClient._keep_sending` does `await write_record(writer, req_id, x)` and only then
`active[req_id] = fut`.  The main model (`Model/Mux.lean`) treats the two as one atomic action, on the
assumption that asyncio resumes the sending coroutine before the receiving task can process the
response to that very record (true for the selector event loop: the drain waiter is resolved no later
than the last byte leaves, the continuation is queued before any later I/O callback; the check
monitors this order on every real run and it never failed, even with an artificial scheduler-friendly
workload of multi-MB requests answered instantly).

This file shows, kernel-checked, what happens in the variant where the registration is a separate
step that the response can overtake (e.g. another event-loop implementation, or a future edit that
puts an `await` between the two statements — mutation M3 in notes/C18.md does exactly that and the
check reports it): `active.pop(req_id)` raises `KeyError`, the receiving task of that connection
dies, the response is dropped, and the request stays registered for ever although nothing is in
flight any more — `C18_mux_no_unmatched` and `C18_mux_all_answered` fail.
-/
namespace Mux.Legacy

structure WState where
  base : State
  unreg : List (Nat × Nat)   -- written, not yet registered: (req_id, fut)
  dead : List Nat            -- connections whose receiving task has died

inductive ActW where
  | base (a : Act)
  | register                 -- the sending coroutine resumes after `drain()` and registers the future

def initW (c : Cfg) : WState := { base := init c, unreg := [], dead := [] }

def stepW (c : Cfg) (w : WState) : ActW → Option WState
  | .base (.send ci) =>
    let s := w.base
    match s.pending, s.conns[ci]? with
    | (x, k) :: rest, some cn =>
      match s.reqs[k]? with
      | some r =>
        some { w with base := { s with pending := rest,
                                       conns := s.conns.set ci { cn with wire := cn.wire ++ [⟨r.id, x, k⟩] },
                                       stage := upd s.stage k (.wire ci) },
                      unreg := w.unreg ++ [(r.id, k)] }
      | none => none
    | _, _ => none
  | .base (.recv ci) =>
    let s := w.base
    if w.dead.contains ci then none else
    match s.conns[ci]? with
    | some cn =>
      match cn.back with
      | r :: rest =>
        match lookup s.active r.rid with
        | some _ => (step c s (.recv ci)).map (fun s' => { w with base := s' })
        | none =>   -- KeyError: the record has been read, the task dies
          some { w with base := { s with conns := s.conns.set ci { cn with back := rest } }, dead := ci :: w.dead }
      | [] => none
    | none => none
  | .base a => (step c w.base a).map (fun s' => { w with base := s' })
  | .register =>
    match w.unreg with
    | (rid, k) :: rest => some { w with base := { w.base with active := insert w.base.active rid k }, unreg := rest }
    | [] => none

/-- One request, one connection, a fast handler: the response overtakes the registration.  At the end
    nothing is in flight, nothing is pending, the receiver of connection 0 is dead, the future is
    registered — and it has no result. -/
def witness : List ActW :=
  [.base (.submit 7 100), .base (.send 0), .base (.srvRecv 0), .base (.finish 0 0), .base (.respond 0),
   .base (.recv 0), .register]

def cfg1 : Cfg := { nconn := 1, handler := fun x => .ok x, pendCap := 8, wireCap := 8, srvCap := 8, backCap := 8 }

theorem window_loses_response :
    (Core.run (stepW cfg1) (initW cfg1) witness).map
        (fun w => (w.base.results, w.base.active, w.dead, w.base.reqs.length)) = some ([], [(100, 0)], [0], 1)
    ∧ (Core.run (stepW cfg1) (initW cfg1) witness).map
        (fun w => (w.base.pending, w.unreg, w.base.conns.map (fun cn => cn.wire.length + cn.srvq.length + cn.back.length)))
      = some ([], [], [0]) := by
  decide

end Mux.Legacy
