import MpsVerif.Model.Pipe
/-!
# Why the pipe model assumes that endpoints stay open (observation 1 in notes/C18.md)

`_Pipe.__init__` opens its write FIFO with `O_RDWR` (so that the open does not block), the read FIFO
is opened lazily by the first `recv` with `O_RDONLY` (blocks until the file is open for writing
somewhere).  A FIFO forgets its buffered bytes when its **last** descriptor is closed.  So an
endpoint that sends and is dropped (object collected, process exit) before the peer has opened its
read end loses what it sent, silently, and the peer then waits for ever.

This file models one direction with descriptor counting and exhibits that run, kernel-checked.  It is
the behaviour of FIFOs, not a defect of `pipe.py` that a small patch could repair (the module
docstring asks the application to design a handshake); the main model `Pipe` therefore has no `close`
action and the scenario keeps endpoints alive until the peer is done.  The first version of the
two-process scenario did not, and lost an object exactly this way (server plan `[b'']`, client 50 ms
late: client received 0 of 1).
-/
namespace Pipe.Legacy

structure CState where
  buf : Bytes            -- kernel buffer of the FIFO
  nfd : Nat              -- descriptors currently open on it
  wopen : Bool           -- the sending endpoint exists
  ropen : Bool           -- the receiving endpoint has opened its read end
  sent : List Bytes
  rcvd : List Bytes
  deriving Repr, DecidableEq

inductive CAct where
  | create               -- sender: `_Pipe.__init__` → `os.open(wpath, O_RDWR)`
  | send (m : Bytes)     -- `send_bytes(m)` (the bytes fit the buffer)
  | drop                 -- the sending endpoint is collected / its process exits: descriptor closed
  | openR                -- receiver: first `recv` → `os.open(rpath, O_RDONLY)`; blocks while nobody has the file open
  | recv
  deriving Repr, DecidableEq

def cinit : CState := { buf := [], nfd := 0, wopen := false, ropen := false, sent := [], rcvd := [] }

def cstep (s : CState) : CAct → Option CState
  | .create => if s.wopen then none else some { s with wopen := true, nfd := s.nfd + 1 }
  | .send m => if s.wopen then some { s with buf := s.buf ++ frame m, sent := s.sent ++ [m] } else none
  | .drop =>
    if s.wopen then
      some { s with wopen := false, nfd := s.nfd - 1, buf := if s.nfd - 1 = 0 then [] else s.buf }
    else none
  | .openR => if !s.ropen && decide (0 < s.nfd) then some { s with ropen := true, nfd := s.nfd + 1 } else none
  | .recv =>
    if s.ropen then
      match readFrame s.buf with
      | some (m, rest) => some { s with buf := rest, rcvd := s.rcvd ++ [m] }
      | none => none
    else none

/-- send, then drop the endpoint before the peer opened its read end: the message is gone, the peer's
    `open` blocks (not enabled) — whereas opening first, or dropping later, delivers it. -/
theorem drop_before_open_loses_message :
    (Core.run cstep cinit [.create, .send [7], .drop]).map (fun s => (s.buf, s.sent, s.rcvd, s.nfd))
      = some ([], [[7]], [], 0)
    ∧ Core.run cstep cinit [.create, .send [7], .drop, .openR] = none
    ∧ (Core.run cstep cinit [.create, .send [7], .openR, .drop, .recv]).map (fun s => (s.sent, s.rcvd))
      = some ([[7]], [[7]]) := by
  decide

end Pipe.Legacy
