import MpsVerif.Model.Pipeline
/-!
# Legacy model: re-iterating a `Stream` on the pinned code (finding F23)

On the pinned tree `Stream.accumulate` is `self.map(Accumulator())`: the running value lives in the
`Accumulator` object that is created when the pipeline is *built* (`_streamer.py`,
`Stream.accumulate`), not in the generator that `Mapper.__iter__` starts.  A second iteration of
the same `Stream` therefore starts every other stage afresh but continues the accumulation where
the first iteration stopped.  Kernel-checked witness below: the second consumption of
`Stream([1,2,3]).accumulate(add)` yields `[7, 9, 12]`, not the sequential meaning `[1, 3, 6]`
(replay on the real code: scen_pipeline case `vals=[1,2,3] ops=[accumulate add] again=True`).
The repaired code is `Pipeline.rebuild` (every stage starts over), `Pipeline.C03_reiterate`.
-/
namespace Pipeline.Legacy
open Pipeline

/-- pinned behaviour of a second `__iter__`: fresh generators, but the accumulator object is shared -/
def reiterStage (g : Stage) : Stage :=
  match g.op with
  | .accumulate _ _ => { Stage.init g.op with st := { initSt g.op with acc := g.st.acc } }
  | _ => Stage.init g.op

def reiter (ss : List Stage) : List Stage := ss.map reiterStage

/-- the property fails on the pinned behaviour -/
theorem F23_accumulate_reiterate_witness :
    let ops : List Op := [.accumulate (Fn2.eval .add) Option.none]
    let vals : List Val := [.int 1, .int 2, .int 3]
    let first := takeK 50 4 (build ops) (World.init vals Option.none [])
    let second := takeK 50 4 (reiter first.2.2.1) (World.init vals Option.none [])
    first.1 = [.int 1, .int 3, .int 6] ∧
    second.1 = [.int 7, .int 9, .int 12] ∧
    second.1 ≠ (semAll ops ⟨vals, Option.none⟩).vals := by
  decide

/-- recogniser used nowhere else: with nothing accumulated the legacy re-iteration is the repaired one -/
example : reiter (build [.head 2, .batch 3]) = rebuild (build [.head 2, .batch 3]) := rfl

end Pipeline.Legacy
