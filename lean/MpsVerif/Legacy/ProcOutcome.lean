import MpsVerif.Model.ProcOutcome
/-!
# Legacy model: the pinned `_collect_result` (defect F13)

In the pinned code the collector thread, on `EOFError` with an exit status other than -15,
**raises** `OSError(sig)` instead of making it the error the future is resolved with: the
collector thread ends (its own `Thread` object carries the exception) and the process's future
is never resolved.  `join()` / `exception()` re-raise the collector thread's exception when they
join it; `wait` / `as_completed` wait on the future forever.  (The pinned collector also does not
wait for the child's sentinel and does not join the logger thread — that is F15 and does not matter
here.)  Same state and actions as `Model/ProcOutcome.lean`; `kEofCode` and the accessors differ.

Kernel-checked witness (`decide`): SIGKILL while the target runs.
-/
namespace ProcOutcome.Legacy

def step (c : Cfg) (s : State) : Act → Option State
  | .kEofCode =>
    if s.kpc = .eof then
      match s.exitcode with
      | some x =>
        if -x = 15 then some { s with kpc := .waitExit }
        else
          -- `raise OSError(...)`: the collector thread is over, the future untouched
          some { s with kpc := .done, error := .exc (.osErr (-x)) }
      | none => none
    else none
  | .ask _ => none        -- accessors: see `canAnswer` / `answer` below
  | a => ProcOutcome.step c s a

/-- pinned accessors: `join`/`exception` join the collector thread first, which re-raises its
    exception; `result` goes through `join`; `wait`/`as_completed` need the future -/
def canAnswer (a : Acc) (s : State) : Bool :=
  match a with
  | .join | .result | .exception => s.exitcode.isSome && s.kpc == .done
  | .done | .exitcode => true
  | .wait | .asCompleted => s.fut.isSome

def answer (a : Acc) (s : State) : Ans :=
  match s.fut with
  | some _ => ProcOutcome.answer a s
  | none =>
    match a with
    | .done => .flag s.exitcode.isSome
    | .exitcode => .code s.exitcode
    | _ => .raised s.error        -- re-raised from the collector thread's `join`

def witnessCfg : Cfg := { outcome := .ret (.val 5) }

def witness : List Act := [.cBoot, .kill 9, .kEof, .kEofCode]

/-- F13: a reachable state in which child and collector are gone, nothing but a new accessor call
    can happen, the future is unresolved — `wait` and `as_completed` can never return — and
    `exception()` *raises* the `OSError` where the property demands it be returned. -/
theorem F13_witness :
    ∃ s, Core.run (step witnessCfg) init witness = some s ∧
      s.cpc = .exited ∧ s.kpc = .done ∧ s.fut = none ∧ s.killed = some (9, .during) ∧
      (∀ a, step witnessCfg s a = none) ∧
      canAnswer .wait s = false ∧ canAnswer .asCompleted s = false ∧
      canAnswer .exception s = true ∧ answer .exception s = .raised (.exc (.osErr 9)) ∧
      finalAns witnessCfg.outcome s.killed .exception = .returned (.exc (.osErr 9)) := by
  refine ⟨_, rfl, rfl, rfl, rfl, rfl, ?_, rfl, rfl, rfl, rfl, rfl⟩
  intro a
  cases a <;> first | rfl | decide | (simp [step, ProcOutcome.step])

end ProcOutcome.Legacy
