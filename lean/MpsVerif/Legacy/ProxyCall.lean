import MpsVerif.Model.ProxyCall
/-!
# Pinned code, F31: an exception raised through a proxy used *inside the server*

`BaseProxy._callmethod` short-cuts to `server._callmethod` when the proxy lives in the server
process; on `#ERROR` the result is a `RemoteException` that never went through pickling, so
`raise convert_to_error(kind, result)` raises `TypeError: exceptions must derive from
BaseException` instead of the method's own exception.  `legacyCall` is `pyCall` with exactly that
deviation; the witness shows the outcome differs from the direct semantics (C14 fails there).
(F32 — `NamespaceProxy.__getattribute__` recursing for ever — has no model: no Namespace proxy can
be constructed at all; the check reports it from the real code.)
-/
namespace ProxyCall.Legacy
open ProxyCall

def legacyCall (h : Heap) (a : Nat) (op : POp) : Heap × Res :=
  match h a, op with
  | some (.ctr _ _), .pokePop (.ref j) =>
    match h j with
    | some (.lst []) => (h, .raised .type)      -- the nested IndexError surfaces as TypeError
    | _ => pyCall h a op
  | _, _ => pyCall h a op

def legacySem : Sem Heap POp := ⟨legacyCall⟩

def heap0 : Heap := fun j => if j = 0 then some (.ctr 0 1) else if j = 1 then some (.lst []) else if j = 2 then some (.lst []) else none
def P0 : PState Heap := { srv := { heap := heap0, hosted := fun j => j = 0 || j = 2 }, conn := fun _ => false }

theorem F31_nested_error_changes_class :
    (proxyStep legacySem P0 ⟨0, 0, .pokePop (.ref 2)⟩).2 = .raised .type true ∧
    view (pySem.call heap0 0 (.pokePop (.ref 2))).2 = .raised .index true := by decide

end ProxyCall.Legacy
