import MpsVerif.Model.Refcount
import MpsVerif.Core.Sys
/-!
# The reference counting of the *pinned* code (before fixes F16 and F21) violates C13

Same state and actions as `Model/Refcount.lean`, with the three deviations of the pinned tree:

* `inherit q i` (F16): a proxy un-pickled while a spawned child bootstraps
  (`current_process()._inheriting`) is built with `incref=False`: no increment, no finalizer, no
  compensating decrement — although `__reduce__` already incremented.  The pickle's count is never
  given back (`lost`); the child's proxy is not a counted reference at all.
* `exitLeaky p` (F16): the proxy finalizer has no exit priority, so proxies still alive when a
  process exits are never finalized; their counts are `lost`.
* `hold c i` / `nextRequest c` (F21): `serve_client` keeps the request and the reply in its locals
  while it waits for the connection's next request; a server temporary made while serving client
  `c` is released only by `c`'s next request (or when `c` closes its connection) — a *client*
  action; the server has no internal step that drops it.
* `cycle i` (F33): the argument proxy of a hosted method that raised stays referenced by the frame of
  `Server._callmethod`, which the exception's traceback refers to and which refers to the wrapped
  exception through its local `msg`: garbage only the cyclic collector can free (`lost` until then;
  an idle server never collects).

The witnesses below are kernel-checked (`decide`) runs of this model that end in a state the C13
theorems exclude: an object without any reference that is still hosted.  The same action lists
are the shapes the check's corpus replays on the real code (`scen_refcount.boundary_cases`).
-/
namespace Refcount.Legacy
open Refcount

structure LState where
  s : State
  lost : List Ref := []           -- counted references that nobody will ever give back
  held : List (Nat × Nat) := []   -- (client whose connection's thread holds it, ident)

inductive LAct where
  | base (a : Act)
  | inherit (q i : Nat)
  | exitLeaky (p : Nat)
  | hold (c i : Nat)
  | nextRequest (c : Nat)
  | cycle (i : Nat)

def lstep (t : LState) : LAct → Option LState
  | .base a => (step t.s a).map fun s' => { t with s := s' }
  | .inherit _ i =>
    if (Holder.transit, i) ∈ t.s.refs then
      some { t with s := { t.s with refs := t.s.refs.erase (.transit, i) }, lost := (.transit, i) :: t.lost }
    else none
  | .exitLeaky p =>
    if t.s.stat p = .exiting then
      some { t with s := { t.s with stat := fun q => if q = p then .exited else t.s.stat q
                                    refs := t.s.refs.filter (fun r => r.1 != .client p) }
                    lost := t.s.refs.filter (fun r => r.1 == .client p) ++ t.lost }
    else none
  | .hold c i =>
    if (Holder.temp, i) ∈ t.s.refs then
      some { t with s := { t.s with refs := t.s.refs.erase (.temp, i) }, held := (c, i) :: t.held }
    else none
  | .cycle i =>
    if (Holder.temp, i) ∈ t.s.refs then
      some { t with s := { t.s with refs := t.s.refs.erase (.temp, i) }, lost := (.temp, i) :: t.lost }
    else none
  | .nextRequest c =>
    some { t with s := { t.s with refs := (t.held.filter (·.1 == c)).map (fun x => (Holder.temp, x.2)) ++ t.s.refs }
                  held := t.held.filter (·.1 != c) }

def linit : LState := { s := init }

/-- client 0 creates object `i` of kind `k` and receives its proxy (repaired timing of the temp) -/
def createBy (p : Nat) (k : Kind) (i : Nat) : List LAct :=
  [.base (.create k i), .base (.pickle .temp i), .base (.drop .temp i), .base (.unpickle (.client p) i),
   .base (.drop .rebuild i)]

/-- **F16** `Process(args=(proxy,))`: the parent pickles (count 2), the bootstrapping child builds an
    uncounted proxy, the parent deletes its proxy: no proxy, no pickle, nothing nested, no server
    temporary — and the list is still hosted with count 1, for ever. -/
theorem F16_inherited_proxy_leaks :
    ∃ t, Core.run lstep linit (createBy 0 .cont 0 ++ [.base (.pickle (.client 0) 0), .inherit 1 0,
                                                    .base (.drop (.client 0) 0)]) = some t ∧
      t.s.refs = [] ∧ t.held = [] ∧ t.s.hosted 0 = true ∧ t.s.rc 0 = 1 ∧ t.lost = [(.transit, 0)] :=
  ⟨_, rfl, by decide⟩

/-- **F16** no exit priority: client 1 received the proxy by an ordinary un-pickle and still holds it
    when it exits; client 0 deletes its own: the memory block stays hosted and linked. -/
theorem F16_exit_without_finalizers_leaks :
    ∃ t, Core.run lstep linit (createBy 0 .mem 0 ++ [.base (.pickle (.client 0) 0), .base (.unpickle (.client 1) 0),
            .base (.drop .rebuild 0), .base (.exitBegin 1), .exitLeaky 1, .base (.drop (.client 0) 0)]) = some t ∧
      t.s.refs = [] ∧ t.s.stat 1 = .exited ∧ t.s.hosted 0 = true ∧ t.s.shm 0 = true :=
  ⟨_, rfl, by decide⟩

/-- **F21** a `managed()` memory block returned to client 0 (who also holds the maker, ident 0) and
    deleted again: the only remaining reference is the reply kept by the thread serving client 0;
    the block stays hosted and its shared memory linked until client 0's next request. -/
def f21 : List LAct :=
  createBy 0 .plain 0 ++
  [.base (.call 0 0), .base (.create .mem 1), .base (.pickle .temp 1), .hold 0 1,
   .base (.unpickle (.client 0) 1), .base (.drop .rebuild 1), .base (.drop (.client 0) 1)]

theorem F21_reply_kept_until_next_request :
    ∃ t, Core.run lstep linit f21 = some t ∧
      t.s.refs = [(.client 0, 0)] ∧ t.held = [(0, 1)] ∧ t.s.hosted 1 = true ∧ t.s.shm 1 = true ∧ t.s.rc 1 = 1 :=
  ⟨_, rfl, by decide⟩

/-- … and one unrelated call of client 0 releases it -/
theorem F21_released_by_unrelated_call :
    ∃ t, Core.run lstep linit (f21 ++ [.nextRequest 0, .base (.drop .temp 1)]) = some t ∧
      t.s.hosted 1 = false ∧ t.s.shm 1 = false ∧ t.held = [] :=
  ⟨_, rfl, by decide⟩

/-- **F33** `lst.remove(d)` with `d` a proxy of the hosted dict 1 raises `ValueError`; client 0 then
    deletes `d`: no reference to the dict is left, it is still hosted. -/
theorem F33_raising_call_keeps_argument :
    ∃ t, Core.run lstep linit (createBy 0 .cont 0 ++ createBy 0 .cont 1 ++
            [.base (.call 0 0), .base (.pickle (.client 0) 1), .base (.unpickle .temp 1), .base (.drop .rebuild 1),
             .cycle 1, .base (.drop (.client 0) 1)]) = some t ∧
      t.s.refs = [(.client 0, 0)] ∧ t.s.hosted 1 = true ∧ t.s.rc 1 = 1 ∧ t.lost = [(.temp, 1)] :=
  ⟨_, rfl, by decide⟩

end Refcount.Legacy
