import MpsVerif.Model.RemoteExc
/-!
# Legacy: the pinned `_rebuild_exception` under pickle's memo (finding F22)

`RemoteException.__reduce__` returns `(_rebuild_exception, (self.exc, self.tb))`.  Inside ONE
pickle payload `self.exc` is memoised by object identity, so when two `RemoteException` objects
hold the *same* exception object (e.g. two ensemble members raised one shared instance; the texts
differ because they were formatted after different `raise`s), unpickling calls
`_rebuild_exception` twice on the same new object; the pinned code overwrites `__cause__`, hence
every alias ends with the text of the LAST wrapper.

The main model (`Model/RemoteExc.lean`) is a tree — every entry is rebuilt on its own — which is
what the repaired code does (a copy is labelled when the object already carries a different
`RemoteTraceback`).  Here: a flat result list of `RemoteException` objects with explicit object
identities, the pinned behaviour, a kernel-checked witness that the property fails, and the
`_partial` theorem for the region where pinned and repaired code agree.
-/
namespace RemoteExc.Legacy

/-- a `RemoteException` in the result list: identity of the wrapped object, its class/args, text -/
structure Ent where
  oid : Nat
  cls : Nat
  args : List Nat
  tb : Text
  deriving Repr, DecidableEq

/-- what arrives for one entry: class, args, remote text -/
structure Out where
  cls : Nat
  args : List Nat
  text : Text
  deriving Repr, DecidableEq

/-- text of the last wrapper around object `oid` in the payload -/
def lastText (ms : List Ent) (oid : Nat) : Option Text :=
  ((ms.filter (·.oid == oid)).getLast?).map (·.tb)

/-- pinned code: every alias of an object shows the text set by the last `_rebuild_exception` -/
def pkPinned (ms : List Ent) : List Out :=
  ms.map fun m => ⟨m.cls, m.args, (lastText ms m.oid).getD m.tb⟩

/-- the property (and the main model's `pkMems` on `rem` entries): every entry keeps its own text -/
def pkSpec (ms : List Ent) : List Out := ms.map fun m => ⟨m.cls, m.args, m.tb⟩

/-- the main model agrees with `pkSpec` (leaf members) -/
theorem pkMems_spec (m : Ent) (r : Mems) :
    pkMems (.rem (.mk m.cls m.args none .none .nil) m.tb r)
      = .exc (.mk m.cls m.args none (.remote m.tb) .nil) (pkMems r) := rfl

/-- **witness (F22)**: one object (oid 7) wrapped twice, texts `[50]` and `[51]`: on the pinned
    code the first entry arrives with the second entry's text -/
theorem F22_witness :
    let ms : List Ent := [⟨7, 1, [3], [50]⟩, ⟨7, 1, [3], [51]⟩]
    pkPinned ms ≠ pkSpec ms ∧ (pkPinned ms).map (·.text) = [[51], [51]] := by
  decide

theorem lastText_mem (ms : List Ent) (oid : Nat) (t : Text) (h : lastText ms oid = some t) :
    ∃ m ∈ ms, m.oid = oid ∧ m.tb = t := by
  simp only [lastText, Option.map_eq_some_iff] at h
  obtain ⟨m, hm, rfl⟩ := h
  have := List.mem_of_getLast? hm
  simp only [List.mem_filter, beq_iff_eq] at this
  exact ⟨m, this.1, this.2, rfl⟩

/-- **C15_ensemble_pinned_partial**: on the pinned code the nested texts are preserved provided no
    exception object is wrapped twice with different texts.  (Full statement = `C15_ensemble`,
    which holds for the repaired code without this hypothesis.) -/
theorem C15_ensemble_pinned_partial (ms : List Ent)
    (h : ∀ a ∈ ms, ∀ b ∈ ms, a.oid = b.oid → a.tb = b.tb) : pkPinned ms = pkSpec ms := by
  simp only [pkPinned, pkSpec]
  apply List.map_congr_left
  intro m hm
  cases hl : lastText ms m.oid with
  | none => rfl
  | some t =>
    obtain ⟨b, hb, ho, rfl⟩ := lastText_mem ms m.oid t hl
    simp [h b hb m hm ho]

end RemoteExc.Legacy
