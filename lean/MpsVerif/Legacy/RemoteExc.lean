import MpsVerif.Model.RemoteExc
/-!
# Pickle's memo and `_rebuild_exception` (finding F22): pinned vs repaired code

`RemoteException.__reduce__` returns `(_rebuild_exception, (self.exc, self.tb))`.  Inside ONE
pickle payload `self.exc` is memoised by object identity, so when two `RemoteException` objects
hold the *same* exception object (e.g. two ensemble members raised one shared instance; the texts
differ because they were formatted after different `raise`s), unpickling calls
`_rebuild_exception` twice on the same new object.  The pinned code overwrites `__cause__`, hence
every alias ends with the text of the LAST wrapper.  The repaired code (fixes/F22-…patch) labels
a `copy.copy` when the object already carries a *different* `RemoteTraceback`.

The main model (`Model/RemoteExc.lean`) is a tree: every entry is rebuilt on its own.  This file
models one unpickling of a flat result list of `RemoteException` objects with explicit object
identities and a heap of labels, in both variants, and shows

* `F22_witness`                  — the pinned code violates the property (kernel-checked, `decide`);
* `C15_ensemble_pinned_partial`  — the pinned code meets it when no object is wrapped twice with
                                   different texts;
* `repaired_eq_spec`             — the repaired code meets it for EVERY payload, i.e. the tree
                                   model's entry-by-entry `pkMems` is what the repaired code computes
                                   even when entries share objects.
-/
namespace RemoteExc.Legacy

/-- a `RemoteException` in the result list: identity of the wrapped object, its class/args, text -/
structure Ent where
  oid : Nat
  cls : Nat
  args : List Nat
  tb : Text
  deriving Repr, DecidableEq

/-- what arrives for one entry: class, args, remote text -/
structure Out where
  cls : Nat
  args : List Nat
  text : Text
  deriving Repr, DecidableEq

/-- an unpickled object: the one pickle's memo holds for a source object, or a copy -/
inductive Ref where
  | memo (oid : Nat)
  | copy (k : Nat)
  deriving Repr, DecidableEq

/-- state of one `pickle.loads`: the label (`__cause__.tb`) of the memo object of every source
    object seen so far (latest binding first), the labels of the copies, and for every entry
    processed the object it refers to -/
structure St where
  memo : List (Nat × Text)
  copies : List Text
  out : List (Ent × Ref)
  deriving Repr

def init : St := ⟨[], [], []⟩

def St.label (s : St) : Ref → Option Text
  | .memo o => s.memo.lookup o
  | .copy k => s.copies[k]?

/-- pinned `_rebuild_exception`: `exc.__cause__ = RemoteTraceback(tb)` on the memo object -/
def stepPinned (s : St) (m : Ent) : St :=
  { s with memo := (m.oid, m.tb) :: s.memo, out := s.out ++ [(m, .memo m.oid)] }

/-- repaired `_rebuild_exception`: a copy is labelled when the memo object already carries a
    different text -/
def stepRepaired (s : St) (m : Ent) : St :=
  match s.memo.lookup m.oid with
  | none => { s with memo := (m.oid, m.tb) :: s.memo, out := s.out ++ [(m, .memo m.oid)] }
  | some t =>
    if t = m.tb then { s with memo := (m.oid, m.tb) :: s.memo, out := s.out ++ [(m, .memo m.oid)] }
    else { s with copies := s.copies ++ [m.tb], out := s.out ++ [(m, .copy s.copies.length)] }

/-- what the receiver sees once unpickling is over -/
def St.final (s : St) : List Out := s.out.map fun (m, r) => ⟨m.cls, m.args, (s.label r).getD []⟩

def pkPinned (ms : List Ent) : List Out := (ms.foldl stepPinned init).final
def pkRepaired (ms : List Ent) : List Out := (ms.foldl stepRepaired init).final

/-- the property (and the main model's `pkMems` on `rem` entries): every entry keeps its own text -/
def pkSpec (ms : List Ent) : List Out := ms.map fun m => ⟨m.cls, m.args, m.tb⟩

/-- the main model agrees with `pkSpec` (leaf members) -/
theorem pkMems_spec (m : Ent) (r : Mems) :
    pkMems (.rem (.mk m.cls m.args none .none .nil) m.tb r)
      = .exc (.mk m.cls m.args none (.remote m.tb) .nil) (pkMems r) := rfl

/-- **witness (F22)**: one object (oid 7) wrapped twice, texts `[50]` and `[51]`: on the pinned
    code the first entry arrives with the second entry's text; the repaired code keeps both -/
theorem F22_witness :
    let ms : List Ent := [⟨7, 1, [3], [50]⟩, ⟨7, 1, [3], [51]⟩]
    pkPinned ms ≠ pkSpec ms ∧ (pkPinned ms).map (·.text) = [[51], [51]] ∧
    (pkRepaired ms).map (·.text) = [[50], [51]] := by
  decide

/-! ### invariant: every processed entry refers to an object labelled with its own text -/

def Good (s : St) : Prop := ∀ x ∈ s.out, s.label x.2 = some x.1.tb

theorem final_of_good (s : St) (h : Good s) : s.final = pkSpec (s.out.map (·.1)) := by
  simp only [St.final, pkSpec, List.map_map]
  apply List.map_congr_left
  intro x hx
  simp [h x hx]

theorem out_foldl (step : St → Ent → St) (hstep : ∀ s m, ((step s m).out).map (·.1) = s.out.map (·.1) ++ [m])
    (ms : List Ent) (s : St) : ((ms.foldl step s).out).map (·.1) = s.out.map (·.1) ++ ms := by
  induction ms generalizing s with
  | nil => simp
  | cons m ms ih => simp [List.foldl_cons, ih, hstep]

theorem good_foldl (step : St → Ent → St) (P : St → Prop) (hstep : ∀ s m, P s → P (step s m))
    (ms : List Ent) (s : St) (h : P s) : P (ms.foldl step s) := by
  induction ms generalizing s with
  | nil => exact h
  | cons m ms ih => exact ih _ (hstep s m h)

theorem label_memo_cons (s : St) (o : Nat) (t : Text) (r : Ref) (copies : List Text) (out : List (Ent × Ref)) :
    (St.mk ((o, t) :: s.memo) copies out).label r =
      match r with
      | .memo o' => if o' = o then some t else s.memo.lookup o'
      | .copy k => copies[k]? := by
  cases r with
  | memo o' =>
    simp only [St.label, List.lookup_cons]
    by_cases h : o' = o
    · simp [h]
    · have : (o' == o) = false := by simp [h]
      simp [h, this]
  | copy k => rfl

theorem good_repaired (s : St) (m : Ent) (h : Good s) : Good (stepRepaired s m) := by
  unfold stepRepaired
  split
  · -- first time this object is seen
    rename_i hnone
    intro x hx
    simp only [List.mem_append, List.mem_singleton] at hx
    rw [label_memo_cons]
    rcases hx with hx | rfl
    · have hg := h x hx
      cases hr : x.2 with
      | memo o' =>
        rw [hr] at hg
        simp only [St.label] at hg
        by_cases ho : o' = m.oid
        · subst ho; rw [hnone] at hg; simp at hg
        · simp [ho, hg]
      | copy k => rw [hr] at hg; simpa [St.label] using hg
    · simp
  · rename_i t hsome
    split
    · -- same text again
      rename_i heq
      intro x hx
      simp only [List.mem_append, List.mem_singleton] at hx
      rw [label_memo_cons]
      rcases hx with hx | rfl
      · have hg := h x hx
        cases hr : x.2 with
        | memo o' =>
          rw [hr] at hg
          simp only [St.label] at hg
          by_cases ho : o' = m.oid
          · subst ho
            rw [hsome] at hg
            simp only [Option.some.injEq] at hg
            simp [← hg, heq]
          · simp [ho, hg]
        | copy k => rw [hr] at hg; simpa [St.label] using hg
      · simp
    · -- different text: a copy is labelled, nothing else changes
      intro x hx
      simp only [List.mem_append, List.mem_singleton] at hx
      rcases hx with hx | rfl
      · have hg := h x hx
        cases hr : x.2 with
        | memo o' => rw [hr] at hg; simpa [St.label] using hg
        | copy k =>
          rw [hr] at hg
          simp only [St.label] at hg ⊢
          have hk : k < s.copies.length := by
            rcases Nat.lt_or_ge k s.copies.length with hk | hk
            · exact hk
            · rw [List.getElem?_eq_none hk] at hg; simp at hg
          rw [List.getElem?_append_left hk]
          exact hg
      · simp [St.label]

theorem out_repaired (s : St) (m : Ent) : ((stepRepaired s m).out).map (·.1) = s.out.map (·.1) ++ [m] := by
  unfold stepRepaired
  split
  · simp
  · split <;> simp

/-- **the repaired code meets the property for every payload**, shared objects or not -/
theorem repaired_eq_spec (ms : List Ent) : pkRepaired ms = pkSpec ms := by
  have hg : Good (ms.foldl stepRepaired init) :=
    good_foldl stepRepaired Good good_repaired ms init (by intro x hx; simp [init] at hx)
  rw [pkRepaired, final_of_good _ hg, out_foldl stepRepaired out_repaired]
  simp [init]

/-! ### the pinned code, where it is right -/

/-- invariant for the pinned code under the hypothesis that equal objects carry equal texts -/
def GoodP (all : List Ent) (s : St) : Prop := Good s ∧ ∀ x ∈ s.out, x.1 ∈ all ∧ x.2 = .memo x.1.oid

theorem good_pinned (all : List Ent) (hall : ∀ a ∈ all, ∀ b ∈ all, a.oid = b.oid → a.tb = b.tb)
    (s : St) (m : Ent) (hm : m ∈ all) (h : GoodP all s) : GoodP all (stepPinned s m) := by
  obtain ⟨hg, hr⟩ := h
  refine ⟨?_, ?_⟩
  · intro x hx
    simp only [stepPinned, List.mem_append, List.mem_singleton] at hx
    simp only [stepPinned]
    rw [label_memo_cons]
    rcases hx with hx | rfl
    · obtain ⟨hxa, hxr⟩ := hr x hx
      have hgx := hg x hx
      rw [hxr] at hgx ⊢
      simp only [St.label] at hgx
      by_cases ho : x.1.oid = m.oid
      · simp [ho, hall m hm x.1 hxa ho.symm]
      · simp [ho, hgx]
    · simp
  · intro x hx
    simp only [stepPinned, List.mem_append, List.mem_singleton] at hx
    rcases hx with hx | rfl
    · exact hr x hx
    · exact ⟨hm, rfl⟩

theorem out_pinned (s : St) (m : Ent) : ((stepPinned s m).out).map (·.1) = s.out.map (·.1) ++ [m] := by
  simp [stepPinned]

theorem goodP_foldl (all : List Ent) (hall : ∀ a ∈ all, ∀ b ∈ all, a.oid = b.oid → a.tb = b.tb)
    (ms : List Ent) (hsub : ∀ m ∈ ms, m ∈ all) (s : St) (h : GoodP all s) :
    GoodP all (ms.foldl stepPinned s) := by
  induction ms generalizing s with
  | nil => exact h
  | cons m ms ih =>
    exact ih (fun x hx => hsub x (List.mem_cons_of_mem _ hx)) _
      (good_pinned all hall s m (hsub m (List.mem_cons_self ..)) h)

/-- **C15_ensemble_pinned_partial**: on the pinned code the nested texts are preserved provided no
    exception object is wrapped twice with different texts.  (Full statement = `C15_ensemble` /
    `repaired_eq_spec`, which hold for the repaired code without this hypothesis; the pinned code
    fails it: `F22_witness`.) -/
theorem C15_ensemble_pinned_partial (ms : List Ent)
    (h : ∀ a ∈ ms, ∀ b ∈ ms, a.oid = b.oid → a.tb = b.tb) : pkPinned ms = pkSpec ms := by
  have hg : GoodP ms (ms.foldl stepPinned init) :=
    goodP_foldl ms h ms (fun _ hm => hm) init ⟨by intro x hx; simp [init] at hx, by intro x hx; simp [init] at hx⟩
  rw [pkPinned, final_of_good _ hg.1, out_foldl stepPinned out_pinned]
  simp [init]

end RemoteExc.Legacy
