import MpsVerif.Model.Tee
import MpsVerif.Core.Sys
/-!
# Legacy model: `Fork.__next__` of the PINNED `_tee.py` (before fixes F8, F9, F10)

Same state space and action labels as `Model/Tee.lean`; `stepL` differs from `Tee.step` exactly
where the pinned code differs from the repaired code:

* first-element path: `with self.instream_lock:` — a *blocking* acquire straight after the first
  test of `head.value` (no wait loop, no timed retry): `hget@chkHead` goes to `hAcq`, there is no
  `acqFail` at `hAcq`, and the release continues with `self.next = head.value`            (F8);
* an exception of the source is not boxed: in the prefetch path it propagates out of `__next__`
  past `instream_lock.release()` (no try/finally), so the lock stays held                  (F9);
  in the first-element path the `with` statement releases it (`fin := some exc` records the
  exception in flight while `hRelStop` releases);
* no terminal box: a peer of the fork that saw the exception pulls the dead source again and is
  answered StopIteration (generator semantics), and `wLoop` has no `is_exc` test          (F10).

The witnesses below are kernel-checked (`decide`) concrete schedules showing that the C10
theorems FAIL for this model — they are the schedules the check replays on the pinned code.
-/
namespace Tee.Legacy
open Tee

def stepFL (c : Cfg) (s : State) (f : Nat) (fk : Fork) : Kind → Option State
  | .hget =>
    match fk.pc with
    | .chkHead =>
      some (setFork s f { fk with pc := if s.linked = 0 then .hAcq else if fk.st = false then .hNext else .retStop })
    | .hLoop => none
    | _ => stepF c s f fk .hget
  | .acqFail =>
    match fk.pc with
    | .hAcq => none
    | _ => stepF c s f fk .acqFail
  | .rel =>
    match fk.pc with
    | .hRel => if s.lock = some f then some { setFork s f { fk with pc := .hNext } with lock := none } else none
    | .hRelStop =>
      -- `with` exit while an exception propagates: StopIteration (empty source) or the source's exception
      if s.lock = some f then
        some { setFork s f { fk with pc := if fk.fin = some .exc then .retExc else .retStop } with lock := none }
      else none
    | _ => stepF c s f fk .rel
  | .srcExc =>
    if s.pulled = c.len ∧ c.fail = true ∧ s.raised = false then
      match fk.pc with
      | .hPull => some { setFork s f { fk with pc := .hRelStop, fin := some .exc } with raised := true }
      | .wPull => some { setFork s f { fk with pc := .retExc } with raised := true }
      | _ => none
    else none
  | .srcEnd =>
    if s.pulled = c.len ∧ (c.fail = false ∨ s.raised = true) then
      match fk.pc with
      | .hPull => some { setFork s f { fk with pc := .hRelStop } with endPulls := s.endPulls + 1 }
      | .wPull => some { setFork s f { fk with pc := .wRel } with endPulls := s.endPulls + 1 }
      | _ => none
    else none
  | .nget =>
    match fk.cur, fk.pc with
    | some j, .wLoop => some (setFork s f { fk with pc := if j + 1 < s.linked then .bAcq else .wAcq })
    | some j, .adv =>
      some (setFork s f { fk with pc := .ret j, st := true, cur := if j + 1 < s.linked then some (j + 1) else none })
    | _, _ => stepF c s f fk .nget
  | k => stepF c s f fk k

def stepL (c : Cfg) (s : State) (a : Act) : Option State :=
  if a.f < c.n then stepFL c s a.f (s.forks a.f) a.k else none

/-- no action of any fork is enabled -/
def dead (c : Cfg) (s : State) : Bool :=
  (List.range c.n).all fun f => allKinds.all fun k => (stepL c s ⟨f, k⟩).isNone

/-- **F8** (C10_progress / C10_no_wedge fail): 2 forks, `buffer_size = 2`, a clean source of 4
    elements.  Fork 1 tests `head.value is None` and is descheduled before `with instream_lock`;
    fork 0 runs ahead until the window is full and blocks in `buffer.put` holding the lock; fork 1
    then blocks on the lock.  Nobody has ended, and NO action is enabled: a deadlock. -/
theorem F8_wedge :
    let c : Cfg := { n := 2, bs := 2, len := 4, fail := false }
    ∃ as s, Core.run (stepL c) init as = some s ∧ ¬ Final c s ∧ dead c s = true ∧
      s.lock = some 0 ∧ (s.forks 0).pc = .wPut ∧ (s.forks 1).pc = .hAcq ∧ s.put = s.popped + c.bs := by
  refine ⟨[⟨1, .call⟩, ⟨1, .hget⟩,
      ⟨0, .call⟩, ⟨0, .hget⟩, ⟨0, .acqOk⟩, ⟨0, .hget⟩, ⟨0, .pull⟩, ⟨0, .put⟩, ⟨0, .hset⟩, ⟨0, .rel⟩, ⟨0, .hget⟩,
      ⟨0, .nget⟩, ⟨0, .acqOk⟩, ⟨0, .nget⟩, ⟨0, .pull⟩, ⟨0, .nset⟩, ⟨0, .put⟩, ⟨0, .rel⟩,
      ⟨0, .bacq⟩, ⟨0, .ncmp⟩, ⟨0, .inc⟩, ⟨0, .ncmp⟩, ⟨0, .brel⟩, ⟨0, .nget⟩, ⟨0, .recv⟩,
      ⟨0, .call⟩, ⟨0, .nget⟩, ⟨0, .acqOk⟩, ⟨0, .nget⟩, ⟨0, .pull⟩, ⟨0, .nset⟩], _, rfl, ?_⟩
  decide

/-- **F9** (C10_lock_released fails): the source yields one element and then raises.  Fork 0
    pulls the exception in the prefetch path and ends with it — still holding the source lock. -/
theorem F9_lock_leaked :
    let c : Cfg := { n := 2, bs := 2, len := 1, fail := true }
    ∃ as s, Core.run (stepL c) init as = some s ∧ (s.forks 0).pc = .done ∧ (s.forks 0).fin = some .exc ∧
      s.lock = some 0 ∧ (s.forks 0).out = [] := by
  refine ⟨[⟨0, .call⟩, ⟨0, .hget⟩, ⟨0, .acqOk⟩, ⟨0, .hget⟩, ⟨0, .pull⟩, ⟨0, .put⟩, ⟨0, .hset⟩, ⟨0, .rel⟩, ⟨0, .hget⟩,
      ⟨0, .nget⟩, ⟨0, .acqOk⟩, ⟨0, .nget⟩, ⟨0, .srcExc⟩, ⟨0, .exc⟩], _, rfl, ?_⟩
  decide

/-- **F10** (C10_same_stream / C10_pull_once fail): the source raises at its first pull.  Fork 0
    ends with the exception; fork 1 pulls the dead source again and ends by StopIteration: the two
    forks end differently, and every fork is done. -/
theorem F10_endings_differ :
    let c : Cfg := { n := 2, bs := 2, len := 0, fail := true }
    ∃ as s, Core.run (stepL c) init as = some s ∧ Final c s ∧ (s.forks 0).fin = some .exc ∧
      (s.forks 1).fin = some .stop ∧ s.raised = true ∧ s.endPulls = 1 := by
  refine ⟨[⟨0, .call⟩, ⟨0, .hget⟩, ⟨0, .acqOk⟩, ⟨0, .hget⟩, ⟨0, .srcExc⟩, ⟨0, .rel⟩, ⟨0, .exc⟩,
      ⟨1, .call⟩, ⟨1, .hget⟩, ⟨1, .acqOk⟩, ⟨1, .hget⟩, ⟨1, .srcEnd⟩, ⟨1, .rel⟩, ⟨1, .stop⟩], _, rfl, ?_⟩
  decide

end Tee.Legacy
