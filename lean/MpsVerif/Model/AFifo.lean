import MpsVerif.Model.Fifo
/-!
# Model of `async_fifo_stream` (src/mpservice/streamer/_streamer.py, repaired: F1, F7a)

Written from the async code line by line, next to the model of the synchronous `fifo_stream`
(`Model/Fifo.lean`), whose configuration type `Fifo.Cfg` it shares: "the same inputs, worker
behaviour, preprocessor and flags" is literally "the same `c : Fifo.Cfg`" (`conc` is ignored here:
asyncio tasks are not limited by a pool).

```
async def feed(...):                                   -- the feeder *task*
    try:
        async for x in instream:                       -- pull / srcEnd / srcRaise
            if to_stop.is_set(): break                 -- fcheck / stopSeen
            if preprocessor is None: t = await func(x)
            else:
                try: xx = preprocessor(x)
                except Exception as e:
                    t = asyncio.Future(); t.set_exception(e)   -- preFail  (F1: pinned code assigns `fut`, not `t`)
                else:
                    t = await func(xx)                 -- submit   (`func` returns the awaitable: a task / future)
            await tasks.put((x, t))                    -- put      (the pair is built from the *variables* x and t;
                                                       --           `unbound` if `t` was never assigned)
    except (Exception, StopRequested) as e: await tasks.put(e)   -- putExc
    else: await tasks.put(None)                        -- putEnd

tasks = asyncio.Queue(capacity + 1)
try:
    while True:
        z = await tasks.get()                          -- get
        if z is None: break
        if isinstance(z, (Exception, StopRequested)): raise z
        x, t = z
        try: y = await t                               -- (wait until `t` is done)
        except Exception as e:
            if return_exceptions: y = e
            else: raise                                -- raiseItem
        yield (x, y) / y                               -- yld, then next / close
except BaseException: to_stop.set(); raise             -- setStop
finally:
    while not tasks.empty():                           -- drain*: `t.cancel()` on every pair found
        ...
    for t in cancelled_tasks: await t                  -- reap  (wait until the cancelled tasks are done)
    await feeder                                       -- join
```

The feeder's local variable `t` is part of the state (`tvar`), and queue items are pairs
`(x, t)` of *two* indices: which element the consumer is told about and whose awaitable it waits
for.  That they are always the same index is a theorem here (and fails in `Legacy/AFifoStale`).

Differences from the threaded model, all taken from asyncio's semantics:
* no concurrency limit: every submitted task may start (`start j` has no `conc` guard);
* `cancel()` succeeds on every task that is not done, running or not (`drainCancel`,
  `drainCancelRun`); a running task that was cancelled still has to unwind (`finish`), and the
  consumer waits for that (`reap`) before it joins the feeder; when the awaitable is only a future
  standing for work done elsewhere (server request, executor call) cancelling it does not touch
  that work (`drainDetach`);
* the hand-off queue is an `asyncio.Queue` (FIFO, `cap+1` slots).

Assumed (trusted base): `asyncio.Queue` is FIFO and bounded; awaiting a done future returns that
future's own outcome; a worker coroutine does not swallow `CancelledError`.
-/
namespace AFifo
open Fifo (Cfg SrcEnd Raised)

inductive QItem where
  | item (x t : Nat) | endMark | excMark
  deriving Repr, DecidableEq

inductive FPc where
  | idle | check (i : Nat) | sub (i : Nat) | hold (i : Nat) | putEnd | putExc | done
  deriving Repr, DecidableEq

inductive CPc where
  | idle | wait (x t : Nat) | susp | stopping | drain | reap | join | closed
  deriving Repr, DecidableEq

structure State where
  pulled : Nat
  fpc : FPc
  tvar : Option Nat          -- the feeder's local variable `t` (index of the awaitable it refers to)
  queue : List QItem
  toStop : Bool
  cpc : CPc
  out : List (Nat × Nat)     -- delivered pairs (x, t): element index, index of the awaitable whose outcome was delivered
  raised : Option Raised     -- `.item t`: the exception of awaitable `t` was raised to the consumer
  closeReq : Bool
  pending : List Nat         -- tasks created, coroutine body not yet entered
  running : List Nat
  finished : List Nat        -- awaitables that are done (result, exception, pre-failed, or unwound after cancel)
  cancelled : List Nat       -- cancelled before they started
  creq : List Nat            -- cancelled while running (`cancelled_tasks` the consumer has to wait for)
  calls : List Nat           -- history: every entry into the worker function
  deriving Repr

inductive Act where
  | pull | srcEnd | srcRaise | fcheck | stopSeen | submit | preFail | put | unbound | putEnd | putExc
  | start (j : Nat) | finish (j : Nat)
  | get | yld | raiseItem | next | close | setStop
  | drainCancel | drainCancelRun | drainDetach | drainSkip | drainMark | drainEmpty | reap | join
  deriving Repr, DecidableEq

def init : State :=
  { pulled := 0, fpc := .idle, tvar := none, queue := [], toStop := false, cpc := .idle, out := [],
    raised := none, closeReq := false, pending := [], running := [], finished := [], cancelled := [],
    creq := [], calls := [] }

def step (c : Cfg) (s : State) : Act → Option State
  | .pull =>
    if s.fpc = .idle ∧ s.pulled < c.n then
      some { s with fpc := .check s.pulled, pulled := s.pulled + 1 }
    else none
  | .srcEnd =>
    if s.fpc = .idle ∧ s.pulled = c.n ∧ c.srcEnd = .clean then some { s with fpc := .putEnd } else none
  | .srcRaise =>
    if s.fpc = .idle ∧ s.pulled = c.n ∧ c.srcEnd = .exc then some { s with fpc := .putExc } else none
  | .fcheck =>
    match s.fpc with
    | .check i => if s.toStop = false then some { s with fpc := .sub i } else none
    | _ => none
  | .stopSeen =>
    match s.fpc with
    | .check _ => if s.toStop = true then some { s with fpc := .putEnd } else none
    | _ => none
  | .submit =>
    -- `t = await func(xx)`: the variable `t` now refers to the awaitable created for element `i`
    match s.fpc with
    | .sub i =>
      if c.preFail i = false then
        some { s with fpc := .hold i, tvar := some i, pending := s.pending ++ [i] }
      else none
    | _ => none
  | .preFail =>
    -- `t = asyncio.Future(); t.set_exception(e)`: `t` refers to a fresh, already failed future
    match s.fpc with
    | .sub i =>
      if c.preFail i = true then
        some { s with fpc := .hold i, tvar := some i, finished := i :: s.finished }
      else none
    | _ => none
  | .put =>
    -- `await tasks.put((x, t))`: the element held and whatever `t` refers to
    match s.fpc, s.tvar with
    | .hold i, some t =>
      if s.queue.length < c.cap + 1 then some { s with fpc := .idle, queue := s.queue ++ [.item i t] } else none
    | _, _ => none
  | .unbound =>
    -- `(x, t)` with `t` never assigned: `UnboundLocalError`, caught by `except Exception`
    match s.fpc, s.tvar with
    | .hold _, none => some { s with fpc := .putExc }
    | _, _ => none
  | .putEnd =>
    if s.fpc = .putEnd ∧ s.queue.length < c.cap + 1 then
      some { s with fpc := .done, queue := s.queue ++ [.endMark] } else none
  | .putExc =>
    if s.fpc = .putExc ∧ s.queue.length < c.cap + 1 then
      some { s with fpc := .done, queue := s.queue ++ [.excMark] } else none
  | .start j =>
    -- the event loop runs the first step of task `j`: the worker coroutine is entered
    if j ∈ s.pending then
      some { s with pending := s.pending.erase j, running := s.running ++ [j], calls := j :: s.calls }
    else none
  | .finish j =>
    if j ∈ s.running then some { s with running := s.running.erase j, finished := j :: s.finished } else none
  | .get =>
    if s.cpc = .idle then
      match s.queue with
      | .item x t :: rest => some { s with cpc := .wait x t, queue := rest }
      | .endMark :: rest => some { s with cpc := .drain, queue := rest }
      | .excMark :: rest => some { s with cpc := .stopping, queue := rest, raised := some .src }
      | [] => none
    else none
  | .yld =>
    match s.cpc with
    | .wait x t =>
      if t ∈ s.finished ∧ (c.isErr t = false ∨ c.returnExc = true) then
        some { s with cpc := .susp, out := s.out ++ [(x, t)] }
      else none
    | _ => none
  | .raiseItem =>
    match s.cpc with
    | .wait _ t =>
      if t ∈ s.finished ∧ c.isErr t = true ∧ c.returnExc = false then
        some { s with cpc := .stopping, raised := some (.item t) }
      else none
    | _ => none
  | .next => if s.cpc = .susp then some { s with cpc := .idle } else none
  | .close => if s.cpc = .susp then some { s with cpc := .stopping, closeReq := true } else none
  | .setStop => if s.cpc = .stopping then some { s with cpc := .drain, toStop := true } else none
  | .drainCancel =>
    -- `t.cancel()` on a task whose coroutine has not been entered: it never will be
    if s.cpc = .drain then
      match s.queue with
      | .item _ t :: rest =>
        if t ∈ s.pending then
          some { s with queue := rest, pending := s.pending.erase t, cancelled := t :: s.cancelled }
        else none
      | _ => none
    else none
  | .drainCancelRun =>
    -- `t.cancel()` on a running task: `CancelledError` is thrown into it; it still has to unwind
    if s.cpc = .drain then
      match s.queue with
      | .item _ t :: rest =>
        if t ∈ s.running then some { s with queue := rest, creq := t :: s.creq } else none
      | _ => none
    else none
  | .drainDetach =>
    -- `t.cancel()` on an awaitable that is a plain future standing for work done elsewhere
    -- (`AsyncServer._enqueue`'s future, `AsyncParmapper`'s `run_in_executor` wrapper): the future is
    -- cancelled at once, the work behind it is not affected and nobody waits for it
    if s.cpc = .drain then
      match s.queue with
      | .item _ t :: rest => if t ∈ s.pending ∨ t ∈ s.running then some { s with queue := rest } else none
      | _ => none
    else none
  | .drainSkip =>
    -- `t.cancel()` on a done awaitable has no effect
    if s.cpc = .drain then
      match s.queue with
      | .item _ t :: rest => if t ∈ s.finished then some { s with queue := rest } else none
      | _ => none
    else none
  | .drainMark =>
    if s.cpc = .drain then
      match s.queue with
      | .endMark :: rest => some { s with cpc := .reap, queue := rest }
      | .excMark :: rest => some { s with cpc := .reap, queue := rest }
      | _ => none
    else none
  | .drainEmpty => if s.cpc = .drain ∧ s.queue = [] then some { s with cpc := .reap } else none
  | .reap =>
    -- `for t in cancelled_tasks: await t`: passes once every task cancelled while running is done
    if s.cpc = .reap ∧ (∀ t ∈ s.creq, t ∉ s.running) then some { s with cpc := .join } else none
  | .join => if s.cpc = .join ∧ s.fpc = .done then some { s with cpc := .closed } else none

/-- the iteration is over: the async generator has returned (feeder task awaited) -/
def Final (s : State) : Prop := s.cpc = .closed

instance (s : State) : Decidable (Final s) := by unfold Final; exact inferInstance

/-! ## What is delivered, as values -/

/-- the outcome of the awaitable created for element `t`: the preprocessor's exception for that
    element, the worker's exception for that element, or the worker's result for that element -/
inductive Res where
  | ok (i : Nat) | workErr (i : Nat) | preErr (i : Nat)
  deriving Repr, DecidableEq

def result (c : Cfg) (t : Nat) : Res :=
  if c.preFail t = true then .preErr t else if c.resErr t = true then .workErr t else .ok t

/-- the pairs `(x, y)` handed to the consumer (with `return_x = False` only the second components) -/
def delivered (c : Cfg) (out : List (Nat × Nat)) : List (Nat × Res) :=
  out.map (fun p => (p.1, result c p.2))

/-- the specification: element `i` paired with its own outcome, for `i = 0 .. k-1` -/
def spec (c : Cfg) (k : Nat) : List (Nat × Res) :=
  (List.range k).map (fun i => (i, result c i))

/-- the outcome of a complete iteration (not closed early) from the configuration alone: how many
    outputs are delivered (`Fifo.expectedLen`: everything up to the first element whose outcome is
    an exception when exceptions are not returned) and how the iteration ends (`none`: normally;
    `.item m`: with the exception of element `m`; `.src`: with the source's exception) -/
def outcome (c : Cfg) : Nat × Option Raised :=
  let m := Fifo.expectedLen c c.n 0
  (m, if m < c.n then some (.item m) else if c.srcEnd = .exc then some .src else none)

end AFifo
