/-!
# Model of the batching worker (`Worker.start`, src/mpservice/mpserver/_worker.py)

`k` workers of one servlet compete for the shared input queue `q_in` and write to the shared
output queue `q_out`.

* `batch_size > 1` (`_start_batch`): every worker has a *collector* thread
  (`_build_input_batches`) and a *consumer* (`get_input` → `_get_input_batch`), joined by the
  batch buffer `SingleLane(batch_size + 10)`.
  The collector waits (under the buffer's mutex — this is the **repaired** loop head; the pinned
  code tested `buffer.full()` outside the mutex and could then wait for a notification that had
  already been given, see `Legacy/BatchPinned.lean`) until the buffer is not full, takes the read
  lock of `q_in` (`cLock`), blocks for one element (`cGet`), dispatches it (`cPut`: end marker →
  buffer, `q_in`, `q_out`, return; exception value or element rejected by `preprocess` →
  short-circuit to `q_out`; otherwise → buffer), keeps grabbing while `q_in` is not empty and the
  buffer holds fewer than `batch_size` entries (`cMore` / `cNoMore`), then either lets the lock go
  (`_batch_get_called` was set — it is cleared —, or the buffer holds `batch_size` entries) or
  goes back to the blocking get with the lock still held (`cDecide`).
  The consumer blocks for the first element (`gFirst`; the end marker ends it), fixes the deadline
  `t0 + batch_wait_time`, takes further elements while fewer than `batch_size` (`gNext`; the end
  marker is put back and ends the batch), gives up when the deadline has passed (`gTimeout`),
  sets `_batch_get_called` and hands the batch to `stream()` (`gRelease`).
* `batch_size ≤ 1` (`_start_single`): the consumer reads `q_in` itself (`sGet`), short-circuits
  exceptions / rejected elements, and hands `[x]` (`batch_size = 1`) or `x` (`batch_size = 0`) on.
* `stream()`: without a thread pool the batch is passed to `call` at once and the next batch is
  assembled only after the outputs were written; with `num_stream_threads > 0` (`pool`) batches
  go through `Parmapper` (order preserving, C01): several calls may be in flight and may enter /
  return in any order (`callEnter i j`, `callRet i j ok`; `j` = position in the worker's list of
  released batches; the pool's concurrency limit is not modelled — the model allows more), results
  are written in release order (`emit`).  A failing call delivers its
  exception to every member of its batch (`emit` with `ok = false`).

Time is an integer clock advanced by `tick`.  A thread that can run does run before the clock
advances (maximal progress): `tick` is disabled while a consumer has an assembled batch in hand
(`ready`), while a consumer's deadline has been reached (`coll` with `t0 + wait ≤ clock`), and —
without a pool — while a released batch has not yet entered `call`.

Every nondeterministic choice is an action label: arrivals (with the kind of the arriving value),
the end marker, clock ticks, which thread of which worker moves, how a call ends.
History fields: `arrived`, `calls`, `nextId`, `stopped`, and the time stamps inside entries.
-/
namespace Batch

/-- what arrives on `q_in`: a regular input that `preprocess` accepts, one that `preprocess`
    rejects, or an exception value produced upstream -/
inductive Kind where
  | good | rej | exc
  deriving Repr, DecidableEq

structure Req where
  uid : Nat
  kind : Kind
  deriving Repr, DecidableEq

/-- queue entries: `(uid, x)` or the end marker `None` -/
inductive Item where
  | req (r : Req) | stop
  deriving Repr, DecidableEq

structure Cfg where
  k : Nat          -- number of workers of the servlet
  b : Nat          -- batch_size
  wait : Nat       -- batch_wait_time, in clock ticks
  pool : Bool      -- num_stream_threads > 0

/-- `SingleLane(batch_size + 10)` -/
def Cfg.cap (c : Cfg) : Nat := c.b + 10

/-- collector thread of a worker -/
inductive CPh where
  | top | locked | have (z : Item) | after | decide | done
  deriving Repr, DecidableEq

/-- consumer of a worker (`_get_input_batch` and the `get_input` generator) -/
inductive GPh where
  | idle | coll (batch : List Req) (t0 : Nat) | ready (batch : List Req) (t0 : Nat) | fin
  deriving Repr, DecidableEq

/-- state of a batch that was handed to `stream()` -/
inductive PSt where
  | queued | running (cid : Nat) | done (cid : Nat) (ok : Bool)
  deriving Repr, DecidableEq

/-- a batch handed to `stream()` whose outputs have not been written yet (release order) -/
structure PEnt where
  batch : List Req
  t0 : Nat
  trel : Nat
  st : PSt
  deriving Repr, DecidableEq

structure W where
  cph : CPh := .top
  buf : List Item := []
  flag : Bool := false         -- `_batch_get_called`
  gph : GPh := .idle
  pd : List PEnt := []
  deriving Repr, DecidableEq

/-- one invocation of `Worker.call` -/
structure Call where
  w : Nat
  batch : List Req
  isList : Bool                -- argument is a list (`batch_size > 0`) or a single element
  t0 : Nat                     -- clock when the first element was taken
  trel : Nat                   -- clock when the batch was handed to `stream()`
  tcall : Nat                  -- clock when `call` was entered
  deriving Repr, DecidableEq

inductive Res where
  | val (u : Nat)              -- the result computed for element `u`
  | callErr (cid : Nat)        -- the exception raised by call number `cid`
  | preErr                     -- the exception raised by `preprocess`
  | inErr                      -- the exception value that came in
  deriving Repr, DecidableEq

inductive Out where
  | res (uid : Nat) (r : Res) | sentinel (w : Nat)
  deriving Repr, DecidableEq

structure State where
  clock : Nat := 0
  nextId : Nat := 0
  qin : List Item := []
  lock : Option Nat := none
  ws : Nat → W := fun _ => {}
  out : List Out := []
  calls : List Call := []
  arrived : List Req := []
  stopped : Bool := false

inductive Act where
  | arrive (kd : Kind) | stop | tick
  | cLock (i : Nat) | cGet (i : Nat) | cPut (i : Nat) | cMore (i : Nat) | cNoMore (i : Nat) | cDecide (i : Nat)
  | gFirst (i : Nat) | gNext (i : Nat) | gTimeout (i : Nat) | gRelease (i : Nat)
  | sGet (i : Nat)
  | callEnter (i : Nat) (j : Nat) | callRet (i : Nat) (j : Nat) (ok : Bool) | emit (i : Nat)
  deriving Repr, DecidableEq

def init : State := {}

def setW (s : State) (i : Nat) (w : W) : State :=
  { s with ws := fun j => if j = i then w else s.ws j }

def shortRes : Kind → Res
  | .exc => .inErr
  | _ => .preErr

/-- may the clock advance as far as worker `w` is concerned (maximal progress) -/
def tickOk (c : Cfg) (clock : Nat) (w : W) : Bool :=
  (match w.gph with
   | .ready _ _ => false
   | .coll _ t0 => decide (clock < t0 + c.wait)
   | _ => true) && (c.pool || w.pd.all (fun e => e.st != .queued))

def outsOf (batch : List Req) (cid : Nat) (ok : Bool) : List Out :=
  batch.map (fun r => .res r.uid (if ok then .val r.uid else .callErr cid))

/-- the consumer may start assembling the next batch: always with a pool, otherwise only after
    the outputs of the previous batch have been written -/
def mayPull (c : Cfg) (w : W) : Bool := c.pool || w.pd.isEmpty

def step (c : Cfg) (s : State) : Act → Option State
  | .arrive kd =>
    some { s with qin := s.qin ++ [.req ⟨s.nextId, kd⟩], nextId := s.nextId + 1,
                  arrived := s.arrived ++ [⟨s.nextId, kd⟩] }
  | .stop =>
    if s.stopped = false then some { s with qin := s.qin ++ [.stop], stopped := true } else none
  | .tick =>
    if (List.range c.k).all (fun i => tickOk c s.clock (s.ws i)) then some { s with clock := s.clock + 1 }
    else none
  | .cLock i =>
    let w := s.ws i
    if i < c.k ∧ 1 < c.b ∧ w.cph = .top ∧ s.lock = none ∧ w.buf.length < c.cap then
      some { setW s i { w with cph := .locked } with lock := some i }
    else none
  | .cGet i =>
    let w := s.ws i
    if i < c.k ∧ w.cph = .locked then
      match s.qin with
      | z :: rest => some { setW s i { w with cph := .have z } with qin := rest }
      | [] => none
    else none
  | .cPut i =>
    let w := s.ws i
    if i < c.k then
      match w.cph with
      | .have .stop =>
        some { setW s i { w with cph := .done, buf := w.buf ++ [.stop] } with
               qin := s.qin ++ [.stop], out := s.out ++ [.sentinel i], lock := none }
      | .have (.req r) =>
        if r.kind = .good then
          if w.buf.length < c.cap then some (setW s i { w with cph := .after, buf := w.buf ++ [.req r] })
          else none
        else some { setW s i { w with cph := .after } with out := s.out ++ [.res r.uid (shortRes r.kind)] }
      | _ => none
    else none
  | .cMore i =>
    let w := s.ws i
    if i < c.k ∧ w.cph = .after ∧ w.buf.length < c.b then
      match s.qin with
      | z :: rest => some { setW s i { w with cph := .have z } with qin := rest }
      | [] => none
    else none
  | .cNoMore i =>
    let w := s.ws i
    if i < c.k ∧ w.cph = .after ∧ (s.qin = [] ∨ c.b ≤ w.buf.length) then
      some (setW s i { w with cph := .decide })
    else none
  | .cDecide i =>
    let w := s.ws i
    if i < c.k ∧ w.cph = .decide then
      if w.flag = true then some { setW s i { w with cph := .top, flag := false } with lock := none }
      else if c.b ≤ w.buf.length then some { setW s i { w with cph := .top } with lock := none }
      else some (setW s i { w with cph := .locked })
    else none
  | .gFirst i =>
    let w := s.ws i
    if i < c.k ∧ 1 < c.b ∧ w.gph = .idle ∧ mayPull c w = true then
      match w.buf with
      | .stop :: rest =>
        some { setW s i { w with gph := .fin, buf := rest } with
               qin := s.qin ++ [.stop], out := s.out ++ [.sentinel i] }
      | .req r :: rest => some (setW s i { w with gph := .coll [r] s.clock, buf := rest })
      | [] => none
    else none
  | .gNext i =>
    let w := s.ws i
    if i < c.k then
      match w.gph with
      | .coll batch t0 =>
        if batch.length < c.b then
          match w.buf with
          | .stop :: rest => some (setW s i { w with gph := .ready batch t0, buf := rest ++ [.stop] })
          | .req r :: rest =>
            if (batch ++ [r]).length < c.b then some (setW s i { w with gph := .coll (batch ++ [r]) t0, buf := rest })
            else some (setW s i { w with gph := .ready (batch ++ [r]) t0, buf := rest })
          | [] => none
        else none
      | _ => none
    else none
  | .gTimeout i =>
    let w := s.ws i
    if i < c.k then
      match w.gph with
      | .coll batch t0 =>
        if t0 + c.wait ≤ s.clock then some (setW s i { w with gph := .ready batch t0 }) else none
      | _ => none
    else none
  | .gRelease i =>
    let w := s.ws i
    if i < c.k then
      match w.gph with
      | .ready batch t0 =>
        some (setW s i { w with gph := .idle, flag := true, pd := w.pd ++ [⟨batch, t0, s.clock, .queued⟩] })
      | _ => none
    else none
  | .sGet i =>
    let w := s.ws i
    if i < c.k ∧ c.b ≤ 1 ∧ w.gph = .idle ∧ mayPull c w = true then
      match s.qin with
      | .stop :: rest =>
        some { setW s i { w with gph := .fin } with qin := rest ++ [.stop], out := s.out ++ [.sentinel i] }
      | .req r :: rest =>
        if r.kind = .good then
          some { setW s i { w with pd := w.pd ++ [⟨[r], s.clock, s.clock, .queued⟩] } with qin := rest }
        else some { s with qin := rest, out := s.out ++ [.res r.uid (shortRes r.kind)] }
      | [] => none
    else none
  | .callEnter i j =>
    let w := s.ws i
    if i < c.k then
      match w.pd[j]? with
      | some e =>
        if e.st = .queued then
          some { setW s i { w with pd := w.pd.set j { e with st := .running s.calls.length } } with
                 calls := s.calls ++ [⟨i, e.batch, decide (0 < c.b), e.t0, e.trel, s.clock⟩] }
        else none
      | none => none
    else none
  | .callRet i j ok =>
    let w := s.ws i
    if i < c.k then
      match w.pd[j]? with
      | some e =>
        match e.st with
        | .running cid => some (setW s i { w with pd := w.pd.set j { e with st := .done cid ok } })
        | _ => none
      | none => none
    else none
  | .emit i =>
    let w := s.ws i
    if i < c.k then
      match w.pd with
      | e :: rest =>
        match e.st with
        | .done cid ok => some { setW s i { w with pd := rest } with out := s.out ++ outsOf e.batch cid ok }
        | _ => none
      | [] => none
    else none

end Batch
