/-!
# Model of `Buffer` (`Stream.buffer(n)`, src/mpservice/streamer/_streamer.py) — also `AsyncBuffer`

A worker thread pulls the source and puts each element on a single-lane queue of `maxsize`
slots; at the end it puts `FINISHED`, or `STOPPED` followed by the exception object.  The
consumer (the generator body) takes elements off the queue and yields them.  `_finalize`
(the generator's `finally`) sets the stop flag and keeps taking entries off the queue **until
the worker thread has exited**, then joins it (this is the repaired `_finalize`; the pinned one
drained until the queue was empty once and then joined — `Legacy/BufferPinned.lean`).

Actions = every nondeterministic choice: who moves, `next`/`close` after an output.
The timed-out poll of the drain loop (queue empty, worker still alive) changes nothing and is
not an action; it is the only stutter step, so liveness needs that the worker keeps being
scheduled (ordinary fairness).
-/
namespace Buffer

inductive SrcEnd where
  | clean | exc
  deriving Repr, DecidableEq

structure Cfg where
  n : Nat
  srcEnd : SrcEnd
  maxsize : Nat

inductive QItem where
  | item (i : Nat) | fin | stopMark | excObj
  deriving Repr, DecidableEq

inductive WPc where
  | idle | check (i : Nat) | hold (i : Nat) | putFin | putStop | putExc | done
  deriving Repr, DecidableEq

inductive CPc where
  | idle | got (i : Nat) | needExc | susp | stopping | drain | closed
  deriving Repr, DecidableEq

structure State where
  pulled : Nat
  wpc : WPc
  queue : List QItem
  flag : Bool               -- `_stopped` event
  cpc : CPc
  out : List Nat            -- indices delivered to the consumer, oldest first
  raised : Bool             -- the source's exception was raised to the consumer
  ended : Bool              -- history: the consumer saw FINISHED
  closeReq : Bool           -- history: the consumer closed the iterator early
  deriving Repr, DecidableEq

inductive Act where
  | pull | srcEnd | srcRaise | wcheck | stopSeen | put | putFin | putStop | putExc
  | get | yld | getExc | next | close | setFlag | drainPop | joined
  deriving Repr, DecidableEq

def init : State :=
  { pulled := 0, wpc := .idle, queue := [], flag := false, cpc := .idle, out := [],
    raised := false, ended := false, closeReq := false }

def step (c : Cfg) (s : State) : Act → Option State
  | .pull =>
    if s.wpc = .idle ∧ s.pulled < c.n then some { s with wpc := .check s.pulled, pulled := s.pulled + 1 }
    else none
  | .srcEnd =>
    if s.wpc = .idle ∧ s.pulled = c.n ∧ c.srcEnd = .clean then some { s with wpc := .putFin } else none
  | .srcRaise =>
    if s.wpc = .idle ∧ s.pulled = c.n ∧ c.srcEnd = .exc then some { s with wpc := .putStop } else none
  | .wcheck =>
    match s.wpc with
    | .check i => if s.flag = false then some { s with wpc := .hold i } else none
    | _ => none
  | .stopSeen =>
    match s.wpc with
    | .check _ => if s.flag = true then some { s with wpc := .putFin } else none
    | _ => none
  | .put =>
    match s.wpc with
    | .hold i => if s.queue.length < c.maxsize then some { s with wpc := .idle, queue := s.queue ++ [.item i] } else none
    | _ => none
  | .putFin =>
    if s.wpc = .putFin ∧ s.queue.length < c.maxsize then
      some { s with wpc := .done, queue := s.queue ++ [.fin] } else none
  | .putStop =>
    if s.wpc = .putStop ∧ s.queue.length < c.maxsize then
      some { s with wpc := .putExc, queue := s.queue ++ [.stopMark] } else none
  | .putExc =>
    if s.wpc = .putExc ∧ s.queue.length < c.maxsize then
      some { s with wpc := .done, queue := s.queue ++ [.excObj] } else none
  | .get =>
    if s.cpc = .idle then
      match s.queue with
      | .item i :: rest => some { s with cpc := .got i, queue := rest }
      | .fin :: rest => some { s with cpc := .stopping, queue := rest, ended := true }
      | .stopMark :: rest => some { s with cpc := .needExc, queue := rest }
      | _ => none
    else none
  | .getExc =>
    if s.cpc = .needExc then
      match s.queue with
      | .excObj :: rest => some { s with cpc := .stopping, queue := rest, raised := true }
      | _ => none
    else none
  | .yld =>
    match s.cpc with
    | .got i => some { s with cpc := .susp, out := s.out ++ [i] }
    | _ => none
  | .next => if s.cpc = .susp then some { s with cpc := .idle } else none
  | .close => if s.cpc = .susp then some { s with cpc := .stopping, closeReq := true } else none
  | .setFlag => if s.cpc = .stopping then some { s with cpc := .drain, flag := true } else none
  | .drainPop =>
    if s.cpc = .drain then
      match s.queue with
      | _ :: rest => some { s with queue := rest }
      | [] => none
    else none
  | .joined => if s.cpc = .drain ∧ s.wpc = .done then some { s with cpc := .closed } else none

/-- iterator closed; by `C05_buffer_clean` the worker thread has exited -/
def Final (s : State) : Prop := s.cpc = .closed

instance (s : State) : Decidable (Final s) := by unfold Final; exact inferInstance

end Buffer
