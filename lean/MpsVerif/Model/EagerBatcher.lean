/-!
# Model of `EagerBatcher.__iter__` (src/mpservice/streamer/_streamer.py, lines 830-874)

```
while True:
    z = q_in.get()                                   # (A) first get: blocks as long as it takes
    if <z is the end marker>: break                  #     -> generator returns (StopIteration)
    batch = [z]; n = 1
    deadline = time.perf_counter() + batchwaittime   #     timer starts when the first item is obtained
    while n < batchsize:
        t = deadline - time.perf_counter()
        try:    z = q_in.get(timeout=max(0, t))      # (B) later gets: bounded by the deadline; an item
        except queue.Empty: break                    #     that is already queued is taken even at/after it
        if <z is the end marker>: yield batch; return
        batch.append(z); n += 1
    yield batch
```

"`z` is the end marker" is `z is None` for the default marker and `z == end` for a custom one; with
a custom marker `None` is an ordinary item.  Items are modelled as `Option Nat` (`none` = Python's
`None`, `some k` = the `==`-class of any other value); the configured marker is an `Item`.

The model is a timed transition system over an integer clock (the harness uses dyadic floats, so
every clock value the code computes is an exact multiple of the unit).  Every nondeterministic
choice is an action:

* `arrive x`  — the producer's `put(x)` takes effect (item or end marker; also after the marker);
* `tick d`    — `d > 0` time units pass.  With `c.strict = true` it is enabled only while the batcher
                cannot move: blocked in (A) on an empty queue, blocked in (B) on an empty queue and
                then at most up to the deadline, suspended at a `yield` (the consumer holds the
                batch), or finished.  This is the zero-processing-time / maximal-progress reading of
                "arrival timing": the code's own steps take no time, waiting takes exactly as long as
                needed; the "no delay" theorems are about this reading.  With `c.strict = false` time
                may pass at any moment (the OS may delay the batcher thread arbitrarily between any two
                of its steps; its clock reads may be late): partition and "a short batch only after
                the wait has expired on an empty queue" hold there too;
* `take`      — a `get` of the batcher returns the head of the queue (in (A) or (B));
* `timeout`   — the `get` in (B) raises `queue.Empty`: queue empty and clock ≥ deadline;
* `emit`      — `yield batch` hands the batch to the consumer;
* `resume`    — the consumer asks for the next batch (after holding the previous one for any time);
* `stop`      — the generator returns (StopIteration reaches the consumer).

Ties (an item arriving at the very instant of the deadline) are decided by the order of `arrive`
and `take`/`timeout` at the same clock value, as in reality.

History variables (never read by a guard): `arrived` (every arrival with its clock), `taken`,
`takenAt` (the same with the clock of each get), `out` (the batches handed to the consumer), `outAt`
(the clock at which each was handed over).

`greedy` (end of file) is the closed form of the batches under zero processing time: greedy
grouping of the take-stamped sequence into windows of length `wait` (proved in `Props/C19.lean`,
`C19_closed_form`, for runs without a missed tie).

Assumed (trusted base): `queue.Queue` is FIFO, `get(timeout=t)` returns an item if one is queued
when it looks, otherwise waits until an item arrives or exactly `t` has elapsed; `put`/`get` are
atomic with respect to each other (they run under the queue's mutex).
-/
namespace Eager

/-- `none` = Python `None`; `some k` = any other value (its `==` class) -/
abbrev Item := Option Nat

structure Cfg where
  bs : Nat          -- batch_size
  wait : Nat        -- batch_wait_time in clock units
  endm : Item       -- end marker (`none` = the default `None`)
  strict : Bool     -- zero processing time: time passes only while the batcher is blocked

/-- `z is None` (default marker) resp. `z == end` (custom marker) -/
def Cfg.isEnd (c : Cfg) (x : Item) : Bool := x == c.endm

/-- the constructor's default (lines 822-826): `batch_wait_time=None` means 60 s if `batch_size > 1`
    else 0; `ups` = clock units per second -/
def defaultWait (bs ups : Nat) : Nat := if 1 < bs then 60 * ups else 0

inductive Pc where
  | idle      -- in / before the first `get` (A)
  | coll      -- in / before a timed `get` (B), `n < batchsize`
  | flush     -- on the way to `yield batch` (loop left by `break`, by the marker, or because `n = batchsize`)
  | held      -- suspended at `yield`: the consumer has the batch
  | closing   -- on the way out of the generator (marker seen)
  | done
  deriving Repr, DecidableEq

structure State where
  clock : Nat
  q : List Item               -- the queue, head = oldest
  pc : Pc
  cur : List Item             -- `batch`
  t0 : Nat                    -- clock at which the first item of `batch` was obtained (`deadline - wait`)
  fin : Bool                  -- the end marker has been taken
  arrived : List (Item × Nat) -- history: arrivals with their clock
  taken : List Item           -- history: everything the batcher's gets returned
  takenAt : List (Item × Nat) -- history: the same, with the clock at which each get returned
  out : List (List Item)      -- history: batches handed to the consumer
  outAt : List Nat            -- history: clock at which each batch was handed to the consumer
  deriving Repr, DecidableEq

inductive Act where
  | arrive (x : Item) | tick (d : Nat) | take | timeout | emit | resume | stop
  deriving Repr, DecidableEq

def init : State :=
  { clock := 0, q := [], pc := .idle, cur := [], t0 := 0, fin := false, arrived := [], taken := [], takenAt := [], out := [], outAt := [] }

def step (c : Cfg) (s : State) : Act → Option State
  | .arrive x => some { s with q := s.q ++ [x], arrived := s.arrived ++ [(x, s.clock)] }
  | .tick d =>
    if 0 < d ∧ (c.strict = false ∨ (s.pc = .idle ∧ s.q = []) ∨
                (s.pc = .coll ∧ s.q = [] ∧ s.clock + d ≤ s.t0 + c.wait) ∨ s.pc = .held ∨ s.pc = .done) then
      some { s with clock := s.clock + d }
    else none
  | .take =>
    match s.q with
    | [] => none
    | z :: rest =>
      if s.pc = .idle then
        if c.isEnd z = true then
          some { s with q := rest, taken := s.taken ++ [z], takenAt := s.takenAt ++ [(z, s.clock)], pc := .closing, fin := true }
        else
          some { s with q := rest, taken := s.taken ++ [z], takenAt := s.takenAt ++ [(z, s.clock)], cur := [z], t0 := s.clock,
                        pc := if 1 < c.bs then .coll else .flush }
      else if s.pc = .coll then
        if c.isEnd z = true then
          some { s with q := rest, taken := s.taken ++ [z], takenAt := s.takenAt ++ [(z, s.clock)], pc := .flush, fin := true }
        else
          some { s with q := rest, taken := s.taken ++ [z], takenAt := s.takenAt ++ [(z, s.clock)], cur := s.cur ++ [z],
                        pc := if s.cur.length + 1 < c.bs then .coll else .flush }
      else none
  | .timeout =>
    if s.pc = .coll ∧ s.q = [] ∧ s.t0 + c.wait ≤ s.clock then some { s with pc := .flush } else none
  | .emit =>
    if s.pc = .flush then some { s with pc := .held, out := s.out ++ [s.cur], outAt := s.outAt ++ [s.clock], cur := [] } else none
  | .resume =>
    if s.pc = .held then some { s with pc := if s.fin = true then .closing else .idle } else none
  | .stop =>
    if s.pc = .closing then some { s with pc := .done } else none

/-- the batcher's own actions (everything that is not the producer, the consumer or the clock) -/
def batcherActs : List Act := [.take, .timeout, .emit, .stop]

/-- items of a list that come before the first end marker -/
def beforeEnd (c : Cfg) (l : List Item) : List Item := l.takeWhile (fun x => !c.isEnd x)

/-- number of arrivals stamped strictly before clock value `t` -/
def arrivedBefore (s : State) (t : Nat) : Nat := (s.arrived.filter (fun p => decide (p.2 < t))).length

/-! ## Closed form (zero processing time): greedy grouping of the take-stamped sequence -/

structure Grp where
  out : List (List Item)   -- batches closed so far
  outAt : List Nat         -- … and the clock at which each is handed out
  cur : List Item          -- the open batch
  t0 : Nat                 -- take clock of its first item
  fin : Bool               -- the end marker has been seen
  tie : Bool               -- an entry was taken at exactly `t0 + wait` of an open batch
  deriving Repr, DecidableEq

def Grp.init : Grp := { out := [], outAt := [], cur := [], t0 := 0, fin := false, tie := false }

/-- an open batch whose window `[t0, t0 + wait]` ended before clock `t` went out at `t0 + wait` -/
def Grp.expire (c : Cfg) (g : Grp) (t : Nat) : Grp :=
  if g.cur ≠ [] ∧ g.t0 + c.wait < t then
    { g with out := g.out ++ [g.cur], outAt := g.outAt ++ [g.t0 + c.wait], cur := [] }
  else g

/-- the end marker closes the open batch at once; an item joins the open batch (or opens one at its
    take clock), which goes out at once when it is full -/
def Grp.add (c : Cfg) (g : Grp) (p : Item × Nat) : Grp :=
  if c.isEnd p.1 = true then
    if g.cur = [] then { g with fin := true }
    else { g with out := g.out ++ [g.cur], outAt := g.outAt ++ [p.2], cur := [], fin := true }
  else if g.cur.length + 1 < c.bs then
    { g with cur := g.cur ++ [p.1], t0 := if g.cur = [] then p.2 else g.t0 }
  else
    { g with out := g.out ++ [g.cur ++ [p.1]], outAt := g.outAt ++ [p.2], cur := [] }

/-- the entry is taken at exactly `t0 + wait` of an open batch: whether it joins that batch depends
    on who was first, the producer or the time-out -/
def Grp.isTie (c : Cfg) (g : Grp) (p : Item × Nat) : Bool := decide (g.cur ≠ []) && p.2 == g.t0 + c.wait

/-- one taken entry `p = (value, take clock)` -/
def feed (c : Cfg) (g : Grp) (p : Item × Nat) : Grp :=
  if g.fin = true then g
  else Grp.add c (Grp.expire c { g with tie := g.tie || g.isTie c p } p.2) p

def greedy (c : Cfg) (l : List (Item × Nat)) : Grp := l.foldl (feed c) Grp.init

/-- all batches of the grouping, the open one included (it goes out at `t0 + wait`) -/
def Grp.closed (g : Grp) : List (List Item) := if g.cur = [] then g.out else g.out ++ [g.cur]

def Grp.closedAt (c : Cfg) (g : Grp) : List Nat := if g.cur = [] then g.outAt else g.outAt ++ [g.t0 + c.wait]

end Eager
