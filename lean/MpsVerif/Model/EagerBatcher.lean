/-!
# Model of `EagerBatcher.__iter__` (src/mpservice/streamer/_streamer.py, lines 830-874)

```
while True:
    z = q_in.get()                                   # (A) first get: blocks as long as it takes
    if <z is the end marker>: break                  #     -> generator returns (StopIteration)
    batch = [z]; n = 1
    deadline = time.perf_counter() + batchwaittime   #     timer starts when the first item is obtained
    while n < batchsize:
        t = deadline - time.perf_counter()
        try:    z = q_in.get(timeout=max(0, t))      # (B) later gets: bounded by the deadline; an item
        except queue.Empty: break                    #     that is already queued is taken even at/after it
        if <z is the end marker>: yield batch; return
        batch.append(z); n += 1
    yield batch
```

"`z` is the end marker" is `z is None` for the default marker and `z == end` for a custom one; with
a custom marker `None` is an ordinary item.  Items are modelled as `Option Nat` (`none` = Python's
`None`, `some k` = the `==`-class of any other value); the configured marker is an `Item`.

The model is a timed transition system over an integer clock (the harness uses dyadic floats, so
every clock value the code computes is an exact multiple of the unit).  Every nondeterministic
choice is an action:

* `arrive x`  — the producer's `put(x)` takes effect (item or end marker; also after the marker);
* `tick d`    — `d > 0` time units pass.  With `c.strict = true` it is enabled only while the batcher
                cannot move: blocked in (A) on an empty queue, blocked in (B) on an empty queue and
                then at most up to the deadline, suspended at a `yield` (the consumer holds the
                batch), or finished.  This is the zero-processing-time / maximal-progress reading of
                "arrival timing": the code's own steps take no time, waiting takes exactly as long as
                needed; the "no delay" theorems are about this reading.  With `c.strict = false` time
                may pass at any moment (the OS may delay the batcher thread arbitrarily between any two
                of its steps; its clock reads may be late): partition and "a short batch only after
                the wait has expired on an empty queue" hold there too;
* `take`      — a `get` of the batcher returns the head of the queue (in (A) or (B));
* `timeout`   — the `get` in (B) raises `queue.Empty`: queue empty and clock ≥ deadline;
* `emit`      — `yield batch` hands the batch to the consumer;
* `resume`    — the consumer asks for the next batch (after holding the previous one for any time);
* `stop`      — the generator returns (StopIteration reaches the consumer).

Ties (an item arriving at the very instant of the deadline) are decided by the order of `arrive`
and `take`/`timeout` at the same clock value, as in reality.

History variables (never read by a guard): `arrived` (every arrival with its clock), `taken`,
`out` (the batches handed to the consumer).

Assumed (trusted base): `queue.Queue` is FIFO, `get(timeout=t)` returns an item if one is queued
when it looks, otherwise waits until an item arrives or exactly `t` has elapsed; `put`/`get` are
atomic with respect to each other (they run under the queue's mutex).
-/
namespace Eager

/-- `none` = Python `None`; `some k` = any other value (its `==` class) -/
abbrev Item := Option Nat

structure Cfg where
  bs : Nat          -- batch_size
  wait : Nat        -- batch_wait_time in clock units
  endm : Item       -- end marker (`none` = the default `None`)
  strict : Bool     -- zero processing time: time passes only while the batcher is blocked

/-- `z is None` (default marker) resp. `z == end` (custom marker) -/
def Cfg.isEnd (c : Cfg) (x : Item) : Bool := x == c.endm

/-- the constructor's default (lines 822-826): `batch_wait_time=None` means 60 s if `batch_size > 1`
    else 0; `ups` = clock units per second -/
def defaultWait (bs ups : Nat) : Nat := if 1 < bs then 60 * ups else 0

inductive Pc where
  | idle      -- in / before the first `get` (A)
  | coll      -- in / before a timed `get` (B), `n < batchsize`
  | flush     -- on the way to `yield batch` (loop left by `break`, by the marker, or because `n = batchsize`)
  | held      -- suspended at `yield`: the consumer has the batch
  | closing   -- on the way out of the generator (marker seen)
  | done
  deriving Repr, DecidableEq

structure State where
  clock : Nat
  q : List Item               -- the queue, head = oldest
  pc : Pc
  cur : List Item             -- `batch`
  t0 : Nat                    -- clock at which the first item of `batch` was obtained (`deadline - wait`)
  fin : Bool                  -- the end marker has been taken
  arrived : List (Item × Nat) -- history: arrivals with their clock
  taken : List Item           -- history: everything the batcher's gets returned
  out : List (List Item)      -- history: batches handed to the consumer
  deriving Repr, DecidableEq

inductive Act where
  | arrive (x : Item) | tick (d : Nat) | take | timeout | emit | resume | stop
  deriving Repr, DecidableEq

def init : State :=
  { clock := 0, q := [], pc := .idle, cur := [], t0 := 0, fin := false, arrived := [], taken := [], out := [] }

def step (c : Cfg) (s : State) : Act → Option State
  | .arrive x => some { s with q := s.q ++ [x], arrived := s.arrived ++ [(x, s.clock)] }
  | .tick d =>
    if 0 < d ∧ (c.strict = false ∨ (s.pc = .idle ∧ s.q = []) ∨
                (s.pc = .coll ∧ s.q = [] ∧ s.clock + d ≤ s.t0 + c.wait) ∨ s.pc = .held ∨ s.pc = .done) then
      some { s with clock := s.clock + d }
    else none
  | .take =>
    match s.q with
    | [] => none
    | z :: rest =>
      if s.pc = .idle then
        if c.isEnd z = true then
          some { s with q := rest, taken := s.taken ++ [z], pc := .closing, fin := true }
        else
          some { s with q := rest, taken := s.taken ++ [z], cur := [z], t0 := s.clock,
                        pc := if 1 < c.bs then .coll else .flush }
      else if s.pc = .coll then
        if c.isEnd z = true then
          some { s with q := rest, taken := s.taken ++ [z], pc := .flush, fin := true }
        else
          some { s with q := rest, taken := s.taken ++ [z], cur := s.cur ++ [z],
                        pc := if s.cur.length + 1 < c.bs then .coll else .flush }
      else none
  | .timeout =>
    if s.pc = .coll ∧ s.q = [] ∧ s.t0 + c.wait ≤ s.clock then some { s with pc := .flush } else none
  | .emit =>
    if s.pc = .flush then some { s with pc := .held, out := s.out ++ [s.cur], cur := [] } else none
  | .resume =>
    if s.pc = .held then some { s with pc := if s.fin = true then .closing else .idle } else none
  | .stop =>
    if s.pc = .closing then some { s with pc := .done } else none

/-- the batcher's own actions (everything that is not the producer, the consumer or the clock) -/
def batcherActs : List Act := [.take, .timeout, .emit, .stop]

/-- items of a list that come before the first end marker -/
def beforeEnd (c : Cfg) (l : List Item) : List Item := l.takeWhile (fun x => !c.isEnd x)

/-- number of arrivals stamped strictly before clock value `t` -/
def arrivedBefore (s : State) (t : Nat) : Nat := (s.arrived.filter (fun p => decide (p.2 < t))).length

end Eager
