/-!
# Model of `fifo_stream` (src/mpservice/streamer/_streamer.py)

Mechanism: a feeder thread pulls the source, (optionally) pre-processes each element, submits it
to a pool (`func` returns a future) and puts `(x, fut)` on a bounded single-lane queue of
`capacity + 1` slots; the consumer (the generator body) takes pairs off the queue in FIFO order,
waits for each future and yields.  Ending: the feeder puts an end mark (`None`) or the source's
exception; the consumer's `except BaseException` sets the stop flag, its `finally` drains the
queue without blocking (cancelling what it finds) and joins the feeder.  `Parmapper` wraps this in
`with executor:` whose exit waits for the pool.

Everything nondeterministic is an action: who moves (feeder / pool worker / consumer), which
running call finishes first (`finish j`), whether the consumer goes on or closes after an output
(`next` / `close`).  The input is abstract: `n` elements identified by their index `0..n-1`,
`preFail i` (the preprocessor rejects element `i`), `resErr i` (the worker function raises on
element `i`), how the source ends after `n` elements, and the flags.

Assumed (trusted base, see DESIGN §4): the hand-off queue is FIFO with `cap+1` slots, the pool
runs at most `conc` at a time, and `cancel()` succeeds exactly
on calls that have not started.
-/
namespace Fifo

inductive SrcEnd where
  | clean | exc
  deriving Repr, DecidableEq

structure Cfg where
  n : Nat
  srcEnd : SrcEnd
  cap : Nat
  conc : Nat
  preFail : Nat → Bool
  resErr : Nat → Bool
  returnExc : Bool

/-- the result of element `i` is an exception object -/
def Cfg.isErr (c : Cfg) (i : Nat) : Bool := c.preFail i || c.resErr i

inductive QItem where
  | item (i : Nat) | endMark | excMark
  deriving Repr, DecidableEq

inductive FPc where
  | idle | check (i : Nat) | sub (i : Nat) | hold (i : Nat) | putEnd | putExc | done
  deriving Repr, DecidableEq

inductive CPc where
  | idle | wait (i : Nat) | susp | stopping | drain | join | closed
  deriving Repr, DecidableEq

inductive Raised where
  | item (i : Nat) | src
  deriving Repr, DecidableEq

structure State where
  pulled : Nat
  fpc : FPc
  queue : List QItem
  toStop : Bool
  cpc : CPc
  out : List Nat            -- indices delivered to the consumer, oldest first
  raised : Option Raised
  closeReq : Bool           -- history: the consumer closed the iterator early
  pending : List Nat        -- pool: submitted, not started (FIFO)
  running : List Nat
  finished : List Nat       -- futures that hold a result (incl. pre-failed ones)
  cancelled : List Nat
  calls : List Nat          -- history: every invocation of the worker function
  deriving Repr

inductive Act where
  | pull | srcEnd | srcRaise | fcheck | stopSeen | submit | preFail | put | putEnd | putExc
  | start (j : Nat) | finish (j : Nat)
  | get | yld | raiseItem | next | close | setStop | drainCancel | drainSkip | drainMark | drainEmpty | join
  deriving Repr, DecidableEq

def init : State :=
  { pulled := 0, fpc := .idle, queue := [], toStop := false, cpc := .idle, out := [],
    raised := none, closeReq := false, pending := [], running := [], finished := [], cancelled := [], calls := [] }

def step (c : Cfg) (s : State) : Act → Option State
  | .pull =>
    if s.fpc = .idle ∧ s.pulled < c.n then
      some { s with fpc := .check s.pulled, pulled := s.pulled + 1 }
    else none
  | .srcEnd =>
    if s.fpc = .idle ∧ s.pulled = c.n ∧ c.srcEnd = .clean then some { s with fpc := .putEnd } else none
  | .srcRaise =>
    if s.fpc = .idle ∧ s.pulled = c.n ∧ c.srcEnd = .exc then some { s with fpc := .putExc } else none
  | .fcheck =>
    match s.fpc with
    | .check i => if s.toStop = false then some { s with fpc := .sub i } else none
    | _ => none
  | .stopSeen =>
    match s.fpc with
    | .check _ => if s.toStop = true then some { s with fpc := .putEnd } else none
    | _ => none
  | .submit =>
    match s.fpc with
    | .sub i => if c.preFail i = false then some { s with fpc := .hold i, pending := s.pending ++ [i] } else none
    | _ => none
  | .preFail =>
    match s.fpc with
    | .sub i => if c.preFail i = true then some { s with fpc := .hold i, finished := i :: s.finished } else none
    | _ => none
  | .put =>
    match s.fpc with
    | .hold i => if s.queue.length < c.cap + 1 then some { s with fpc := .idle, queue := s.queue ++ [.item i] } else none
    | _ => none
  | .putEnd =>
    if s.fpc = .putEnd ∧ s.queue.length < c.cap + 1 then
      some { s with fpc := .done, queue := s.queue ++ [.endMark] } else none
  | .putExc =>
    if s.fpc = .putExc ∧ s.queue.length < c.cap + 1 then
      some { s with fpc := .done, queue := s.queue ++ [.excMark] } else none
  | .start j =>
    -- a pool worker enters the worker function for call `j`.  Any pending call may be the next
    -- one to *enter* (pick-up from the pool's FIFO work queue and function entry are not atomic).
    if j ∈ s.pending ∧ s.running.length < c.conc then
      some { s with pending := s.pending.erase j, running := s.running ++ [j], calls := j :: s.calls }
    else none
  | .finish j =>
    if j ∈ s.running then some { s with running := s.running.erase j, finished := j :: s.finished } else none
  | .get =>
    if s.cpc = .idle then
      match s.queue with
      | .item i :: rest => some { s with cpc := .wait i, queue := rest }
      | .endMark :: rest => some { s with cpc := .drain, queue := rest }
      | .excMark :: rest => some { s with cpc := .stopping, queue := rest, raised := some .src }
      | [] => none
    else none
  | .yld =>
    match s.cpc with
    | .wait i =>
      if i ∈ s.finished ∧ (c.isErr i = false ∨ c.returnExc = true) then
        some { s with cpc := .susp, out := s.out ++ [i] }
      else none
    | _ => none
  | .raiseItem =>
    match s.cpc with
    | .wait i =>
      if i ∈ s.finished ∧ c.isErr i = true ∧ c.returnExc = false then
        some { s with cpc := .stopping, raised := some (.item i) }
      else none
    | _ => none
  | .next => if s.cpc = .susp then some { s with cpc := .idle } else none
  | .close => if s.cpc = .susp then some { s with cpc := .stopping, closeReq := true } else none
  | .setStop => if s.cpc = .stopping then some { s with cpc := .drain, toStop := true } else none
  | .drainCancel =>
    -- `t.cancel()` succeeds: the call had not been picked up by a pool worker
    if s.cpc = .drain then
      match s.queue with
      | .item i :: rest =>
        if i ∈ s.pending then
          some { s with queue := rest, pending := s.pending.erase i, cancelled := i :: s.cancelled }
        else none
      | _ => none
    else none
  | .drainSkip =>
    -- `t.cancel()` has no effect (running, finished, or just being picked up)
    if s.cpc = .drain then
      match s.queue with
      | .item _ :: rest => some { s with queue := rest }
      | _ => none
    else none
  | .drainMark =>
    if s.cpc = .drain then
      match s.queue with
      | .endMark :: rest => some { s with cpc := .join, queue := rest }
      | .excMark :: rest => some { s with cpc := .join, queue := rest }
      | _ => none
    else none
  | .drainEmpty => if s.cpc = .drain ∧ s.queue = [] then some { s with cpc := .join } else none
  | .join => if s.cpc = .join ∧ s.fpc = .done then some { s with cpc := .closed } else none

/-- the iteration is over and the pool has wound down (`with executor:` has exited) -/
def Final (s : State) : Prop := s.cpc = .closed ∧ s.pending = [] ∧ s.running = []

instance (s : State) : Decidable (Final s) := by unfold Final; exact inferInstance

/-- all actions that could conceivably be enabled in `s` (used by the driver and for progress) -/
def allActs (s : State) : List Act :=
  [.pull, .srcEnd, .srcRaise, .fcheck, .stopSeen, .submit, .preFail, .put, .putEnd, .putExc,
   .get, .yld, .raiseItem, .next, .close, .setStop, .drainCancel, .drainSkip, .drainMark, .drainEmpty, .join]
  ++ s.running.map .finish ++ s.pending.map .start

/-- what the consumer must see, as indices: the whole input, cut before the first element whose
    result is an exception when exceptions are not returned -/
def expectedLen (c : Cfg) : Nat → Nat → Nat
  | 0, _ => 0
  | k+1, i => if c.isErr i = true ∧ c.returnExc = false then 0 else expectedLen c k (i+1) + 1

end Fifo
