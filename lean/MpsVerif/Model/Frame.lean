/-!
# Model of the socket record framing (src/mpservice/socket.py, `write_record` / `read_record`)

```
async def write_record(writer, request_id, data, *, encoder='pickle'):
    data_bytes = encode(data, encoder)
    writer.write(f'{request_id} {len(data_bytes)} {encoder}\n'.encode())
    writer.write(data_bytes)
    await writer.drain()

async def read_record(reader, *, timeout=None):
    data = await asyncio.wait_for(reader.readuntil(b'\n'), timeout)
    request_id, num_bytes, encoder = data[:-1].decode().split()
    data = await reader.readexactly(int(num_bytes))
    return request_id, decode(data, encoder)
```

A record on the wire is the header `b'<request id> <payload length in decimal> <encoder>\n'`
followed by exactly that many payload bytes.  The model works on the *bytes after `encode`* and
*before `decode`* (`payload`); `pickle`/`utf8` themselves are opaque (trusted: `decode(encode x) = x`
for picklable `x`).  The request id is the byte string the f-string produces.

`readRecord` is written from `read_record` statement by statement:

* `reader.readuntil(b'\n')`  → `scanNl` (first newline), with the `StreamReader` limit `lim`
  (default 2**16): separator found at an index `> lim`, or not found in more than `lim` buffered
  bytes, is `LimitOverrunError`; not found before EOF is `IncompleteReadError`;
* `data[:-1].decode().split()` → `splitWs` on ASCII white space (what `str.split()` does on ASCII
  text; a header containing a byte `>= 128` is rejected by the model — outside the domain of
  `wellFormedId`, the client only produces decimal ids);
* unpacking into exactly three fields, `int(num_bytes)` → `parseDec` (ASCII digits only);
* `reader.readexactly(n)` → `take n` / `drop n`, `IncompleteReadError` when fewer bytes arrive;
* `decode(data, encoder)` → the encoder name must be one of the three known ones.

Assumed (trusted base, DESIGN §4): a `StreamReader` is a buffer — `readuntil/readexactly` return as
soon as the buffer holds what they ask for and wait otherwise (`Reader` below; with that,
`Proofs/FrameChunks.lean` proves that the chunk boundaries of the incoming data do not matter); the
transport delivers the written bytes in order.  The tie feeds a real `StreamReader` with many
chunkings of each stream and compares with `decodeStream` on the concatenation.
-/
namespace Frame

abbrev Bytes := List UInt8

inductive Enc where
  | pickle | utf8 | none
  deriving Repr, DecidableEq

/-- `str(encoder).encode()` -/
def Enc.name : Enc → Bytes
  | .pickle => [112, 105, 99, 107, 108, 101]
  | .utf8 => [117, 116, 102, 56]
  | .none => [110, 111, 110, 101]

def parseEnc (b : Bytes) : Option Enc :=
  if b = Enc.pickle.name then some .pickle
  else if b = Enc.utf8.name then some .utf8
  else if b = Enc.none.name then some .none
  else none

structure Rec where
  rid : Bytes        -- `f'{request_id}'.encode()`
  enc : Enc
  payload : Bytes    -- `encode(data, encoder)`
  deriving Repr, DecidableEq

/-- ASCII digit of `d < 10` -/
def digit (d : Nat) : UInt8 := UInt8.ofNat (48 + d)

/-- decimal digits of `n`, most significant first (`fuel > n` is always enough) -/
def toDecF : Nat → Nat → Bytes
  | 0, _ => []
  | f + 1, n => if n < 10 then [digit n] else toDecF f (n / 10) ++ [digit (n % 10)]

/-- `str(n).encode()` -/
def toDec (n : Nat) : Bytes := toDecF (n + 1) n

def isDigit (b : UInt8) : Bool := 48 ≤ b.toNat && b.toNat ≤ 57

def decVal (bs : Bytes) : Nat := bs.foldl (fun a b => a * 10 + (b.toNat - 48)) 0

/-- `int(s)` on plain ASCII digit strings (anything else is rejected by the model) -/
def parseDec (bs : Bytes) : Option Nat :=
  if bs.isEmpty || !bs.all isDigit then none else some (decVal bs)

def SP : UInt8 := 32
def NL : UInt8 := 10

/-- the header line including the final newline -/
def header (r : Rec) : Bytes :=
  r.rid ++ SP :: (toDec r.payload.length ++ SP :: (r.enc.name ++ [NL]))

/-- the bytes `write_record` hands to the transport -/
def encodeRecord (r : Rec) : Bytes := header r ++ r.payload

def encodeStream (rs : List Rec) : Bytes := rs.flatMap encodeRecord

/-- ASCII white space as `str.split()` / `str.isspace()` see it -/
def isWs (b : UInt8) : Bool := (9 ≤ b.toNat && b.toNat ≤ 13) || (28 ≤ b.toNat && b.toNat ≤ 32)

/-- a byte that may occur in a request id: printable ASCII, no white space -/
def isTok (b : UInt8) : Bool := 33 ≤ b.toNat && b.toNat ≤ 126

/-- request ids the record layout is designed for ("whatever string the client decides to use, no
    space"): non-empty, printable ASCII without white space -/
def wellFormedId (rid : Bytes) : Prop := rid ≠ [] ∧ ∀ b ∈ rid, isTok b = true

instance (rid : Bytes) : Decidable (wellFormedId rid) := by unfold wellFormedId; exact inferInstance

/-- `readuntil(b'\n')` without the limit: the line before the first newline, and what follows it -/
def scanNl : Bytes → Option (Bytes × Bytes)
  | [] => none
  | b :: bs =>
    if b = NL then some ([], bs)
    else match scanNl bs with
      | some (h, rest) => some (b :: h, rest)
      | none => none

/-- `str.split()`: maximal runs of non-white-space (`cur` = current run, reversed) -/
def splitAux : Bytes → Bytes → List Bytes
  | [], cur => if cur.isEmpty then [] else [cur.reverse]
  | b :: bs, cur =>
    if isWs b then (if cur.isEmpty then splitAux bs [] else cur.reverse :: splitAux bs [])
    else splitAux bs (b :: cur)

def splitWs (bs : Bytes) : List Bytes := splitAux bs []

/-- outcome of one `read_record` on the bytes that will ever arrive -/
inductive RR where
  | ok (r : Rec) (rest : Bytes)
  | eof          -- `IncompleteReadError` with nothing buffered: the peer closed between records
  | incomplete   -- `IncompleteReadError` inside a record
  | overrun      -- `LimitOverrunError`: no newline within the reader's limit
  | bad          -- `ValueError` / `UnicodeDecodeError` / `AssertionError`: malformed header
  deriving Repr, DecidableEq

def readRecord (lim : Nat) (bs : Bytes) : RR :=
  if bs.isEmpty then .eof else
  match scanNl bs with
  | none => if bs.length > lim then .overrun else .incomplete
  | some (h, rest) =>
    if h.length > lim then .overrun
    else if h.any (fun b => b.toNat ≥ 128) then .bad
    else match splitWs h with
      | [rid, nb, e] =>
        match parseDec nb with
        | none => .bad
        | some n =>
          if rest.length < n then .incomplete
          else match parseEnc e with
            | none => .bad
            | some enc => .ok { rid := rid, enc := enc, payload := rest.take n } (rest.drop n)
      | _ => .bad

inductive End where
  | eof | incomplete | overrun | bad | fuel
  deriving Repr, DecidableEq

/-- the loop `while True: read_record(reader)` until it raises -/
def decodeFuel (lim : Nat) : Nat → Bytes → List Rec × End
  | 0, _ => ([], .fuel)
  | f + 1, bs =>
    match readRecord lim bs with
    | .ok r rest => let p := decodeFuel lim f rest; (r :: p.1, p.2)
    | .eof => ([], .eof)
    | .incomplete => ([], .incomplete)
    | .overrun => ([], .overrun)
    | .bad => ([], .bad)

/-- all records a reader obtains from the byte stream `bs` (every record consumes at least its
    newline, so `bs.length + 1` rounds suffice) -/
def decodeStream (lim : Nat) (bs : Bytes) : List Rec × End := decodeFuel lim (bs.length + 1) bs

/-! ### the same loop when the bytes arrive in chunks

A `StreamReader` is a buffer: `feed_data(chunk)` appends, `readuntil`/`readexactly` return as soon as
the buffer holds what they ask for and wait otherwise.  `Reader.feed` appends a chunk and lets the
loop `while True: read_record(reader)` run until a read has to wait (or raises); `Reader.eof` is
`feed_eof()`.  `Proofs/FrameChunks.lean` proves that the records and the ending are those of
`decodeStream` on the concatenation, for every chunking of every byte stream. -/

structure Reader where
  out : List Rec          -- records the loop has returned so far
  buf : Bytes             -- bytes buffered, not yet consumed
  ended : Option End      -- the loop has ended with this error
  deriving Repr, DecidableEq

/-- run the loop on the buffered bytes until a read has to wait: records, what stays buffered, error -/
def drainFuel (lim : Nat) : Nat → Bytes → List Rec × Bytes × Option End
  | 0, bs => ([], bs, none)
  | f + 1, bs =>
    match readRecord lim bs with
    | .ok r rest => let p := drainFuel lim f rest; (r :: p.1, p.2.1, p.2.2)
    | .eof => ([], bs, none)
    | .incomplete => ([], bs, none)
    | .overrun => ([], bs, some .overrun)
    | .bad => ([], bs, some .bad)

def Reader.init : Reader := { out := [], buf := [], ended := none }

def Reader.feed (lim : Nat) (rd : Reader) (chunk : Bytes) : Reader :=
  match rd.ended with
  | some _ => { rd with buf := rd.buf ++ chunk }
  | none =>
    let p := drainFuel lim ((rd.buf ++ chunk).length + 1) (rd.buf ++ chunk)
    { out := rd.out ++ p.1, buf := p.2.1, ended := p.2.2 }

/-- `feed_eof()`: a pending read ends with `IncompleteReadError` -/
def Reader.eof (rd : Reader) : List Rec × End :=
  match rd.ended with
  | some e => (rd.out, e)
  | none => (rd.out, if rd.buf.isEmpty then .eof else .incomplete)

/-- the records and the ending a reader obtains when the stream arrives as the given chunks -/
def readChunks (lim : Nat) (chunks : List Bytes) : List Rec × End :=
  (chunks.foldl (Reader.feed lim) Reader.init).eof

/-- the reader's default limit -/
def defaultLimit : Nat := 65536

end Frame
