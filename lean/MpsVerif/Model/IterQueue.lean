/-!
# Model of `IterableQueue` + `ResponsiveQueue` (src/mpservice/queue.py), repaired code (F14)

Mechanism.  `m` suppliers `put` items on a data queue (bound `cap`, `0` = unbounded) and call
`put_end` once per round; `put_end` moves one token ("lid") `spare → applied` and enqueues one end
marker (`None`).  `n` consumers iterate: `__next__` first tests `used.full()`; then dequeues; on an
end marker it tests `used.full()` again (full: re-enqueue the marker, stop), otherwise — under
`_lids_lock` (the F14 repair) — moves one token `applied → used` and reads `used.full()`; the
consumer that completed the set enqueues one extra marker for its peers and stops, the others go
on.  `renew` (called by the application after **all** consumers have finished the round) checks
`used.full()`, takes the extra marker off the queue and moves the `m` tokens back to `spare`.
When a stop event is given, the data queue is a `ResponsiveQueue`: a blocking get/put is a loop of
waits of `w` clock units; after a wait that timed out the stop event is polled and `StopRequested`
is raised if it is set.

Granularity: every operation on one of the four queues / the lock / the event is one action; the
thread that moves is part of the action label, so a schedule is a `List Act`.
Ghost (history) fields, never read by a guard: the supplier id inside `QItem.item`, `extraOut`,
`putLog`, `gotLog`, `hist`, `t0`.

Protocol assumed of the application (guards of the model, listed as assumptions of the check):
a supplier puts only before its `put_end` of the round; `renew` is started only when every
consumer's iteration has ended; the next round's suppliers and consumers start after `renew`
returned; `put(None)` is never called by the application.

Timing: integer clock `now`; `tick` is enabled only while no actor that is inside a bounded wait
has its wait expired (`now < tw + w`) — a thread whose bounded wait expired runs before the clock
moves on (scheduling latency is not modelled).  The total time limit of `ResponsiveQueue`
(24 h when no `timeout` is given) is not modelled.

Assumed of the standard library (trusted base): `queue.Queue` is FIFO, its operations are atomic,
`put` blocks exactly when the queue is full, `get` exactly when empty, a bounded `get/put` raises
`Empty/Full` only when the queue is still empty/full when the wait has expired; `Lock` is a mutex.
-/
namespace IterQueue

structure Cfg where
  m : Nat        -- num_suppliers
  n : Nat        -- number of consumers
  cap : Nat      -- maxsize of the data queue, 0 = unbounded
  w : Nat        -- wait interval of ResponsiveQueue, in clock units
  deriving Repr, DecidableEq

inductive QItem where
  | item (i x : Nat)     -- value `x` put by supplier `i` (`i` is ghost)
  | mark                 -- `None`
  deriving Repr, DecidableEq

inductive SPc where
  | idle                 -- not inside an operation; `put_end` not yet called this round
  | putw (x : Nat)       -- inside `put(x)`
  | pe1                  -- `put_end`: took a token from `spare`
  | pe2                  -- `put_end`: token is in `applied`; inside `put(None)`
  | ended                -- `put_end` returned
  | stoppedP             -- `StopRequested` raised by `put(x)`
  | stoppedE             -- `StopRequested` raised by `put_end`'s `put(None)`
  deriving Repr, DecidableEq

inductive CPc where
  | chk1                 -- `__next__`: about to test `used.full()`
  | get                  -- inside `self._q.get()`
  | chk2                 -- got a marker; about to test `used.full()` again
  | reput                -- inside `put(None)` (marker handed on to the peers)
  | lock                 -- about to acquire `_lids_lock`
  | take                 -- holds the lock; about to `applied.get()`
  | give                 -- holds the lock and a token; about to `used.put()`
  | test                 -- holds the lock; about to read `used.full()`
  | unl (last : Bool)    -- about to release the lock
  | extra                -- inside `put(None)` (the one extra marker)
  | done                 -- `StopIteration` raised: this consumer's iteration has ended
  | stopped              -- `StopRequested` raised
  deriving Repr, DecidableEq

inductive RPc where
  | off | get | failed | stopped
  deriving Repr, DecidableEq

/-- an actor: program counter, start of the current blocking operation (ghost), start of the
    current bounded wait -/
structure Sup where
  pc : SPc
  t0 : Nat
  tw : Nat
  deriving Repr, DecidableEq

structure Con where
  pc : CPc
  t0 : Nat
  tw : Nat
  deriving Repr, DecidableEq

structure State where
  sups : List Sup
  cons : List Con
  queue : List QItem
  spare : Nat
  applied : Nat
  used : Nat
  lock : Bool
  rpc : RPc
  rt0 : Nat
  rtw : Nat
  now : Nat
  stop : Option Nat                         -- clock value of the stop request
  round : Nat
  extraOut : Bool                           -- ghost: the extra marker of this round was enqueued
  putLog : List (Nat × Nat)                 -- ghost: (supplier, value) put in this round
  gotLog : List (Nat × Nat)                 -- ghost: (consumer, value) received in this round
  hist : List (List (Nat × Nat) × List (Nat × Nat))   -- ghost: logs of the finished rounds
  deriving Repr, DecidableEq

inductive Act where
  | sPutBeg (i x : Nat) | sPut (i : Nat) | sEndBeg (i : Nat) | sApply (i : Nat) | sMark (i : Nat)
  | sRetry (i : Nat) | sStop (i : Nat)
  | cChk1 (j : Nat) | cGet (j : Nat) | cChk2 (j : Nat) | cReput (j : Nat) | cLock (j : Nat)
  | cTake (j : Nat) | cGive (j : Nat) | cTest (j : Nat) | cUnlock (j : Nat) | cExtra (j : Nat)
  | cRetry (j : Nat) | cStop (j : Nat)
  | rStart | rGet | rRetry | rStop
  | setStop | tick
  deriving Repr, DecidableEq

def freshSup : Sup := { pc := .idle, t0 := 0, tw := 0 }
def freshCon : Con := { pc := .chk1, t0 := 0, tw := 0 }

def init (c : Cfg) : State :=
  { sups := List.replicate c.m freshSup, cons := List.replicate c.n freshCon, queue := [],
    spare := c.m, applied := 0, used := 0, lock := false, rpc := .off, rt0 := 0, rtw := 0,
    now := 0, stop := none, round := 0, extraOut := false, putLog := [], gotLog := [], hist := [] }

/-- the data queue accepts a `put` without blocking -/
def room (c : Cfg) (s : State) : Bool := c.cap == 0 || decide (s.queue.length < c.cap)

/-- `used.full()` -/
def usedFull (c : Cfg) (s : State) : Bool := decide (c.m ≤ s.used)

def SPc.waiting : SPc → Bool
  | .putw _ | .pe2 => true
  | _ => false

def CPc.waiting : CPc → Bool
  | .get | .reput | .extra => true
  | _ => false

/-- the bounded wait of a consumer cannot succeed in the current state -/
def cBlocked (c : Cfg) (s : State) : CPc → Bool
  | .get => s.queue.isEmpty
  | .reput | .extra => !room c s
  | _ => false

/-- no actor inside a bounded wait has its wait expired -/
def noneDue (c : Cfg) (s : State) : Bool :=
  s.sups.all (fun a => !a.pc.waiting || decide (s.now < a.tw + c.w)) &&
  s.cons.all (fun a => !a.pc.waiting || decide (s.now < a.tw + c.w)) &&
  (!(s.rpc == .get) || decide (s.now < s.rtw + c.w))

def step (c : Cfg) (s : State) : Act → Option State
  -- ---------------------------------------------------------------- suppliers
  | .sPutBeg i x =>
    match s.sups[i]? with
    | some a => if a.pc = .idle then
        some { s with sups := s.sups.set i { pc := .putw x, t0 := s.now, tw := s.now } } else none
    | none => none
  | .sPut i =>
    match s.sups[i]? with
    | some a =>
      match a.pc with
      | .putw x => if room c s then
          some { s with sups := s.sups.set i { a with pc := .idle }, queue := s.queue ++ [.item i x],
                        putLog := s.putLog ++ [(i, x)] } else none
      | _ => none
    | none => none
  | .sEndBeg i =>
    match s.sups[i]? with
    | some a => if a.pc = .idle ∧ 0 < s.spare then
        some { s with sups := s.sups.set i { a with pc := .pe1 }, spare := s.spare - 1 } else none
    | none => none
  | .sApply i =>
    match s.sups[i]? with
    | some a => if a.pc = .pe1 ∧ s.applied < c.m then
        some { s with sups := s.sups.set i { pc := .pe2, t0 := s.now, tw := s.now }, applied := s.applied + 1 }
      else none
    | none => none
  | .sMark i =>
    match s.sups[i]? with
    | some a => if a.pc = .pe2 ∧ room c s then
        some { s with sups := s.sups.set i { a with pc := .ended }, queue := s.queue ++ [.mark] } else none
    | none => none
  | .sRetry i =>
    match s.sups[i]? with
    | some a => if a.pc.waiting ∧ room c s = false ∧ a.tw + c.w ≤ s.now ∧ s.stop = none then
        some { s with sups := s.sups.set i { a with tw := s.now } } else none
    | none => none
  | .sStop i =>
    match s.sups[i]? with
    | some a => if a.pc.waiting ∧ room c s = false ∧ a.tw + c.w ≤ s.now ∧ s.stop ≠ none then
        some { s with sups := s.sups.set i { a with pc := if a.pc = .pe2 then .stoppedE else .stoppedP } }
      else none
    | none => none
  -- ---------------------------------------------------------------- consumers
  | .cChk1 j =>
    match s.cons[j]? with
    | some a => if a.pc = .chk1 then
        (if usedFull c s then some { s with cons := s.cons.set j { a with pc := .done } }
         else some { s with cons := s.cons.set j { pc := .get, t0 := s.now, tw := s.now } })
      else none
    | none => none
  | .cGet j =>
    match s.cons[j]? with
    | some a => if a.pc = .get then
        match s.queue with
        | .item _ x :: rest =>
          some { s with cons := s.cons.set j { a with pc := .chk1 }, queue := rest,
                        gotLog := s.gotLog ++ [(j, x)] }
        | .mark :: rest => some { s with cons := s.cons.set j { a with pc := .chk2 }, queue := rest }
        | [] => none
      else none
    | none => none
  | .cChk2 j =>
    match s.cons[j]? with
    | some a => if a.pc = .chk2 then
        (if usedFull c s then some { s with cons := s.cons.set j { pc := .reput, t0 := s.now, tw := s.now } }
         else some { s with cons := s.cons.set j { a with pc := .lock } })
      else none
    | none => none
  | .cReput j =>
    match s.cons[j]? with
    | some a => if a.pc = .reput ∧ room c s then
        some { s with cons := s.cons.set j { a with pc := .done }, queue := s.queue ++ [.mark] } else none
    | none => none
  | .cLock j =>
    match s.cons[j]? with
    | some a => if a.pc = .lock ∧ s.lock = false then
        some { s with cons := s.cons.set j { a with pc := .take }, lock := true } else none
    | none => none
  | .cTake j =>
    match s.cons[j]? with
    | some a => if a.pc = .take ∧ 0 < s.applied then
        some { s with cons := s.cons.set j { a with pc := .give }, applied := s.applied - 1 } else none
    | none => none
  | .cGive j =>
    match s.cons[j]? with
    | some a => if a.pc = .give ∧ s.used < c.m then
        some { s with cons := s.cons.set j { a with pc := .test }, used := s.used + 1 } else none
    | none => none
  | .cTest j =>
    match s.cons[j]? with
    | some a => if a.pc = .test then
        some { s with cons := s.cons.set j { a with pc := .unl (usedFull c s) } } else none
    | none => none
  | .cUnlock j =>
    match s.cons[j]? with
    | some a =>
      match a.pc with
      | .unl true => some { s with cons := s.cons.set j { pc := .extra, t0 := s.now, tw := s.now }, lock := false }
      | .unl false => some { s with cons := s.cons.set j { a with pc := .chk1 }, lock := false }
      | _ => none
    | none => none
  | .cExtra j =>
    match s.cons[j]? with
    | some a => if a.pc = .extra ∧ room c s then
        some { s with cons := s.cons.set j { a with pc := .done }, queue := s.queue ++ [.mark],
                      extraOut := true } else none
    | none => none
  | .cRetry j =>
    match s.cons[j]? with
    | some a => if a.pc.waiting ∧ cBlocked c s a.pc ∧ a.tw + c.w ≤ s.now ∧ s.stop = none then
        some { s with cons := s.cons.set j { a with tw := s.now } } else none
    | none => none
  | .cStop j =>
    match s.cons[j]? with
    | some a => if a.pc.waiting ∧ cBlocked c s a.pc ∧ a.tw + c.w ≤ s.now ∧ s.stop ≠ none then
        some { s with cons := s.cons.set j { a with pc := .stopped } } else none
    | none => none
  -- ---------------------------------------------------------------- renew
  | .rStart =>
    if s.rpc = .off ∧ s.cons.all (fun a => a.pc == .done) then
      (if usedFull c s then some { s with rpc := .get, rt0 := s.now, rtw := s.now }
       else some { s with rpc := .failed })
    else none
  | .rGet =>
    if s.rpc = .get then
      match s.queue with
      | .mark :: rest =>
        -- `for _ in range(m): spare.put(used.get())`, then the application starts the next round
        if c.m ≤ s.used then
          some { s with sups := List.replicate c.m freshSup, cons := List.replicate c.n freshCon,
                        queue := rest, spare := s.spare + c.m, used := s.used - c.m, rpc := .off,
                        round := s.round + 1, extraOut := false, putLog := [], gotLog := [],
                        hist := s.hist ++ [(s.putLog, s.gotLog)] }
        else none
      | .item _ _ :: rest => some { s with rpc := .failed, queue := rest }
      | [] => none
    else none
  | .rRetry =>
    if s.rpc = .get ∧ s.queue = [] ∧ s.rtw + c.w ≤ s.now ∧ s.stop = none then
      some { s with rtw := s.now } else none
  | .rStop =>
    if s.rpc = .get ∧ s.queue = [] ∧ s.rtw + c.w ≤ s.now ∧ s.stop ≠ none then
      some { s with rpc := .stopped } else none
  -- ---------------------------------------------------------------- environment
  | .setStop => if s.stop = none then some { s with stop := some s.now } else none
  | .tick => if noneDue c s then some { s with now := s.now + 1 } else none

/-- weighted sum over a list (all counting in the proofs is done with this) -/
def wsum {α : Type} (f : α → Nat) : List α → Nat
  | [] => 0
  | a :: l => f a + wsum f l

/-- values still in the data queue, with their (ghost) supplier -/
def itemsOf : List QItem → List (Nat × Nat)
  | [] => []
  | .item i x :: q => (i, x) :: itemsOf q
  | .mark :: q => itemsOf q

def marksOf : List QItem → Nat
  | [] => 0
  | .item _ _ :: q => marksOf q
  | .mark :: q => marksOf q + 1

/-! ## One timed call of `ResponsiveQueue` (`put/get(block=True, timeout=T)`, queue.py:51-78)

`_get_put` for a single call that starts at clock 0 and cannot succeed before `r` (`none` = never):
a loop of bounded waits of `min(w, time left)`; after a wait that timed out, first the caller's own
timeout is tested (`time_available <= 0` → `Full/Empty`), then the stop event.  `T = none` is the
call without a timeout (the 24 h limit is not modelled), `s` the clock of the stop request,
`tie` says whether a stop request made at the very instant of a poll is seen by that poll (both
orders are legal schedules).  `fuel` bounds the number of waits (`running` = still blocked). -/

inductive CallEnd where
  | ok (t : Nat) | stop (t : Nat) | expire (t : Nat) | running
  deriving Repr, DecidableEq

/-- is the stop request visible to a poll at clock `p`? -/
def stopSeen (s : Option Nat) (tie : Bool) (p : Nat) : Bool :=
  match s with
  | none => false
  | some s0 => decide (s0 < p) || (s0 == p && tie)

/-- clock of the next poll when a bounded wait of `min(w, time left)` starts at `t` -/
def nextPoll (w : Nat) (T : Option Nat) (t : Nat) : Nat :=
  match T with
  | some T0 => min (t + w) T0
  | none => t + w

/-- `time_available <= 0` at clock `p` -/
def expired (T : Option Nat) (p : Nat) : Bool :=
  match T with
  | some T0 => decide (T0 ≤ p)
  | none => false

/-- the operation became possible no later than clock `p` -/
def rescued (r : Option Nat) (p : Nat) : Bool :=
  match r with
  | some r0 => decide (r0 ≤ p)
  | none => false

/-- `timedCall w T s tie r fuel t`: a bounded wait starts at clock `t` -/
def timedCall (w : Nat) (T s : Option Nat) (tie : Bool) (r : Option Nat) : Nat → Nat → CallEnd
  | 0, _ => .running
  | fuel + 1, t =>
    let p := nextPoll w T t
    if rescued r p then .ok (r.getD 0)
    else if expired T p then .expire p
    else if stopSeen s tie p then .stop p
    else timedCall w T s tie r fuel p

def CallEnd.time : CallEnd → Nat
  | .ok t | .stop t | .expire t => t
  | .running => 0

/-- the value multiset of a log -/
def vals (l : List (Nat × Nat)) : List Nat := l.map Prod.snd

/-- the state in which a round starts: everything as in `init` except clock, stop flag, round
    number and the history of finished rounds -/
def Fresh (c : Cfg) (s : State) : Prop :=
  s.sups = List.replicate c.m freshSup ∧ s.cons = List.replicate c.n freshCon ∧ s.queue = [] ∧
  s.spare = c.m ∧ s.applied = 0 ∧ s.used = 0 ∧ s.lock = false ∧ s.rpc = .off ∧ s.extraOut = false ∧
  s.putLog = [] ∧ s.gotLog = []

end IterQueue
