/-!
# Model of `SingleLane` (src/mpservice/_queues.py:28-71) at the granularity of its lock operations

```
43  self._mutex = threading.Lock()
44  self._not_empty = threading.Condition(self._mutex)
45  self._not_full = threading.Condition(self._mutex)

48  def put(self, item, block=True, timeout=None):
51      with self._not_full:                               # lock  --acquire-->  check
52          if 0 < self.maxsize <= len(self._queue):       # check
53              if not block:
54                  raise Full                             #        --check-->  leave full
55              if not self._not_full.wait(timeout=timeout):   #    --check-->  wait  (--wake/timeoutFire--> relock g --reacq-->)
56                  raise Full                             #                    leave full
57          self._queue.append(item)                       # act   --act-->     note
58          self._not_empty.notify()                       # note  --notify-->  leave ok
                                                           # leave r --unlock--> fin r --ret--> idle
60  def get(self, block=True, timeout=None):               # the same with `_not_empty`, `len == 0`, `Empty`,
63      with self._not_empty: ...                          # `popleft` (IndexError on an empty deque =
69          z = self._queue.popleft()                      #  `leave under`) and `_not_full.notify()`
```

`threading.Condition` (CPython 3.11/3.12 `Lib/threading.py`, the code that runs under the lane) is modelled as it
is written there: `wait` appends a fresh waiter lock to the condition's list, releases the mutex and blocks in
`waiter.acquire(...)`; `notify()` takes the FIRST waiter lock off the list (if any) and releases it — whether or
not its owner has meanwhile given up — and remembers nothing when the list is empty; a timed `waiter.acquire`
may return `False` at any moment (`timeoutFire`); the waiter then re-acquires the mutex **while its lock is still
in the list** and removes it only afterwards (`finally: self._acquire_restore(...); if not gotit:
self._waiters.remove(waiter)`), so a `notify()` issued between the expiry and the removal is consumed by a
waiter that already decided to report a timeout.  Because the list is only ever touched by a thread that holds
the mutex, "append + release the mutex" and "acquire the mutex + remove" are single steps here.

Every scheduling choice is an action: which thread takes its next step, when a timed wait expires, and the
environment's choice of the next call (`call t mode x`).  Threads `0 .. nw-1` are writers (they only call `put`),
threads `nw .. nw+nr-1` are readers (they only call `get`).  The documented usage, and the system of all the
theorems in `Props/Lane.lean`, is `nw = nr = 1`; `Legacy/LaneMultiWriter.lean` uses `nw = 2`.

Not modelled: `close()`/`_closed` (a flag tested before the lock is taken; nothing in `put`/`get` changes it) and
the unlocked readers `empty()`, `full()`, `qsize()` (one atomic read of `len(self._queue)` each).
-/
namespace Lane

/-- how a call may end up waiting: `put(x)` / `put(x, False)` / `put(x, timeout=T)` (same for `get`).
    A timeout `T <= 0` is `timed` with an immediate `timeoutFire` (`waiter.acquire(False)`). -/
inductive Mode where
  | block | nowait | timed
  deriving Repr, DecidableEq, Hashable

/-- outcome of a call: returned, `raise Full`, `raise Empty`, `IndexError` out of `popleft` -/
inductive Res where
  | ok | full | empty | under
  deriving Repr, DecidableEq, Hashable

inductive Pc where
  | idle
  | lock                  -- `with cond:` — `mutex.acquire()` pending
  | check                 -- mutex held, at the `if` (line 52 / 64)
  | wait                  -- in `cond.wait`: waiter lock in the list, mutex released, blocked in `waiter.acquire`
  | relock (got : Bool)   -- `waiter.acquire` returned `got`; `_acquire_restore`: `mutex.acquire()` pending
  | act                   -- mutex held, at `append` / `popleft` (line 57 / 69)
  | note                  -- mutex held, at `notify()` of the other condition (line 58 / 70)
  | leave (r : Res)       -- mutex held, leaving the `with` block (normally or by an exception)
  | fin (r : Res)         -- mutex released, about to return / propagate the exception
  deriving Repr, DecidableEq, Hashable

structure Thr where
  pc : Pc := .idle
  mode : Mode := .block
  val : Nat := 0            -- `put`: the item; `get`: the item taken (0 before)
  notified : Bool := false  -- this thread's waiter lock has been released by a `notify()`
  fired : Bool := false     -- history: the timed wait of the current call expired
  deriving Repr, DecidableEq, Hashable

structure Cfg where
  maxsize : Nat             -- 0 = unbounded, as in the code
  nw : Nat := 1
  nr : Nat := 1
  deriving Repr, DecidableEq

structure State where
  q : List Nat              -- `self._queue`, oldest first
  owner : Option Nat        -- `self._mutex`
  thr : List Thr
  nfW : List Nat            -- `self._not_full._waiters` (thread ids, in arrival order)
  neW : List Nat            -- `self._not_empty._waiters`
  putH : List Nat           -- history: items appended, in order
  gotH : List Nat           -- history: items taken, in order
  deriving Repr, DecidableEq, Hashable

inductive Act where
  | call (t : Nat) (m : Mode) (x : Nat)   -- thread `t` calls `put(x, …)` / `get(…)` (readers ignore `x`)
  | acquire (t : Nat)
  | check (t : Nat)
  | wake (t : Nat)
  | timeoutFire (t : Nat)
  | reacq (t : Nat)
  | act (t : Nat)
  | notify (t : Nat)
  | unlock (t : Nat)
  | ret (t : Nat) (r : Res) (v : Nat)     -- the call returns `v` (`get`) / returns (`put`, `v` = the item) / raises
  deriving Repr, DecidableEq

def init (c : Cfg) : State :=
  { q := [], owner := none, thr := List.replicate (c.nw + c.nr) {}, nfW := [], neW := [], putH := [], gotH := [] }

/-- thread `t` (a default idle thread when there is no such thread) -/
def State.th (s : State) (t : Nat) : Thr := s.thr.getD t {}

def Cfg.isWriter (c : Cfg) (t : Nat) : Bool := t < c.nw

/-- line 52: `0 < self.maxsize <= len(self._queue)` -/
def isFull (c : Cfg) (s : State) : Bool := 0 < c.maxsize && c.maxsize ≤ s.q.length

/-- the guard of line 52 (writer) / line 64 (reader) -/
def mustWait (c : Cfg) (s : State) (t : Nat) : Bool := if c.isWriter t then isFull c s else s.q.isEmpty

/-- what the failed `if` of thread `t` raises -/
def failRes (c : Cfg) (t : Nat) : Res := if c.isWriter t then .full else .empty

def setThr (s : State) (t : Nat) (th : Thr) : State := { s with thr := s.thr.set t th }

/-- release the waiter lock of thread `u` -/
def markNotified (thr : List Thr) (u : Nat) : List Thr :=
  match thr[u]? with
  | some tu => thr.set u { tu with notified := true }
  | none => thr

def step (c : Cfg) (s : State) : Act → Option State
  | .call t m x =>
    match s.thr[t]? with
    | some th =>
      if th.pc = .idle then
        some (setThr s t { pc := .lock, mode := m, val := if c.isWriter t then x else 0, notified := false, fired := false })
      else none
    | none => none
  | .acquire t =>
    match s.thr[t]? with
    | some th =>
      if th.pc = .lock ∧ s.owner = none then some { setThr s t { th with pc := .check } with owner := some t } else none
    | none => none
  | .check t =>
    match s.thr[t]? with
    | some th =>
      if th.pc = .check then
        if mustWait c s t then
          match th.mode with
          | .nowait => some (setThr s t { th with pc := .leave (failRes c t) })
          | _ =>
            -- `cond.wait(timeout)`: append the waiter lock, release the mutex, block
            let s1 := setThr s t { th with pc := .wait, notified := false }
            if c.isWriter t then some { s1 with owner := none, nfW := s.nfW ++ [t] }
            else some { s1 with owner := none, neW := s.neW ++ [t] }
        else some (setThr s t { th with pc := .act })
      else none
    | none => none
  | .wake t =>
    match s.thr[t]? with
    | some th =>
      if th.pc = .wait ∧ th.notified = true then some (setThr s t { th with pc := .relock true }) else none
    | none => none
  | .timeoutFire t =>
    match s.thr[t]? with
    | some th =>
      if th.pc = .wait ∧ th.mode = .timed then some (setThr s t { th with pc := .relock false, fired := true }) else none
    | none => none
  | .reacq t =>
    match s.thr[t]? with
    | some th =>
      if s.owner = none then
        match th.pc with
        | .relock true => some { setThr s t { th with pc := .act, notified := false } with owner := some t }
        | .relock false =>
          -- `if not gotit: self._waiters.remove(waiter)` (ValueError ignored), then `raise Full/Empty`
          let s1 := setThr s t { th with pc := .leave (failRes c t), notified := false }
          if c.isWriter t then some { s1 with owner := some t, nfW := s.nfW.erase t }
          else some { s1 with owner := some t, neW := s.neW.erase t }
        | _ => none
      else none
    | none => none
  | .act t =>
    match s.thr[t]? with
    | some th =>
      if th.pc = .act then
        if c.isWriter t then
          some { setThr s t { th with pc := .note } with q := s.q ++ [th.val], putH := s.putH ++ [th.val] }
        else
          match s.q with
          | x :: rest => some { setThr s t { th with pc := .note, val := x } with q := rest, gotH := s.gotH ++ [x] }
          | [] => some (setThr s t { th with pc := .leave .under })
      else none
    | none => none
  | .notify t =>
    match s.thr[t]? with
    | some th =>
      if th.pc = .note then
        let s1 := setThr s t { th with pc := .leave .ok }
        if c.isWriter t then
          match s.neW with
          | u :: rest => some { s1 with neW := rest, thr := markNotified s1.thr u }
          | [] => some s1
        else
          match s.nfW with
          | u :: rest => some { s1 with nfW := rest, thr := markNotified s1.thr u }
          | [] => some s1
      else none
    | none => none
  | .unlock t =>
    match s.thr[t]? with
    | some th =>
      match th.pc with
      | .leave r => some { setThr s t { th with pc := .fin r } with owner := none }
      | _ => none
    | none => none
  | .ret t r v =>
    match s.thr[t]? with
    | some th =>
      if th.pc = .fin r ∧ v = th.val then some (setThr s t { th with pc := .idle }) else none
    | none => none

/-- actions other than the environment's `call` and the clock's `timeoutFire` -/
def Act.internal : Act → Bool
  | .call .. => false
  | .timeoutFire _ => false
  | _ => true

def Act.isCall : Act → Bool
  | .call .. => true
  | _ => false

/-- the internal actions that could conceivably be enabled in `s` -/
def internalActs (s : State) : List Act :=
  (List.range s.thr.length).flatMap fun t =>
    [.acquire t, .check t, .wake t, .reacq t, .act t, .notify t, .unlock t] ++
    (match (s.th t).pc with
     | .fin r => [.ret t r (s.th t).val]
     | _ => [])

/-! ## The atomic specification that `Model/Fifo.lean` and `Model/Buffer.lean` assume

A bounded FIFO whose `put` is enabled iff there is room and whose `get` is enabled iff it is not empty.
`Fifo.step .put` uses exactly `s.queue.length < c.cap + 1` (`SingleLane(capacity + 1)`, `_streamer.py:1072`)
and `Buffer.step .put` uses `s.queue.length < c.maxsize` (`SingleLane(self.maxsize)`, `maxsize ≥ 1`). -/
namespace Spec

inductive Act (α : Type) where
  | put (x : α) | get
  deriving Repr, DecidableEq

/-- there is room (`maxsize = 0`: always) -/
def canPut {α : Type} (maxsize : Nat) (q : List α) : Bool := maxsize == 0 || q.length < maxsize

def step {α : Type} (maxsize : Nat) (q : List α) : Act α → Option (List α)
  | .put x => if canPut maxsize q then some (q ++ [x]) else none
  | .get => match q with | _ :: rest => some rest | [] => none

end Spec

/-- the linearisation point of a call is its `append` / `popleft` -/
def lin (c : Cfg) (s : State) : Act → Option (Spec.Act Nat)
  | .act t =>
    if c.isWriter t then some (.put (s.th t).val)
    else match s.q with | _ :: _ => some .get | [] => none
  | _ => none

/-- the sequence of linearisation points along a run -/
def specTrace (c : Cfg) : State → List Act → List (Spec.Act Nat)
  | _, [] => []
  | s, a :: as =>
    match step c s a with
    | some s' => (lin c s a).toList ++ specTrace c s' as
    | none => []

end Lane
