/-!
# Model of the server ledger (`Server._enqueue`, `_wait_for_result`, `_gather_output`)
(src/mpservice/mpserver/_server.py; `AsyncServer` has the same logic on an asyncio condition)

Any number of callers; each makes one request (a thread issuing several requests in a row is
several callers).  A request is minted an id from a counter, the caller takes the condition's
lock, tests `len(ledger) >= capacity` **in a loop** (reject at once under backpressure, else wait
for a notification or its timer and test again), records `uid ↦ future` in the ledger and then puts
`(uid, x)` on the input queue.  The servlet is an abstract box keyed by uid (layer 1, `Servlet.lean`,
proves that a servlet tree behaves like this box): it holds the messages it was given and emits
each of them once, in any order, with the response computed from that message's own input.  The
gather thread pops a message, looks the uid up in the ledger (removing the entry), tests
`cancelled()`, sets the result (tolerating a cancellation in between iff `guardSet`), and queues
a notification; the notifier thread takes the lock and wakes a waiting caller.  A pending caller's
deadline may expire at any moment: it cancels its future and raises `TimeoutError`.

Messages and ledger entries are pairs `(uid, r)`: `r` is the request whose input the message
carries / whose future the entry holds, so "request `r` was answered with the response computed
from request `r'`'s input" is expressible, and `C02_own_result` says `r' = r`.
-/
namespace Ledger

inductive Outcome where
  | answered (src : Nat)     -- got the response computed from request `src`'s input
  | full                     -- ServerBacklogFull
  | timeout                  -- TimeoutError
  deriving Repr, DecidableEq

inductive Fut where
  | pending | resolved (src : Nat) | cancelled
  deriving Repr, DecidableEq

inductive CPc where
  | new                      -- not started
  | start                    -- id minted, about to take the lock
  | inCS                     -- holds the lock, about to test the size
  | passed                   -- holds the lock, test passed
  | ledgered                 -- holds the lock, entry recorded, about to enqueue the input
  | waiting                  -- inside cond.wait (lock released)
  | woken                    -- notified, must re-acquire the lock
  | expired                  -- wait timed out / no time left: must re-acquire, then raises
  | pending                  -- accepted; blocked on the future
  | cancelling               -- deadline expired: about to cancel the future
  | done (o : Outcome)
  deriving Repr, DecidableEq

structure Caller where
  pc : CPc := .new
  uid : Option Nat := none
  fut : Fut := .pending
  bp : Bool := true          -- backpressure flag of this request
  deriving Repr, DecidableEq

inductive Holder where
  | caller (r : Nat) | notifier
  deriving Repr, DecidableEq

inductive GPc where
  | idle | popped (dst src : Nat) | setting (dst src : Nat) | dead
  deriving Repr, DecidableEq

inductive NPc where
  | idle | want | has
  deriving Repr, DecidableEq

structure Cfg where
  cap : Nat
  guardSet : Bool            -- the gather thread tolerates InvalidStateError (repaired code: true)

structure State where
  callers : List Caller
  lock : Option Holder
  nextUid : Nat
  ledger : List (Nat × Nat)        -- (uid, request whose future is stored)
  inflight : List (Nat × Nat)      -- (uid, request whose input it carries): input queue + servlet
  outq : List (Nat × Nat)          -- responses between "servlet finished" and "gathered" (a bag)
  gpc : GPc
  qn : Nat                         -- queued notifications
  npc : NPc
  dropped : List (Nat × Nat)       -- history: responses whose uid was not in the ledger
  deriving Repr, DecidableEq

inductive Act where
  | mint (r : Nat) | acquire (r : Nat) | testPass (r : Nat) | reject (r : Nat) | wait (r : Nat)
  | noTime (r : Nat) | insert (r : Nat) | enqueue (r : Nat) | timeoutWait (r : Nat) | giveUp (r : Nat)
  | expire (r : Nat) | cancel (r : Nat) | receive (r : Nat)
  | emit (u r : Nat)
  | pop (u src : Nat) | gcheck | gset
  | ntake | nacquire | nnotify (r : Nat) | nnone
  deriving Repr, DecidableEq

def init (callers : List Caller) : State :=
  { callers := callers, lock := none, nextUid := 0, ledger := [], inflight := [], outq := [],
    gpc := .idle, qn := 0, npc := .idle, dropped := [] }

def State.get (s : State) (r : Nat) : Caller := s.callers.getD r {}
def State.set (s : State) (r : Nat) (c : Caller) : State := { s with callers := s.callers.set r c }

/-- look an id up in the ledger -/
def lookup (u : Nat) : List (Nat × Nat) → Option Nat
  | [] => none
  | (u', r) :: rest => if u' = u then some r else lookup u rest

/-- remove the first entry with id `u` -/
def remove (u : Nat) : List (Nat × Nat) → List (Nat × Nat)
  | [] => []
  | (u', r) :: rest => if u' = u then rest else (u', r) :: remove u rest

def step (c : Cfg) (s : State) : Act → Option State
  | .mint r =>
    if r < s.callers.length ∧ (s.get r).pc = .new then
      some { (s.set r { s.get r with pc := .start, uid := some s.nextUid }) with nextUid := s.nextUid + 1 }
    else none
  | .acquire r =>
    if s.lock = none then
      match (s.get r).pc with
      | .start => some { (s.set r { s.get r with pc := .inCS }) with lock := some (.caller r) }
      | .woken => some { (s.set r { s.get r with pc := .inCS }) with lock := some (.caller r) }
      | _ => none
    else none
  | .testPass r =>
    if (s.get r).pc = .inCS ∧ s.ledger.length < c.cap then some (s.set r { s.get r with pc := .passed })
    else none
  | .reject r =>
    if (s.get r).pc = .inCS ∧ c.cap ≤ s.ledger.length ∧ (s.get r).bp = true then
      some { (s.set r { s.get r with pc := .done .full }) with lock := none }
    else none
  | .wait r =>
    if (s.get r).pc = .inCS ∧ c.cap ≤ s.ledger.length ∧ (s.get r).bp = false then
      some { (s.set r { s.get r with pc := .waiting }) with lock := none }
    else none
  | .noTime r =>
    if (s.get r).pc = .inCS ∧ c.cap ≤ s.ledger.length ∧ (s.get r).bp = false then
      some { (s.set r { s.get r with pc := .done .full }) with lock := none }
    else none
  | .insert r =>
    match (s.get r).pc, (s.get r).uid with
    | .passed, some u => some { (s.set r { s.get r with pc := .ledgered }) with ledger := s.ledger ++ [(u, r)] }
    | _, _ => none
  | .enqueue r =>
    match (s.get r).pc, (s.get r).uid with
    | .ledgered, some u =>
      some { (s.set r { s.get r with pc := .pending }) with inflight := s.inflight ++ [(u, r)], lock := none }
    | _, _ => none
  | .timeoutWait r =>
    if (s.get r).pc = .waiting then some (s.set r { s.get r with pc := .expired }) else none
  | .giveUp r =>
    if (s.get r).pc = .expired ∧ s.lock = none then some (s.set r { s.get r with pc := .done .full }) else none
  | .expire r =>
    if (s.get r).pc = .pending ∧ (s.get r).fut = .pending then some (s.set r { s.get r with pc := .cancelling })
    else none
  | .cancel r =>
    if (s.get r).pc = .cancelling then
      match (s.get r).fut with
      | .pending => some (s.set r { s.get r with pc := .done .timeout, fut := .cancelled })
      | _ => some (s.set r { s.get r with pc := .done .timeout })
    else none
  | .receive r =>
    match (s.get r).pc, (s.get r).fut with
    | .pending, .resolved src => some (s.set r { s.get r with pc := .done (.answered src) })
    | _, _ => none
  | .emit u r =>
    if (u, r) ∈ s.inflight then some { s with inflight := s.inflight.erase (u, r), outq := s.outq ++ [(u, r)] }
    else none
  | .pop u src =>
    -- the gather thread takes a response off the output queue.  Any waiting response may be the
    -- next one: the servlet's "finished" event (`emit`) and the actual queue put are not atomic, and
    -- a servlet with several workers / an ensemble reorders, so `outq` is a bag here.
    if s.gpc = .idle ∧ (u, src) ∈ s.outq then
      match lookup u s.ledger with
      | some dst => some { s with outq := s.outq.erase (u, src), ledger := remove u s.ledger, gpc := .popped dst src }
      | none => some { s with outq := s.outq.erase (u, src), dropped := (u, src) :: s.dropped }
    else none
  | .gcheck =>
    match s.gpc with
    | .popped dst src =>
      if (s.get dst).fut = .cancelled then some { s with gpc := .idle, qn := s.qn + 1 }
      else some { s with gpc := .setting dst src }
    | _ => none
  | .gset =>
    match s.gpc with
    | .setting dst src =>
      match (s.get dst).fut with
      | .pending => some { (s.set dst { s.get dst with fut := .resolved src }) with gpc := .idle, qn := s.qn + 1 }
      | _ => if c.guardSet = true then some { s with gpc := .idle, qn := s.qn + 1 } else some { s with gpc := .dead }
    | _ => none
  | .ntake =>
    if s.npc = .idle ∧ 0 < s.qn then some { s with npc := .want, qn := s.qn - 1 } else none
  | .nacquire =>
    if s.npc = .want ∧ s.lock = none then some { s with npc := .has, lock := some .notifier } else none
  | .nnotify r =>
    if s.npc = .has ∧ (s.get r).pc = .waiting then
      some { (s.set r { s.get r with pc := .woken }) with npc := .idle, lock := none }
    else none
  | .nnone =>
    if s.npc = .has ∧ (∀ r < s.callers.length, (s.get r).pc ≠ .waiting) then
      some { s with npc := .idle, lock := none }
    else none

end Ledger
