/-!
# Model of the server life cycle (`Server.__enter__/__exit__`, `Servlet.start/stop`, `Worker.run/start`)

Sources: src/mpservice/mpserver/_server.py (`_enter_server`, `Server.__exit__`, `AsyncServer.__aexit__`,
`_gather_output`), _servlet.py (`ProcessServlet/ThreadServlet.start/stop`, `SequentialServlet`,
`EnsembleServlet` with `_enqueue`/`_dequeue`, `SwitchServlet` with `_enqueue`), _worker.py (`Worker.run`
handshake, `_start_single`: on the `None` sentinel a worker re-broadcasts it to its input queue and forwards
it to its output queue).

Two parts.

**Start** (`startServer`): a function on the servlet tree and a failure plan (`bad sv w` = worker `w` of the
servlet with pre-order index `sv` raises in `__init__`).  Workers are launched one by one; the launcher waits
for the ready-name / `None` handshake, so start-up is sequential.  The model follows the *repaired* code
(F11): when a worker fails, the workers of the same servlet that are already running are stopped, and every
compound servlet stops the members it had already started, before the error propagates.  The result is the
event list (launch / init failure / exit) and the error position.

**Stop** (`step`): a network of threads ("nodes") and FIFO queues ("channels") compiled from the servlet
tree (`compileServer`).  Every thread of the server has the same shape: it takes a message from one of its
input channels; a data message is passed on according to one of the node's *plans* (worker: to its output;
ensemble `_enqueue`: to every member, or short-circuited to the output; switch `_enqueue`: to one member;
ensemble `_dequeue`: to the output or dropped; gather: dropped; onboarding thread: to the input queue); the
stop sentinel is (for workers) first put back on the input channel and then forwarded to the node's `souts`,
after which the thread exits.  The main thread runs the `__exit__` script (`put None` / `join` / ledger
reset) in program order.  Channels are unbounded (thread queues) or pipe-backed with capacity `K` data
messages (a pipe always has room for the few bytes of a sentinel — assumption).  Requests are anonymous:
the life-cycle does not depend on their identity, only on where they are (any multiset of in-flight
requests = any number of `inject` actions interleaved with node steps before the stop begins).

Trees are binary: an n-ary `SequentialServlet` is the nested binary one (same threads, same queues); ensembles
and switches with more than two members are not modelled.  The model follows the repaired code: F11 (start
clean-up), F12 (exit order), F18 (ledger reset), F24 (ensemble/switch stop order; `_dequeue` waits for every
member).  The pinned behaviours are in Legacy/LifecyclePinned.lean.
-/
namespace Lifecycle

/-! ## servlet trees -/

inductive Tree where
  | simple (k : Nat) (proc : Bool)      -- ThreadServlet (proc = false) / ProcessServlet with k workers
  | seq (a b : Tree)
  | ens (a b : Tree)
  | sw (a b : Tree)
  deriving Repr, DecidableEq

/-- `input_queue_type == 'thread'` -/
def Tree.inThread : Tree → Bool
  | .simple _ p => !p
  | .seq a _ => a.inThread
  | .ens _ _ => true
  | .sw _ _ => true

/-- `output_queue_type == 'thread'` -/
def Tree.outThread : Tree → Bool
  | .simple _ p => !p
  | .seq _ b => b.outThread
  | .ens _ _ => true
  | .sw a b => a.outThread && b.outThread

/-- number of servlets (pre-order numbering) -/
def Tree.size : Tree → Nat
  | .simple _ _ => 1
  | .seq a b => 1 + a.size + b.size
  | .ens a b => 1 + a.size + b.size
  | .sw a b => 1 + a.size + b.size

/-! ## start -/

/-- a thread: worker `w` of servlet `sv`, or helper `h` of servlet `sv` (`h` = 100 dequeue, 101 enqueue) -/
abbrev Tid := Nat × Nat

inductive Ev where
  | launch (t : Tid)      -- thread started
  | fail (t : Tid)        -- its `__init__` raised; the thread ends with that error
  | exit (t : Tid)        -- thread stopped by the clean-up
  deriving Repr, DecidableEq

structure SRes where
  evs : List Ev
  err : Option Tid
  deriving Repr, DecidableEq

def workerEvs (sv : Nat) (bad : Nat → Nat → Bool) : (todo : Nat) → (i : Nat) → SRes
  | 0, _ => { evs := [], err := none }
  | todo + 1, i =>
    if bad sv i then
      -- `q_out.get()` returns None; `w.join()` raises; `_stop_workers` stops workers 0..i-1
      { evs := [.launch (sv, i), .fail (sv, i)] ++ ((List.range i).map (fun j => (sv, j))).map Ev.exit, err := some (sv, i) }
    else
      let r := workerEvs sv bad todo (i + 1)
      { evs := .launch (sv, i) :: r.evs, err := r.err }

/-- threads of a started subtree, in launch order (= the order `stop` joins them) -/
def threads : Tree → Nat → List Tid
  | .simple k _, sv => (List.range k).map (fun j => (sv, j))
  | .seq a b, sv => threads a (sv + 1) ++ threads b (sv + 1 + a.size)
  | .ens a b, sv => threads a (sv + 1) ++ threads b (sv + 1 + a.size) ++ [(sv, 100), (sv, 101)]
  | .sw a b, sv => threads a (sv + 1) ++ threads b (sv + 1 + a.size) ++ [(sv, 101)]

def helpers : Tree → Nat → List Tid
  | .ens _ _, sv => [(sv, 100), (sv, 101)]
  | .sw _ _, sv => [(sv, 101)]
  | _, _ => []

def startT (bad : Nat → Nat → Bool) : Tree → Nat → SRes
  | .simple k _, sv => workerEvs sv bad k 0
  | .seq a b, sv =>
    let ra := startT bad a (sv + 1)
    match ra.err with
    | some e => { evs := ra.evs, err := some e }
    | none =>
      let rb := startT bad b (sv + 1 + a.size)
      match rb.err with
      | some e => { evs := ra.evs ++ rb.evs ++ (threads a (sv + 1)).map Ev.exit, err := some e }
      | none => { evs := ra.evs ++ rb.evs, err := none }
  | .ens a b, sv =>
    let ra := startT bad a (sv + 1)
    match ra.err with
    | some e => { evs := ra.evs, err := some e }
    | none =>
      let rb := startT bad b (sv + 1 + a.size)
      match rb.err with
      | some e => { evs := ra.evs ++ rb.evs ++ (threads a (sv + 1)).map Ev.exit, err := some e }
      | none => { evs := ra.evs ++ rb.evs ++ [.launch (sv, 100), .launch (sv, 101)], err := none }
  | .sw a b, sv =>
    let ra := startT bad a (sv + 1)
    match ra.err with
    | some e => { evs := ra.evs, err := some e }
    | none =>
      let rb := startT bad b (sv + 1 + a.size)
      match rb.err with
      | some e => { evs := ra.evs ++ rb.evs ++ (threads a (sv + 1)).map Ev.exit, err := some e }
      | none => { evs := ra.evs ++ rb.evs ++ [.launch (sv, 101)], err := none }

/-- server-level helper threads: (1000, 0) onboarding (only with a pipe-backed input queue), (1000, 1) gather -/
def serverThreads (t : Tree) : List Tid :=
  (if t.inThread then [] else [(1000, 0)]) ++ [(1000, 1)]

/-- `Server.__enter__`: the servlet is started first; the server's own threads only after it succeeded -/
def startServer (bad : Nat → Nat → Bool) (t : Tree) : SRes :=
  let r := startT bad t 0
  match r.err with
  | some e => { evs := r.evs, err := some e }
  | none => { evs := r.evs ++ (serverThreads t).map Ev.launch, err := none }

def launched : List Ev → List Tid
  | [] => []
  | .launch t :: es => t :: launched es
  | _ :: es => launched es

def gone : List Ev → List Tid
  | [] => []
  | .fail t :: es => t :: gone es
  | .exit t :: es => t :: gone es
  | _ :: es => gone es

/-- threads started and not ended -/
def alive (es : List Ev) : List Tid := (launched es).filter (fun t => !(gone es).contains t)

/-- workers in launch order -/
def workers : Tree → Nat → List Tid
  | .simple k _, sv => (List.range k).map (fun j => (sv, j))
  | .seq a b, sv => workers a (sv + 1) ++ workers b (sv + 1 + a.size)
  | .ens a b, sv => workers a (sv + 1) ++ workers b (sv + 1 + a.size)
  | .sw a b, sv => workers a (sv + 1) ++ workers b (sv + 1 + a.size)

/-! ## stop: network of nodes and channels -/

inductive Msg where
  | data | stop
  deriving Repr, DecidableEq

structure NodeDesc where
  ins : List Nat              -- input channels
  plans : List (List Nat)     -- what may happen to a data message: channels it is passed on to, in order
  souts : List Nat            -- channels the sentinel is forwarded to, in order
  rebro : Bool                -- worker: put the sentinel back on the input channel first
  sink : Bool                 -- gather thread: taking a result removes its ledger entry
  all : Bool := false         -- ensemble `_dequeue` (F24 repair): leaves only after a sentinel from EVERY input
  deriving Repr, DecidableEq

inductive Instr where
  | put (c : Nat)             -- `q.put(None)`
  | join (n : Nat)            -- `thread.join()`
  | clear                     -- cancel and drop what is left in the ledger (F18 repair)
  deriving Repr, DecidableEq

structure Net where
  nodes : List NodeDesc
  caps : List (Option Nat)    -- per channel: none = unbounded, some K = pipe holding K data messages
  ws : List Nat               -- per channel: weight of a data message (for the termination measure)
  entry : Nat                 -- channel that receives accepted requests
  script : List Instr         -- `__exit__` in program order
  deriving Repr, DecidableEq

/-- node state: `.d pend` = passing a data message on to `pend` (`.d []` = idle);
    `.s pend` = has seen the sentinel and still forwards it to `pend` (`.s []` = exited) -/
inductive NSt where
  | d (pend : List Nat)
  | s (pend : List Nat)
  deriving Repr, DecidableEq

structure State where
  chans : Nat → List Msg
  nodes : Nat → NSt
  pc : List Instr
  stopping : Bool             -- `__exit__` has begun: no new requests
  ledger : Nat                -- entries of `_uid_to_futures`
  sput : Nat → Bool           -- history: a sentinel was put on this channel
  wait : Nat → List Nat       -- per `all` node: input channels whose sentinel has not been taken yet

inductive Act where
  | inject                    -- a request is accepted (ledger entry + input put on the entry channel)
  | get (n c k : Nat)         -- node n takes the head of channel c; a data message follows plan k
  | put (n : Nat)             -- node n puts what it holds on the next pending channel
  | main                      -- the main thread executes the next instruction of `__exit__`
  deriving Repr, DecidableEq

def upd {β : Type} (f : Nat → β) (i : Nat) (v : β) : Nat → β := fun j => if j = i then v else f j

def init (net : Net) : State :=
  { chans := fun _ => [], nodes := fun _ => .d [], pc := net.script, stopping := false, ledger := 0,
    sput := fun _ => false,
    wait := fun n => match net.nodes[n]? with
      | some nd => if nd.all then nd.ins else []
      | none => [] }

def ndata (l : List Msg) : Nat := l.count .data

def capOf (net : Net) (c : Nat) : Option Nat := (net.caps[c]?).getD none

/-- a data message fits on channel `c` -/
def room (net : Net) (s : State) (c : Nat) : Bool :=
  match capOf net c with
  | none => true
  | some K => ndata (s.chans c) < K

/-- channels an `all` node still waits for after taking a sentinel from `c` (`[]` for other nodes) -/
def waitAfter (nd : NodeDesc) (w : List Nat) (c : Nat) : List Nat :=
  if nd.all then w.filter (· ≠ c) else []

def step (net : Net) (s : State) : Act → Option State
  | .inject =>
    if s.stopping = false then
      some { s with chans := upd s.chans net.entry (s.chans net.entry ++ [.data]), ledger := s.ledger + 1 }
    else none
  | .get n c k =>
    match net.nodes[n]? with
    | none => none
    | some nd =>
      if s.nodes n = .d [] ∧ c ∈ nd.ins then
        match s.chans c with
        | [] => none
        | .data :: rest =>
          match nd.plans[k]? with
          | none => none
          | some plan =>
            some { s with chans := upd s.chans c rest, nodes := upd s.nodes n (.d plan),
                          ledger := if nd.sink then s.ledger - 1 else s.ledger }
        | .stop :: rest =>
          if k = 0 then
            let w := waitAfter nd (s.wait n) c
            if w = [] then
              some { s with chans := upd s.chans c rest,
                            nodes := upd s.nodes n (.s ((if nd.rebro then [c] else []) ++ nd.souts)),
                            wait := upd s.wait n [] }
            else
              some { s with chans := upd s.chans c rest, wait := upd s.wait n w }
          else none
      else none
  | .put n =>
    if n < net.nodes.length then
      match s.nodes n with
      | .d (c :: rest) =>
        if room net s c then
          some { s with chans := upd s.chans c (s.chans c ++ [.data]), nodes := upd s.nodes n (.d rest) }
        else none
      | .s (c :: rest) =>
        some { s with chans := upd s.chans c (s.chans c ++ [.stop]), nodes := upd s.nodes n (.s rest),
                      sput := upd s.sput c true }
      | _ => none
    else none
  | .main =>
    match s.pc with
    | [] => none
    | .put c :: rest =>
      some { s with chans := upd s.chans c (s.chans c ++ [.stop]), sput := upd s.sput c true, pc := rest,
                    stopping := true }
    | .join n :: rest =>
      if s.nodes n = .s [] then some { s with pc := rest, stopping := true } else none
    | .clear :: rest => some { s with ledger := 0, pc := rest, stopping := true }

/-- `__exit__` has returned -/
def Final (s : State) : Prop := s.pc = []

instance (s : State) : Decidable (Final s) := by unfold Final; exact inferInstance

/-- every action that can possibly be enabled (`cands_complete`) -/
def cands (net : Net) : List Act :=
  [.inject, .main] ++ (List.range net.nodes.length).flatMap (fun n =>
    Act.put n :: match net.nodes[n]? with
      | some nd => nd.ins.flatMap (fun c => (List.range (max 1 nd.plans.length)).map (fun k => Act.get n c k))
      | none => [])

def enabled (net : Net) (s : State) : List Act := (cands net).filter (fun a => (step net s a).isSome)

/-- the action list is a run from the initial state that ends in a state where `__exit__` has not returned
    and no thread can move -/
def deadlocks (net : Net) (as : List Act) : Bool :=
  match as.foldl (fun (o : Option State) a => o.bind (fun s => step net s a)) (some (init net)) with
  | some s => !decide (Final s) && (enabled net s).isEmpty
  | none => false

/-- `__enter__` on a server that has been exited: every servlet asserts `not self._started`, fresh queues and
    threads are created, the ledger is carried over -/
def reenter (net : Net) (s : State) : Option State :=
  if s.pc = [] ∧ (List.range net.nodes.length).all (fun n => s.nodes n = .s []) then
    some { init net with ledger := s.ledger }
  else none

/-! ## compiling a servlet tree into a network -/

/-- weight of a data message on the input channel of `t`, given the weight on its output channel -/
def win : Tree → Nat → Nat
  | .simple _ _, wout => 2 + wout
  | .seq a b, wout => win a (win b wout)
  | .ens a b, wout => 3 + win a (2 + wout) + win b (2 + wout)
  | .sw a b, wout => 2 + wout + win a wout + win b wout

def pipe (K : Nat) (thread : Bool) : Option Nat := if thread then none else some K

/-- number of internal queues / of threads of a subtree -/
def Tree.nchan : Tree → Nat
  | .simple _ _ => 0
  | .seq a b => 1 + a.nchan + b.nchan
  | .ens a b => 4 + a.nchan + b.nchan
  | .sw a b => 2 + a.nchan + b.nchan

def Tree.nnode : Tree → Nat
  | .simple k _ => k
  | .seq a b => a.nnode + b.nnode
  | .ens a b => a.nnode + b.nnode + 2
  | .sw a b => a.nnode + b.nnode + 1

def workerDesc (cin cout : Nat) : NodeDesc :=
  { ins := [cin], plans := [[cout]], souts := [cout], rebro := true, sink := false }

/-- internal queues of a subtree (capacity, weight), in index order starting at the subtree's channel base `cb`:
    seq: `cb` = the queue between the members; ens: `cb..cb+3` = in/out queue of member a, in/out queue of
    member b; switch: `cb, cb+1` = the members' input queues; then the members' own queues -/
def chansT (K : Nat) : Tree → (wout : Nat) → List (Option Nat × Nat)
  | .simple _ _, _ => []
  | .seq a b, wout =>
    (pipe K (a.outThread && b.inThread), win b wout) :: (chansT K a (win b wout) ++ chansT K b wout)
  | .ens a b, wout =>
    [(pipe K a.inThread, win a (2 + wout)), (pipe K a.outThread, 2 + wout),
     (pipe K b.inThread, win b (2 + wout)), (pipe K b.outThread, 2 + wout)]
      ++ (chansT K a (2 + wout) ++ chansT K b (2 + wout))
  | .sw a b, wout =>
    [(pipe K a.inThread, win a wout), (pipe K b.inThread, win b wout)] ++ (chansT K a wout ++ chansT K b wout)

/-- threads of a subtree in index order (members first, then the helper threads: `_dequeue`, `_enqueue`) -/
def nodesT : Tree → (cin cout cb : Nat) → List NodeDesc
  | .simple k _, cin, cout, _ => List.replicate k (workerDesc cin cout)
  | .seq a b, cin, cout, cb => nodesT a cin cb (cb + 1) ++ nodesT b cb cout (cb + 1 + a.nchan)
  | .ens a b, cin, cout, cb =>
    nodesT a cb (cb + 1) (cb + 4) ++ nodesT b (cb + 2) (cb + 3) (cb + 4 + a.nchan) ++
      [{ ins := [cb + 1, cb + 3], plans := [[cout], []], souts := [cout], rebro := false, sink := false, all := true },
       { ins := [cin], plans := [[cout], [cb, cb + 2]], souts := [cb, cb + 2], rebro := false, sink := false }]
  | .sw a b, cin, cout, cb =>
    nodesT a cb cout (cb + 2) ++ nodesT b (cb + 1) cout (cb + 2 + a.nchan) ++
      [{ ins := [cin], plans := [[cout], [cb], [cb + 1]], souts := [cb, cb + 1], rebro := false, sink := false }]

/-- the `stop()` script of a subtree whose first thread has index `nb` -/
def scriptT : Tree → (cin cb nb : Nat) → List Instr
  | .simple k _, cin, _, nb => .put cin :: (List.range k).map (fun i => Instr.join (nb + i))
  | .seq a b, cin, cb, nb => scriptT a cin (cb + 1) nb ++ scriptT b cb (cb + 1 + a.nchan) (nb + a.nnode)
  | .ens a b, cin, cb, nb =>
    [.put cin, .join (nb + a.nnode + b.nnode + 1)] ++
      (scriptT a cb (cb + 4) nb ++ scriptT b (cb + 2) (cb + 4 + a.nchan) (nb + a.nnode)) ++
      [.join (nb + a.nnode + b.nnode)]
  | .sw a b, cin, cb, nb =>
    [.put cin, .join (nb + a.nnode + b.nnode)] ++
      (scriptT a cb (cb + 2) nb ++ scriptT b (cb + 1) (cb + 2 + a.nchan) (nb + a.nnode))

/-- `_enter_server` + `Server.__exit__` (repaired order: flush and join the onboarding thread first (F12),
    stop the servlet, join the gather thread, reset the ledger (F18)).  `pinned = true` gives the exit order of
    the pinned code (servlet.stop, gather.join, then the onboarding thread; no ledger reset).
    Channels: 0 = `_q_in`, 1 = `_q_out`, 2.. = the servlet's internal queues, last = the onboarding buffer (only
    with a pipe-backed input queue).  Nodes: the servlet's threads, then the gather thread, then the onboarding
    thread. -/
def compileServer (K : Nat) (t : Tree) (pinned : Bool := false) : Net :=
  let chs := [(pipe K t.inThread, win t 1), (pipe K t.outThread, 1)] ++ chansT K t 1
  let nodes := nodesT t 0 1 2 ++ [{ ins := [1], plans := [[]], souts := [], rebro := false, sink := true }]
  let g := t.nnode
  let st := scriptT t 0 2 0
  if t.inThread then
    { nodes := nodes, caps := chs.map (·.1), ws := chs.map (·.2), entry := 0,
      script := st ++ [.join g] ++ (if pinned then [] else [.clear]) }
  else
    let buf := 2 + t.nchan
    let chs' := chs ++ [(none, 2 + win t 1)]
    { nodes := nodes ++ [{ ins := [buf], plans := [[0]], souts := [0], rebro := false, sink := false }],
      caps := chs'.map (·.1), ws := chs'.map (·.2), entry := buf,
      script := if pinned then st ++ [.join g, .put buf, .join (g + 1)]
                else [.put buf, .join (g + 1)] ++ st ++ [.join g, .clear] }

/-! ## well-formedness of a network (decidable `Net.wf`; its Prop-level content `WF` is proved for the network
    compiled from EVERY servlet tree in Proofs/LifecycleCompile.lean (`compile_WF`); the driver evaluates `wf`
    for every tree it sees all the same) -/

def wOf (net : Net) (c : Nat) : Nat := (net.ws[c]?).getD 0

def planCost (net : Net) (plan : List Nat) : Nat := (plan.map (fun d => 1 + wOf net d)).sum

/-- a sentinel is certain to have been put on `c` before script position `p`: by the main thread, or by a
    node joined before `p` that forwards the sentinel to `c` -/
def fedBefore (net : Net) (c p : Nat) : Bool :=
  (net.script.take p).any (fun i =>
    match i with
    | .put c' => c' = c
    | .join m => match net.nodes[m]? with
      | some md => md.souts.contains c
      | none => false
    | .clear => false)

def nodeOk (net : Net) (n : Nat) (nd : NodeDesc) : Bool :=
  -- weights strictly decrease along every plan
  nd.ins.all (fun c => nd.plans.all (fun plan => 1 + planCost net plan ≤ wOf net c))
  -- the node is joined, and before every such join a sentinel is certain to reach one of its inputs
  && net.script.contains (.join n)
  && (List.range net.script.length).all (fun p =>
        net.script[p]? != some (.join n) ||
          (if nd.all then nd.ins.all (fun c => fedBefore net c p) else nd.ins.any (fun c => fedBefore net c p)))
  && !nd.plans.isEmpty
  && (!nd.all || (!nd.rebro && !nd.ins.isEmpty))
  -- a reader that does not put the sentinel back is the only reader of its input channels
  && (nd.rebro || nd.ins.all (fun c =>
        (List.range net.nodes.length).all (fun m =>
          m = n || match net.nodes[m]? with
            | some md => !md.ins.contains c
            | none => true)))
  -- channel indices in range
  && nd.ins.all (fun c => c < net.caps.length) && nd.souts.all (fun c => c < net.caps.length)
  && nd.plans.all (fun plan => plan.all (fun c => c < net.caps.length))

def Net.wf (net : Net) : Bool :=
  (List.range net.nodes.length).all (fun n =>
    match net.nodes[n]? with
    | some nd => nodeOk net n nd
    | none => false)
  && net.script.contains .clear
  && net.script.all (fun i => match i with
      | .join n => n < net.nodes.length
      | .put c => c < net.caps.length
      | .clear => true)
  && net.caps.length = net.ws.length
  && net.entry < net.caps.length

/-! ## pipe-backed queues: the side condition under which `stop` cannot block on a full pipe

For every bounded channel: a reader (with that channel as its only input, or an `all` node); one node that
writes to it (data and forwarded sentinel); and the main thread puts its own sentinel on it only after having
joined that writer.  Then a sentinel can never overtake data still to be written, so the reader cannot leave
while the writer still has something to write.  Multi-worker servlets writing to a pipe (F19), switch members
sharing a pipe-backed output queue, and the pinned `stop` orders (F12, F24) violate it. -/

def writes (nd : NodeDesc) (c : Nat) : Bool := nd.plans.any (fun plan => plan.contains c) || nd.souts.contains c

def Net.safe (net : Net) : Bool :=
  (List.range net.caps.length).all fun c =>
    match capOf net c with
    | none => true
    | some K =>
      decide (1 ≤ K)
      && (List.range net.nodes.length).any (fun r => match net.nodes[r]? with
            | some nd => nd.ins.contains c && (nd.ins == [c] || nd.all)
            | none => false)
      && (List.range net.nodes.length).all (fun m => (List.range net.nodes.length).all (fun m' =>
            m == m' || match net.nodes[m]?, net.nodes[m']? with
              | some md, some md' => !(writes md c && writes md' c)
              | _, _ => true))
      && (List.range net.nodes.length).all (fun m => match net.nodes[m]? with
            | some md => !writes md c || (List.range net.script.length).all (fun p =>
                net.script[p]? != some (.put c) || (net.script.take p).contains (.join m))
            | none => true)

end Lifecycle
