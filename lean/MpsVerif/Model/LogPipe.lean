import MpsVerif.Core.Sys
/-!
# Model of the log forwarding of `mpservice.multiprocessing.SpawnProcess`
# (src/mpservice/multiprocessing/context.py: `run`, `_run_logger`, `_collect_result`, `_finalize`)

Mechanism.  The child installs a `QueueHandler` on its root logger; every record the target emits
is appended to the **unbounded buffer** of a `multiprocessing.Queue`; the queue's **feeder thread**
(in the child) moves records one by one into an **OS pipe of bounded capacity** (it blocks while
the pipe is full).  When the target has ended the child sends result and error over the result
pipe (two small messages), removes the handler and closes the queue; at interpreter exit it
**joins its feeder thread**, i.e. it cannot exit before every buffered record is in the pipe.
In the parent a **logger thread** reads the pipe until it reads the end mark (`None`), handling
every record that passes the parent's level settings.  The **collector thread** receives result
and error, then (repaired code, F15) waits for the child's sentinel (child exited), puts the end
mark into the same queue (the parent's own feeder thread writes it into the pipe when there is
room), joins the logger thread, and resolves the future.  The GC finalizer of the process object
(it can run only after the collector thread has ended, which holds a reference to the object)
puts one more end mark and joins the logger thread.

Every interleaving is an action list.  Parameters: `n` records (ids `0..n-1` in emission order),
pipe capacity `K` (in records; any `K ≥ 1` — a record larger than the OS buffer is one that
fills the pipe), `pass i` (record `i` passes the parent's level settings).

Assumed (trusted base): the pipe is FIFO, bounded, the writer blocks when it is full; the feeder
threads write whole messages in buffer order; the child joins its feeder before exiting
(`Queue._finalize_join`, not cancelled); the sentinel becomes ready exactly when the child has
exited.
-/
namespace LogPipe

structure Cfg where
  n : Nat
  K : Nat
  pass : Nat → Bool

inductive Item where
  | record (i : Nat) | mark
  deriving Repr, DecidableEq

/-- child main thread -/
inductive CPc where
  | emit      -- target running (emits records)
  | send1     -- target ended (returned / raised / sys.exit): about to send the result
  | send2     -- about to send the error
  | closeQ    -- `finally`: remove the handler, close the queue
  | joinF     -- interpreter exit: join the feeder thread
  | exited
  deriving Repr, DecidableEq

/-- collector thread -/
inductive KPc where
  | recv1 | recv2 | waitExit | putEnd | joinLog | resolve | done
  deriving Repr, DecidableEq

structure State where
  emitted : Nat            -- records emitted so far (history)
  cbuf : List Nat          -- child-side queue buffer
  cpc : CPc
  qclosed : Bool           -- child closed its queue (the feeder ends when the buffer is empty)
  fdone : Bool             -- child feeder thread ended
  pipe : List Item         -- the OS pipe, oldest first
  sent : Nat               -- result-pipe messages written
  recvd : Nat              -- result-pipe messages read
  kpc : KPc
  pbuf : Nat               -- end marks in the parent-side queue buffer
  lstopped : Bool          -- logger thread ended
  consumed : List Nat      -- history: records the logger thread read
  handled : List Nat       -- history: records handled by the parent's logging configuration
  fut : Bool               -- future resolved (`join` / `result` return)
  handledAtResolve : Nat   -- history: how many records had been handled when the future was resolved
  finalized : Bool
  deriving Repr, DecidableEq

inductive Act where
  | emit | targetEnd | send1 | send2 | closeQ | feed | feedEnd | exit
  | kRecv | kSentinel | kPutEnd | pfeed | lget | lend | kJoinLog | kResolve | fin
  deriving Repr, DecidableEq

def init : State :=
  { emitted := 0, cbuf := [], cpc := .emit, qclosed := false, fdone := false, pipe := [], sent := 0,
    recvd := 0, kpc := .recv1, pbuf := 0, lstopped := false, consumed := [], handled := [],
    fut := false, handledAtResolve := 0, finalized := false }

def step (c : Cfg) (s : State) : Act → Option State
  | .emit =>
    if s.cpc = .emit ∧ s.emitted < c.n then
      some { s with cbuf := s.cbuf ++ [s.emitted], emitted := s.emitted + 1 }
    else none
  | .targetEnd => if s.cpc = .emit ∧ s.emitted = c.n then some { s with cpc := .send1 } else none
  | .send1 => if s.cpc = .send1 then some { s with cpc := .send2, sent := s.sent + 1 } else none
  | .send2 => if s.cpc = .send2 then some { s with cpc := .closeQ, sent := s.sent + 1 } else none
  | .closeQ => if s.cpc = .closeQ then some { s with cpc := .joinF, qclosed := true } else none
  | .feed =>
    match s.cbuf with
    | i :: rest =>
      if s.fdone = false ∧ s.pipe.length < c.K then some { s with cbuf := rest, pipe := s.pipe ++ [.record i] }
      else none
    | [] => none
  | .feedEnd =>
    if s.cbuf = [] ∧ s.qclosed = true ∧ s.fdone = false then some { s with fdone := true } else none
  | .exit => if s.cpc = .joinF ∧ s.fdone = true then some { s with cpc := .exited } else none
  | .kRecv =>
    if s.recvd < s.sent then
      match s.kpc with
      | .recv1 => some { s with kpc := .recv2, recvd := s.recvd + 1 }
      | .recv2 => some { s with kpc := .waitExit, recvd := s.recvd + 1 }
      | _ => none
    else none
  | .kSentinel => if s.kpc = .waitExit ∧ s.cpc = .exited then some { s with kpc := .putEnd } else none
  | .kPutEnd => if s.kpc = .putEnd then some { s with kpc := .joinLog, pbuf := s.pbuf + 1 } else none
  | .pfeed =>
    if 0 < s.pbuf ∧ s.pipe.length < c.K then some { s with pbuf := s.pbuf - 1, pipe := s.pipe ++ [.mark] }
    else none
  | .lget =>
    if s.lstopped = false then
      match s.pipe with
      | .record i :: rest =>
        some { s with pipe := rest, consumed := s.consumed ++ [i],
                      handled := if c.pass i then s.handled ++ [i] else s.handled }
      | _ => none
    else none
  | .lend =>
    if s.lstopped = false then
      match s.pipe with
      | .mark :: rest => some { s with pipe := rest, lstopped := true }
      | _ => none
    else none
  | .kJoinLog => if s.kpc = .joinLog ∧ s.lstopped = true then some { s with kpc := .resolve } else none
  | .kResolve =>
    if s.kpc = .resolve then some { s with kpc := .done, fut := true, handledAtResolve := s.handled.length }
    else none
  | .fin =>
    if s.kpc = .done ∧ s.finalized = false then
      some { s with finalized := true, pbuf := s.pbuf + 1 }
    else none

/-- child gone, collector finished (future resolved), logger thread ended -/
def Final (s : State) : Prop := s.cpc = .exited ∧ s.kpc = .done ∧ s.lstopped = true

instance (s : State) : Decidable (Final s) := by unfold Final; infer_instance

def Reachable (c : Cfg) (s : State) : Prop := ∃ as, Core.run (step c) init as = some s

/-- what the parent's logging configuration must have handled: all records that pass, in order -/
def expected (c : Cfg) : List Nat := (List.range c.n).filter c.pass

def recsOf : List Item → List Nat
  | [] => []
  | .record i :: r => i :: recsOf r
  | .mark :: r => recsOf r

def marksOf : List Item → Nat
  | [] => 0
  | .record _ :: r => marksOf r
  | .mark :: r => marksOf r + 1

/-- no record behind an end mark -/
def wf : List Item → Bool
  | [] => true
  | .record _ :: r => wf r
  | .mark :: r => (recsOf r).isEmpty && wf r

end LogPipe
