import MpsVerif.Core.Sys
/-!
# Model of request/response multiplexing over the socket transport (src/mpservice/socket.py)

Client (`SocketClient`): `_enqueue` creates a `concurrent.futures.Future` and puts
`((path, data), fut)` on the `pending` queue (`SingleLane`, FIFO).  Each of the `nconn` connections
runs `_keep_sending`: take the head of `pending`, `req_id = id(fut)`, `write_record(writer, req_id, x)`,
`active[req_id] = fut`; and `_keep_receiving`: `read_record`, `fut = active.pop(int(req_id))`,
`fut.set_exception(data)` if the data is an exception else `fut.set_result(data)`.

Server (`SocketServer._handle_connection`, one per connection): `_keep_receiving` reads a record,
creates a task for `app.handle_request(path, data)` and puts `(req_id, task)` on the connection's
queue `reqs` (FIFO); `_keep_responding` takes the head of `reqs`, awaits *that* task and writes
`(req_id, result-or-RemoteException)` back — so a connection answers in request order although the
handlers complete in any order.

`stream()`: a feeder thread enqueues every input in order and puts `(x, fut)` on the FIFO `tasks`;
the generator takes them in order and yields `fut.result()`.

Abstractions.  A record on the wire is `(rid, data)` — `Model/Frame.lean` proves that the byte
framing returns exactly what was written, so a connection direction is a FIFO list of records.
Payloads and responses are abstract values; the routed handler is an arbitrary function
`handler : payload → response-or-exception` (`Cfg`), latencies are the order of `finish` actions.
Every buffer is bounded by an arbitrary capacity (`Cfg`; flow control counted in records): a full
`pending` blocks the requesters, a full socket direction blocks its writer (`drain`), and the server
stops reading a connection while its `reqs` queue is full (`await reqs.put`).  `srvq` is the whole
FIFO of started tasks of a connection: the one `_keep_responding` has already taken off `reqs` and is
awaiting (head), the content of `reqs`, and the one whose `reqs.put` is blocked (last; nothing can
overtake it) — hence `srvCap = backlog + 2` (the tie found this: with `+ 1` the replay of real traces
with `backlog=1` was rejected).
Futures are identified by their creation index `k` (`reqs[k]` is the history entry of the `k`-th
Future); `id(fut)` is `reqs[k].id`, chosen by the allocator (action label) subject to CPython's
rule: **the id of a new object differs from the id of every object that is still alive** — a
Future is alive at least until it has been resolved (it is referenced by `pending`, by the sending
coroutine's local, or by `active`); the model lets ids be reused as early as that, which includes
every later reuse.

Ghost state (never read by a guard or by a non-ghost update): `stage k` = where request `k` is,
`gk` in every record = the request the record descends from, `sin`.

Every nondeterministic choice is an action label: who moves, which connection picks up the next
pending request, which running handler finishes first, which id the allocator hands out.

Assumed (trusted base, DESIGN §4): `SingleLane`, `asyncio.Queue` and a connected stream socket are
FIFO; `dict` insert/pop; `Future.set_result`; and the client registers `active[req_id] = fut` before
its receiving task can process the response to that record — in the code the registration follows
`await writer.drain()`, which on a non-congested transport does not yield, and otherwise resumes
(asyncio's FIFO ready queue) before the I/O callbacks of any later loop iteration run; `send` is
therefore one atomic action here.  The harness monitors exactly this order on every real run
(rule `unmatched-response`).
-/
namespace Mux

inductive Resp where
  | ok (v : Nat) | err (e : Nat)
  deriving Repr, DecidableEq

structure Cfg where
  nconn : Nat
  handler : Nat → Resp
  pendCap : Nat      -- `SocketClient(backlog=…)`: slots of the `pending` SingleLane (`put` blocks when full)
  wireCap : Nat      -- records a connection's client→server direction can hold (socket + transport buffers)
  srvCap : Nat       -- server `backlog` + 2: the task `_keep_responding` has taken off `reqs` and is awaiting, the
                     -- slots of `reqs`, and the record whose `reqs.put` is blocked
  backCap : Nat      -- records the server→client direction can hold

inductive Stage where
  | pending | wire (c : Nat) | srv (c : Nat) | back (c : Nat) | resolved
  deriving Repr, DecidableEq

/-- history entry of one Future: the payload it was created for and its `id()` -/
structure Req where
  data : Nat
  id : Nat
  deriving Repr, DecidableEq

structure Msg where
  rid : Nat
  data : Nat
  gk : Nat
  deriving Repr, DecidableEq

structure Task where
  rid : Nat
  data : Nat
  done : Bool
  gk : Nat
  deriving Repr, DecidableEq

structure Rsp where
  rid : Nat
  resp : Resp
  gk : Nat
  deriving Repr, DecidableEq

structure Conn where
  wire : List Msg      -- client → server, in flight
  srvq : List Task     -- the server's `reqs` queue of this connection
  back : List Rsp      -- server → client, in flight
  deriving Repr, DecidableEq

structure State where
  reqs : List Req                -- history: every Future created so far (index = identity)
  pending : List (Nat × Nat)     -- `_pending_requests`: (payload, fut)
  active : List (Nat × Nat)      -- `_active_requests`: dict req_id ↦ fut
  conns : List Conn
  results : List (Nat × Resp)    -- futures that were set, in the order of setting: (fut, value)
  tasks : List (Nat × Nat)       -- `stream()`: queue of (x, fut) in input order
  sout : List (Nat × Resp)       -- `stream(return_x=True)`: outputs so far
  sin : List Nat                 -- ghost: inputs the stream's feeder has enqueued so far
  stage : Nat → Stage            -- ghost

inductive Act where
  | submit (x id : Nat)     -- a requester calls `request` (→ `_enqueue`)
  | ssubmit (x id : Nat)    -- the stream's feeder thread enqueues the next input
  | send (c : Nat)          -- `_keep_sending` of connection `c` handles the head of `pending`
  | srvRecv (c : Nat)       -- server reads the next record of connection `c`, starts its handler
  | finish (c j : Nat)      -- the handler of the `j`-th queued task of connection `c` completes
  | respond (c : Nat)       -- `_keep_responding`: the head task is done, its response is written
  | recv (c : Nat)          -- client `_keep_receiving` of connection `c` reads a response
  | syield                  -- the stream generator yields the next result
  deriving Repr, DecidableEq

def emptyConn : Conn := { wire := [], srvq := [], back := [] }

def init (c : Cfg) : State :=
  { reqs := [], pending := [], active := [], conns := List.replicate c.nconn emptyConn,
    results := [], tasks := [], sout := [], sin := [], stage := fun _ => .pending }

/-- CPython's allocator: a new object's id differs from the id of every live object -/
def Fresh (s : State) (id : Nat) : Prop :=
  ∀ k, (h : k < s.reqs.length) → s.stage k = .resolved ∨ (s.reqs[k]).id ≠ id

instance (s : State) (id : Nat) : Decidable (Fresh s id) := by unfold Fresh; exact inferInstance

def upd (f : Nat → Stage) (k : Nat) (st : Stage) : Nat → Stage := fun i => if i = k then st else f i

/-- `dict.get` -/
def lookup (a : List (Nat × Nat)) (rid : Nat) : Option Nat := (a.find? (fun e => e.1 == rid)).map (·.2)

/-- `del d[key]` -/
def remove (a : List (Nat × Nat)) (rid : Nat) : List (Nat × Nat) := a.filter (fun e => e.1 != rid)

/-- `d[key] = value` (overwrites) -/
def insert (a : List (Nat × Nat)) (rid k : Nat) : List (Nat × Nat) := (rid, k) :: remove a rid

/-- `Future.result()` when done -/
def resultOf (rs : List (Nat × Resp)) (k : Nat) : Option Resp := (rs.find? (fun e => e.1 == k)).map (·.2)

def step (c : Cfg) (s : State) : Act → Option State
  | .submit x id =>
    if Fresh s id ∧ s.pending.length < c.pendCap then
      some { s with reqs := s.reqs ++ [⟨x, id⟩], pending := s.pending ++ [(x, s.reqs.length)],
                    stage := upd s.stage s.reqs.length .pending }
    else none
  | .ssubmit x id =>
    if Fresh s id ∧ s.pending.length < c.pendCap then
      some { s with reqs := s.reqs ++ [⟨x, id⟩], pending := s.pending ++ [(x, s.reqs.length)],
                    tasks := s.tasks ++ [(x, s.reqs.length)], sin := s.sin ++ [x],
                    stage := upd s.stage s.reqs.length .pending }
    else none
  | .send ci =>
    match s.pending, s.conns[ci]? with
    | (x, k) :: rest, some cn =>
      match s.reqs[k]? with
      | some r =>
        if cn.wire.length < c.wireCap then
          some { s with pending := rest,
                        conns := s.conns.set ci { cn with wire := cn.wire ++ [⟨r.id, x, k⟩] },
                        active := insert s.active r.id k,
                        stage := upd s.stage k (.wire ci) }
        else none
      | none => none
    | _, _ => none
  | .srvRecv ci =>
    match s.conns[ci]? with
    | some cn =>
      match cn.wire with
      | m :: rest =>
        if cn.srvq.length < c.srvCap then
          some { s with conns := s.conns.set ci { cn with wire := rest, srvq := cn.srvq ++ [⟨m.rid, m.data, false, m.gk⟩] },
                        stage := upd s.stage m.gk (.srv ci) }
        else none
      | [] => none
    | none => none
  | .finish ci j =>
    match s.conns[ci]? with
    | some cn =>
      match cn.srvq[j]? with
      | some t =>
        if t.done then none
        else some { s with conns := s.conns.set ci { cn with srvq := cn.srvq.set j { t with done := true } } }
      | none => none
    | none => none
  | .respond ci =>
    match s.conns[ci]? with
    | some cn =>
      match cn.srvq with
      | t :: rest =>
        if t.done ∧ cn.back.length < c.backCap then
          some { s with conns := s.conns.set ci { cn with srvq := rest, back := cn.back ++ [⟨t.rid, c.handler t.data, t.gk⟩] },
                        stage := upd s.stage t.gk (.back ci) }
        else none
      | [] => none
    | none => none
  | .recv ci =>
    match s.conns[ci]? with
    | some cn =>
      match cn.back with
      | r :: rest =>
        match lookup s.active r.rid with
        | some k =>
          some { s with conns := s.conns.set ci { cn with back := rest },
                        active := remove s.active r.rid,
                        results := s.results ++ [(k, r.resp)],
                        stage := upd s.stage k .resolved }
        | none => none      -- `KeyError` in `active.pop(req_id)`: the receiving task would die
      | [] => none
    | none => none
  | .syield =>
    match s.tasks with
    | (x, k) :: rest =>
      match resultOf s.results k with
      | some v => some { s with tasks := rest, sout := s.sout ++ [(x, v)] }
      | none => none
    | [] => none

end Mux
