import MpsVerif.Core.Sys
/-!
# Model of the named-pipe transport (src/mpservice/pipe.py)

```
class _Pipe:
    def __init__(self, rpath, wpath):
        _mkfifo(rpath); _mkfifo(wpath)
        hw = os.open(wpath, os.O_SYNC | os.O_CREAT | os.O_RDWR)
        self._writer = multiprocessing.connection.Connection(hw, readable=False)
        self._reader = None                       # opened lazily: os.open(rpath, os.O_RDONLY)
    def send(self, obj): self._writer.send(obj)   # send_bytes(pickle.dumps(obj))
    def recv(self):      return self._get_reader().recv()
class Server(_Pipe): __init__(self, path): super().__init__(path + '.1', path + '.2')
class Client(_Pipe): __init__(self, path): super().__init__(path + '.2', path + '.1')
```

Two FIFO files; the server reads `.1` and writes `.2`, the client reads `.2` and writes `.1` — the
crossing of the roles is what `pipe.py` itself contributes and is explicit here (`wpath`/`rpath`).
Each FIFO has one writer and one reader.  `Connection.send_bytes` writes a length-prefixed message
(`struct.pack('!i', n)`, or `-1` followed by `struct.pack('!Q', n)` for `n > 0x7fffffff`) — the
kernel may take the bytes in several pieces (`flush`, any chunking); `recv_bytes` reads the 4 (+8)
header bytes and then exactly `n` bytes, blocking until they are there (`readFrame = none`).
The message is the pickled object; pickling is opaque (trusted round trip).

Assumed (trusted base): a FIFO delivers the bytes of its single writer in order; both endpoints stay
open while messages are in transit (a FIFO drops its buffered data when its last descriptor is
closed — an endpoint that sends and is dropped before the peer opened its read end loses the data;
the harness keeps endpoints alive until the peer is done); message length `< 2^64`.
-/
namespace Pipe

abbrev Bytes := List UInt8

/-- big-endian value of a byte string (`struct.unpack` of an unsigned field) -/
def dec (bs : Bytes) : Nat := bs.foldl (fun a b => a * 256 + b.toNat) 0

/-- `struct.pack('!I', n)` for `n < 2^32` -/
def be32 (n : Nat) : Bytes :=
  [UInt8.ofNat (n / 16777216 % 256), UInt8.ofNat (n / 65536 % 256), UInt8.ofNat (n / 256 % 256), UInt8.ofNat (n % 256)]

/-- `struct.pack('!Q', n)` for `n < 2^64` -/
def be64 (n : Nat) : Bytes := be32 (n / 4294967296) ++ be32 (n % 4294967296)

/-- `struct.pack('!i', -1)` read as unsigned -/
def minusOne : Nat := 4294967295

/-- what `Connection._send_bytes` writes for the message `m` -/
def frame (m : Bytes) : Bytes :=
  if m.length ≤ 2147483647 then be32 m.length ++ m
  else be32 minusOne ++ (be64 m.length ++ m)

/-- `Connection._recv(n)` on the bytes that are (or will be) readable: the next `n` bytes and what
    follows; `none` = fewer than `n` bytes there yet (the call blocks) -/
def readN (n : Nat) (bs : Bytes) : Option (Bytes × Bytes) :=
  if bs.length < n then none else some (bs.take n, bs.drop n)

/-- `Connection._recv_bytes`: `_recv(4)`, size; if it is `-1`: `_recv(8)`, size; `_recv(size)` -/
def readFrame (bs : Bytes) : Option (Bytes × Bytes) :=
  match readN 4 bs with
  | none => none
  | some (h, rest) =>
    if dec h = minusOne then
      match readN 8 rest with
      | none => none
      | some (h2, rest2) => readN (dec h2) rest2
    else readN (dec h) rest

inductive Role where
  | server | client
  deriving Repr, DecidableEq

/-- which of the two files (`false` = `path.1`, `true` = `path.2`) an endpoint writes / reads:
    `Server.__init__` passes `(rpath, wpath) = (.1, .2)`, `Client.__init__` passes `(.2, .1)` -/
def wpath : Role → Bool
  | .server => true | .client => false
def rpath : Role → Bool
  | .server => false | .client => true

/-- one FIFO file with its writer's and its reader's view -/
structure Chan where
  fifo : Bytes         -- bytes in the kernel buffer
  outbuf : Bytes       -- rest of the message the writer is in the middle of writing
  sent : List Bytes    -- ghost: messages handed to `send`, oldest first
  rcvd : List Bytes    -- messages returned by `recv`, oldest first
  deriving Repr, DecidableEq

structure State where
  f1 : Chan            -- `path.1`
  f2 : Chan            -- `path.2`
  deriving Repr, DecidableEq

def State.chan (s : State) : Bool → Chan
  | false => s.f1 | true => s.f2

def State.setChan (s : State) (b : Bool) (c : Chan) : State :=
  match b with
  | false => { s with f1 := c } | true => { s with f2 := c }

inductive Act where
  | send (r : Role) (m : Bytes)   -- `send`/`send_bytes` is called (the previous one has returned)
  | flush (r : Role) (n : Nat)    -- the kernel takes the next `n+1` bytes of the message being written
  | recv (r : Role)               -- `recv`/`recv_bytes` returns the next message
  deriving Repr, DecidableEq

def emptyChan : Chan := { fifo := [], outbuf := [], sent := [], rcvd := [] }
def init : State := { f1 := emptyChan, f2 := emptyChan }

def peer : Role → Role
  | .server => .client | .client => .server

/-- messages endpoint `r` has handed to `send`, oldest first -/
def State.sentBy (s : State) (r : Role) : List Bytes := (s.chan (wpath r)).sent
/-- messages `recv` has returned at endpoint `r`, oldest first -/
def State.rcvdBy (s : State) (r : Role) : List Bytes := (s.chan (rpath r)).rcvd

def step (s : State) : Act → Option State
  | .send r m =>
    let c := s.chan (wpath r)
    if c.outbuf.isEmpty && decide (m.length < 18446744073709551616) then
      some (s.setChan (wpath r) { c with outbuf := frame m, sent := c.sent ++ [m] })
    else none
  | .flush r n =>
    let c := s.chan (wpath r)
    if n < c.outbuf.length then
      some (s.setChan (wpath r) { c with fifo := c.fifo ++ c.outbuf.take (n + 1), outbuf := c.outbuf.drop (n + 1) })
    else none
  | .recv r =>
    let c := s.chan (rpath r)
    match readFrame c.fifo with
    | some (m, rest) => some (s.setChan (rpath r) { c with fifo := rest, rcvd := c.rcvd ++ [m] })
    | none => none

end Pipe
