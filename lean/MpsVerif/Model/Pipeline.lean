/-!
# Model of the `Stream` operator pipeline (src/mpservice/streamer/_streamer.py)

`Stream.<op>(…)` appends a lazy "streamlet" that wraps the previous one (`Stream.map` … `Stream.parmap`,
_streamer.py:142-662); iterating the `Stream` iterates the last streamlet, whose generator pulls
the one below it, and so on down to the source (`Mapper`/`Filter`/`Header`/`Tailer`/`Grouper`/
`Batcher`/`Unbatcher`/`Shuffler`/`Buffer`/`Parmapper.__iter__`, _streamer.py:665-967, 1208-1289).

Three layers, all executable, all run by `drv pipeline`:

* **(a) `sem`** — terminated-stream list semantics.  A stream is its values plus the error (if
  any) that is raised when the element after the last value is demanded (`Strm`).  `sem op`
  is the sequential meaning of one operator written as a plain list function; `semAll` applies the
  operators of a program in turn.
* **(b1) `feed`/`flush`** — the body of each generator.  Every generator in the file (apart from
  the thread-backed ones, see below) has the shape `for x in upstream: BODY(x)` followed by
  `AFTER`; `feed op st x` is `BODY` (the values it yields before it asks for the next upstream
  element, and whether the loop goes on, `break`s / returns, or raises), `flush op st` is `AFTER`
  (what is yielded once upstream has ended cleanly).  An exception coming out of upstream
  propagates through every generator unchanged (none of them has a `try` around the loop).
* **(b2) `next`** — the generator protocol: a pipeline is a stack of `Stage`s (operator state,
  values already produced by `BODY` but not yet handed over, i.e. the generator is suspended in
  the middle of `BODY`) over a source with an explicit pull counter.  One `next` on the outermost
  stage delivers a pending value if there is one, otherwise pulls one upstream answer, runs
  `feed`, and repeats — exactly the control flow of nested generators.  The recursion is on a
  fuel argument (Lean needs a structural argument; loops such as `filter` skipping elements have
  no syntactic bound): running out of fuel is the explicit answer `Resp.fuel`, and the theorems
  say that it does not happen for sufficiently large fuel and that the result does not depend on it.

`buffer(n)` and `parmap(f, concurrency=c)` pull ahead of demand in a worker thread.  Their list
meaning is the identity / `map f`; in `next` they are *eager* stages: raw upstream answers are
fetched ahead into `inq`, how many and when is decided by an oracle (`World.orc`, one bit per
opportunity; the theorems quantify over all oracles) subject to the look-ahead bound
`lookahead op` = `n + 2` resp. `2 c + 3`.  That bound is **imported**: it is the invariant
`pulled − handed ≤ capacity + 3` of `fifo_stream` proved as `Fifo.C08_fifo_lookahead` (with
`capacity = 2·concurrency`, `Fifo.C08_parmap_lookahead`) and, for `Buffer`,
`Buffer.C08_buffer_lookahead` (`pulled − handed ≤ maxsize + 2`: worker-in-hand 1 + queue `maxsize` +
consumer-in-hand 1; Props/C08Buffer.lean); the concurrency inside these two operators is the
business of C01/C05/C08, not of this model.  (The real `parmap` also *applies* `f` ahead of demand,
in its pool; the model applies it when the consumer takes the element — functions are pure here, so
the only observable effect of running ahead is the pull counter.)

`groupby(key)` is modelled together with the materialising `map` that the documentation prescribes
right after it (`.groupby(key).map(lambda kv: (kv[0], list(kv[1])))`): the pair is again a
`for`-loop generator (group emitted when the key changes / at the end), with the same pull
timing as `itertools.groupby` (a group is complete only once the first element of the next group
has been pulled).

`peek` only prints; on the stream it is the identity (`Peeker.__call__` returns `x`).

`shuffle(n)`: `random.randrange(n)` answers come from `idx`, and the final `random.shuffle` is
the insertion shuffle `applyShuffle perm` (the harness installs exactly these two functions as
`mpservice.streamer._streamer.random`).

Values: integers, `None`, exception objects `exc tag arg`, pairs (2-tuples) and lists (encoded
`nil`/`cons` so that equality is decidable by `deriving`).
-/
namespace Pipeline

inductive Val where
  | int (n : Int)
  | none
  | exc (tag : Nat) (arg : Int)
  | pair (a b : Val)
  | nil
  | cons (h t : Val)
  deriving DecidableEq, Repr, Inhabited

/-- an exception that is *raised* (class tag, argument) -/
structure Err where
  tag : Nat
  arg : Int
  deriving DecidableEq, Repr

def Err.toVal (e : Err) : Val := .exc e.tag e.arg

/-- result of calling a user function -/
inductive Res where
  | ok (v : Val)
  | raise (e : Err)
  deriving DecidableEq, Repr

/-- a Python list as a value -/
def Val.ofList : List Val → Val
  | [] => .nil
  | v :: r => .cons v (Val.ofList r)

/-- what `yield from x` / `len(x)` / `list(x)` iterate over: lists and 2-tuples; nothing else is iterable -/
def Val.elems : Val → Option (List Val)
  | .nil => some []
  | .cons h t => (Val.elems t).map (h :: ·)
  | .pair a b => some [a, b]
  | _ => Option.none

/-- Python truth value (`if func(v):` in `Filter.__iter__`) -/
def Val.truthy : Val → Bool
  | .int n => n != 0
  | .none => false
  | .nil => false
  | _ => true

/-- `TypeError`: `yield from x` on something that is not iterable -/
def typeErr : Err := ⟨999, 0⟩
/-- raised by the named library functions on a value of the wrong kind -/
def libErr : Err := ⟨998, 0⟩

/-- a terminated stream: the values, then `err` (if any) raised on the next demand -/
structure Strm where
  vals : List Val
  err : Option Err
  deriving DecidableEq, Repr

def Strm.cons (v : Val) (s : Strm) : Strm := ⟨v :: s.vals, s.err⟩
def Strm.prepend (l : List Val) (s : Strm) : Strm := ⟨l ++ s.vals, s.err⟩
def Strm.empty : Strm := ⟨[], Option.none⟩
def Strm.fail (e : Err) : Strm := ⟨[], some e⟩

/-- which exception classes a `filter_exceptions` argument selects
    (`None` | `Exception` | a tuple of classes) -/
inductive ExcSel where
  | nothing
  | all
  | tags (l : List Nat)
  deriving Repr

def ExcSel.has : ExcSel → Nat → Bool
  | .nothing, _ => false
  | .all, _ => true
  | .tags l, t => l.contains t

inductive Op where
  | map (f : Val → Res)
  | filter (p : Val → Res)
  | filterExc (drop keep : ExcSel)
  | peek
  | head (n : Nat)
  | tail (n : Nat)
  | batch (n : Nat)
  | unbatch
  | groupby (key : Val → Res)
  | accumulate (g : Val → Val → Res) (init : Option Val)
  | buffer (n : Nat)
  | parmap (f : Val → Res) (conc : Nat) (retX retExc : Bool)
  | shuffle (n : Nat) (idx : List Nat) (perm : List Nat)

/-! ## (a) sequential meaning -/

/-- `deque(maxlen=n)` after appending everything: the last `n` -/
def keepLast (n : Nat) (l : List Val) : List Val := l.drop (l.length - n)

/-- the scripted `random.shuffle`: insert the elements one by one at the chosen positions -/
def applyShuffle : List Nat → List Val → List Val
  | _, [] => []
  | cs, x :: xs =>
    let r := applyShuffle cs.tail xs
    r.insertIdx (cs.headD 0 % (r.length + 1)) x

/-- `map f`: apply `f` to each element; the first call that raises ends the stream with its error
    (later elements are never demanded) -/
def semMap (f : Val → Res) : List Val → Option Err → Strm
  | [], e => ⟨[], e⟩
  | v :: r, e =>
    match f v with
    | .ok y => (semMap f r e).cons y
    | .raise x => .fail x

/-- `filter p`: keep the elements on which `p` is true -/
def semFilter (p : Val → Res) : List Val → Option Err → Strm
  | [], e => ⟨[], e⟩
  | v :: r, e =>
    match p v with
    | .ok b => if b.truthy then (semFilter p r e).cons v else semFilter p r e
    | .raise x => .fail x

/-- what `filter_exceptions(drop, keep)` does with one element -/
inductive ExcVerdict where
  | keep | drop | raise (e : Err)

def excVerdict (drop keep : ExcSel) : Val → ExcVerdict
  | .exc t a => if keep.has t then .keep else if drop.has t then .drop else .raise ⟨t, a⟩
  | _ => .keep

def semFilterExc (drop keep : ExcSel) : List Val → Option Err → Strm
  | [], e => ⟨[], e⟩
  | v :: r, e =>
    match excVerdict drop keep v with
    | .keep => (semFilterExc drop keep r e).cons v
    | .drop => semFilterExc drop keep r e
    | .raise x => .fail x

/-- `unbatch`: concatenate the elements' items; a non-iterable element is a `TypeError` -/
def semUnbatch : List Val → Option Err → Strm
  | [], e => ⟨[], e⟩
  | v :: r, e =>
    match v.elems with
    | some l => (semUnbatch r e).prepend l
    | Option.none => .fail typeErr

/-- `accumulate g`: running fold; `z` is the value accumulated so far (`none` = `NOTSET`) -/
def semAcc (g : Val → Val → Res) : Option Val → List Val → Option Err → Strm
  | _, [], e => ⟨[], e⟩
  | Option.none, v :: r, e => (semAcc g (some v) r e).cons v
  | some z, v :: r, e =>
    match g z v with
    | .ok y => (semAcc g (some y) r e).cons y
    | .raise x => .fail x

def wrapX (retX : Bool) (x y : Val) : Val := if retX then .pair x y else y

/-- `parmap f`: as `map f`; with `return_exceptions` a raised exception becomes the element's
    result, with `return_x` the result is paired with the input -/
def semParmap (f : Val → Res) (retX retExc : Bool) : List Val → Option Err → Strm
  | [], e => ⟨[], e⟩
  | v :: r, e =>
    match f v with
    | .ok y => (semParmap f retX retExc r e).cons (wrapX retX v y)
    | .raise x => if retExc then (semParmap f retX retExc r e).cons (wrapX retX v x.toVal) else .fail x

/-- `batch n`: `cur` is the batch being filled; a partial last batch is emitted only when the
    source ends cleanly -/
def semBatch (n : Nat) : List Val → List Val → Option Err → Strm
  | cur, [], Option.none => ⟨if cur.isEmpty then [] else [Val.ofList cur], Option.none⟩
  | _, [], some e => .fail e
  | cur, v :: r, e =>
    if (cur ++ [v]).length = n then (semBatch n [] r e).cons (Val.ofList (cur ++ [v]))
    else semBatch n (cur ++ [v]) r e

/-- `groupby key` + materialisation: `cur` is the open group (its key and members so far) -/
def semGroup (key : Val → Res) : Option (Val × List Val) → List Val → Option Err → Strm
  | Option.none, [], Option.none => .empty
  | some (k, grp), [], Option.none => ⟨[.pair k (Val.ofList grp)], Option.none⟩
  | _, [], some e => .fail e
  | cur, v :: r, e =>
    match key v with
    | .raise x => .fail x
    | .ok k =>
      match cur with
      | Option.none => semGroup key (some (k, [v])) r e
      | some (k0, grp) =>
        if k = k0 then semGroup key (some (k0, grp ++ [v])) r e
        else (semGroup key (some (k, [v])) r e).cons (.pair k0 (Val.ofList grp))

/-- `shuffle n`: reservoir `buf` of size `n`; once full, every new element replaces a randomly
    chosen one, which is emitted; at the clean end the reservoir is shuffled and emitted -/
def semShuffle (n : Nat) (perm : List Nat) : List Val → List Nat → List Val → Option Err → Strm
  | buf, _, [], Option.none => ⟨applyShuffle perm buf, Option.none⟩
  | _, _, [], some e => .fail e
  | buf, rnd, v :: r, e =>
    if buf.length < n then semShuffle n perm (buf ++ [v]) rnd r e
    else
      let i := rnd.headD 0 % n
      (semShuffle n perm (buf.set i v) rnd.tail r e).cons (buf.getD i .none)

/-- the sequential meaning of one operator on a terminated stream -/
def sem : Op → Strm → Strm
  | .map f, s => semMap f s.vals s.err
  | .filter p, s => semFilter p s.vals s.err
  | .filterExc d k, s => semFilterExc d k s.vals s.err
  | .peek, s => s
  /- `Header.__iter__` pulls element `n+1` before it ends: with more than `n` values the stream is
     cut cleanly after `n`; otherwise the source is exhausted and its ending is the ending -/
  | .head n, s => if n < s.vals.length then ⟨s.vals.take n, Option.none⟩ else s
  /- `Tailer.__iter__` yields only after the source has ended; nothing if it ended in an error -/
  | .tail n, s =>
    match s.err with
    | Option.none => ⟨keepLast n s.vals, Option.none⟩
    | some e => .fail e
  | .batch n, s => semBatch n [] s.vals s.err
  | .unbatch, s => semUnbatch s.vals s.err
  | .groupby key, s => semGroup key Option.none s.vals s.err
  | .accumulate g init, s => semAcc g init s.vals s.err
  | .buffer _, s => s
  | .parmap f _ rx re, s => semParmap f rx re s.vals s.err
  | .shuffle n idx perm, s => semShuffle n perm [] idx s.vals s.err

/-- a program: operators applied in turn -/
def semAll : List Op → Strm → Strm
  | [], s => s
  | op :: ops, s => semAll ops (sem op s)

/-! ## (b1) generator bodies -/

structure OpSt where
  cnt : Nat := 0                  -- `Header`: elements yielded so far
  buf : List Val := []            -- `Batcher.batch`, `Tailer.data`, `Shuffler.buffer`, open group
  acc : Option Val := Option.none -- `Accumulator._initializer`, key of the open group
  rnd : List Nat := []            -- remaining scripted `randrange` answers
  deriving Repr

inductive Next where
  | cont (st : OpSt)     -- go round the `for` loop again
  | stop                 -- `break` / fall off the end
  | raise (e : Err)

def initSt : Op → OpSt
  | .accumulate _ init => { acc := init }
  | .shuffle _ idx _ => { rnd := idx }
  | _ => {}

/-- loop body: values yielded for one upstream element, and what the loop does next -/
def feed : Op → OpSt → Val → List Val × Next
  | .map f, st, v =>
    match f v with
    | .ok y => ([y], .cont st)
    | .raise e => ([], .raise e)
  | .filter p, st, v =>
    match p v with
    | .ok b => (if b.truthy then [v] else [], .cont st)
    | .raise e => ([], .raise e)
  | .filterExc d k, st, v =>
    match excVerdict d k v with
    | .keep => ([v], .cont st)
    | .drop => ([], .cont st)
    | .raise e => ([], .raise e)
  | .peek, st, v => ([v], .cont st)
  | .head n, st, v =>
    if st.cnt ≥ n then ([], .stop) else ([v], .cont { st with cnt := st.cnt + 1 })
  | .tail n, st, v => ([], .cont { st with buf := keepLast n (st.buf ++ [v]) })
  | .batch n, st, v =>
    if (st.buf ++ [v]).length = n then ([Val.ofList (st.buf ++ [v])], .cont { st with buf := [] })
    else ([], .cont { st with buf := st.buf ++ [v] })
  | .unbatch, st, v =>
    match v.elems with
    | some l => (l, .cont st)
    | Option.none => ([], .raise typeErr)
  | .groupby key, st, v =>
    match key v with
    | .raise e => ([], .raise e)
    | .ok k =>
      match st.acc with
      | Option.none => ([], .cont { st with acc := some k, buf := [v] })
      | some k0 =>
        if k = k0 then ([], .cont { st with buf := st.buf ++ [v] })
        else ([.pair k0 (Val.ofList st.buf)], .cont { st with acc := some k, buf := [v] })
  | .accumulate g _, st, v =>
    match st.acc with
    | Option.none => ([v], .cont { st with acc := some v })
    | some z =>
      match g z v with
      | .ok y => ([y], .cont { st with acc := some y })
      | .raise e => ([], .raise e)
  | .buffer _, st, v => ([v], .cont st)
  | .parmap f _ rx re, st, v =>
    match f v with
    | .ok y => ([wrapX rx v y], .cont st)
    | .raise e => if re then ([wrapX rx v e.toVal], .cont st) else ([], .raise e)
  | .shuffle n _ _, st, v =>
    if st.buf.length < n then ([], .cont { st with buf := st.buf ++ [v] })
    else
      let i := st.rnd.headD 0 % n
      ([st.buf.getD i .none], .cont { st with buf := st.buf.set i v, rnd := st.rnd.tail })

/-- after the loop: what is yielded when upstream has ended cleanly -/
def flush : Op → OpSt → List Val
  | .tail _, st => st.buf
  | .batch _, st => if st.buf.isEmpty then [] else [Val.ofList st.buf]
  | .groupby _, st =>
    match st.acc with
    | some k => [.pair k (Val.ofList st.buf)]
    | Option.none => []
  | .shuffle _ _ perm, st => applyShuffle perm st.buf
  | _, _ => []

/-- the generator run to exhaustion on a given upstream, from state `st` -/
def fold (op : Op) : OpSt → List Val → Option Err → Strm
  | st, [], Option.none => ⟨flush op st, Option.none⟩
  | _, [], some e => .fail e
  | st, v :: r, e =>
    match feed op st v with
    | (outs, .cont st') => (fold op st' r e).prepend outs
    | (outs, .stop) => ⟨outs, Option.none⟩
    | (outs, .raise x) => ⟨outs, some x⟩

/-! ## (b2) the generator protocol with a pull counter -/

/-- answer to one `next()` -/
inductive Resp where
  | val (v : Val)
  | done               -- StopIteration
  | err (e : Err)
  | fuel               -- the model's recursion budget ran out (never for large enough budgets)
  deriving DecidableEq, Repr

def Resp.isVal : Resp → Bool
  | .val _ => true
  | _ => false

/-- counts as "handed over": a value, or the exception raised in its place -/
def Resp.counts : Resp → Bool
  | .val _ => true
  | .err _ => true
  | _ => false

inductive Mode where
  | run
  | stop               -- generator finished (also after it has raised)
  | fail (e : Err)     -- `BODY` raised / upstream raised: the exception is on its way out
  deriving DecidableEq, Repr

/-- how far an operator's worker thread may run ahead of what it has handed on (imported bounds,
    see the header); `0` = an ordinary generator, which pulls only on demand -/
def lookahead : Op → Nat
  | .buffer n => n + 2
  | .parmap _ conc _ _ => 2 * conc + 3
  | _ => 0

structure Stage where
  op : Op
  st : OpSt
  pend : List Val := []      -- yielded by `BODY`, not yet handed over
  mode : Mode := .run
  inq : List Resp := []      -- eager stages: upstream answers fetched ahead, oldest first
  upDone : Bool := false     -- upstream has answered StopIteration / raised: it is never pulled again
  recv : Nat := 0            -- ghost: upstream answers (values / the error) taken so far
  hand : Nat := 0            -- ghost: answers (values / an error) handed downstream so far

def Stage.init (op : Op) : Stage := { op := op, st := initSt op }

structure Src where
  rest : List Val
  err : Option Err
  ended : Bool := false
  pulled : Nat := 0          -- elements delivered
  hand : Nat := 0            -- ghost: elements delivered + the terminal error if raised

structure World where
  src : Src
  orc : List Bool            -- the eager stages' scheduling oracle

def Src.next (s : Src) : Resp × Src :=
  match s.rest with
  | v :: r => (.val v, { s with rest := r, pulled := s.pulled + 1, hand := s.hand + 1 })
  | [] =>
    if s.ended then (.done, s)
    else
      match s.err with
      | Option.none => (.done, { s with ended := true })
      | some e => (.err e, { s with ended := true, hand := s.hand + 1 })

/-- may this stage's worker thread fetch one more upstream answer ahead of demand?  (Also while an
    exception of the body is on its way out: the worker only stops once the generator is finalised.) -/
def Stage.mayPrefetch (g : Stage) : Bool :=
  g.mode != .stop && !g.upDone && decide (g.inq.length < lookahead g.op)

/-- the stage takes upstream answer `r` (`r ≠ fuel`) and runs its body on it -/
def Stage.take (g : Stage) (r : Resp) : Stage :=
  match r with
  | .val v =>
    match feed g.op g.st v with
    | (outs, .cont st') => { g with st := st', pend := outs }
    | (outs, .stop) => { g with pend := outs, mode := .stop }
    | (outs, .raise e) => { g with pend := outs, mode := .fail e }
  | .done => { g with pend := flush g.op g.st, mode := .stop }
  | .err e => { g with mode := .fail e }
  | .fuel => g

/-- bookkeeping for an answer `r` just received from upstream -/
def Stage.noteRecv (g : Stage) (r : Resp) : Stage :=
  { g with recv := if r.counts then g.recv + 1 else g.recv, upDone := g.upDone || !r.isVal }

/-- does the worker thread of an eager stage run now?  One oracle bit per opportunity. -/
def Stage.choose (g : Stage) (w : World) : Bool × World :=
  if g.mayPrefetch then
    match w.orc with
    | b :: rest => (b, { w with orc := rest })
    | [] => (false, w)
  else (false, w)

/-- one `next()` on the outermost stage of `stages` (outermost first; `[]` = the source) -/
def next : Nat → List Stage → World → Resp × List Stage × World
  | _, [], w => (w.src.next.1, [], { w with src := w.src.next.2 })
  | 0, ss, w => (.fuel, ss, w)
  | f + 1, g :: up, w =>
    let c := g.choose w
    if c.1 then
      -- the worker thread fetches one more upstream answer
      let (r, up', w') := next f up c.2
      if r = .fuel then (.fuel, g :: up', w')
      else next f ({ g.noteRecv r with inq := g.inq ++ [r] } :: up') w'
    else
      match g.pend with
      | v :: rest => (.val v, { g with pend := rest, hand := g.hand + 1 } :: up, c.2)
      | [] =>
        match g.mode with
        | .stop => (.done, g :: up, c.2)
        | .fail e => (.err e, { g with mode := .stop, hand := g.hand + 1 } :: up, c.2)
        | .run =>
          match g.inq with
          | r :: q => next f (({ g with inq := q }).take r :: up) c.2
          | [] =>
            let (r, up', w') := next f up c.2
            if r = .fuel then (.fuel, g :: up', w')
            else next f ((g.noteRecv r).take r :: up') w'

/-- consume: call `next` until it does not return a value, at most `k` times.
    Returns the values, the last non-value answer (`none` if `k` calls all returned values) and
    the final state. -/
def takeK (fuel : Nat) : Nat → List Stage → World → List Val × Option Resp × List Stage × World
  | 0, ss, w => ([], Option.none, ss, w)
  | k + 1, ss, w =>
    match next fuel ss w with
    | (.val v, ss', w') =>
      let (vs, r, ss'', w'') := takeK fuel k ss' w'
      (v :: vs, r, ss'', w'')
    | (r, ss', w') => ([], some r, ss', w')

/-- `Stream(src).op1(…).op2(…)…`: building allocates the stages and touches nothing else -/
def build (ops : List Op) : List Stage := (ops.map Stage.init).reverse

def World.init (vals : List Val) (err : Option Err) (orc : List Bool) : World :=
  { src := { rest := vals, err := err }, orc := orc }

/-! ## one-to-one operators and their look-ahead constants (used by `C03_incremental` and the driver) -/

/-- operators that hand on one answer per answer taken -/
def Op.oneOne : Op → Bool
  | .map _ => true
  | .peek => true
  | .accumulate _ _ => true
  | .head _ => true
  | .buffer _ => true
  | .parmap _ _ _ _ => true
  | _ => false

def Op.isHead : Op → Bool
  | .head _ => true
  | _ => false

/-- per-operator look-ahead constant: `map`/`peek`/`accumulate` 0, `head` 1, `buffer n` n+2,
    `parmap` 2·concurrency+3 (the last two imported, see `lookahead`) -/
def slack (op : Op) : Nat := if op.isHead then 1 else lookahead op

def slackAll : List Op → Nat
  | [] => 0
  | op :: ops => slack op + slackAll ops

/-- Iterating the same `Stream` object again: `Stream.__iter__` calls `__iter__` of the last
    streamlet, which starts a new generator; every generator keeps its state in locals
    (`Batcher.batch`, `Header.n`, `Tailer.data`, `Shuffler.buffer`, the `Buffer` queue and thread, …)
    and — with F23 repaired — `Mapper.__iter__` takes a fresh `Accumulator`.  So all stages start
    over, whatever state the previous iteration left behind. -/
def rebuild (ss : List Stage) : List Stage := ss.map (fun g => Stage.init g.op)

/-! ## the named function library (interpreted identically by harness/scen_pipeline.py) -/

inductive Fn where
  | ident | add (k : Int) | mul (k : Int) | isEven | mod (k : Nat) | lenOf
  | raiseIfMul (k tag : Nat) | excIfMul (k tag : Nat) | explode | dup | wrap | first | sumOf
  deriving Repr, DecidableEq

def sumInts : List Val → Option Int
  | [] => some 0
  | .int n :: r => (sumInts r).map (n + ·)
  | _ :: _ => Option.none

def Fn.eval : Fn → Val → Res
  | .ident, v => .ok v
  | .add k, .int n => .ok (.int (n + k))
  | .add _, _ => .raise libErr
  | .mul k, .int n => .ok (.int (n * k))
  | .mul _, _ => .raise libErr
  | .isEven, .int n => .ok (.int (if n % 2 = 0 then 1 else 0))
  | .isEven, _ => .raise libErr
  | .mod k, .int n => if k = 0 then .raise libErr else .ok (.int (n % (k : Int)))
  | .mod _, _ => .raise libErr
  | .lenOf, v =>
    match v.elems with
    | some l => .ok (.int l.length)
    | Option.none => .raise libErr
  | .raiseIfMul k tag, .int n => if k ≠ 0 ∧ n % (k : Int) = 0 then .raise ⟨tag, n⟩ else .ok (.int n)
  | .raiseIfMul _ _, v => .ok v
  | .excIfMul k tag, .int n => if k ≠ 0 ∧ n % (k : Int) = 0 then .ok (.exc tag n) else .ok (.int n)
  | .excIfMul _ _, v => .ok v
  | .explode, .int n => if 0 < n ∧ n ≤ 4 then .ok (Val.ofList (List.replicate n.toNat (.int n))) else .ok .nil
  | .explode, _ => .ok .nil
  | .dup, v => .ok (.pair v v)
  | .wrap, v => .ok (.cons v .nil)
  | .first, v =>
    match v.elems with
    | some (h :: _) => .ok h
    | _ => .raise libErr
  | .sumOf, v =>
    match v.elems.bind sumInts with
    | some n => .ok (.int n)
    | Option.none => .raise libErr

inductive Fn2 where
  | add | max | second | pairUp | failOn (k tag : Nat)
  deriving Repr, DecidableEq

def Fn2.eval : Fn2 → Val → Val → Res
  | .add, .int a, .int b => .ok (.int (a + b))
  | .add, _, _ => .raise libErr
  | .max, .int a, .int b => .ok (.int (if a < b then b else a))
  | .max, _, _ => .raise libErr
  | .second, _, b => .ok b
  | .pairUp, a, b => .ok (.pair a b)
  | .failOn k tag, .int a, .int b =>
    if k ≠ 0 ∧ b % (k : Int) = 0 then .raise ⟨tag, b⟩ else .ok (.int (a + b))
  | .failOn _ _, _, _ => .raise libErr

end Pipeline
