import MpsVerif.Core.Sys
/-!
# Model of how `mpservice.multiprocessing.SpawnProcess` / `mpservice.threading.Thread` report the
# way their target ended  (src/mpservice/multiprocessing/context.py, threading/__init__.py,
# multiprocessing/__init__.py: `wait`, `as_completed`)

Mechanism (process).  `run()` in the child calls the target and then sends **two messages** over a
one-way pipe: the result, then the error (`None` when there is none); `SystemExit` is mapped as
documented (`None`/`0` → no error; other `int` → that exit status + the `SystemExit`; anything
else → status 1 + the `SystemExit`).  In the parent a *collector thread* does `recv(); recv()`;
if the pipe ends early (`EOFError`: every write end closed, i.e. the child is gone) it waits for
the exit status, takes `-exitcode` as a signal number and — unless that is 15 (`terminate()`) —
makes `OSError(signal)` the error (repaired code, F13: the pinned code *raised* it in the
collector and left the future unresolved).  Then (repaired code, F15) it waits for the child's
sentinel, puts the end mark into the log queue and joins the logger thread (bounded when the
child did not end by itself: EOF seen, or a negative exit status), closes the pipe and resolves the future: `set_exception(error)` if
`error is not None` else `set_result(result)`.
`join`/`result`/`exception` first join the process at OS level, then the collector thread, then
consult the future; `done`/`exitcode` look at the OS exit status; `wait`/`as_completed` wait on
the future.

Every source of nondeterminism is an action: how far the child got when a signal kills it
(`kill sig` is enabled in every child state before its exit), the interleaving of child,
collector and logger, and which accessor the user calls when (`ask a`, enabled exactly when the
real accessor would return; its answer is appended to the history `answers`).

A child killed in the middle of writing a message leaves a partial message; `recv` then raises
`OSError("got end of file during message")` instead of `EOFError`; the repaired collector (F30)
treats both alike, so in the model a partially written message counts as not sent (`pipe` holds
complete messages only, `kEof` stands for either error).

Assumed (trusted base): the pipe is FIFO and message-framed, `recv` fails (`EOFError`/`OSError`)
exactly when no complete message is left and every write end is closed, a dead child's write end
is closed, the
exit status of a child killed by signal `sig` is `-sig`, `sys.exit(k)` gives status `k mod 256`;
the logger thread stops after the end mark (that is C20's theorem, `Model/LogPipe.lean`).

The thread variant (`Thr`) has no pipe and no signals: `Thread.run` resolves the future itself.
-/
namespace ProcOutcome

/-- argument of `sys.exit` -/
inductive Code where
  | none | int (k : Int) | str (id : Nat)
  deriving Repr, DecidableEq

/-- exceptions that can surface in the parent -/
inductive Err where
  | child (e : Nat)        -- the target's own exception `e`: class, args and traceback text
  | sysExit (c : Code)     -- the target's `SystemExit`
  | osErr (n : Int)        -- `OSError(n, os.strerror(n))` made by the collector
  deriving Repr, DecidableEq

/-- python objects travelling through the pipe / held by the future -/
inductive Obj where
  | none | val (v : Nat) | exc (e : Err)
  deriving Repr, DecidableEq

/-- how the target ends.  `retU` / `raiseU`: it returns a value / raises an exception that cannot
    be pickled (a lambda, an instance of a local class): `send` then raises in the child, which
    ends by itself with status 1 before both messages are sent (for a `Thread` these are ordinary
    outcomes: nothing has to be pickled) -/
inductive Outcome where
  | ret (v : Obj) | raise (e : Nat) | exit (c : Code)
  | retU (v : Nat) | raiseU (e : Nat)
  deriving Repr, DecidableEq

/-- a resolved future -/
inductive Fut where
  | ok (v : Obj) | err (e : Obj)
  deriving Repr, DecidableEq

/-- `sys.exit(c)` counts as a clean return -/
def Code.clean : Code → Bool
  | .none => true
  | .int k => k == 0
  | .str _ => false

/-- first pipe message (the result) -/
def firstMsg : Outcome → Obj
  | .ret v => v
  | .raise _ => .none
  | .exit _ => .none
  | .retU _ => .none        -- never sent
  | .raiseU _ => .none

/-- can the first / second message be pickled -/
def canSend1 : Outcome → Bool
  | .retU _ => false
  | _ => true

def canSend2 : Outcome → Bool
  | .raiseU _ => false
  | _ => true

/-- how many messages a child that is not killed gets out -/
def sentTotal : Outcome → Nat
  | .retU _ => 0
  | .raiseU _ => 1
  | _ => 2

/-- second pipe message (the error) -/
def secondMsg : Outcome → Obj
  | .ret _ => .none
  | .raise e => .exc (.child e)
  | .exit c => if c.clean then .none else .exc (.sysExit c)
  | .retU _ => .none
  | .raiseU _ => .none      -- never sent

/-- `_mpservice_exitcode_`, returned by `_bootstrap`; for the unpicklable outcomes the status with
    which the interpreter ends after the exception that escaped `run()` -/
def mpExit : Outcome → Int
  | .ret _ => 0
  | .raise _ => 1
  | .exit .none => 0
  | .exit (.int k) => k
  | .exit (.str _) => 1
  | .retU _ => 1
  | .raiseU _ => 1

/-- exit status the OS reports for `sys.exit(x)` -/
def osStatus (x : Int) : Int := x % 256

/-- what the future is resolved with, given the collector's two locals -/
def resolveWith (result error : Obj) : Fut :=
  if error = .none then .ok result else .err error

/-- the target's own verdict: both messages arrived — or, when the outcome cannot be pickled, the
    child ended by itself with status 1 before that: the collector's EOF branch takes `-1` for a
    signal number that is not 15 and reports `OSError(-1)` -/
def ownFut (o : Outcome) : Fut :=
  if sentTotal o < 2 then .err (.exc (.osErr (-1))) else resolveWith (firstMsg o) (secondMsg o)

inductive Phase where
  | before | during | between | after
  deriving Repr, DecidableEq

/-- child program counter -/
inductive CPc where
  | boot      -- interpreter starting, `run()` not yet at the target
  | target    -- target running
  | send1     -- target ended, nothing sent yet
  | send2     -- result sent, error not yet
  | closing   -- both sent; `finally`, log flush, non-daemon threads, interpreter exit
  | exited
  deriving Repr, DecidableEq

def CPc.phase : CPc → Phase
  | .boot => .before
  | .target => .during
  | .send1 => .during
  | .send2 => .between
  | .closing => .after
  | .exited => .after

/-- collector thread program counter -/
inductive KPc where
  | recv1 | recv2 | eof | waitExit | endLog | joinLog | resolve | done
  deriving Repr, DecidableEq

inductive Acc where
  | join | result | exception | done | exitcode | wait | asCompleted
  deriving Repr, DecidableEq

inductive Ans where
  | returned (v : Obj)      -- the call returned `v`
  | raised (e : Obj)        -- the call raised `e`
  | flag (b : Bool)
  | code (c : Option Int)
  | completed               -- `wait` returned with the worker in `done` / `as_completed` yielded it
  deriving Repr, DecidableEq

structure Cfg where
  outcome : Outcome
  deriving Repr

structure State where
  cpc : CPc
  sent : Nat                       -- history: messages written by the child
  pipe : List Obj                  -- in flight
  wclosed : Bool                   -- every write end closed
  exitcode : Option Int
  killed : Option (Nat × Phase)    -- history: signal and how far the child had got
  kpc : KPc
  result : Obj                     -- collector local
  error : Obj                      -- collector local
  terminated : Bool                -- collector local: saw EOF
  logEnd : Bool                    -- end mark put into the log queue
  logStopped : Bool                -- logger thread ended
  fut : Option Fut
  answers : List (Acc × Ans)       -- history: what every accessor call returned
  deriving Repr, DecidableEq

inductive Act where
  | cBoot | cTargetEnd | cSend1 | cSend2 | cSendFail | cExit
  | kill (sig : Nat)
  | kRecv | kEof | kEofCode | kSentinel | kPutEnd | logStop | kJoinLog | kResolve
  | ask (a : Acc)
  deriving Repr, DecidableEq

def init : State :=
  { cpc := .boot, sent := 0, pipe := [], wclosed := false, exitcode := none, killed := none,
    kpc := .recv1, result := .none, error := .none, terminated := false, logEnd := false,
    logStopped := false, fut := none, answers := [] }

/-- the accessor's return, as a function of the parent-visible state -/
def ansOfFut (a : Acc) (f : Fut) (exitcode : Option Int) : Ans :=
  match a with
  | .join => match f with | .ok _ => .returned .none | .err e => .raised e
  | .result => match f with | .ok v => .returned v | .err e => .raised e
  | .exception => match f with | .ok _ => .returned .none | .err e => .returned e
  | .done => .flag exitcode.isSome
  | .exitcode => .code exitcode
  | .wait => .completed
  | .asCompleted => .completed

/-- can the accessor return in this state (blocking condition of the real code, `timeout=None`) -/
def canAnswer (a : Acc) (s : State) : Bool :=
  match a with
  | .join | .result | .exception => s.exitcode.isSome && s.kpc == .done && s.fut.isSome
  | .done | .exitcode => true
  | .wait | .asCompleted => s.fut.isSome

def answer (a : Acc) (s : State) : Ans :=
  match a with
  | .done => .flag s.exitcode.isSome
  | .exitcode => .code s.exitcode
  | _ => match s.fut with
    | some f => ansOfFut a f s.exitcode
    | none => .completed     -- unreachable under `canAnswer`

/-- the exit status says the child was killed by a signal -/
def diedBySignal : Option Int → Bool
  | some x => decide (x < 0)
  | none => false

def step (c : Cfg) (s : State) : Act → Option State
  | .cBoot => if s.cpc = .boot then some { s with cpc := .target } else none
  | .cTargetEnd => if s.cpc = .target then some { s with cpc := .send1 } else none
  | .cSend1 =>
    if s.cpc = .send1 ∧ canSend1 c.outcome = true then
      some { s with cpc := .send2, sent := s.sent + 1, pipe := s.pipe ++ [firstMsg c.outcome] }
    else none
  | .cSend2 =>
    if s.cpc = .send2 ∧ canSend2 c.outcome = true then
      some { s with cpc := .closing, sent := s.sent + 1, pipe := s.pipe ++ [secondMsg c.outcome] }
    else none
  | .cSendFail =>
    -- `send` raises (pickling error); the exception leaves `run()`, the interpreter ends with status 1
    if (s.cpc = .send1 ∧ canSend1 c.outcome = false) ∨ (s.cpc = .send2 ∧ canSend2 c.outcome = false) then
      some { s with cpc := .exited, wclosed := true, exitcode := some 1 }
    else none
  | .cExit =>
    if s.cpc = .closing then
      some { s with cpc := .exited, wclosed := true, exitcode := some (osStatus (mpExit c.outcome)) }
    else none
  | .kill sig =>
    if s.cpc ≠ .exited ∧ 1 ≤ sig then
      some { s with cpc := .exited, wclosed := true, exitcode := some (-(sig : Int)),
                    killed := some (sig, s.cpc.phase) }
    else none
  | .kRecv =>
    match s.kpc, s.pipe with
    | .recv1, m :: rest => some { s with kpc := .recv2, result := m, pipe := rest }
    | .recv2, m :: rest => some { s with kpc := .waitExit, error := m, pipe := rest }
    | _, _ => none
  | .kEof =>
    if (s.kpc = .recv1 ∨ s.kpc = .recv2) ∧ s.pipe = [] ∧ s.wclosed = true then
      some { s with kpc := .eof, terminated := true }
    else none
  | .kEofCode =>
    if s.kpc = .eof then
      match s.exitcode with
      | some x =>
        if -x = 15 then some { s with kpc := .waitExit }
        else some { s with kpc := .waitExit, error := .exc (.osErr (-x)) }
      | none => none
    else none
  | .kSentinel => if s.kpc = .waitExit ∧ s.cpc = .exited then some { s with kpc := .endLog } else none
  | .kPutEnd => if s.kpc = .endLog then some { s with kpc := .joinLog, logEnd := true } else none
  | .logStop =>
    if s.logEnd = true ∧ s.logStopped = false then some { s with logStopped := true } else none
  | .kJoinLog =>
    -- `_logger_thread_.join(1 if terminated or self.exitcode < 0 else None)`: bounded (always returns)
    -- when the child did not end by itself, otherwise until the logger thread has ended
    if s.kpc = .joinLog ∧ (s.logStopped = true ∨ s.terminated = true ∨ diedBySignal s.exitcode = true) then
      some { s with kpc := .resolve }
    else none
  | .kResolve =>
    if s.kpc = .resolve then some { s with kpc := .done, fut := some (resolveWith s.result s.error) }
    else none
  | .ask a => if canAnswer a s then some { s with answers := s.answers ++ [(a, answer a s)] } else none

def Act.isAsk : Act → Bool
  | .ask _ => true
  | _ => false

def Act.isKill : Act → Bool
  | .kill _ => true
  | _ => false

/-- everything has come to rest: child gone, collector finished -/
def Final (s : State) : Prop := s.cpc = .exited ∧ s.kpc = .done

instance (s : State) : Decidable (Final s) := by unfold Final; infer_instance

def Reachable (c : Cfg) (s : State) : Prop := ∃ as, Core.run (step c) init as = some s

/-- The table: how the future must be resolved, from the target's outcome and the kill history
    alone.  `none`, or a kill after both messages were sent: the target's own verdict.  A kill
    before that: signal 15 (`terminate()`) is not an error — the result is whatever had been
    sent; any other signal is `OSError(sig)`. -/
def verdict (o : Outcome) : Option (Nat × Phase) → Fut
  | none => ownFut o
  | some (_, .after) => ownFut o
  | some (sig, .between) => if (sig : Int) = 15 then .ok (firstMsg o) else .err (.exc (.osErr sig))
  | some (sig, _) => if (sig : Int) = 15 then .ok .none else .err (.exc (.osErr sig))

/-- exit status the parent sees -/
def finalCode (o : Outcome) : Option (Nat × Phase) → Int
  | none => osStatus (mpExit o)
  | some (sig, _) => -(sig : Int)

/-- the final answer of every accessor, from outcome and kill history alone -/
def finalAns (o : Outcome) (k : Option (Nat × Phase)) (a : Acc) : Ans :=
  ansOfFut a (verdict o k) (some (finalCode o k))

/-- what the non-blocking accessors say while the worker is still running -/
def pendingAns : Acc → Option Ans
  | .done => some (.flag false)
  | .exitcode => some (.code none)
  | _ => none

/-! ## Thread variant: `Thread.run` resolves the future itself -/
namespace Thr

inductive TPc where
  | run | set | dead
  deriving Repr, DecidableEq

structure State where
  tpc : TPc
  fut : Option Fut
  answers : List (Acc × Ans)
  deriving Repr, DecidableEq

inductive Act where
  | tSet | tEnd | ask (a : Acc)
  deriving Repr, DecidableEq

def init : State := { tpc := .run, fut := none, answers := [] }

/-- `Thread.run`: value → `set_result`; exception → `set_exception` (with the traceback text as
    `__cause__`); `SystemExit` per the same mapping as the process -/
def threadFut : Outcome → Fut
  | .ret v => .ok v
  | .raise e => .err (.exc (.child e))
  | .exit c => if c.clean then .ok .none else .err (.exc (.sysExit c))
  | .retU v => .ok (.val v)
  | .raiseU e => .err (.exc (.child e))

def canAnswer (a : Acc) (s : State) : Bool :=
  match a with
  | .join | .result | .exception => s.tpc == .dead && s.fut.isSome
  | .done | .exitcode => true
  | .wait | .asCompleted => s.fut.isSome

def answer (a : Acc) (s : State) : Ans :=
  match a with
  | .done => .flag (s.tpc == .dead)
  | .exitcode => .code none          -- threads have no exit code; not an accessor of `Thread`
  | _ => match s.fut with
    | some f => ansOfFut a f none
    | none => .completed

def step (c : Cfg) (s : State) : Act → Option State
  | .tSet => if s.tpc = .run then some { s with tpc := .set, fut := some (threadFut c.outcome) } else none
  | .tEnd => if s.tpc = .set then some { s with tpc := .dead } else none
  | .ask a => if canAnswer a s then some { s with answers := s.answers ++ [(a, answer a s)] } else none

def Final (s : State) : Prop := s.tpc = .dead

instance (s : State) : Decidable (Final s) := by unfold Final; infer_instance

def Reachable (c : Cfg) (s : State) : Prop := ∃ as, Core.run (step c) init as = some s

end Thr

end ProcOutcome
