/-!
# Model of calls through manager proxies (src/mpservice/multiprocessing/server_process.py)

Two machines over the same heap of objects living in the server process:

* **direct**: `sem.call h a op` — the method `op` invoked directly on the object at address `a`
  (`Sem` is a parameter: *any* hosted class; `pySem` below is the concrete semantics of the
  registered list / dict / Namespace / Value and of a small custom class, used by the driver);
* **proxy**: `proxyStep` — what `BaseProxy._callmethod` (646-675), `Server.serve_client` (338-378),
  `Server._callmethod` (303-334) and `managed()`/`Server.create` (432-468, 879-921) do for a request
  `(client c, ident i, op)`: open the client's connection on first use, look `i` up in the server
  table (`id_to_obj[ident]`, KeyError → `#TRACEBACK`), call the method, turn the result into a
  message (`#RETURN` value / `#RETURN` with a proxy made by `managed()` / `#PROXY` for a method in
  `method_to_typeid` / `#ERROR` with the exception wrapped by `RemoteException`), and convert the
  message back on the client side (`convert_to_error`); the connection stays open.

Plain (picklable, proxy-free) values are opaque codes: pickling is assumed to round-trip them
(trusted base).  A proxy value is `ref i`; pickling and un-pickling a proxy yields a proxy of the
same ident (its reference counting is C13's model).  A hosted method is one atomic step of the heap
(CPython: single list/dict operations are atomic under the GIL; custom classes must do their own
locking — module docstring, lines 120-123).
-/
namespace ProxyCall

inductive Val where
  | none
  | bool (b : Bool)
  | int (n : Int)
  | plain (code : Nat)     -- any other picklable, proxy-free value, identified by its canonical form
  | ref (i : Nat)          -- a proxy to the object hosted under ident `i`
  deriving Repr, DecidableEq

inductive ErrCls where
  | index | key | attr | value | zeroDiv | boom | type
  deriving Repr, DecidableEq

/-- outcome of a direct call -/
inductive Res where
  | val (v : Val)
  | vals (vs : List Val)     -- a plain container (copy) of values: a slice, keys(), a tuple …
  | alias (a : Nat)          -- the method returned `managed(obj)`; called directly that is `obj` itself
  | typed (a : Nat)          -- the method returned `obj` and is listed in `method_to_typeid`
  | raised (e : ErrCls)
  deriving Repr, DecidableEq

/-- direct semantics of the hosted classes: heap, address of the object, operation -/
structure Sem (H Op : Type) where
  call : H → Nat → Op → H × Res

/-! ## the proxy machinery -/

inductive Msg where
  | ret (v : Val)            -- ('#RETURN', value)
  | retVals (vs : List Val)
  | retProxy (a : Nat)       -- ('#RETURN', proxy) — the value is a server-side proxy made by managed()
  | proxy (a : Nat)          -- ('#PROXY', proxy)
  | error (e : ErrCls)       -- ('#ERROR', RemoteException(e)): exception + formatted server-side traceback
  | traceback                -- ('#TRACEBACK', text)
  deriving Repr, DecidableEq

/-- what the caller of a proxy method sees -/
inductive Outcome where
  | returned (v : Val)
  | returnedVals (vs : List Val)
  | raised (e : ErrCls) (remoteTraceback : Bool)
  | remoteError              -- multiprocessing.managers.RemoteError
  deriving Repr, DecidableEq

structure Server (H : Type) where
  heap : H
  hosted : Nat → Bool        -- ident ∈ id_to_obj

structure PState (H : Type) where
  srv : Server H
  conn : Nat → Bool          -- client `c` (process/thread) has an open connection to the server

structure Req (Op : Type) where
  c : Nat
  i : Nat
  op : Op

variable {H Op : Type}

/-- `Server._callmethod` + the reply construction of `serve_client` -/
def serverCall (sem : Sem H Op) (S : Server H) (i : Nat) (op : Op) : Server H × Msg :=
  if S.hosted i = true then
    match sem.call S.heap i op with
    | (h, .val v) => ({ S with heap := h }, .ret v)
    | (h, .vals vs) => ({ S with heap := h }, .retVals vs)
    | (h, .alias a) => ({ heap := h, hosted := fun j => if j = a then true else S.hosted j }, .retProxy a)
    | (h, .typed a) => ({ heap := h, hosted := fun j => if j = a then true else S.hosted j }, .proxy a)
    | (h, .raised e) => ({ S with heap := h }, .error e)
  else (S, .traceback)

/-- client side of `BaseProxy._callmethod`: `#RETURN`/`#PROXY` → the value, else `convert_to_error` -/
def clientRecv : Msg → Outcome
  | .ret v => .returned v
  | .retVals vs => .returnedVals vs
  | .retProxy a => .returned (.ref a)
  | .proxy a => .returned (.ref a)
  | .error e => .raised e true
  | .traceback => .remoteError

def proxyStep (sem : Sem H Op) (P : PState H) (r : Req Op) : PState H × Outcome :=
  -- `_connect` on first use; afterwards the same connection serves every request of this client
  let conn' := fun c => if c = r.c then true else P.conn c
  let (S', m) := serverCall sem P.srv r.i r.op
  ({ srv := S', conn := conn' }, clientRecv m)

def proxyRun (sem : Sem H Op) : PState H → List (Req Op) → PState H × List Outcome
  | P, [] => (P, [])
  | P, r :: rs =>
    let (P1, o) := proxyStep sem P r
    let (P2, os) := proxyRun sem P1 rs
    (P2, o :: os)

def directRun (sem : Sem H Op) : H → List (Nat × Op) → H × List Res
  | h, [] => (h, [])
  | h, (a, op) :: rs =>
    let (h1, o) := sem.call h a op
    let (h2, os) := directRun sem h1 rs
    (h2, o :: os)

/-- how a direct outcome looks through a proxy: values as they are, `managed()`/typed results as a
    proxy of that very object, exceptions with the server-side traceback attached -/
def view : Res → Outcome
  | .val v => .returned v
  | .vals vs => .returnedVals vs
  | .alias a => .returned (.ref a)
  | .typed a => .returned (.ref a)
  | .raised e => .raised e true

/-- every request goes to an ident that is hosted when it is issued (C13: a live proxy's referent
    is hosted) -/
def Valid (sem : Sem H Op) : PState H → List (Req Op) → Prop
  | _, [] => True
  | P, r :: rs => P.srv.hosted r.i = true ∧ Valid sem (proxyStep sem P r).1 rs

/-! ## several clients at once

Each client (process or thread) has its own connection and its own serving thread in the server
(`accept_connection` → `serve_client`); a client blocks in `conn.recv()` until its reply arrives,
so there is at most one outstanding request per connection.  Which serving thread runs its method
next is an action label (`exec c`); `hist`/`execOuts`/`got` are history variables. -/

structure CState (H Op : Type) where
  srv : Server H
  pending : Nat → Option (Nat × Op)     -- request of client `c` sent, method not yet run
  reply : Nat → Option Outcome          -- method run, reply not yet read by client `c`
  hist : List (Req Op)                  -- ghost: requests in the order their methods ran
  execOuts : List Outcome               -- ghost: their outcomes, same order
  got : List (Nat × Outcome)            -- ghost: (client, outcome) in the order replies were read

inductive CAct (Op : Type) where
  | send (c i : Nat) (op : Op)
  | exec (c : Nat)
  | recv (c : Nat)

def cinit (S : Server H) : CState H Op :=
  { srv := S, pending := fun _ => none, reply := fun _ => none, hist := [], execOuts := [], got := [] }

def cstep (sem : Sem H Op) (s : CState H Op) : CAct Op → Option (CState H Op)
  | .send c i op =>
    if s.pending c = none ∧ s.reply c = none then
      some { s with pending := fun d => if d = c then some (i, op) else s.pending d }
    else none
  | .exec c =>
    match s.pending c with
    | some (i, op) =>
      if s.reply c = none then
        let (S', m) := serverCall sem s.srv i op
        some { s with srv := S', pending := fun d => if d = c then none else s.pending d
                      reply := fun d => if d = c then some (clientRecv m) else s.reply d
                      hist := s.hist ++ [⟨c, i, op⟩], execOuts := s.execOuts ++ [clientRecv m] }
      else none
    | none => none
  | .recv c =>
    match s.reply c with
    | some o => some { s with reply := fun d => if d = c then none else s.reply d, got := s.got ++ [(c, o)] }
    | none => none

/-! ## concrete semantics of the classes used by the correspondence check -/

inductive Obj where
  | lst (vs : List Val)
  | dct (kv : List (Val × Val))    -- insertion ordered; keys are hashable plain values
  | ns (kv : List (Nat × Val))     -- Namespace: attribute name (code) ↦ value
  | cell (v : Val)                 -- Value
  | ctr (n : Int) (log : Nat)      -- custom class Counter: `n`, and the address of its `log` list
  | hub (a b : Nat)                -- custom class Hub: owns two store objects (at `a`, `b`) it hands out with managed()
  deriving Repr, DecidableEq

abbrev Heap := Nat → Option Obj

inductive POp where
  -- list
  | append (v : Val) | extend (vs : List Val) | insert (k : Int) (v : Val) | popLast | pop (k : Int)
  | getitem (k : Int) | setitem (k : Int) (v : Val) | delitem (k : Int) | len | reverse | slice
  | imul (k : Int) | iadd (vs : List Val)      -- `x *= k`, `x += vs`: change in place, the result is the object itself
  -- dict
  | dset (k v : Val) | dget (k : Val) | ddel (k : Val) | dpop (k : Val) | dpopd (k d : Val) | dgetd (k d : Val)
  | dcontains (k : Val) | dcopy | dclear | dsetdefault (k v : Val) | dpopitem
  -- namespace
  | nset (a : Nat) (v : Val) | nget (a : Nat) | ndel (a : Nat)
  -- value
  | vget | vset (v : Val)
  -- Counter
  | add (k : Int) | cget | fail (tag : Nat) (cls : ErrCls) | history | snapshot | echo (vs : List Val)
  | poke (target : Val) (v : Val) | pokePop (target : Val)
  | view0 | view1                              -- Hub: `managed(self._mem)` / `managed(self._disk)` (same typeid, different classes)
  | relayFail (target : Val) (tag : Nat) (cls : ErrCls)   -- calls `fail` of another hosted Counter through a proxy, inside the server
  deriving Repr, DecidableEq

/-- Python index normalisation -/
def normIdx (len : Nat) (k : Int) : Option Nat :=
  if 0 ≤ k ∧ k < len then some k.toNat
  else if k < 0 ∧ -(len : Int) ≤ k then some (k + len).toNat
  else none

/-- `list.insert` clamps -/
def clampIdx (len : Nat) (k : Int) : Nat :=
  if k < 0 then (if k + len < 0 then 0 else (k + len).toNat) else (if k > len then len else k.toNat)

def upd (h : Heap) (a : Nat) (o : Obj) : Heap := fun j => if j = a then some o else h j

def lookup (kv : List (Val × Val)) (k : Val) : Option Val := (kv.find? (fun p => p.1 == k)).map (·.2)

def setKey (kv : List (Val × Val)) (k v : Val) : List (Val × Val) :=
  if (kv.any fun p => p.1 == k) then kv.map (fun p => if p.1 == k then (p.1, v) else p) else kv ++ [(k, v)]

def delKey (kv : List (Val × Val)) (k : Val) : List (Val × Val) := kv.filter (fun p => !(p.1 == k))

def listOp (h : Heap) (a : Nat) (vs : List Val) : POp → Heap × Res
  | .append v => (upd h a (.lst (vs ++ [v])), .val .none)
  | .extend ws => (upd h a (.lst (vs ++ ws)), .val .none)
  | .insert k v => let n := clampIdx vs.length k; (upd h a (.lst (vs.take n ++ v :: vs.drop n)), .val .none)
  | .popLast =>
    match vs.getLast? with
    | some v => (upd h a (.lst vs.dropLast), .val v)
    | none => (h, .raised .index)
  | .pop k =>
    match normIdx vs.length k with
    | some n => (upd h a (.lst (vs.eraseIdx n)), .val (vs.getD n .none))
    | none => (h, .raised .index)
  | .getitem k =>
    match normIdx vs.length k with
    | some n => (h, .val (vs.getD n .none))
    | none => (h, .raised .index)
  | .setitem k v =>
    match normIdx vs.length k with
    | some n => (upd h a (.lst (vs.set n v)), .val .none)
    | none => (h, .raised .index)
  | .delitem k =>
    match normIdx vs.length k with
    | some n => (upd h a (.lst (vs.eraseIdx n)), .val .none)
    | none => (h, .raised .index)
  | .len => (h, .val (.int vs.length))
  | .reverse => (upd h a (.lst vs.reverse), .val .none)
  | .slice => (h, .vals vs)
  | .imul k => (upd h a (.lst ((List.replicate k.toNat vs).flatten)), .alias a)
  | .iadd ws => (upd h a (.lst (vs ++ ws)), .alias a)
  | _ => (h, .raised .attr)

def dictOp (h : Heap) (a : Nat) (kv : List (Val × Val)) : POp → Heap × Res
  | .dset k v => (upd h a (.dct (setKey kv k v)), .val .none)
  | .dget k => match lookup kv k with
    | some v => (h, .val v)
    | none => (h, .raised .key)
  | .ddel k => match lookup kv k with
    | some _ => (upd h a (.dct (delKey kv k)), .val .none)
    | none => (h, .raised .key)
  | .dpop k => match lookup kv k with
    | some v => (upd h a (.dct (delKey kv k)), .val v)
    | none => (h, .raised .key)
  | .dpopd k d => match lookup kv k with
    | some v => (upd h a (.dct (delKey kv k)), .val v)
    | none => (h, .val d)
  | .dgetd k d => (h, .val ((lookup kv k).getD d))
  | .dcontains k => (h, .val (.bool (lookup kv k).isSome))
  | .len => (h, .val (.int kv.length))
  | .dcopy => (h, .vals (kv.flatMap fun p => [p.1, p.2]))       -- a plain copy: k1, v1, k2, v2, …
  | .dclear => (upd h a (.dct []), .val .none)
  | .dsetdefault k v => match lookup kv k with
    | some w => (h, .val w)
    | none => (upd h a (.dct (kv ++ [(k, v)])), .val v)
  | .dpopitem => match kv.getLast? with
    | some p => (upd h a (.dct kv.dropLast), .vals [p.1, p.2])
    | none => (h, .raised .key)
  | _ => (h, .raised .attr)

def nsOp (h : Heap) (a : Nat) (kv : List (Nat × Val)) : POp → Heap × Res
  | .nset x v =>
    (upd h a (.ns (if kv.any (fun p => p.1 == x) then kv.map (fun p => if p.1 == x then (x, v) else p) else kv ++ [(x, v)])),
     .val .none)
  | .nget x => match kv.find? (fun p => p.1 == x) with
    | some p => (h, .val p.2)
    | none => (h, .raised .attr)
  | .ndel x => match kv.find? (fun p => p.1 == x) with
    | some _ => (upd h a (.ns (kv.filter (fun p => !(p.1 == x)))), .val .none)
    | none => (h, .raised .attr)
  | _ => (h, .raised .attr)

/-- append to the list at address `l` (the Counter's own log, or — through a proxy used inside the
    server, short-cut path of `BaseProxy._callmethod` — another hosted list) -/
def appendAt (h : Heap) (l : Nat) (v : Val) : Heap :=
  match h l with
  | some (.lst vs) => upd h l (.lst (vs ++ [v]))
  | _ => h

def ctrOp (h : Heap) (a : Nat) (n : Int) (log : Nat) : POp → Heap × Res
  | .add k => (appendAt (upd h a (.ctr (n + k) log)) log (.int k), .val (.int (n + k)))
  | .cget => (h, .val (.int n))
  | .fail tag cls => (appendAt h log (.plain tag), .raised cls)     -- mutates, then raises
  | .history => (h, .alias log)                                      -- managed_list(self.log)
  | .snapshot => match h log with
    | some (.lst vs) => (h, .vals vs)
    | _ => (h, .vals [])
  | .echo vs => (h, .vals vs)
  | .poke (.ref j) v => match h j with                               -- proxy.append(v) inside the server
    | some (.lst vs) => (upd h j (.lst (vs ++ [v])), .val (.int (vs.length + 1)))
    | _ => (h, .raised .attr)
  | .relayFail (.ref j) tag cls => match h j with                    -- proxy.fail(tag, …) inside the server:
    | some (.ctr _ log2) => (appendAt h log2 (.plain tag), .raised cls)  -- the inner Counter mutates, its exception comes out
    | _ => (h, .raised .attr)
  | .pokePop (.ref j) => match h j with                              -- proxy.pop() inside the server
    | some (.lst vs) => match vs.getLast? with
      | some v => (upd h j (.lst vs.dropLast), .val v)
      | none => (h, .raised .index)                                  -- repaired (F31): the original exception
    | _ => (h, .raised .attr)
  | _ => (h, .raised .attr)

def pyCall (h : Heap) (a : Nat) (op : POp) : Heap × Res :=
  match h a with
  | some (.lst vs) => listOp h a vs op
  | some (.dct kv) => dictOp h a kv op
  | some (.ns kv) => nsOp h a kv op
  | some (.cell v) => match op with
    | .vget => (h, .val v)
    | .vset w => (upd h a (.cell w), .val .none)
    | _ => (h, .raised .attr)
  | some (.ctr n log) => ctrOp h a n log op
  | some (.hub x y) => match op with
    | .view0 => (h, .alias x)
    | .view1 => (h, .alias y)
    | _ => (h, .raised .attr)
  | none => (h, .raised .attr)

def pySem : Sem Heap POp := ⟨pyCall⟩

end ProxyCall
