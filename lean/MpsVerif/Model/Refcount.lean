/-!
# Model of the manager server's reference counting (src/mpservice/multiprocessing/server_process.py)

What is modelled (line numbers of the pinned tree, repaired by fixes/F16 and fixes/F21):

* `Server.create` (432-468) / `managed()` (879-921): a new entry `ident ↦ object` with refcount 0,
  then `_make_proxy` constructs a proxy *inside the server* whose constructor increments
  (`BaseProxy.__init__` → `_incref`, 686-707, server short-cut).  `managed()` on an object that
  already has an entry only adds a proxy (same `id(obj)`).
* `BaseProxy.__reduce__` (740-761): pickling a proxy increments *before* the pickle leaves, so the
  pickle itself is a counted reference ("in transit").
* `RebuildProxy` (772-792): un-pickling constructs a proxy (constructor increment, finalizer
  registered) and then gives the pickle's reference back (compensating decrement).  In the
  repaired code this is the same while a spawned child is bootstrapping (F16).
* the finalizer `BaseProxy._decref` (712-734): runs when the proxy object is garbage collected and
  (repaired: `exitpriority=10`) for every proxy still alive when its process exits.
* `Server.decref` (474-478 + stdlib): decrement; at 0 the entry is deleted, the object dies; if it
  is a hosted list/dict holding proxies, those proxies die with it (their finalizers decrement in
  turn); if it is a `MemoryBlock`, its finalizer closes and unlinks the shared memory (1103-1133).
* `Server.serve_client` (338-378): the request (with un-pickled argument proxies) and the reply
  (with server-side proxies made by `create`/`managed()` or taken out of a hosted container) are
  referenced by the serving thread's locals; repaired code drops them right after the reply has
  been sent (F21), so dropping a server temporary needs no further client action.

Every proxy object / pickle in existence is one entry `(holder, ident)` of `refs`.  All
nondeterminism is in the action labels: who acts, on which reference, which identifier the
allocator hands out (`create k i` for *any* currently unused `i`: `id(obj)` may be recycled).
Each action is one atomic step of the real code with respect to the server's mutex; e.g.
un-pickling is two steps (`unpickle` = constructor increment, `drop .rebuild` = compensating
decrement) so that the order "increment first" is part of the model.

Assumed (trusted base): `util.Finalize` runs the callback exactly once, when the proxy object is
collected or — with an exit priority — at process exit; CPython frees an object when its last
reference goes; a killed process (no exit handlers) is outside the property.
-/
namespace Refcount

inductive Kind where
  | plain   -- Value, Namespace, custom class instance …
  | cont    -- hosted list / dict: can hold proxies
  | mem     -- MemoryBlock: owns a shared-memory block
  deriving Repr, DecidableEq

/-- who holds a reference -/
inductive Holder where
  | client (p : Nat)   -- a live proxy object in client process `p`
  | transit            -- a pickle that has left its process and has not been un-pickled yet
  | rebuild            -- a pickle being un-pickled: constructor increment done, compensation pending
  | temp               -- a proxy in the server process referenced only by a serving thread's locals
  | item (c : Nat)     -- a proxy in the server process stored inside hosted container `c`
  deriving Repr, DecidableEq

abbrev Ref := Holder × Nat

inductive PStat where
  | running | exiting | exited
  deriving Repr, DecidableEq

structure State where
  rc : Nat → Nat          -- `id_to_refcount` (0 = no entry)
  hosted : Nat → Bool     -- ident ∈ `id_to_obj`
  kind : Nat → Kind
  shm : Nat → Bool        -- the shared-memory block of MemoryBlock `ident` is linked (/dev/shm/<name> exists)
  refs : List Ref
  stat : Nat → PStat      -- client processes

inductive Act where
  | create (k : Kind) (i : Nat)     -- Server.create / managed(new object): entry + server-side proxy
  | manage (i : Nat)                -- managed(obj) for an object that already has an entry
  | pickle (h : Holder) (i : Nat)   -- `__reduce__` of the proxy `(h, i)`
  | unpickle (dst : Holder) (i : Nat) -- RebuildProxy, first half: proxy constructed in `dst` (client p / server temp)
  | drop (h : Holder) (i : Nat)     -- a finalizer / the compensating decrement runs: `(h, i)` goes, decref
  | store (c i : Nat)               -- a hosted method puts the argument proxy `(temp, i)` into container `c`
  | unstore (c i : Nat)             -- a hosted method takes `(item c, i)` out of container `c` (pop, del, clear, overwrite)
  | fork (p q i : Nat)              -- `q`, forked from `p`, inherits `p`'s proxy object through memory; after-fork hook: `_incref`
  | call (p i : Nat)                -- client `p` calls a method through its proxy to `i`
  | exitBegin (p : Nat)
  | exitEnd (p : Nat)
  deriving Repr, DecidableEq

def init : State :=
  { rc := fun _ => 0, hosted := fun _ => false, kind := fun _ => .plain, shm := fun _ => false,
    refs := [], stat := fun _ => .running }

def incref (s : State) (i : Nat) : State :=
  { s with rc := fun j => if j = i then s.rc i + 1 else s.rc j }

/-- proxies stored in container `c` lose their container: they are now only referenced by the
    server thread that is destroying `c` (and will be finalized by it) -/
def orphan (c : Nat) (r : Ref) : Ref :=
  if r.1 = .item c then (.temp, r.2) else r

/-- `Server.decref` -/
def decref (s : State) (i : Nat) : State :=
  if s.rc i ≤ 1 then
    { s with rc := fun j => if j = i then 0 else s.rc j
             hosted := fun j => if j = i then false else s.hosted j
             shm := fun j => if j = i then false else s.shm j
             refs := s.refs.map (orphan i) }
  else
    { s with rc := fun j => if j = i then s.rc i - 1 else s.rc j }

def Holder.isClient : Holder → Bool
  | .client _ => true
  | _ => false

def Holder.isTransit : Holder → Bool
  | .transit | .rebuild => true
  | _ => false

def Holder.isNested : Holder → Bool
  | .item _ => true
  | _ => false

def Holder.isTemp : Holder → Bool
  | .temp => true
  | _ => false

/-- may this holder's process act (a proxy in an exited process does nothing any more) -/
def canAct (s : State) : Holder → Bool
  | .client p => s.stat p != .exited
  | _ => true

/-- where an un-pickled proxy may come to life: in a running client or in the server (request arguments) -/
def dstOk (s : State) : Holder → Bool
  | .client p => s.stat p == .running
  | .temp => true
  | _ => false

def step (s : State) : Act → Option State
  | .create k i =>
    if s.hosted i = false then
      some { s with rc := fun j => if j = i then 1 else s.rc j
                    hosted := fun j => if j = i then true else s.hosted j
                    kind := fun j => if j = i then k else s.kind j
                    shm := fun j => if j = i then decide (k = .mem) else s.shm j
                    refs := (.temp, i) :: s.refs }
    else none
  | .manage i =>
    if s.hosted i = true then some { incref s i with refs := (.temp, i) :: s.refs } else none
  | .pickle h i =>
    -- `incref` raises KeyError when the entry is gone
    if (h, i) ∈ s.refs ∧ h ≠ .transit ∧ h ≠ .rebuild ∧ canAct s h = true ∧ s.hosted i = true then
      some { incref s i with refs := (.transit, i) :: s.refs }
    else none
  | .unpickle dst i =>
    if (.transit, i) ∈ s.refs ∧ s.hosted i = true ∧ dstOk s dst = true then
      some { incref s i with refs := (dst, i) :: (.rebuild, i) :: s.refs.erase (.transit, i) }
    else none
  | .drop h i =>
    -- `Server.decref` fails (KeyError / AssertionError) when there is no positive count
    if (h, i) ∈ s.refs ∧ 0 < s.rc i ∧ (h = .temp ∨ h = .rebuild ∨ (h.isClient = true ∧ canAct s h = true)) then
      some (decref { s with refs := s.refs.erase (h, i) } i)
    else none
  | .store c i =>
    if (.temp, i) ∈ s.refs ∧ s.hosted c = true ∧ s.kind c = .cont then
      some { s with refs := (.item c, i) :: s.refs.erase (.temp, i) }
    else none
  | .unstore c i =>
    if (.item c, i) ∈ s.refs then
      some { s with refs := (.temp, i) :: s.refs.erase (.item c, i) }
    else none
  | .fork p q i =>
    -- the copy in the child is a proxy object of its own: the stdlib's `_after_fork` runs `_incref`
    -- (increment + finalizer) for it in the child; the parent's proxy is unaffected
    if (.client p, i) ∈ s.refs ∧ s.stat p = .running ∧ s.stat q = .running ∧ s.hosted i = true then
      some { incref s i with refs := (.client q, i) :: s.refs }
    else none
  | .call p i =>
    -- `Server._callmethod`: `self.id_to_obj[ident]` raises KeyError when the entry is gone
    if (.client p, i) ∈ s.refs ∧ s.stat p = .running ∧ s.hosted i = true then some s else none
  | .exitBegin p =>
    if s.stat p = .running then some { s with stat := fun q => if q = p then .exiting else s.stat q } else none
  | .exitEnd p =>
    -- repaired code: the exit handler has run the finalizer of every proxy still alive
    if s.stat p = .exiting ∧ (∀ r ∈ s.refs, r.1 ≠ .client p) then
      some { s with stat := fun q => if q = p then .exited else s.stat q }
    else none

/-- number of references to `i` whose holder satisfies `f` -/
def cnt (f : Holder → Bool) (s : State) (i : Nat) : Nat :=
  s.refs.countP (fun r => f r.1 && r.2 == i)

/-- live proxies in client processes -/
def live (s : State) (i : Nat) : Nat := cnt Holder.isClient s i
/-- pickles in transit (incl. those being un-pickled, until the compensating decrement) -/
def inTransit (s : State) (i : Nat) : Nat := cnt Holder.isTransit s i
/-- proxies stored in hosted containers -/
def nested (s : State) (i : Nat) : Nat := cnt Holder.isNested s i
/-- server temporaries -/
def temps (s : State) (i : Nat) : Nat := cnt Holder.isTemp s i

/-- what the server does on its own, without any client action: finish dropping its temporaries -/
def serverInternal : Act → Bool
  | .drop .temp _ => true
  | _ => false

/-- the server drops its temporaries until none is left (`fuel` = `refs.length` suffices) -/
def quiesce : Nat → State → State
  | 0, s => s
  | n + 1, s =>
    match s.refs.find? (fun r => r.1 == .temp) with
    | none => s
    | some r =>
      match step s (.drop .temp r.2) with
      | none => s
      | some s' => quiesce n s'

end Refcount
