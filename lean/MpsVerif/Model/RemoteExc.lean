import MpsVerif.Core.Sys
/-!
# Model of `RemoteException` (src/mpservice/multiprocessing/remote_exception.py)

Mechanism: `RemoteException(exc, tb=None)` (lines 397-472) turns the traceback of `exc` into text
(or re-uses the text a previous hop attached), and — when `exc` is an `EnsembleError` — replaces
every exception object in its result list `exc.args[1]['y']` by a `RemoteException` of it
(lines 452-463).  Pickling a `RemoteException` (`__reduce__`, line 480) pickles the wrapped
exception *by its own* `__reduce__` (class and arguments survive; `__traceback__`, `__cause__`,
`__context__` do not) together with the text; unpickling (`_rebuild_exception`, lines 376-379)
yields the exception object itself with `__cause__ = RemoteTraceback(text)`.
`EnsembleError.__reduce__` (line 342) pickles the result dict, hence recursively the nested
`RemoteException`s.  `is_remote_exception` / `get_remote_traceback` (lines 346-360) read
`__cause__`.

Texts are lists of abstract tokens (`Text = List Nat`); a token stands for an atomic piece of
text the model never looks into (the formatted frames + final line of one `raise`, a process-name
prefix `"[name] "`, the three constants of `Fmt`).  The harness expands tokens to the real
strings; expansion is a monoid homomorphism, so `<:+:` (contiguous sub-list) on token lists is
"substring" on strings and `=` is `=`.

What Python's `traceback.format_exception(type(e), e, tb)` prints is modelled as
`chain-part ++ own-part` (`fmtChain`): the own part (header, frames of `tb`, final
`Class: message` line) is an opaque text attached to the exception when it is raised
(`live`), the chain part is what is printed for `__cause__`/`__context__` before it:
nothing, an opaque text (`Cause.other`, any chain of ordinary exceptions incl. the
separator line), or — for an exception that arrived through `RemoteException` —
`rtbHead ++ text ++ rtbTail ++ causeSep` (`RemoteTraceback.__str__` returns the text verbatim).

Everything the environment chooses is a parameter: class / arguments (opaque naturals), the
texts, the process-name prefix of every hop, whether (and with which new traceback) the
exception is raised again between two hops, the `tb` argument.

Assumed (trusted base): `pickle` round-trips plain values and the class/arguments of a *picklable*
exception (the generator predicate of the check), drops `__traceback__`/`__cause__`;
`traceback.format_exception` has the chain ++ own structure described above.
-/
namespace RemoteExc

abbrev Text := List Nat

/-- constants of the run-time: `"<module>.RemoteTraceback: "`, `"\n"`,
    `"\nThe above exception was the direct cause of the following exception:\n\n"` -/
structure Fmt where
  rtbHead : Text
  rtbTail : Text
  causeSep : Text

/-- what `__cause__`/`__context__` contribute when the exception is formatted -/
inductive Cause where
  | none                       -- nothing is printed before the own part
  | remote (tb : Text)         -- `__cause__` is `RemoteTraceback(tb)`: `is_remote_exception` holds
  | other (pre : Text)         -- an ordinary cause/context chain; `pre` = all it prints (with separator)
  deriving Repr, DecidableEq

mutual
/-- an exception object: class, arguments, the own part of its formatted traceback if
    `__traceback__` is not `None`, its cause, and — for an `EnsembleError` — the list
    `args[1]['y']` (`Mems.nil` for every other class) -/
inductive Exc where
  | mk (cls : Nat) (args : List Nat) (live : Option Text) (cause : Cause) (mem : Mems)
/-- the entries of an `EnsembleError`'s result list -/
inductive Mems where
  | nil
  | val (v : Nat) (rest : Mems)                 -- a plain result (or `None`)
  | exc (e : Exc) (rest : Mems)                 -- an exception object
  | rem (e : Exc) (tb : Text) (rest : Mems)     -- a `RemoteException` object: `.exc = e`, `.tb = tb`
end

deriving instance Repr for Exc
deriving instance Repr for Mems

def Exc.cls : Exc → Nat | .mk c _ _ _ _ => c
def Exc.args : Exc → List Nat | .mk _ a _ _ _ => a
def Exc.live : Exc → Option Text | .mk _ _ l _ _ => l
def Exc.cause : Exc → Cause | .mk _ _ _ c _ => c
def Exc.mem : Exc → Mems | .mk _ _ _ _ m => m

@[simp] theorem Exc.cls_mk (c a l k m) : (Exc.mk c a l k m).cls = c := rfl
@[simp] theorem Exc.args_mk (c a l k m) : (Exc.mk c a l k m).args = a := rfl
@[simp] theorem Exc.live_mk (c a l k m) : (Exc.mk c a l k m).live = l := rfl
@[simp] theorem Exc.cause_mk (c a l k m) : (Exc.mk c a l k m).cause = k := rfl
@[simp] theorem Exc.mem_mk (c a l k m) : (Exc.mk c a l k m).mem = m := rfl

/-- `is_remote_exception(e)` -/
def Exc.isRemote (e : Exc) : Bool := match e.cause with | .remote _ => true | _ => false

/-- `get_remote_traceback(e)` (defined when `is_remote_exception(e)`) -/
def Exc.remoteTb (e : Exc) : Option Text := match e.cause with | .remote t => some t | _ => none

/-- `raise e` (caught again): a traceback is attached; `own` is its formatted own part -/
def Exc.raised (own : Text) : Exc → Exc | .mk c a _ k m => .mk c a (some own) k m

/-- `_rebuild_exception`: `exc.__cause__ = RemoteTraceback(tb)` -/
def rebuild (t : Text) : Exc → Exc | .mk c a l _ m => .mk c a l (.remote t) m

/-- `''.join(traceback.format_exception(type(e), e, tb))` for own part `own` and cause `k` -/
def fmtChain (F : Fmt) (own : Text) : Cause → Text
  | .none => own
  | .remote t => F.rtbHead ++ t ++ F.rtbTail ++ F.causeSep ++ own
  | .other pre => pre ++ own

/-- the `tb` argument of `RemoteException.__init__` -/
inductive TbArg where
  | dflt                -- `None`
  | str (t : Text)      -- a string: used as is
  | tb (own : Text)     -- a traceback object; `own` = its formatted own part
  deriving Repr, DecidableEq

/-- the text computed by `__init__` lines 406-450 (`none` = `ValueError`); `p` is the prefix
    `"[<current process name>] "` -/
def wrapText (F : Fmt) (p : Text) (live : Option Text) (k : Cause) : TbArg → Option Text
  | .str t => some t
  | .tb own => some (p ++ fmtChain F own k)
  | .dflt =>
    match live with
    | some own => some (p ++ fmtChain F own k)
    | none =>
      match k with
      | .remote t => some t
      | _ => none

mutual
/-- `RemoteException(e, tb)`: `(self.exc, self.tb)`; nested exception objects of an
    `EnsembleError` are wrapped (recursively, by the same constructor with `tb=None`) -/
def wrapWith (F : Fmt) (p : Text) (a : TbArg) : Exc → Option (Exc × Text)
  | .mk c ar l k m =>
    match wrapText F p l k a, wrapMems F p m with
    | some t, some m' => some (.mk c ar l k m', t)
    | _, _ => none
/-- lines 459-463 -/
def wrapMems (F : Fmt) (p : Text) : Mems → Option Mems
  | .nil => some .nil
  | .val v r => (wrapMems F p r).map (.val v)
  | .rem e t r => (wrapMems F p r).map (.rem e t)
  | .exc e r =>
    match wrapWith F p .dflt e, wrapMems F p r with
    | some (w, t), some r' => some (.rem w t r')
    | _, _ => none
end

/-- `RemoteException(e)` -/
def wrap (F : Fmt) (p : Text) (e : Exc) : Option (Exc × Text) := wrapWith F p .dflt e

mutual
/-- `pickle.loads(pickle.dumps(e))` for an exception object: class and arguments survive,
    traceback and cause do not; an `EnsembleError` pickles its result list -/
def pk : Exc → Exc
  | .mk c a _ _ m => .mk c a none .none (pkMems m)
def pkMems : Mems → Mems
  | .nil => .nil
  | .val v r => .val v (pkMems r)
  | .exc e r => .exc (pk e) (pkMems r)
  | .rem e t r => .exc (rebuild t (pk e)) (pkMems r)     -- `__reduce__` / `_rebuild_exception`
end

/-- `pickle.loads(pickle.dumps(RemoteException(e, tb)))` -/
def hopWith (F : Fmt) (p : Text) (a : TbArg) (e : Exc) : Option Exc :=
  (wrapWith F p a e).map fun (w, t) => rebuild t (pk w)

/-- one hop: `pickle.loads(pickle.dumps(RemoteException(e)))` -/
def hop (F : Fmt) (p : Text) (e : Exc) : Option Exc := hopWith F p .dflt e

/-- what happens at one hop: the holder possibly raises the exception again (new own text),
    then wraps it in a process whose name prefix is `proc`, pickles, sends, unpickles -/
structure Hop where
  proc : Text
  reraise : Option Text
  deriving Repr, DecidableEq

def step (F : Fmt) (e : Exc) (h : Hop) : Option Exc :=
  hop F h.proc (match h.reraise with | none => e | some own => e.raised own)

/-- any number of hops -/
def run (F : Fmt) (e : Exc) (hs : List Hop) : Option Exc := Core.run (step F) e hs

/-! ### shapes -/

mutual
/-- an exception as it comes out of a hop: no traceback, remote cause, nested exceptions likewise -/
def Exc.recv : Exc → Bool
  | .mk _ _ l k m => l.isNone && (match k with | .remote _ => true | _ => false) && Mems.recv m
def Mems.recv : Mems → Bool
  | .nil => true
  | .val _ r => Mems.recv r
  | .exc e r => Exc.recv e && Mems.recv r
  | .rem _ _ _ => false
end

mutual
/-- the content of a `RemoteException` object: the constructor has wrapped every nested exception -/
def Exc.sent : Exc → Bool
  | .mk _ _ _ _ m => Mems.sent m
def Mems.sent : Mems → Bool
  | .nil => true
  | .val _ r => Mems.sent r
  | .exc _ _ => false
  | .rem e _ r => Exc.sent e && Mems.sent r
end

mutual
/-- "carries a traceback" (hereditarily): the exception has a live traceback or a remote one,
    and so has every nested exception object; nested `RemoteException` objects are as their
    constructor leaves them -/
def Exc.ok : Exc → Bool
  | .mk _ _ l k m => (l.isSome || (match k with | .remote _ => true | _ => false)) && Mems.ok m
def Mems.ok : Mems → Bool
  | .nil => true
  | .val _ r => Mems.ok r
  | .exc e r => Exc.ok e && Mems.ok r
  | .rem e _ r => Exc.sent e && Mems.ok r
end

/-- the originally formatted traceback of an exception with a live traceback -/
def Exc.fmt (F : Fmt) (e : Exc) : Option Text := e.live.map fun own => fmtChain F own e.cause

end RemoteExc
