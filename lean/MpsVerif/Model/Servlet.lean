import MpsVerif.Core.Sys
/-!
# Model of the servlet tree (`src/mpservice/mpserver/_servlet.py`, `_worker.py`) — layer 1 of C02 / C04

Everything that travels through a server is a tagged message `(uid, value)` in a FIFO queue.
A *node* (simple servlet = `ThreadServlet`/`ProcessServlet` + its `Worker`s, `SequentialServlet`,
`EnsembleServlet`, `SwitchServlet`) takes messages from its `q_in` and puts messages on its `q_out`.

* `Val` — the value universe.  As in Python an exception is a value (`Val.exc tag payload`); what the
  code tests with `isinstance(x, (Exception, RemoteException))` is `Val.isExc`.  Wrapping an exception
  object in `RemoteException` does not change class/args (C15), so it is the identity here.
  Worker functions are arbitrary `Val → Val`; *raising* = returning an `exc` value.
* `Tree`, `outs : Tree → Val → List Val` — the denotation: the list of **allowed outcomes** of a
  request with input `x`.  It is a singleton except (i) below a fail-fast ensemble, whose
  `EnsembleError` carries the member results *received so far* (schedule dependent), and (ii) for a
  batched worker whose `call` may fail as a whole (`bfail`), where the outcome depends on the batch the
  request was put in.  So the denotation is a relation, not a function.
* Operational models, one per node kind, in which every interleaving is an action label:
  `Wk` (simple servlet: any number of competing workers, single and batched, `preprocess`,
  exception short-circuit, free completion and emission order), `Ens` (enqueue thread, dequeue
  thread, catalog keyed by uid; member servlets are *contract boxes*), `Sw` (enqueue thread with
  `switch`; members are contract boxes putting on the shared `q_out`).  A contract box of a member with
  outcome function `o : Val → List Val` holds the messages handed to the member and may, at any time
  and in any order, answer one of them `(u, x)` with `(u, y)`, `y ∈ o x` — the most general behaviour
  allowed by the contract proved for every node kind (`Proofs/Servlet*.lean`).
  Every state carries history variables: `recv` (messages taken from `q_in`), `sentG` (messages put
  on `q_out`, each with the input it was computed from: ghost `(uid, x, y)`), and logs of the
  arguments handed to `call` / `switch`.

Modelled lines: `_worker.py` 410-458 (`_start_single`), 460-533 + 534-647 (`_start_batch`,
`_build_input_batches`, `_get_input_batch`), 346-352 (`stream`); `_servlet.py` 543-573
(`EnsembleServlet._enqueue`), 574-639 (`_dequeue`), 752-774 (`SwitchServlet._enqueue`), 402-439
(`SequentialServlet.start`: the output queue of stage i is the input queue of stage i+1).

Abstractions (all over-approximations: every behaviour of the code is a behaviour of the model):
the workers of one simple servlet are anonymous (a pool of held items, any sub-selection of at
most `batch_size` held items may form the next batch; at most `nw` calls run at once); a computed
result is put on `q_out` by a separate `emit` action (any pending one first); the ensemble's enqueue
thread hands the request to all members in one action (a member that has not been handed the item
yet is indistinguishable from one that has not looked at its queue yet); the sentinel `None`
(shutdown) is not modelled here (C11).
-/
namespace Servlet

inductive Val where
  | nat (n : Nat)
  | none
  | nil
  | cons (a b : Val)
  | exc (tag : Nat) (payload : Val)
  deriving Repr, DecidableEq

/-- `isinstance(x, (BaseException, RemoteException))` -/
def Val.isExc : Val → Bool
  | .exc _ _ => true
  | _ => false

def ofList : List Val → Val
  | [] => .nil
  | v :: vs => .cons v (ofList vs)

/-- a slot of the ensemble's result list `z['y']`: `None` until the member's result is in -/
def slot : Option Val → Val
  | .none => .none
  | .some v => .cons v .nil

/-- `RemoteException(EnsembleError({'y': ys, 'n': n}))` (tag 0 is reserved for `EnsembleError`) -/
def ensErr (ys : List (Option Val)) (n : Nat) : Val :=
  .exc 0 (.cons (ofList (ys.map slot)) (.nat n))

abbrev Msg := Nat × Val
/-- ghost-annotated message: uid, the input it was computed from, the value -/
abbrev GMsg := Nat × Val × Val

def gkey (t : GMsg) : Msg := (t.1, t.2.1)
def gmsg (t : GMsg) : Msg := (t.1, t.2.2)

/-! ## Simple servlet (workers) -/

structure WSpec where
  /-- `Worker.preprocess` on one element (identity when the worker has none) -/
  pre : Val → Val
  /-- `Worker.call` on one element -/
  f : Val → Val
  /-- `batch_size` (0 = `call` takes one element; ≥ 1 = `call` takes a list of at most `bs`) -/
  bs : Nat
  /-- a batched `call` raising as a whole on this batch -/
  bfail : List Val → Option Val
  /-- the exceptions a batched `call` may raise as a whole (range of `bfail`) -/
  berrs : List Val
  /-- number of worker threads / processes of the servlet -/
  nw : Nat

/-- allowed outcomes of one request through a simple servlet -/
def wouts (w : WSpec) (x : Val) : List Val :=
  if x.isExc then [x]
  else if (w.pre x).isExc then [w.pre x]
  else if w.bs = 0 then [w.f (w.pre x)]
  else w.f (w.pre x) :: w.berrs

namespace Wk

/-- an item inside the servlet: uid, original input (ghost), preprocessed input -/
abbrev Item := GMsg

structure State where
  qin : List Msg
  held : List Item                 -- taken from `q_in`, preprocessed, not yet in a `call`
  busy : List (List Item)          -- the batches `call` is currently running on (singletons if unbatched)
  emitq : List GMsg                -- results computed / exceptions short-circuited, not yet on `q_out`
  qout : List Msg
  recv : List Msg                  -- history
  sentG : List GMsg                -- history
  calls : List (List Val)          -- history: the argument of every `call` (as a list of elements)
  blog : List (List Item × List GMsg)   -- history: every finished batch with the messages it produced
  deriving Repr, DecidableEq

inductive Act where
  | arrive (m : Msg)               -- the upstream puts a message on `q_in`
  | take                           -- a worker (or its collector thread) takes the head of `q_in`
  | start (mask : List Bool)       -- an idle worker starts `call` on the selected held items
  | finish (k : Nat)               -- the call on `busy[k]` returns / raises
  | emit (k : Nat)                 -- `q_out.put(emitq[k])`
  | deliver                        -- the downstream takes the head of `q_out`
  deriving Repr, DecidableEq

def init : State :=
  { qin := [], held := [], busy := [], emitq := [], qout := [], recv := [], sentG := [], calls := [], blog := [] }

def pick {α : Type} : List α → List Bool → List α
  | a :: as, true :: bs => a :: pick as bs
  | _ :: as, false :: bs => pick as bs
  | _, _ => []

def unpick {α : Type} : List α → List Bool → List α
  | a :: as, false :: bs => a :: unpick as bs
  | _ :: as, true :: bs => unpick as bs
  | _, _ => []

/-- what a finished `call` on batch `b` produces (`_start_single` 448-457, `_start_batch` 506-513) -/
def results (w : WSpec) (b : List Item) : List GMsg :=
  if w.bs = 0 then b.map (fun t => (t.1, t.2.1, w.f t.2.2))
  else match w.bfail (b.map (·.2.2)) with
    | some e => b.map (fun t => (t.1, t.2.1, e))                    -- `for u in uids: q_out.put((u, err))`
    | .none => b.map (fun t => (t.1, t.2.1, w.f t.2.2))             -- `zip(uids, yy)`

def step (w : WSpec) (s : State) : Act → Option State
  | .arrive m => some { s with qin := s.qin ++ [m] }
  | .take =>
    match s.qin with
    | (u, x) :: rest =>
      if x.isExc then
        some { s with qin := rest, recv := s.recv ++ [(u, x)], emitq := s.emitq ++ [(u, x, x)] }
      else if (w.pre x).isExc then
        some { s with qin := rest, recv := s.recv ++ [(u, x)], emitq := s.emitq ++ [(u, x, w.pre x)] }
      else
        some { s with qin := rest, recv := s.recv ++ [(u, x)], held := s.held ++ [(u, x, w.pre x)] }
    | [] => .none
  | .start mask =>
    let b := pick s.held mask
    if mask.length = s.held.length ∧ b ≠ [] ∧ b.length ≤ max 1 w.bs ∧ s.busy.length < w.nw then
      some { s with held := unpick s.held mask, busy := s.busy ++ [b], calls := s.calls ++ [b.map (·.2.2)] }
    else .none
  | .finish k =>
    match s.busy[k]? with
    | some b =>
      some { s with busy := s.busy.eraseIdx k, emitq := s.emitq ++ results w b,
                    blog := s.blog ++ [(b, results w b)] }
    | .none => .none
  | .emit k =>
    match s.emitq[k]? with
    | some t => some { s with emitq := s.emitq.eraseIdx k, qout := s.qout ++ [gmsg t], sentG := s.sentG ++ [t] }
    | .none => .none
  | .deliver =>
    match s.qout with
    | _ :: rest => some { s with qout := rest }
    | [] => .none

/-- nothing left inside the servlet -/
def Quiescent (s : State) : Prop := s.qin = [] ∧ s.held = [] ∧ s.busy = [] ∧ s.emitq = []

instance (s : State) : Decidable (Quiescent s) := by unfold Quiescent; exact inferInstance

end Wk

/-! ## Ensemble servlet -/

/-- all ways to pick one allowed outcome per member -/
def choices : List (List Val) → List (List Val)
  | [] => [[]]
  | os :: rest => os.flatMap (fun o => (choices rest).map (o :: ·))

/-- all partial result lists that contain no exception (with the number of filled slots) -/
def partials : List (List Val) → List (List (Option Val))
  | [] => [[]]
  | os :: rest =>
    (partials rest).flatMap (fun p => (.none :: p) :: (os.filter (fun o => !o.isExc)).map (fun o => some o :: p))

def filled (p : List (Option Val)) : Nat := p.countP Option.isSome

/-- result of an ensemble whose members have all answered (`_dequeue` 622-636) -/
def ensFull (ys : List Val) : Val :=
  if ys.all Val.isExc then ensErr (ys.map some) ys.length else ofList ys

/-- allowed outcomes of an ensemble for a non-exception input, given each member's allowed outcomes.
    `fail_fast`: an `EnsembleError` at the first member result *received* that is an exception,
    carrying the results received before it (none of them an exception) and itself. -/
def ensOuts (ff : Bool) (oss : List (List Val)) : List Val :=
  if ff then
    ((choices oss).filter (fun ys => !ys.any Val.isExc)).map ofList ++
    (partials oss).flatMap (fun p =>
      (List.range oss.length).flatMap (fun e =>
        if p[e]? = some .none then
          ((oss.getD e []).filter Val.isExc).map (fun y => ensErr (p.set e (some y)) (filled p + 1))
        else []))
  else (choices oss).map ensFull

namespace Ens

structure Entry where
  x : Val                      -- ghost: the request's input (the real entry is `{'y': ys, 'n': n}`)
  ys : List (Option Val)
  n : Nat
  deriving Repr, DecidableEq

structure State where
  qin : List Msg
  cat : List (Nat × Entry)     -- `_uid_to_results` (a dict: at most one entry per key, see `insert`)
  pend : List (Nat × Msg)      -- (member index, message handed to that member and not yet answered)
  mout : List (Nat × Msg)      -- (member index, message on that member's output queue)
  emitq : List GMsg            -- message the enqueue / dequeue thread is about to put on `q_out`
  qout : List Msg
  recv : List Msg
  sentG : List GMsg
  deriving Repr, DecidableEq

inductive Act where
  | arrive (m : Msg)
  | enq                         -- enqueue thread: takes the head of `q_in`, registers it, hands it to every member
  | memberOut (k : Nat) (y : Val)   -- the member holding `pend[k]` answers it with `y`
  | deq (k : Nat)               -- dequeue thread: takes `mout[k]` (the head of that member's output queue)
  | emit (k : Nat)              -- `qout.put(emitq[k])`
  | deliver
  deriving Repr, DecidableEq

def init : State :=
  { qin := [], cat := [], pend := [], mout := [], emitq := [], qout := [], recv := [], sentG := [] }

def lookup (u : Nat) (cat : List (Nat × Entry)) : Option Entry := (cat.find? (·.1 = u)).map (·.2)
def erase (u : Nat) (cat : List (Nat × Entry)) : List (Nat × Entry) := cat.filter (·.1 ≠ u)
/-- `catalog[u] = e` -/
def insert (u : Nat) (e : Entry) (cat : List (Nat × Entry)) : List (Nat × Entry) := (u, e) :: erase u cat

/-- `ms` = allowed-outcome function of every member (in member order), `ff` = `fail_fast` -/
def step (ms : List (Val → List Val)) (ff : Bool) (s : State) : Act → Option State
  | .arrive m => some { s with qin := s.qin ++ [m] }
  | .enq =>
    match s.qin with
    | (u, x) :: rest =>
      if x.isExc then
        some { s with qin := rest, recv := s.recv ++ [(u, x)], emitq := s.emitq ++ [(u, x, x)] }
      else
        some { s with qin := rest, recv := s.recv ++ [(u, x)],
                      cat := insert u { x := x, ys := List.replicate ms.length .none, n := 0 } s.cat,
                      pend := s.pend ++ (List.range ms.length).map (fun i => (i, (u, x))) }
    | [] => .none
  | .memberOut k y =>
    match s.pend[k]? with
    | some (i, (u, x)) =>
      if y ∈ (ms.getD i (fun _ => [])) x then
        some { s with pend := s.pend.eraseIdx k, mout := s.mout ++ [(i, (u, y))] }
      else .none
    | .none => .none
  | .deq k =>
    match s.mout[k]? with
    | some (i, (u, y)) =>
      if (s.mout.take k).all (fun m => m.1 ≠ i) then
        match lookup u s.cat with
        | .none => some { s with mout := s.mout.eraseIdx k }        -- entry removed by fail-fast: ignored
        | some e =>
          let ys := e.ys.set i (some y)
          let n := e.n + 1
          if ff ∧ y.isExc then
            some { s with mout := s.mout.eraseIdx k, cat := erase u s.cat,
                          emitq := s.emitq ++ [(u, e.x, ensErr ys n)] }
          else if n = ms.length then
            let r := ensFull (ys.map (·.getD .none))
            some { s with mout := s.mout.eraseIdx k, cat := erase u s.cat, emitq := s.emitq ++ [(u, e.x, r)] }
          else
            some { s with mout := s.mout.eraseIdx k, cat := insert u { e with ys := ys, n := n } s.cat }
      else .none
    | .none => .none
  | .emit k =>
    match s.emitq[k]? with
    | some t => some { s with emitq := s.emitq.eraseIdx k, qout := s.qout ++ [gmsg t], sentG := s.sentG ++ [t] }
    | .none => .none
  | .deliver =>
    match s.qout with
    | _ :: rest => some { s with qout := rest }
    | [] => .none

def Quiescent (s : State) : Prop := s.qin = [] ∧ s.pend = [] ∧ s.mout = [] ∧ s.emitq = []

instance (s : State) : Decidable (Quiescent s) := by unfold Quiescent; exact inferInstance

end Ens

/-! ## Switch servlet -/

namespace Sw

structure State where
  qin : List Msg
  pend : List (Nat × Msg)      -- (member index, message handed to that member and not yet answered)
  emitq : List GMsg            -- exception the enqueue thread is about to short-circuit to `q_out`
  qout : List Msg              -- shared by the enqueue thread (short-circuit) and all members
  recv : List Msg
  sentG : List GMsg
  switched : List Val          -- history: the arguments `switch` was called with
  deriving Repr, DecidableEq

inductive Act where
  | arrive (m : Msg)
  | enq
  | memberOut (k : Nat) (y : Val)   -- the member holding `pend[k]` puts its answer `y` on the shared `q_out`
  | emit (k : Nat)
  | deliver
  deriving Repr, DecidableEq

def init : State := { qin := [], pend := [], emitq := [], qout := [], recv := [], sentG := [], switched := [] }

def step (ms : List (Val → List Val)) (sel : Val → Nat) (s : State) : Act → Option State
  | .arrive m => some { s with qin := s.qin ++ [m] }
  | .enq =>
    match s.qin with
    | (u, x) :: rest =>
      if x.isExc then
        some { s with qin := rest, recv := s.recv ++ [(u, x)], emitq := s.emitq ++ [(u, x, x)] }
      else if sel x < ms.length then
        some { s with qin := rest, recv := s.recv ++ [(u, x)], pend := s.pend ++ [(sel x, (u, x))],
                      switched := s.switched ++ [x] }
      else .none     -- `qins[idx]` raises IndexError: the enqueue thread dies (excluded: `switch` must return a member index)
    | [] => .none
  | .memberOut k y =>
    match s.pend[k]? with
    | some (i, (u, x)) =>
      if y ∈ (ms.getD i (fun _ => [])) x then
        some { s with pend := s.pend.eraseIdx k, qout := s.qout ++ [(u, y)], sentG := s.sentG ++ [(u, x, y)] }
      else .none
    | .none => .none
  | .emit k =>
    match s.emitq[k]? with
    | some t => some { s with emitq := s.emitq.eraseIdx k, qout := s.qout ++ [gmsg t], sentG := s.sentG ++ [t] }
    | .none => .none
  | .deliver =>
    match s.qout with
    | _ :: rest => some { s with qout := rest }
    | [] => .none

def Quiescent (s : State) : Prop := s.qin = [] ∧ s.pend = [] ∧ s.emitq = []

instance (s : State) : Decidable (Quiescent s) := by unfold Quiescent; exact inferInstance

end Sw

/-! ## Trees and their denotation -/

inductive Tree where
  | worker (w : WSpec)
  | seq (ts : List Tree)
  | ens (ts : List Tree) (ff : Bool)
  | switch (ts : List Tree) (sel : Val → Nat)

mutual
/-- allowed outcomes of a request with input `x` -/
def outs : Tree → Val → List Val
  | .worker w, x => wouts w x
  | .seq ts, x => outsSeq ts x
  | .ens ts ff, x => if x.isExc then [x] else ensOuts ff (outsEach ts x)
  | .switch ts sel, x => if x.isExc then [x] else outsNth ts (sel x) x
/-- sequential composition (no short-circuit of its own: every stage short-circuits by itself) -/
def outsSeq : List Tree → Val → List Val
  | [], x => [x]
  | t :: ts, x => (outs t x).flatMap (fun y => outsSeq ts y)
def outsEach : List Tree → Val → List (List Val)
  | [], _ => []
  | t :: ts, x => outs t x :: outsEach ts x
def outsNth : List Tree → Nat → Val → List Val
  | [], _, _ => []
  | t :: _, 0, x => outs t x
  | _ :: ts, n+1, x => outsNth ts n x
end

end Servlet
