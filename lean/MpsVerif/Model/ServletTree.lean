import MpsVerif.Model.Servlet
/-!
# Whole servlet trees: concrete behaviours as boundary traces

`Model/Servlet.lean` gives the operational model of each node kind with the members of an
ensemble / switch abstracted as *contract boxes*.  Here the abstraction is removed: a member is an
**arbitrary** environment (it may answer with any value, answer twice, answer what it never
received — the `junk` action), and a behaviour of a whole tree is defined by structural recursion:
a run of the root node with unconstrained members such that what each member saw and did at its own
boundary is, recursively, a behaviour of that member subtree.

* `Ev` — an event at a node boundary: `inp m` = `m` is put on the node's input queue, `out m` = the
  node puts `m` on its output queue.  A boundary trace is a `List Ev` in temporal order.
* `Sat o σ` — the trace contract: every `out (u, y)` is preceded by an `inp (u, x)` with `y ∈ o x`
  and by no other `out` for `u`.
* `WkL`, `EnsL`, `SwL` — the node models of `Model/Servlet.lean` wrapped with ghost traces: `tr`
  (own boundary) and `mtr` (the boundary of every member: `(i, inp m)` when the node hands `m` to
  member `i`, `(i, out m)` when member `i` answers `m`).  The wrapped step functions call the very
  step functions of `Model/Servlet.lean`; the member guard is switched off by instantiating the
  member outcome lists with the value actually answered.
* `Tr t σ` — `σ` is a boundary trace of the concrete tree `t`.  Sequences are wired through a joint
  trace over `Ev3` (external input / message on the connecting queue / external output): the output
  queue of a stage IS the input queue of the next (`SequentialServlet.start`).

`Proofs/ServletLift.lean`: `Tr t σ → distinct input uids → Sat (outs t) σ`, for every tree.
-/
namespace Servlet

inductive Ev where
  | inp (m : Msg)
  | out (m : Msg)
  deriving Repr, DecidableEq

def Ev.inpOf : Ev → Option Msg
  | .inp m => some m
  | .out _ => .none

def Ev.outOf : Ev → Option Msg
  | .out m => some m
  | .inp _ => .none

/-- the uids put on the input queue are pairwise distinct -/
def DistinctIn (σ : List Ev) : Prop := ((σ.filterMap Ev.inpOf).map (·.1)).Nodup

/-- the trace contract -/
inductive Sat (o : Val → List Val) : List Ev → Prop where
  | nil : Sat o []
  | inp (σ : List Ev) (m : Msg) : Sat o σ → Sat o (σ ++ [.inp m])
  | out (σ : List Ev) (u : Nat) (x y : Val) : Sat o σ → Ev.inp (u, x) ∈ σ → y ∈ o x →
      (∀ y', Ev.out (u, y') ∉ σ) → Sat o (σ ++ [.out (u, y)])

/-- what member `i` saw and did -/
def proj (i : Nat) (mtr : List (Nat × Ev)) : List Ev := (mtr.filter (fun e => e.1 = i)).map (·.2)

/-! ## simple servlet with its boundary trace -/
namespace WkL

structure State where
  core : Wk.State
  tr : List Ev

def init : State := { core := Wk.init, tr := [] }

def step (w : WSpec) (s : State) (a : Wk.Act) : Option State :=
  match Wk.step w s.core a with
  | .none => .none
  | some c =>
    match a with
    | .arrive m => some { core := c, tr := s.tr ++ [.inp m] }
    | .emit k =>
      match s.core.emitq[k]? with
      | some t => some { core := c, tr := s.tr ++ [.out (gmsg t)] }
      | .none => .none
    | _ => some { core := c, tr := s.tr }

end WkL

/-- member outcome lists that make the member guard of the node models vacuous for the answer `y` -/
def anyMs (nn : Nat) (y : Val) : List (Val → List Val) := List.replicate nn (fun _ => [y])

/-! ## ensemble with arbitrary members -/
namespace EnsL

structure State where
  core : Ens.State
  tr : List Ev
  mtr : List (Nat × Ev)

inductive Act where
  | node (a : Ens.Act)
  | junk (i : Nat) (m : Msg)     -- member `i` puts a message on its output queue that answers nothing it holds

def init : State := { core := Ens.init, tr := [], mtr := [] }

def step (nn : Nat) (ff : Bool) (s : State) : Act → Option State
  | .node (.arrive m) =>
    (Ens.step (anyMs nn .nil) ff s.core (.arrive m)).map (fun c => { s with core := c, tr := s.tr ++ [.inp m] })
  | .node .enq =>
    match s.core.qin with
    | (u, x) :: _ =>
      (Ens.step (anyMs nn .nil) ff s.core .enq).map (fun c =>
        { s with core := c,
                 mtr := s.mtr ++ (if x.isExc then [] else (List.range nn).map (fun i => (i, Ev.inp (u, x)))) })
    | [] => .none
  | .node (.memberOut k y) =>
    match s.core.pend[k]? with
    | some (i, (u, _)) =>
      (Ens.step (anyMs nn y) ff s.core (.memberOut k y)).map (fun c =>
        { s with core := c, mtr := s.mtr ++ [(i, .out (u, y))] })
    | .none => .none
  | .node (.deq k) => (Ens.step (anyMs nn .nil) ff s.core (.deq k)).map (fun c => { s with core := c })
  | .node (.emit k) =>
    match s.core.emitq[k]? with
    | some t =>
      (Ens.step (anyMs nn .nil) ff s.core (.emit k)).map (fun c => { s with core := c, tr := s.tr ++ [.out (gmsg t)] })
    | .none => .none
  | .node .deliver => (Ens.step (anyMs nn .nil) ff s.core .deliver).map (fun c => { s with core := c })
  | .junk i m =>
    if i < nn ∧ s.core.pend.all (fun p => !(p.1 = i ∧ p.2.1 = m.1)) then
      some { s with core := { s.core with mout := s.core.mout ++ [(i, m)] }, mtr := s.mtr ++ [(i, .out m)] }
    else .none

end EnsL

/-! ## switch with arbitrary members (they put on the shared output queue) -/
namespace SwL

structure State where
  core : Sw.State
  tr : List Ev
  mtr : List (Nat × Ev)

inductive Act where
  | node (a : Sw.Act)
  | junk (i : Nat) (m : Msg)

def init : State := { core := Sw.init, tr := [], mtr := [] }

def step (nn : Nat) (sel : Val → Nat) (s : State) : Act → Option State
  | .node (.arrive m) =>
    (Sw.step (anyMs nn .nil) sel s.core (.arrive m)).map (fun c => { s with core := c, tr := s.tr ++ [.inp m] })
  | .node .enq =>
    match s.core.qin with
    | (u, x) :: _ =>
      (Sw.step (anyMs nn .nil) sel s.core .enq).map (fun c =>
        { s with core := c, mtr := s.mtr ++ (if x.isExc then [] else [(sel x, Ev.inp (u, x))]) })
    | [] => .none
  | .node (.memberOut k y) =>
    match s.core.pend[k]? with
    | some (i, (u, _)) =>
      (Sw.step (anyMs nn y) sel s.core (.memberOut k y)).map (fun c =>
        { s with core := c, tr := s.tr ++ [.out (u, y)], mtr := s.mtr ++ [(i, .out (u, y))] })
    | .none => .none
  | .node (.emit k) =>
    match s.core.emitq[k]? with
    | some t =>
      (Sw.step (anyMs nn .nil) sel s.core (.emit k)).map (fun c => { s with core := c, tr := s.tr ++ [.out (gmsg t)] })
    | .none => .none
  | .node .deliver => (Sw.step (anyMs nn .nil) sel s.core .deliver).map (fun c => { s with core := c })
  | .junk i m =>
    if i < nn ∧ s.core.pend.all (fun p => !(p.1 = i ∧ p.2.1 = m.1)) then
      some { s with core := { s.core with qout := s.core.qout ++ [m] }, tr := s.tr ++ [.out m],
                    mtr := s.mtr ++ [(i, .out m)] }
    else .none

end SwL

/-! ## sequences: joint traces -/

inductive Ev3 where
  | extIn (m : Msg)      -- put on the input queue of the first stage
  | mid (m : Msg)        -- put by the first stage on the queue it shares with the rest
  | extOut (m : Msg)     -- put by the last stage on the output queue
  deriving Repr, DecidableEq

/-- the first stage's view -/
def pA : List Ev3 → List Ev
  | [] => []
  | .extIn m :: τ => .inp m :: pA τ
  | .mid m :: τ => .out m :: pA τ
  | .extOut _ :: τ => pA τ

/-- the view of the rest of the sequence -/
def pB : List Ev3 → List Ev
  | [] => []
  | .extIn _ :: τ => pB τ
  | .mid m :: τ => .inp m :: pB τ
  | .extOut m :: τ => .out m :: pB τ

/-- the view from outside -/
def pE : List Ev3 → List Ev
  | [] => []
  | .extIn m :: τ => .inp m :: pE τ
  | .mid _ :: τ => pE τ
  | .extOut m :: τ => .out m :: pE τ

/-! ## behaviours of a concrete tree -/

mutual
def Tr : Tree → List Ev → Prop
  | .worker w, σ => ∃ as s, Core.run (WkL.step w) WkL.init as = some s ∧ s.tr = σ
  | .seq ts, σ => TrSeq ts σ
  | .ens ts ff, σ =>
    ∃ as s, Core.run (EnsL.step ts.length ff) EnsL.init as = some s ∧ s.tr = σ ∧ TrAll ts 0 s.mtr
  | .switch ts sel, σ =>
    ∃ as s, Core.run (SwL.step ts.length sel) SwL.init as = some s ∧ s.tr = σ ∧ TrAll ts 0 s.mtr
/-- member `i + k` of the list behaves like the k-th tree -/
def TrAll : List Tree → Nat → List (Nat × Ev) → Prop
  | [], _, _ => True
  | t :: ts, i, mtr => Tr t (proj i mtr) ∧ TrAll ts (i + 1) mtr
def TrSeq : List Tree → List Ev → Prop
  | [], _ => False                      -- `SequentialServlet` asserts at least one member
  | [t], σ => Tr t σ
  | t :: t' :: ts, σ => ∃ τ, Tr t (pA τ) ∧ TrSeq (t' :: ts) (pB τ) ∧ σ = pE τ
end

/-! ## behaviours that have come to rest

Every real queue of the tree is empty, nothing is held by a worker, no call is running, nothing is
waiting to be put on an output queue.  (The ghost list `pend` of the ensemble / switch is NOT part of
the definition: that it is empty follows from the members being at rest.) -/

mutual
def TrQ : Tree → List Ev → Prop
  | .worker w, σ => ∃ as s, Core.run (WkL.step w) WkL.init as = some s ∧ s.tr = σ ∧ Wk.Quiescent s.core
  | .seq ts, σ => TrQSeq ts σ
  | .ens ts ff, σ =>
    ∃ as s, Core.run (EnsL.step ts.length ff) EnsL.init as = some s ∧ s.tr = σ ∧
      s.core.qin = [] ∧ s.core.mout = [] ∧ s.core.emitq = [] ∧ TrQAll ts 0 s.mtr
  | .switch ts sel, σ =>
    ∃ as s, Core.run (SwL.step ts.length sel) SwL.init as = some s ∧ s.tr = σ ∧
      s.core.qin = [] ∧ s.core.emitq = [] ∧ TrQAll ts 0 s.mtr
def TrQAll : List Tree → Nat → List (Nat × Ev) → Prop
  | [], _, _ => True
  | t :: ts, i, mtr => TrQ t (proj i mtr) ∧ TrQAll ts (i + 1) mtr
def TrQSeq : List Tree → List Ev → Prop
  | [], _ => False
  | [t], σ => TrQ t σ
  | t :: t' :: ts, σ => ∃ τ, TrQ t (pA τ) ∧ TrQSeq (t' :: ts) (pB τ) ∧ σ = pE τ
end

end Servlet
