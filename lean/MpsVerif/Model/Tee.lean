/-!
# Model of `tee` (src/mpservice/streamer/_tee.py, `Fork.__next__`, repaired code: fixes F8, F9, F10)

`tee(instream, n, buffer_size=bs)` returns `n` forks that share: the source iterator, the source
lock `instream_lock`, the cell `head` holding the first element box, a chain of element boxes
(`TeeX`: value, `next` pointer, consumption count `n`, a lock per box) and the bounded window
`buffer` (`queue.Queue(bs)`) of the boxes not yet consumed by every fork.

The model has **one action per access of `Fork.__next__` to shared state**, in program order, so a
schedule that preempts a fork between any two lines of `__next__` is an action list of the model:

```
call    consumer calls next(fork)                      `if self.next is None`
hget    read  head.value        (at `if head.value is None`, `while head.value is None`,
                                 the re-check under the lock, and `self.next = head.value`)
acqOk / acqFail   instream_lock.acquire(timeout=0.1) returned True / False (timed retry)
pull / srcEnd / srcExc   next(instream) returned an element / raised StopIteration / raised
put     buffer.put(box)         (blocks while the window holds `bs` boxes)
hset    head.value = box
rel     instream_lock.release() (in the `finally:` of the repaired code)
nget    read  box.next          (at `while self.next.next is None`, the re-check under the
                                 lock, and `self.next = box.next`)
nset    self.next.next = box    (link the new box BEFORE putting it into the window)
bacq / brel   `with box.lock:`
ncmp    read  box.n             (the read half of `box.n += 1`, and the test `box.n == n_forks`)
inc     write box.n             (the write half of `box.n += 1`: the value read, plus one)
get     buffer.get()            (the last fork to consume a box pops the window)
recv / exc / stop   `__next__` returned an element / raised the source's exception / raised
                    StopIteration to the consumer
```

Boxes are identified by their creation index (= pull order): box `j < len` carries element `j`;
box `len` is the terminal box carrying the source's exception (`is_exc`), created only if the
source plan says `fail`.  The chain is a counter: `linked` boxes are reachable from `head`
(`linked = 0` means `head.value is None`; `box j .next is None` iff `linked ≤ j+1`).  The window
is two counters (`put`, `popped`), its content is the boxes `[popped, put)`.

Source plan (`Cfg`): `len` elements, then exhaustion (`fail = false`, every further pull answers
StopIteration again — the iterator protocol) or one exception (`fail = true`; a source that has
raised is dead: the model has NO pull action for it, see `C10_pull_once`).

Every nondeterministic choice is the action label (which fork moves).  Ghost fields: `inc`
(boxes a fork has counted), `out`, `fin`, `endPulls`.

Assumed (trusted base): `queue.Queue(bs)` is a FIFO that blocks `put` at `bs` items;
`threading.Lock` is a mutex whose timed acquire returns False only while it is held; a single
read or write of an attribute is atomic (no atomicity of whole source lines is assumed: every
action is ONE shared access, also inside `box.n += 1`); the consumer stops calling `next` after the first StopIteration/exception.
-/
namespace Tee

structure Cfg where
  n : Nat        -- number of forks
  bs : Nat       -- buffer_size
  len : Nat      -- number of elements the source yields
  fail : Bool    -- after `len` elements: the source raises (true) / is exhausted (false)

inductive Fin where
  | stop | exc
  deriving DecidableEq, Repr

inductive Pc where
  | idle | chkHead | hLoop | hAcq | hChk | hPull | hPut | hSet | hRel | hRelStop | hNext
  | wLoop | wAcq | wChk | wPull | wLink | wPut | wRel
  | bAcq | bInc | bIncW | bCmp | bGet | bRel | adv
  | ret (j : Nat) | retExc | retStop | done
  deriving DecidableEq, Repr

structure Fork where
  pc : Pc
  cur : Option Nat     -- `self.next`: the box this fork will consume next
  st : Bool            -- `self._state == 1`
  inc : Nat            -- ghost: number of boxes this fork has counted (`box.n += 1`)
  tmp : Nat            -- the value of `box.n` read by `box.n += 1` (between its read and its write)
  out : List Nat       -- ghost: elements handed to the consumer, oldest first
  fin : Option Fin     -- ghost: how the fork ended
  deriving DecidableEq, Repr

structure State where
  forks : Nat → Fork
  pulled : Nat         -- elements obtained from the source (= source position)
  raised : Bool        -- the source has raised its exception
  endPulls : Nat       -- ghost: pulls answered by StopIteration
  boxes : Nat          -- `TeeX` objects created
  linked : Nat         -- boxes reachable from `head` (0: `head.value is None`)
  put : Nat            -- boxes put into the window so far
  popped : Nat         -- boxes popped from the window so far
  cnt : Nat → Nat      -- `box.n` of box j
  lock : Option Nat    -- holder of `instream_lock`

inductive Kind where
  | call | hget | acqOk | acqFail | pull | srcEnd | srcExc | put | hset | rel
  | nget | nset | bacq | inc | ncmp | get | brel | recv | exc | stop
  deriving DecidableEq, Repr

structure Act where
  f : Nat
  k : Kind
  deriving DecidableEq, Repr

def fork0 : Fork := { pc := .idle, cur := none, st := false, inc := 0, tmp := 0, out := [], fin := none }

def init : State :=
  { forks := fun _ => fork0, pulled := 0, raised := false, endPulls := 0, boxes := 0, linked := 0,
    put := 0, popped := 0, cnt := fun _ => 0, lock := none }

/-- box `j` is the terminal box carrying the source's exception -/
def isExc (c : Cfg) (j : Nat) : Bool := decide (c.len ≤ j)

/-- fork `fk` is inside `with box.lock:` of box `j` -/
def holdsBox (fk : Fork) (j : Nat) : Bool :=
  fk.cur == some j && (fk.pc == .bInc || fk.pc == .bIncW || fk.pc == .bCmp || fk.pc == .bGet || fk.pc == .bRel)

/-- no fork other than `f` is inside `with box.lock:` of box `j` -/
def boxFree (c : Cfg) (s : State) (f j : Nat) : Bool :=
  (List.range c.n).all (fun g => g == f || !holdsBox (s.forks g) j)

def setFork (s : State) (f : Nat) (fk : Fork) : State :=
  { s with forks := fun g => if g = f then fk else s.forks g }

/-- the step of fork `f` (with local state `fk`) for the access kind `k` -/
def stepF (c : Cfg) (s : State) (f : Nat) (fk : Fork) : Kind → Option State
  | .call =>
    match fk.pc with
    | .idle => some (setFork s f { fk with pc := if fk.cur = none then .chkHead else .wLoop })
    | _ => none
  | .hget =>
    match fk.pc with
    | .chkHead =>
      some (setFork s f { fk with pc := if s.linked = 0 then .hLoop else if fk.st = false then .hNext else .retStop })
    | .hLoop => some (setFork s f { fk with pc := if s.linked = 0 then .hAcq else .hNext })
    | .hChk => some (setFork s f { fk with pc := if s.linked = 0 then .hPull else .hRel })
    | .hNext => if 0 < s.linked then some (setFork s f { fk with pc := .wLoop, cur := some 0 }) else none
    | _ => none
  | .acqOk =>
    if s.lock = none then
      match fk.pc with
      | .hAcq => some { setFork s f { fk with pc := .hChk } with lock := some f }
      | .wAcq => some { setFork s f { fk with pc := .wChk } with lock := some f }
      | _ => none
    else none
  | .acqFail =>
    if s.lock.isSome then
      match fk.pc with
      | .hAcq => some (setFork s f { fk with pc := .hLoop })
      | .wAcq => some (setFork s f { fk with pc := .wLoop })
      | _ => none
    else none
  | .pull =>
    if s.pulled < c.len ∧ s.raised = false then
      match fk.pc with
      | .hPull => some { setFork s f { fk with pc := .hPut } with pulled := s.pulled + 1, boxes := s.boxes + 1 }
      | .wPull => some { setFork s f { fk with pc := .wLink } with pulled := s.pulled + 1, boxes := s.boxes + 1 }
      | _ => none
    else none
  | .srcEnd =>
    if s.pulled = c.len ∧ c.fail = false then
      match fk.pc with
      | .hPull => some { setFork s f { fk with pc := .hRelStop } with endPulls := s.endPulls + 1 }
      | .wPull => some { setFork s f { fk with pc := .wRel } with endPulls := s.endPulls + 1 }
      | _ => none
    else none
  | .srcExc =>
    if s.pulled = c.len ∧ c.fail = true ∧ s.raised = false then
      match fk.pc with
      | .hPull => some { setFork s f { fk with pc := .hPut } with raised := true, boxes := s.boxes + 1 }
      | .wPull => some { setFork s f { fk with pc := .wLink } with raised := true, boxes := s.boxes + 1 }
      | _ => none
    else none
  | .put =>
    if s.put < s.popped + c.bs then
      match fk.pc with
      | .hPut => some { setFork s f { fk with pc := .hSet } with put := s.put + 1 }
      | .wPut => some { setFork s f { fk with pc := .wRel } with put := s.put + 1 }
      | _ => none
    else none
  | .hset =>
    match fk.pc with
    | .hSet => some { setFork s f { fk with pc := .hRel } with linked := 1 }
    | _ => none
  | .rel =>
    if s.lock = some f then
      match fk.pc with
      | .hRel => some { setFork s f { fk with pc := .hLoop } with lock := none }
      | .hRelStop => some { setFork s f { fk with pc := .retStop } with lock := none }
      | .wRel => some { setFork s f { fk with pc := .bAcq } with lock := none }
      | _ => none
    else none
  | .nget =>
    match fk.cur with
    | none => none
    | some j =>
      match fk.pc with
      | .wLoop =>
        some (setFork s f { fk with pc := if j + 1 < s.linked then .bAcq else if isExc c j then .bAcq else .wAcq })
      | .wChk => some (setFork s f { fk with pc := if j + 1 < s.linked then .wRel else .wPull })
      | .adv =>
        some (setFork s f { fk with pc := if isExc c j then .retExc else .ret j, st := true,
                                    cur := if j + 1 < s.linked then some (j + 1) else none })
      | _ => none
  | .nset =>
    match fk.cur, fk.pc with
    | some j, .wLink => some { setFork s f { fk with pc := .wPut } with linked := j + 2 }
    | _, _ => none
  | .bacq =>
    match fk.cur, fk.pc with
    | some j, .bAcq => if boxFree c s f j then some (setFork s f { fk with pc := .bInc }) else none
    | _, _ => none
  | .inc =>
    match fk.cur, fk.pc with
    | some j, .bIncW =>
      some { setFork s f { fk with pc := .bCmp, inc := fk.inc + 1 } with
             cnt := fun i => if i = j then fk.tmp + 1 else s.cnt i }
    | _, _ => none
  | .ncmp =>
    match fk.cur, fk.pc with
    | some j, .bInc => some (setFork s f { fk with pc := .bIncW, tmp := s.cnt j })
    | some j, .bCmp => some (setFork s f { fk with pc := if s.cnt j = c.n then .bGet else .bRel })
    | _, _ => none
  | .get =>
    if s.popped < s.put then
      match fk.pc with
      | .bGet => some { setFork s f { fk with pc := .bRel } with popped := s.popped + 1 }
      | _ => none
    else none
  | .brel =>
    match fk.pc with
    | .bRel => some (setFork s f { fk with pc := .adv })
    | _ => none
  | .recv =>
    match fk.pc with
    | .ret j => some (setFork s f { fk with pc := .idle, out := fk.out ++ [j] })
    | _ => none
  | .exc =>
    match fk.pc with
    | .retExc => some (setFork s f { fk with pc := .done, fin := some .exc })
    | _ => none
  | .stop =>
    match fk.pc with
    | .retStop => some (setFork s f { fk with pc := .done, fin := some .stop })
    | _ => none

def step (c : Cfg) (s : State) (a : Act) : Option State :=
  if a.f < c.n then stepF c s a.f (s.forks a.f) a.k else none

/-- every fork has ended -/
def Final (c : Cfg) (s : State) : Prop := ∀ f, f < c.n → (s.forks f).pc = .done

instance (c : Cfg) (s : State) : Decidable (Final c s) := by unfold Final; exact inferInstance

def allKinds : List Kind :=
  [.call, .hget, .acqOk, .acqFail, .pull, .srcEnd, .srcExc, .put, .hset, .rel,
   .nget, .nset, .bacq, .inc, .ncmp, .get, .brel, .recv, .exc, .stop]

/-- the timed lock retry loop: re-reading the loop condition while it is still unmet and the
    timed-out acquire.  These are the only steps that do not make progress (stutter steps). -/
def isSpin (c : Cfg) (s : State) (a : Act) : Bool :=
  let fk := s.forks a.f
  match a.k, fk.pc with
  | .hget, .hLoop => s.linked == 0
  | .acqFail, .hAcq => s.linked == 0
  | .nget, .wLoop =>
    match fk.cur with
    | some j => !(decide (j + 1 < s.linked)) && !isExc c j
    | none => false
  | .acqFail, .wAcq =>
    match fk.cur with
    | some j => !(decide (j + 1 < s.linked)) && !isExc c j
    | none => false
  | _, _ => false

end Tee
