/-!
# Model of the "wait for room" protocol of `Server._enqueue` / `AsyncServer._enqueue`

```
src/mpservice/mpserver/_server.py  (sync; the async variant is the same with asyncio.Condition / wait_for)
338  with self._pipeline_notfull:
339      while len(pipeline) >= self._capacity and not self._stopped:     # take | park
342          if backpressure: raise ServerBacklogFull(len(pipeline))
344          t = timeout * 0.99 - (perf_counter() - t0)
345          if t <= 0 or not self._pipeline_notfull.wait(t):             # bounce | wokenLeave | (expire) leaveWait
                 self._pipeline_notfull.notify()                          # passOn      (repair 8b5ca7e, F44)
346              raise ServerBacklogFull(len(pipeline), ...)              # (pinned code: giveUp)
351      pipeline[uid] = fut                                              # take / wokenTake
_gather_output:
     fut = pipeline.pop(uid)                                              # pop
     ...
     q_notify.put(1)                                                      # post
notify():  with pipeline_notfull: pipeline_notfull.notify()               # notify
```

Callers are interchangeable, so the state counts them by where they are.  **One** notification is issued per
freed slot.  Two facts about the condition variables are modelled as they are in the interpreter's library:

* `threading.Condition.wait(t)` (CPython `Lib/threading.py`): when the timed wait expires the waiter first takes the
  lock back and leaves the waiters' list only then, so `notify()` can still pick a waiter that has already decided
  to report a time-out (`notify .x`: `x → nx`);
* `asyncio.Condition.wait` inside `wait_for` (Python < 3.12.2, CPython gh-112202): the time-out may cancel a task
  whose waiter future has just been resolved by `notify()` (`raceFire`: `nt → nx`).

In both cases a caller holding a notification leaves with `ServerBacklogFull`.  The pinned code then simply raised
(`giveUp`); the repaired code calls `notify()` first (`passOn`).  Every choice (who moves, when a timer fires, whom
a `notify()` picks) is an action.

Not modelled: `_stopped` / `__exit__` (`notify_all`, F42), backpressure rejections (they touch nothing), the time
budget of a caller (a notified caller may give up whenever: `wokenLeave`, `bounce` carry no guard on the ledger
size, because `AsyncServer._enqueue` finds the server full, goes through `wait_for(…, <= 0)` - which yields to the
loop - and calls `notify()` only afterwards, when the ledger may have changed).
-/
namespace Wakeup

structure Cfg where
  cap : Nat
  /-- repaired code: a caller that leaves its wait for room calls `notify()` before it raises -/
  passOn : Bool := true
  deriving Repr, DecidableEq

structure State where
  n : Nat := 0    -- size of the ledger (`len(pipeline)`, the backlog)
  w : Nat := 0    -- callers parked in `wait`: not notified, wait not expired
  x : Nat := 0    -- callers whose timed wait has expired; still in the waiters' list (lock not yet taken back)
  nt : Nat := 0   -- callers that hold a notification and have not re-checked yet
  nx : Nat := 0   -- callers that hold a notification AND have timed out (they will report the time-out)
  p : Nat := 0    -- callers out of `wait` with a time-out (or out of budget), lock held, about to raise
  g : Nat := 0    -- ledger entries removed by the gather thread whose notification is not queued yet
  t : Nat := 0    -- queued notifications
  deriving Repr, DecidableEq, Hashable

/-- whom a `notify()` wakes: nobody (no waiter in the list), a parked waiter, an expired one -/
inductive Pick where
  | none | w | x
  deriving Repr, DecidableEq, Hashable

inductive Act where
  | take                      -- a caller finds room at once and inserts its ledger entry
  | park                      -- a caller finds the server full and waits
  | expire                    -- the timed wait of a parked caller expires
  | raceFire                  -- (asyncio) the time-out cancels a caller that has just been notified
  | pop                       -- gather thread: a result emerges, its ledger entry is removed
  | post                      -- gather thread: the notification for that slot is queued
  | notify (k : Pick)         -- notification thread / `notify()` coroutine
  | wokenTake                 -- a notified caller re-checks and takes the slot
  | wokenPark                 -- a notified caller re-checks, finds the server full again and waits again
  | wokenLeave                -- … or has no time left
  | leaveWait (raced : Bool)  -- an expired caller takes the lock back and leaves the list; `wait` returns False
  | passOn (k : Pick)         -- repaired code: `notify()` by the leaving caller, then `raise ServerBacklogFull`
  | giveUp                    -- pinned code: `raise ServerBacklogFull` at once
  | bounce (k : Pick)         -- repaired code: a caller with no time left finds the server full: `notify()`, raise
  deriving Repr, DecidableEq, Hashable

def init : State := {}

/-- the effect of one `notify()`.  It wakes nobody only if nobody is parked (`asyncio.Condition.notify` skips the
    waiters whose future is already cancelled, i.e. the expired ones; `threading.Condition.notify` would pick one of
    them - `Pick.x` - if there is one: the model allows both). -/
def wake (s : State) : Pick → Option State
  | .none => if s.w = 0 then some s else none
  | .w => if 0 < s.w then some { s with w := s.w - 1, nt := s.nt + 1 } else none
  | .x => if 0 < s.x then some { s with x := s.x - 1, nx := s.nx + 1 } else none

def step (c : Cfg) (s : State) : Act → Option State
  | .take => if s.n < c.cap then some { s with n := s.n + 1 } else none
  | .park => if c.cap ≤ s.n then some { s with w := s.w + 1 } else none
  | .expire => if 0 < s.w then some { s with w := s.w - 1, x := s.x + 1 } else none
  | .raceFire => if 0 < s.nt then some { s with nt := s.nt - 1, nx := s.nx + 1 } else none
  | .pop => if 0 < s.n then some { s with n := s.n - 1, g := s.g + 1 } else none
  | .post => if 0 < s.g then some { s with g := s.g - 1, t := s.t + 1 } else none
  | .notify k => if 0 < s.t then wake { s with t := s.t - 1 } k else none
  | .wokenTake => if 0 < s.nt ∧ s.n < c.cap then some { s with nt := s.nt - 1, n := s.n + 1 } else none
  | .wokenPark => if 0 < s.nt ∧ c.cap ≤ s.n then some { s with nt := s.nt - 1, w := s.w + 1 } else none
  | .wokenLeave => if 0 < s.nt then some { s with nt := s.nt - 1, p := s.p + 1 } else none
  | .leaveWait false => if 0 < s.x then some { s with x := s.x - 1, p := s.p + 1 } else none
  | .leaveWait true => if 0 < s.nx then some { s with nx := s.nx - 1, p := s.p + 1 } else none
  | .passOn k => if c.passOn = true ∧ 0 < s.p then wake { s with p := s.p - 1 } k else none
  | .giveUp => if c.passOn = false ∧ 0 < s.p then some { s with p := s.p - 1 } else none
  | .bounce k => if c.passOn = true then wake s k else none

/-- the actions that need no outside event (no new caller, no result, no timer): the server's own bookkeeping -/
def internal : Act → Bool
  | .post | .notify _ | .wokenTake | .wokenPark | .wokenLeave | .leaveWait _ | .passOn _ | .giveUp => true
  | _ => false

/-- the bookkeeping has come to rest -/
def Quiescent (s : State) : Prop :=
  s.g = 0 ∧ s.t = 0 ∧ s.nt = 0 ∧ s.nx = 0 ∧ s.p = 0 ∧ s.x = 0

instance (s : State) : Decidable (Quiescent s) := by unfold Quiescent; infer_instance

end Wakeup
