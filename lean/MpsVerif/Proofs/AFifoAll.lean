import MpsVerif.Proofs.AFifoPool
import MpsVerif.Proofs.FifoLive
/-! All invariants of the `async_fifo_stream` model together, and the *outcome* of a complete
    iteration as a function of the configuration alone — proved for the async model here and for
    the synchronous `fifo_stream` model (`Fifo`) from its own invariants. -/
namespace AFifo
open Fifo (Cfg SrcEnd Raised)

structure AllInv (c : Cfg) (s : State) : Prop where
  ph : PhaseInv s
  pair : PairInv s
  ord : OrderInv s
  sup : SuppInv c s
  res : ResInv c s
  pool : PoolInv c s

theorem all_init (c : Cfg) : AllInv c init :=
  ⟨phase_init, pair_init, order_init, supp_init c, res_init c, pool_init c⟩

theorem all_step (c : Cfg) (s : State) (a : Act) (s' : State) (h : AllInv c s) (hs : Step c s a s') :
    AllInv c s' :=
  ⟨phase_step c s a s' h.ph hs, pair_step c s a s' h.pair hs, order_step c s a s' h.ph h.pair h.ord hs,
   supp_step c s a s' h.ph h.pair h.sup hs, res_step c s a s' h.ph h.pair h.ord h.sup h.res hs,
   pool_step c s a s' h.pool hs⟩

theorem all_reachable (c : Cfg) {s : State} (hr : Reachable c s) : AllInv c s :=
  reachable_inv c (all_init c) (all_step c) hr

/-! ## The outcome of a complete iteration, from the configuration alone -/

/-- element `j`'s outcome ends the iteration: it is an exception and exceptions are not returned -/
abbrev bad (c : Cfg) (j : Nat) : Prop := c.isErr j = true ∧ c.returnExc = false

theorem expectedLen_all (c : Cfg) (k i : Nat) (h : ∀ j, i ≤ j → j < i + k → ¬ bad c j) :
    Fifo.expectedLen c k i = k := by
  induction k generalizing i with
  | zero => rfl
  | succ k ih =>
    simp only [Fifo.expectedLen]
    have h0 : ¬ bad c i := h i (Nat.le_refl _) (by omega)
    rw [if_neg h0, ih (i+1) (fun j h1 h2 => h j (by omega) (by omega))]

theorem expectedLen_first (c : Cfg) (k i m : Nat) (h1 : i ≤ m) (h2 : m < i + k) (hb : bad c m)
    (h : ∀ j, i ≤ j → j < m → ¬ bad c j) : Fifo.expectedLen c k i = m - i := by
  induction k generalizing i with
  | zero => omega
  | succ k ih =>
    simp only [Fifo.expectedLen]
    by_cases him : i = m
    · subst him; rw [if_pos hb]; omega
    · have h0 : ¬ bad c i := h i (Nat.le_refl _) (by omega)
      rw [if_neg h0, ih (i+1) (by omega) (by omega) (fun j h1 h2 => h j (by omega) h2)]
      omega

/-- the outcome depends only on the input length, how the source ends, the failure plans and
    `return_exceptions` — not on capacity or concurrency -/
theorem expectedLen_congr (c1 c2 : Cfg) (hp : c1.preFail = c2.preFail) (hr : c1.resErr = c2.resErr)
    (he : c1.returnExc = c2.returnExc) (k i : Nat) : Fifo.expectedLen c1 k i = Fifo.expectedLen c2 k i := by
  induction k generalizing i with
  | zero => rfl
  | succ k ih =>
    simp only [Fifo.expectedLen]
    have e : bad c1 i ↔ bad c2 i := by simp [bad, Fifo.Cfg.isErr, hp, hr, he]
    by_cases h : bad c1 i
    · rw [if_pos h, if_pos (e.mp h)]
    · rw [if_neg h, if_neg (mt e.mpr h), ih]

theorem outcome_congr (c1 c2 : Cfg) (hn : c1.n = c2.n) (hs : c1.srcEnd = c2.srcEnd)
    (hp : c1.preFail = c2.preFail) (hr : c1.resErr = c2.resErr) (he : c1.returnExc = c2.returnExc) :
    outcome c1 = outcome c2 := by
  simp only [outcome, hn, hs, expectedLen_congr c1 c2 hp hr he]

/-- the three facts that pin down the outcome -/
theorem outcome_of_facts (c : Cfg) (len : Nat) (raised : Option Raised)
    (hok : ∀ j < len, ¬ bad c j)
    (h3 : ∀ i, raised = some (.item i) → i = len ∧ bad c i ∧ i < c.n)
    (h4 : raised = some .src → len = c.n ∧ c.srcEnd = .exc)
    (h5 : raised = none → len = c.n ∧ c.srcEnd = .clean) :
    (len, raised) = outcome c := by
  unfold outcome
  cases hr : raised with
  | none =>
    obtain ⟨a1, a2⟩ := h5 hr
    have := expectedLen_all c c.n 0 (fun j _ hj => hok j (by omega))
    simp [this, a1, a2]
  | some r =>
    cases r with
    | src =>
      obtain ⟨a1, a2⟩ := h4 hr
      have := expectedLen_all c c.n 0 (fun j _ hj => hok j (by omega))
      simp [this, a1, a2]
    | item i =>
      obtain ⟨a1, a2, a3⟩ := h3 i hr
      have := expectedLen_first c c.n 0 i (Nat.zero_le _) (by omega) a2 (fun j _ hj => hok j (by omega))
      simp [this, a1]
      omega

/-- async model: a complete iteration (not closed early) delivers `outcome c` -/
theorem final_outcome (c : Cfg) (s : State) (hr : Reachable c s) (hcl : s.cpc = .closed)
    (hnc : s.closeReq = false) : (s.out.length, s.raised) = outcome c := by
  obtain ⟨r1, r2, r3, r4, r5, r6⟩ := (all_reachable c hr).res
  apply outcome_of_facts
  · intro j hj hb
    have hm : dup j ∈ s.out := by rw [r1]; exact List.mem_map.mpr ⟨j, by simpa using hj, rfl⟩
    rcases (r2 _ hm).2 with h' | h'
    · simp [dup, hb.1] at h'
    · simp [hb.2] at h'
  · intro i hi
    obtain ⟨a1, a2, a3, a4, a5⟩ := r3 i hi
    exact ⟨a1, ⟨a3, a4⟩, a5⟩
  · exact r4
  · intro hn; exact r5 (by simp [hcl, CPc.over]) hn hnc

end AFifo

namespace Fifo

/-- synchronous model: a complete iteration (not closed early) delivers `outcome c` -/
theorem final_outcome (c : Cfg) (s : State) (hr : Reachable c s) (hcl : s.cpc = .closed)
    (hnc : s.closeReq = false) : (s.out.length, s.raised) = AFifo.outcome c := by
  obtain ⟨r1, r2, r3, r4, r5, r6⟩ := (all_reachable c hr).res
  apply AFifo.outcome_of_facts
  · intro j hj hb
    have hm : j ∈ s.out := by rw [r1]; simpa using hj
    rcases (r2 _ hm).2 with h' | h'
    · simp [hb.1] at h'
    · simp [hb.2] at h'
  · intro i hi
    obtain ⟨a1, a2, a3, a4, a5⟩ := r3 i hi
    exact ⟨a1, ⟨a3, a4⟩, a5⟩
  · exact r4
  · intro hn; exact r5 (Or.inr (Or.inr hcl)) hn hnc

end Fifo
