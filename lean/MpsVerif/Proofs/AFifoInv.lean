import MpsVerif.Proofs.AFifoStep
/-! Invariants of the `async_fifo_stream` model (same structure as `Proofs/FifoInv.lean`, plus the
    pairing invariant: the two components of every hand-off pair are the same index). -/
namespace AFifo
open Fifo (Cfg SrcEnd Raised)

def fIdx : FPc → List Nat
  | .check i => [i] | .sub i => [i] | .hold i => [i] | _ => []
def cIdx : CPc → List Nat
  | .wait x _ => [x] | _ => []
def qidx : List QItem → List Nat
  | [] => []
  | .item x _ :: r => x :: qidx r
  | _ :: r => qidx r
def marks : List QItem → Nat
  | [] => 0
  | .item _ _ :: r => marks r
  | _ :: r => marks r + 1

/-- the consumer is still iterating (has neither raised nor closed nor seen the end) -/
def CPc.active : CPc → Bool
  | .idle | .wait _ _ | .susp => true
  | _ => false

/-- the consumer is in its `finally` block or past it -/
def CPc.over : CPc → Bool
  | .drain | .reap | .join | .closed => true
  | _ => false

@[simp] theorem qidx_append (q r : List QItem) : qidx (q ++ r) = qidx q ++ qidx r := by
  induction q with
  | nil => simp [qidx]
  | cons a q ih => cases a <;> simp [qidx, ih]

@[simp] theorem marks_append (q r : List QItem) : marks (q ++ r) = marks q + marks r := by
  induction q with
  | nil => simp [marks]
  | cons a q ih => cases a <;> simp [marks, ih] <;> omega

/-! ## Phase structure -/

def PhaseInv (s : State) : Prop :=
  (s.toStop = true → s.cpc.over = true) ∧
  (s.cpc.over = true → s.toStop = false → s.fpc = .done) ∧
  (s.cpc.active = true → s.raised = none) ∧
  (s.cpc = .closed → s.fpc = .done) ∧
  (s.fpc ≠ .done → marks s.queue = 0) ∧
  (s.cpc.active = true → s.fpc = .done → marks s.queue = 1)

theorem phase_init : PhaseInv init := by simp [PhaseInv, init, CPc.active, CPc.over, marks]

theorem phase_step (c : Cfg) (s : State) (a : Act) (s' : State) (h : PhaseInv s) (hs : Step c s a s') :
    PhaseInv s' := by
  obtain ⟨h1, h2, h3, h4, h5, h6⟩ := h
  cases hs <;> simp_all [PhaseInv, CPc.active, CPc.over, marks]

/-! ## Pairing: the awaitable travelling with element `x` is the one created for `x` -/

def PairInv (s : State) : Prop :=
  (∀ x t, QItem.item x t ∈ s.queue → x = t) ∧
  (∀ x t, s.cpc = .wait x t → x = t) ∧
  (∀ i, s.fpc = .hold i → s.tvar = some i)

theorem pair_init : PairInv init := by simp [PairInv, init]

theorem pair_step (c : Cfg) (s : State) (a : Act) (s' : State) (h : PairInv s) (hs : Step c s a s') :
    PairInv s' := by
  obtain ⟨h1, h2, h3⟩ := h
  cases hs with
  | put hf ht hl =>
    rename_i i t
    have := h3 i hf
    rw [ht] at this
    refine ⟨?_, h2, by simp⟩
    intro x t' hm
    simp only [List.mem_append, List.mem_singleton] at hm
    rcases hm with hm | hm
    · exact h1 x t' hm
    · simp at hm; simp at this; omega
  | getItem hc hq =>
    rename_i x t rest
    refine ⟨fun x' t' hm => h1 x' t' (by simp [hq, hm]), ?_, h3⟩
    intro x' t' he
    simp at he
    have := h1 x t (by simp [hq])
    omega
  | pull hf hn => exact ⟨h1, h2, by simp⟩
  | srcEnd hf hn hc => exact ⟨h1, h2, by simp⟩
  | srcRaise hf hn hc => exact ⟨h1, h2, by simp⟩
  | fcheck hf ht => exact ⟨h1, h2, by simp⟩
  | stopSeen hf ht => exact ⟨h1, h2, by simp⟩
  | submit hf hp => exact ⟨h1, h2, by simp⟩
  | preFail hf hp => exact ⟨h1, h2, by simp⟩
  | unbound hf ht => exact ⟨h1, h2, by simp⟩
  | putEnd hf hl => exact ⟨fun x t hm => h1 x t (by simpa using hm), h2, by simp⟩
  | putExc hf hl => exact ⟨fun x t hm => h1 x t (by simpa using hm), h2, by simp⟩
  | start hp => exact ⟨h1, h2, h3⟩
  | finish hj => exact ⟨h1, h2, h3⟩
  | getEnd hc hq => exact ⟨fun x t hm => h1 x t (by simp [hq, hm]), by simp, h3⟩
  | getExc hc hq => exact ⟨fun x t hm => h1 x t (by simp [hq, hm]), by simp, h3⟩
  | yld hcp hfin hok => exact ⟨h1, by simp, h3⟩
  | raiseItem hcp hfin he hr => exact ⟨h1, by simp, h3⟩
  | next hc => exact ⟨h1, by simp, h3⟩
  | close hc => exact ⟨h1, by simp, h3⟩
  | setStop hc => exact ⟨h1, by simp, h3⟩
  | drainCancel hc hq hp => exact ⟨fun x t hm => h1 x t (by simp [hq, hm]), h2, h3⟩
  | drainCancelRun hc hq hp => exact ⟨fun x t hm => h1 x t (by simp [hq, hm]), h2, h3⟩
  | drainDetach hc hq hp => exact ⟨fun x t hm => h1 x t (by simp [hq, hm]), h2, h3⟩
  | drainSkip hc hq hp => exact ⟨fun x t hm => h1 x t (by simp [hq, hm]), h2, h3⟩
  | drainEnd hc hq => exact ⟨fun x t hm => h1 x t (by simp [hq, hm]), by simp, h3⟩
  | drainExc hc hq => exact ⟨fun x t hm => h1 x t (by simp [hq, hm]), by simp, h3⟩
  | drainEmpty hc hq => exact ⟨h1, by simp, h3⟩
  | reap hc hq => exact ⟨h1, by simp, h3⟩
  | join hc hf => exact ⟨h1, by simp, h3⟩

/-! ## Order: what sits between source and consumer is the contiguous index range, in order -/

def OrderInv (s : State) : Prop :=
  s.cpc.active = true →
    cIdx s.cpc ++ qidx s.queue ++ fIdx s.fpc = List.range' s.out.length (s.pulled - s.out.length)
    ∧ s.out.length ≤ s.pulled

theorem range'_snoc (a n : Nat) : List.range' a (n+1) = List.range' a n ++ [a+n] := by
  simpa using List.range'_concat (s := a) (n := n) (step := 1)

theorem order_init : OrderInv init := by simp [OrderInv, init, cIdx, qidx, fIdx]

theorem order_step (c : Cfg) (s : State) (a : Act) (s' : State) (hph : PhaseInv s) (hpair : PairInv s)
    (h : OrderInv s) (hs : Step c s a s') :
    OrderInv s' := by
  unfold OrderInv at h ⊢
  cases hs with
  | pull hf hn =>
    intro hact
    obtain ⟨h1, h2⟩ := h hact
    simp only [hf, fIdx, List.append_nil] at h1 ⊢
    refine ⟨?_, by omega⟩
    have : s.pulled + 1 - s.out.length = (s.pulled - s.out.length) + 1 := by omega
    rw [this, range'_snoc, ← h1]
    simp; omega
  | srcEnd hf hn hc => intro hact; simpa [hf, fIdx] using h hact
  | srcRaise hf hn hc => intro hact; simpa [hf, fIdx] using h hact
  | fcheck hf ht => intro hact; simpa [hf, fIdx] using h hact
  | stopSeen hf ht =>
    intro hact
    have := hph.1 ht
    cases hc : s.cpc <;> simp_all [CPc.active, CPc.over]
  | submit hf hp => intro hact; simpa [hf, fIdx] using h hact
  | preFail hf hp => intro hact; simpa [hf, fIdx] using h hact
  | put hf ht hl => intro hact; simpa [hf, fIdx, qidx] using h hact
  | unbound hf ht =>
    -- unreachable: the feeder never holds an element without having assigned `t`
    have := hpair.2.2 _ hf
    rw [ht] at this; simp at this
  | putEnd hf hl => intro hact; simpa [hf, fIdx, qidx] using h hact
  | putExc hf hl => intro hact; simpa [hf, fIdx, qidx] using h hact
  | start hp => exact h
  | finish hj => exact h
  | getItem hc hq =>
    intro _
    have := h (by simp [hc, CPc.active])
    simpa [hc, hq, cIdx, qidx] using this
  | getEnd hc hq => intro hact; simp [CPc.active] at hact
  | getExc hc hq => intro hact; simp [CPc.active] at hact
  | yld hcp hfin hok =>
    intro _
    obtain ⟨h1, h2⟩ := h (by simp [hcp, CPc.active])
    simp only [hcp, cIdx] at h1
    simp only [cIdx, List.nil_append, List.length_append, List.length_cons, List.length_nil]
    have hpos : s.pulled - s.out.length = (s.pulled - (s.out.length + 1)) + 1 := by
      cases hd : s.pulled - s.out.length with
      | zero => simp [hd] at h1
      | succ k => omega
    rw [hpos, List.range'_succ] at h1
    simp at h1
    exact ⟨by simpa using h1.2, by omega⟩
  | raiseItem hcp hfin he hr => intro hact; simp [CPc.active] at hact
  | next hc =>
    intro _
    have := h (by simp [hc, CPc.active])
    simpa [hc, cIdx] using this
  | close hc => intro hact; simp [CPc.active] at hact
  | setStop hc => intro hact; simp [CPc.active] at hact
  | drainCancel hc hq hp => intro hact; simp [hc, CPc.active] at hact
  | drainCancelRun hc hq hp => intro hact; simp [hc, CPc.active] at hact
  | drainDetach hc hq hp => intro hact; simp [hc, CPc.active] at hact
  | drainSkip hc hq hp => intro hact; simp [hc, CPc.active] at hact
  | drainEnd hc hq => intro hact; simp [CPc.active] at hact
  | drainExc hc hq => intro hact; simp [CPc.active] at hact
  | drainEmpty hc hq => intro hact; simp [CPc.active] at hact
  | reap hc hq => intro hact; simp [CPc.active] at hact
  | join hc hf => intro hact; simp [CPc.active] at hact

end AFifo
