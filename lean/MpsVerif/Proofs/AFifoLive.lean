import MpsVerif.Proofs.AFifoAll
/-! Liveness of the `async_fifo_stream` model: a measure that every step decreases (every execution
    is finite) and progress (a reachable state in which the generator has not returned always has
    an enabled action).  Together: every maximal execution ends `closed` — the async iteration
    cannot hang where the sync one does not, whatever the completion order. -/
namespace AFifo
open Fifo (Cfg SrcEnd Raised)

def frank : FPc → Nat
  | .done => 0 | .putEnd => 4 | .putExc => 4 | .idle => 5 | .hold _ => 9 | .sub _ => 12 | .check _ => 13
def crank : CPc → Nat
  | .closed => 0 | .join => 1 | .reap => 2 | .drain => 3 | .stopping => 4 | .idle => 5 | .susp => 6
  | .wait _ _ => 7

def mu (c : Cfg) (s : State) : Nat :=
  9 * (c.n - s.pulled) + frank s.fpc + 3 * s.queue.length + crank s.cpc
    + 2 * s.pending.length + s.running.length

theorem mu_decreases (c : Cfg) (s : State) (a : Act) (s' : State) (hs : Step c s a s') :
    mu c s' < mu c s := by
  cases hs <;> simp_all [mu, frank, crank] <;> try omega
  case start hj => have : 0 < s.pending.length := List.length_pos_of_mem hj; omega
  case finish hj => have := List.length_erase_of_mem hj; have : 0 < s.running.length := List.length_pos_of_mem hj; omega

/-! ## The elements in flight are distinct (strictly increasing from the queue head to the feeder) -/

def SortInv (s : State) : Prop :=
  (qidx s.queue ++ fIdx s.fpc).Pairwise (· < ·) ∧ ∀ i ∈ qidx s.queue ++ fIdx s.fpc, i < s.pulled

theorem sort_init : SortInv init := by simp [SortInv, init, qidx, fIdx]

theorem sort_step (c : Cfg) (s : State) (a : Act) (s' : State) (h : SortInv s) (hs : Step c s a s') :
    SortInv s' := by
  obtain ⟨h1, h2⟩ := h
  unfold SortInv
  cases hs with
  | pull hf hn =>
    simp only [hf, fIdx, List.append_nil] at h1 h2
    simp only [fIdx]
    refine ⟨List.pairwise_append.mpr ⟨h1, by simp, ?_⟩, ?_⟩
    · intro a ha b hb; simp at hb; subst hb; exact h2 a ha
    · intro i hi
      simp only [List.mem_append, List.mem_singleton] at hi
      rcases hi with hi | hi
      · have := h2 i hi; omega
      · omega
  | srcEnd hf hn hc => simpa [hf, fIdx] using And.intro h1 h2
  | srcRaise hf hn hc => simpa [hf, fIdx] using And.intro h1 h2
  | fcheck hf ht => simpa [hf, fIdx] using And.intro h1 h2
  | stopSeen hf ht =>
    simp only [fIdx, List.append_nil]
    exact ⟨(List.pairwise_append.mp h1).1, fun i hi => h2 i (List.mem_append_left _ hi)⟩
  | submit hf hp => simpa [hf, fIdx] using And.intro h1 h2
  | preFail hf hp => simpa [hf, fIdx] using And.intro h1 h2
  | put hf ht hl => simpa [hf, fIdx, qidx] using And.intro h1 h2
  | unbound hf ht =>
    simp only [fIdx, List.append_nil]
    exact ⟨(List.pairwise_append.mp h1).1, fun i hi => h2 i (List.mem_append_left _ hi)⟩
  | putEnd hf hl => simpa [hf, fIdx, qidx] using And.intro h1 h2
  | putExc hf hl => simpa [hf, fIdx, qidx] using And.intro h1 h2
  | start hp => exact ⟨h1, h2⟩
  | finish hj => exact ⟨h1, h2⟩
  | getItem hc hq =>
    simp only [hq, qidx, List.cons_append] at h1 h2
    exact ⟨(List.pairwise_cons.mp h1).2, fun i hi => h2 i (List.mem_cons_of_mem _ hi)⟩
  | getEnd hc hq => simpa [hq, qidx] using And.intro h1 h2
  | getExc hc hq => simpa [hq, qidx] using And.intro h1 h2
  | yld hcp hfin hok => exact ⟨h1, h2⟩
  | raiseItem hcp hfin he hr => exact ⟨h1, h2⟩
  | next hc => exact ⟨h1, h2⟩
  | close hc => exact ⟨h1, h2⟩
  | setStop hc => exact ⟨h1, h2⟩
  | drainCancel hc hq hp =>
    simp only [hq, qidx, List.cons_append] at h1 h2
    exact ⟨(List.pairwise_cons.mp h1).2, fun i hi => h2 i (List.mem_cons_of_mem _ hi)⟩
  | drainCancelRun hc hq hp =>
    simp only [hq, qidx, List.cons_append] at h1 h2
    exact ⟨(List.pairwise_cons.mp h1).2, fun i hi => h2 i (List.mem_cons_of_mem _ hi)⟩
  | drainDetach hc hq hp =>
    simp only [hq, qidx, List.cons_append] at h1 h2
    exact ⟨(List.pairwise_cons.mp h1).2, fun i hi => h2 i (List.mem_cons_of_mem _ hi)⟩
  | drainSkip hc hq hp =>
    simp only [hq, qidx, List.cons_append] at h1 h2
    exact ⟨(List.pairwise_cons.mp h1).2, fun i hi => h2 i (List.mem_cons_of_mem _ hi)⟩
  | drainEnd hc hq => simpa [hq, qidx] using And.intro h1 h2
  | drainExc hc hq => simpa [hq, qidx] using And.intro h1 h2
  | drainEmpty hc hq => exact ⟨h1, h2⟩
  | reap hc hq => exact ⟨h1, h2⟩
  | join hc hf => exact ⟨h1, h2⟩

/-! ## Every awaitable the consumer will still look at exists -/

/-- the element whose awaitable the feeder has created but not yet enqueued -/
def holdIdx : FPc → List Nat
  | .hold i => [i] | _ => []

/-- puts the feeder will still make once the stop flag is set -/
def futurePuts : FPc → Nat
  | .idle => 1 | .check _ => 1 | .sub _ => 2 | .hold _ => 2 | .putEnd => 1 | .putExc => 1 | .done => 0

def ProgInv (s : State) : Prop :=
  (∀ i ∈ cIdx s.cpc ++ qidx s.queue ++ holdIdx s.fpc,
      i ∈ s.pending ∨ i ∈ s.running ∨ i ∈ s.finished) ∧
  ((s.cpc = .reap ∨ s.cpc = .join) → s.toStop = true → s.queue.length + futurePuts s.fpc ≤ 2)

theorem prog_init : ProgInv init := by simp [ProgInv, init, cIdx, qidx, holdIdx]

theorem holdIdx_sub_fIdx (f : FPc) : ∀ i ∈ holdIdx f, i ∈ fIdx f := by
  cases f <;> simp [holdIdx, fIdx]

theorem prog_step (c : Cfg) (s : State) (a : Act) (s' : State) (hph : PhaseInv s) (hpair : PairInv s)
    (hsort : SortInv s) (hsup : SuppInv c s) (h : ProgInv s)
    (hs : Step c s a s') : ProgInv s' := by
  obtain ⟨p1, p2, p3, p4, p5, p6⟩ := hph
  obtain ⟨g1, g2⟩ := h
  cases hs with
  | pull hf hn =>
    refine ⟨?_, ?_⟩
    · intro i hi; exact g1 i (by simpa [hf, holdIdx] using hi)
    · intro hj ht; have := g2 hj ht; simp [hf, futurePuts] at this ⊢; omega
  | srcEnd hf hn hc =>
    refine ⟨?_, ?_⟩
    · intro i hi; exact g1 i (by simpa [hf, holdIdx] using hi)
    · intro hj ht; have := g2 hj ht; simp [hf, futurePuts] at this ⊢; omega
  | srcRaise hf hn hc =>
    refine ⟨?_, ?_⟩
    · intro i hi; exact g1 i (by simpa [hf, holdIdx] using hi)
    · intro hj ht; have := g2 hj ht; simp [hf, futurePuts] at this ⊢; omega
  | fcheck hf ht =>
    refine ⟨?_, ?_⟩
    · intro i hi; exact g1 i (by simpa [hf, holdIdx] using hi)
    · intro hj ht'; simp only at ht'; rw [ht] at ht'; simp at ht'
  | stopSeen hf ht =>
    refine ⟨?_, ?_⟩
    · intro i hi; exact g1 i (by simpa [hf, holdIdx] using hi)
    · intro hj ht'; have := g2 hj ht'; simp [hf, futurePuts] at this ⊢; omega
  | submit hf hp =>
    refine ⟨?_, ?_⟩
    · intro i hi
      simp only [holdIdx, List.mem_append, List.mem_singleton] at hi
      rcases hi with hi | hi
      · rcases g1 i (by rcases hi with h | h <;> simp [h]) with h | h | h
        · exact Or.inl (by simp [h])
        · exact Or.inr (Or.inl h)
        · exact Or.inr (Or.inr h)
      · subst hi; exact Or.inl (by simp)
    · intro hj ht; have := g2 hj ht; simp [hf, futurePuts] at this ⊢; omega
  | preFail hf hp =>
    refine ⟨?_, ?_⟩
    · intro i hi
      simp only [holdIdx, List.mem_append, List.mem_singleton] at hi
      rcases hi with hi | hi
      · rcases g1 i (by rcases hi with h | h <;> simp [h]) with h | h | h
        · exact Or.inl h
        · exact Or.inr (Or.inl h)
        · exact Or.inr (Or.inr (by simp [h]))
      · subst hi; exact Or.inr (Or.inr (by simp))
    · intro hj ht; have := g2 hj ht; simp [hf, futurePuts] at this ⊢; omega
  | put hf ht hl =>
    refine ⟨?_, ?_⟩
    · intro i hi
      exact g1 i (by simpa [hf, holdIdx, qidx] using hi)
    · intro hj ht; have := g2 hj ht; simp [hf, futurePuts] at this ⊢; omega
  | unbound hf ht =>
    refine ⟨?_, ?_⟩
    · intro i hi
      exact g1 i (by simp only [holdIdx, List.append_nil] at hi; exact List.mem_append_left _ hi)
    · intro hj ht; have := g2 hj ht; rw [hf] at this; simp only [futurePuts] at this ⊢; omega
  | putEnd hf hl =>
    refine ⟨?_, ?_⟩
    · intro i hi
      exact g1 i (by simpa [hf, holdIdx, qidx] using hi)
    · intro hj ht; have := g2 hj ht; simp [hf, futurePuts] at this ⊢; omega
  | putExc hf hl =>
    refine ⟨?_, ?_⟩
    · intro i hi
      exact g1 i (by simpa [hf, holdIdx, qidx] using hi)
    · intro hj ht; have := g2 hj ht; simp [hf, futurePuts] at this ⊢; omega
  | start hp =>
    rename_i j
    refine ⟨?_, g2⟩
    intro i hi
    rcases g1 i hi with h | h | h
    · by_cases hij : i = j
      · subst hij; exact Or.inr (Or.inl (by simp))
      · exact Or.inl ((List.mem_erase_of_ne hij).mpr h)
    · exact Or.inr (Or.inl (by simp [h]))
    · exact Or.inr (Or.inr h)
  | finish hj =>
    rename_i j
    refine ⟨?_, g2⟩
    intro i hi
    rcases g1 i hi with h | h | h
    · exact Or.inl h
    · by_cases hij : i = j
      · subst hij; exact Or.inr (Or.inr (by simp))
      · exact Or.inr (Or.inl ((List.mem_erase_of_ne hij).mpr h))
    · exact Or.inr (Or.inr (by simp [h]))
  | getItem hc hq =>
    refine ⟨?_, by simp⟩
    intro i hi
    exact g1 i (by simpa [hc, hq, cIdx, qidx] using hi)
  | getEnd hc hq =>
    refine ⟨?_, by simp⟩
    intro i hi
    exact g1 i (by simpa [hc, hq, cIdx, qidx] using hi)
  | getExc hc hq =>
    refine ⟨?_, by simp⟩
    intro i hi
    exact g1 i (by simpa [hc, hq, cIdx, qidx] using hi)
  | yld hcp hfin hok =>
    refine ⟨?_, by simp⟩
    intro i hi
    exact g1 i (by simp only [cIdx, List.nil_append] at hi; simp only [List.append_assoc]; exact List.mem_append_right _ hi)
  | raiseItem hcp hfin he hr =>
    refine ⟨?_, by simp⟩
    intro i hi
    exact g1 i (by simp only [cIdx, List.nil_append] at hi; simp only [List.append_assoc]; exact List.mem_append_right _ hi)
  | next hc =>
    refine ⟨?_, by simp⟩
    intro i hi
    exact g1 i (by simpa [hc, cIdx] using hi)
  | close hc =>
    refine ⟨?_, by simp⟩
    intro i hi
    exact g1 i (by simpa [hc, cIdx] using hi)
  | setStop hc =>
    refine ⟨?_, by simp⟩
    intro i hi
    exact g1 i (by simpa [hc, cIdx] using hi)
  | drainCancel hc hq hp =>
    rename_i x t rest
    refine ⟨?_, by simp [hc]⟩
    intro i hi
    simp only [hc, cIdx, List.nil_append] at hi
    have hxt : x = t := hpair.1 x t (by simp [hq])
    have hlt : x < i := by
      have h1 := hsort.1
      simp only [hq, qidx, List.cons_append] at h1
      have := (List.pairwise_cons.mp h1).1 i
      apply this
      simp only [List.mem_append] at hi ⊢
      rcases hi with hi | hi
      · exact Or.inl hi
      · exact Or.inr (holdIdx_sub_fIdx _ i hi)
    rcases g1 i (by simp only [hc, hq, cIdx, qidx, List.nil_append, List.cons_append]; exact List.mem_cons_of_mem _ hi) with h | h | h
    · exact Or.inl ((List.mem_erase_of_ne (by omega)).mpr h)
    · exact Or.inr (Or.inl h)
    · exact Or.inr (Or.inr h)
  | drainCancelRun hc hq hp =>
    refine ⟨?_, by simp [hc]⟩
    intro i hi
    simp only [hc, cIdx, List.nil_append] at hi
    exact g1 i (by simp only [hc, hq, cIdx, qidx, List.nil_append, List.cons_append]; exact List.mem_cons_of_mem _ hi)
  | drainDetach hc hq hp =>
    refine ⟨?_, by simp [hc]⟩
    intro i hi
    simp only [hc, cIdx, List.nil_append] at hi
    exact g1 i (by simp only [hc, hq, cIdx, qidx, List.nil_append, List.cons_append]; exact List.mem_cons_of_mem _ hi)
  | drainSkip hc hq hp =>
    refine ⟨?_, by simp [hc]⟩
    intro i hi
    simp only [hc, cIdx, List.nil_append] at hi
    exact g1 i (by simp only [hc, hq, cIdx, qidx, List.nil_append, List.cons_append]; exact List.mem_cons_of_mem _ hi)
  | drainEnd hc hq =>
    rename_i rest
    refine ⟨?_, ?_⟩
    · intro i hi
      exact g1 i (by simpa [hc, hq, cIdx, qidx] using hi)
    · intro _ _
      have hdone : s.fpc = .done := by
        apply Classical.byContradiction; intro hnd
        have := p5 hnd; simp [hq, marks] at this
      have hrest : rest = [] := by simpa [hq, tailOK] using hsup.1
      simp [hdone, hrest, futurePuts]
  | drainExc hc hq =>
    rename_i rest
    refine ⟨?_, ?_⟩
    · intro i hi
      exact g1 i (by simpa [hc, hq, cIdx, qidx] using hi)
    · intro _ _
      have hdone : s.fpc = .done := by
        apply Classical.byContradiction; intro hnd
        have := p5 hnd; simp [hq, marks] at this
      have hrest : rest = [] := by simpa [hq, tailOK] using hsup.1
      simp [hdone, hrest, futurePuts]
  | drainEmpty hc hq =>
    refine ⟨?_, ?_⟩
    · intro i hi
      exact g1 i (by simpa [hc, cIdx] using hi)
    · intro _ _
      simp only [hq, List.length_nil, Nat.zero_add]
      cases s.fpc <;> simp [futurePuts]
  | reap hc hq =>
    refine ⟨?_, ?_⟩
    · intro i hi
      exact g1 i (by simpa [hc, cIdx] using hi)
    · intro _ ht; exact g2 (Or.inl hc) ht
  | join hc hf =>
    refine ⟨?_, by simp⟩
    intro i hi
    exact g1 i (by simpa [hc, cIdx] using hi)

/-! ## Progress -/

structure LiveInv (c : Cfg) (s : State) : Prop where
  all : AllInv c s
  sort : SortInv s
  prog : ProgInv s

theorem live_init (c : Cfg) : LiveInv c init := ⟨all_init c, sort_init, prog_init⟩

theorem live_step (c : Cfg) (s : State) (a : Act) (s' : State) (h : LiveInv c s) (hs : Step c s a s') :
    LiveInv c s' :=
  ⟨all_step c s a s' h.all hs, sort_step c s a s' h.sort hs,
   prog_step c s a s' h.all.ph h.all.pair h.sort h.all.sup h.prog hs⟩

theorem live_reachable (c : Cfg) {s : State} (hr : Reachable c s) : LiveInv c s :=
  reachable_inv c (live_init c) (live_step c) hr

/-- Progress: in every state satisfying the invariants in which the generator has not returned,
    some action is enabled (`cap ≥ 1`). -/
theorem progress_of_inv (c : Cfg) (hcap : 1 ≤ c.cap) (s : State)
    (h : LiveInv c s) (hnf : ¬ Final s) : ∃ a, (step c s a).isSome = true := by
  have hpn : s.pulled ≤ c.n := h.all.sup.2.2.2
  obtain ⟨⟨⟨p1, p2, p3, p4, p5, p6⟩, ⟨pr1, pr2, pr3⟩, _, _, _, _⟩, _, ⟨g1, g2⟩⟩ := h
  -- the feeder can move whenever it is not done and the queue has room
  have feeder : s.fpc ≠ .done → s.queue.length < c.cap + 1 → ∃ a, (step c s a).isSome = true := by
    intro hnd hroom
    cases hf : s.fpc with
    | idle =>
      by_cases hn : s.pulled < c.n
      · exact ⟨.pull, by simp [step, hf, hn]⟩
      · have hn' : s.pulled = c.n := by omega
        cases hse : c.srcEnd with
        | clean => exact ⟨.srcEnd, by simp [step, hf, hn', hse]⟩
        | exc => exact ⟨.srcRaise, by simp [step, hf, hn', hse]⟩
    | check i =>
      cases ht : s.toStop with
      | false => exact ⟨.fcheck, by simp [step, hf, ht]⟩
      | true => exact ⟨.stopSeen, by simp [step, hf, ht]⟩
    | sub i =>
      cases hp : c.preFail i with
      | false => exact ⟨.submit, by simp [step, hf, hp]⟩
      | true => exact ⟨.preFail, by simp [step, hf, hp]⟩
    | hold i =>
      have htv := pr3 i hf
      exact ⟨.put, by simp [step, hf, htv, hroom]⟩
    | putEnd => exact ⟨.putEnd, by simp [step, hf, hroom]⟩
    | putExc => exact ⟨.putExc, by simp [step, hf, hroom]⟩
    | done => exact absurd hf hnd
  cases hc : s.cpc with
  | idle =>
    cases hq : s.queue with
    | nil =>
      have hnd : s.fpc ≠ .done := by
        intro hd
        have := p6 (by simp [hc, CPc.active]) hd
        simp [hq, marks] at this
      exact feeder hnd (by simp [hq])
    | cons x rest =>
      cases x with
      | item x t => exact ⟨.get, by simp [step, hc, hq]⟩
      | endMark => exact ⟨.get, by simp [step, hc, hq]⟩
      | excMark => exact ⟨.get, by simp [step, hc, hq]⟩
  | wait x t =>
    have hxt : x = t := pr2 x t hc
    rcases g1 x (by simp [hc, cIdx]) with h | h | h
    · exact ⟨.start x, by simp [step, h]⟩
    · exact ⟨.finish x, by simp [step, h]⟩
    · rw [hxt] at h
      by_cases hok : c.isErr t = false ∨ c.returnExc = true
      · exact ⟨.yld, by simp [step, hc, h, hok]⟩
      · have h1 : c.isErr t = true := by
          cases he : c.isErr t with
          | true => rfl
          | false => exact absurd (Or.inl he) hok
        have h2 : c.returnExc = false := by
          cases he : c.returnExc with
          | false => rfl
          | true => exact absurd (Or.inr he) hok
        exact ⟨.raiseItem, by simp [step, hc, h, h1, h2]⟩
  | susp => exact ⟨.next, by simp [step, hc]⟩
  | stopping => exact ⟨.setStop, by simp [step, hc]⟩
  | drain =>
    cases hq : s.queue with
    | nil => exact ⟨.drainEmpty, by simp [step, hc, hq]⟩
    | cons x rest =>
      cases x with
      | item x t =>
        have hxt : x = t := pr1 x t (by simp [hq])
        rcases g1 x (by simp [hc, hq, cIdx, qidx]) with h | h | h
        · rw [hxt] at h; exact ⟨.drainCancel, by simp [step, hc, hq, h]⟩
        · rw [hxt] at h; exact ⟨.drainCancelRun, by simp [step, hc, hq, h]⟩
        · rw [hxt] at h; exact ⟨.drainSkip, by simp [step, hc, hq, h]⟩
      | endMark => exact ⟨.drainMark, by simp [step, hc, hq]⟩
      | excMark => exact ⟨.drainMark, by simp [step, hc, hq]⟩
  | reap =>
    by_cases hg : ∀ t ∈ s.creq, t ∉ s.running
    · exact ⟨.reap, by simp [step, hc]; exact hg⟩
    · have : ∃ t, t ∈ s.creq ∧ t ∈ s.running := by
        apply Classical.byContradiction
        intro hne
        apply hg
        intro t ht hr
        exact hne ⟨t, ht, hr⟩
      obtain ⟨t, _, hr⟩ := this
      exact ⟨.finish t, by simp [step, hr]⟩
  | join =>
    by_cases hd : s.fpc = .done
    · exact ⟨.join, by simp [step, hc, hd]⟩
    · have hts : s.toStop = true := by
        cases ht : s.toStop with
        | true => rfl
        | false => exact absurd (p2 (by simp [hc, CPc.over]) ht) hd
      have hb := g2 (Or.inr hc) hts
      have hfp : 1 ≤ futurePuts s.fpc := by
        cases hf : s.fpc <;> simp [futurePuts] <;> exact absurd hf hd
      exact feeder hd (by omega)
  | closed => exact absurd hc hnf

/-- from every reachable state the iteration can be brought to its end (and, by `mu_decreases`,
    every way of continuing it gets there or gets stuck nowhere) -/
theorem can_complete (c : Cfg) (hcap : 1 ≤ c.cap) :
    ∀ (k : Nat) (s : State), Reachable c s → mu c s ≤ k →
      ∃ bs s', Core.run (step c) s bs = some s' ∧ Final s' := by
  intro k
  induction k with
  | zero =>
    intro s hr hk
    by_cases hf : Final s
    · exact ⟨[], s, rfl, hf⟩
    · obtain ⟨a, ha⟩ := progress_of_inv c hcap s (live_reachable c hr) hf
      obtain ⟨s1, hs1⟩ := Option.isSome_iff_exists.mp ha
      have := mu_decreases c s a s1 (step_sound c s s1 a hs1)
      omega
  | succ k ih =>
    intro s hr hk
    by_cases hf : Final s
    · exact ⟨[], s, rfl, hf⟩
    · obtain ⟨a, ha⟩ := progress_of_inv c hcap s (live_reachable c hr) hf
      obtain ⟨s1, hs1⟩ := Option.isSome_iff_exists.mp ha
      have hdec := mu_decreases c s a s1 (step_sound c s s1 a hs1)
      obtain ⟨bs, s', hrun, hfin⟩ := ih s1 (Core.Reach.tail hr hs1) (by omega)
      exact ⟨a :: bs, s', by simp [Core.run_cons, hs1, hrun], hfin⟩

end AFifo
