import MpsVerif.Proofs.AFifoRes
/-! Invariants of the `async_fifo_stream` model, part 3: bookkeeping of the tasks created by `func`
    (adapted from the pool part of `Proofs/FifoInv.lean`; no concurrency bound here). -/
namespace AFifo
open Fifo (Cfg SrcEnd Raised)

/-! ## Task bookkeeping: exactly-once invocation -/

/-- 1 while the feeder holds an element it has not yet submitted -/
def fFresh : FPc → Nat
  | .check _ => 1 | .sub _ => 1 | _ => 0
@[simp] theorem fFresh_idle : fFresh .idle = 0 := rfl
@[simp] theorem fFresh_check (i : Nat) : fFresh (.check i) = 1 := rfl
@[simp] theorem fFresh_sub (i : Nat) : fFresh (.sub i) = 1 := rfl
@[simp] theorem fFresh_hold (i : Nat) : fFresh (.hold i) = 0 := rfl
@[simp] theorem fFresh_putEnd : fFresh .putEnd = 0 := rfl
@[simp] theorem fFresh_putExc : fFresh .putExc = 0 := rfl
@[simp] theorem fFresh_done : fFresh .done = 0 := rfl

def PoolInv (c : Cfg) (s : State) : Prop :=
  s.pending.Nodup ∧
  (∀ j ∈ s.pending, j ∉ s.running ∧ j ∉ s.finished) ∧
  (∀ j, (j ∈ s.pending ∨ j ∈ s.running ∨ j ∈ s.finished) → j + fFresh s.fpc < s.pulled) ∧
  (∀ i, (s.fpc = .check i ∨ s.fpc = .sub i ∨ s.fpc = .hold i) → i + 1 = s.pulled) ∧
  (∀ j, (j ∈ s.pending ∨ j ∈ s.running) → c.preFail j = false) ∧
  s.calls.Nodup ∧
  (∀ j, j ∈ s.calls ↔ (j ∈ s.running ∨ (j ∈ s.finished ∧ c.preFail j = false)))

theorem pool_init (c : Cfg) : PoolInv c init := by simp [PoolInv, init]

theorem pool_step (c : Cfg) (s : State) (a : Act) (s' : State) (h : PoolInv c s)
    (hs : Step c s a s') : PoolInv c s' := by
  obtain ⟨q1, q2, q3, q4, q5, q6, q7⟩ := h
  cases hs with
  | pull hf hn =>
    refine ⟨q1, q2, ?_, by simp, q5, q6, q7⟩
    intro j hj; have := q3 j hj; simp [hf] at this ⊢; omega
  | srcEnd hf hn hc => exact ⟨q1, q2, by simpa [hf] using q3, by simp, q5, q6, q7⟩
  | srcRaise hf hn hc => exact ⟨q1, q2, by simpa [hf] using q3, by simp, q5, q6, q7⟩
  | fcheck hf ht =>
    refine ⟨q1, q2, by simpa [hf] using q3, ?_, q5, q6, q7⟩
    intro i hi; simp at hi; subst hi; exact q4 _ (Or.inl hf)
  | stopSeen hf ht =>
    refine ⟨q1, q2, ?_, by simp, q5, q6, q7⟩
    intro j hj; have := q3 j hj; simp [hf] at this ⊢; omega
  | submit hf hp =>
    rename_i i
    have hi := q4 i (Or.inr (Or.inl hf))
    have hfresh : ∀ j, (j ∈ s.pending ∨ j ∈ s.running ∨ j ∈ s.finished) → j ≠ i := by
      intro j hj; have := q3 j hj; simp [hf] at this; omega
    refine ⟨?_, ?_, ?_, ?_, ?_, q6, q7⟩
    · rw [List.nodup_append]
      refine ⟨q1, by simp, ?_⟩
      intro a ha b hb; simp at hb; subst hb; exact hfresh a (Or.inl ha)
    · intro j hj
      simp only [List.mem_append, List.mem_singleton] at hj
      rcases hj with hj | hj
      · exact q2 j hj
      · subst hj
        exact ⟨fun h => hfresh j (Or.inr (Or.inl h)) rfl, fun h => hfresh j (Or.inr (Or.inr h)) rfl⟩
    · intro j hj
      simp only [List.mem_append, List.mem_singleton, fFresh_hold] at hj ⊢
      rcases hj with (hj | hj) | hj | hj
      · have := q3 j (Or.inl hj); omega
      · omega
      · have := q3 j (Or.inr (Or.inl hj)); omega
      · have := q3 j (Or.inr (Or.inr hj)); omega
    · intro k hk; simp at hk; subst hk; exact hi
    · intro j hj
      simp only [List.mem_append, List.mem_singleton] at hj
      rcases hj with (hj | hj) | hj
      · exact q5 j (Or.inl hj)
      · subst hj; exact hp
      · exact q5 j (Or.inr hj)
  | preFail hf hp =>
    rename_i i
    have hi := q4 i (Or.inr (Or.inl hf))
    have hfresh : ∀ j, (j ∈ s.pending ∨ j ∈ s.running ∨ j ∈ s.finished) → j ≠ i := by
      intro j hj; have := q3 j hj; simp [hf] at this; omega
    refine ⟨q1, ?_, ?_, ?_, q5, q6, ?_⟩
    · intro j hj
      refine ⟨(q2 j hj).1, ?_⟩
      simp only [List.mem_cons, not_or]
      exact ⟨hfresh j (Or.inl hj), (q2 j hj).2⟩
    · intro j hj
      simp only [List.mem_cons, fFresh_hold] at hj ⊢
      rcases hj with hj | hj | hj | hj
      · have := q3 j (Or.inl hj); omega
      · have := q3 j (Or.inr (Or.inl hj)); omega
      · omega
      · have := q3 j (Or.inr (Or.inr hj)); omega
    · intro k hk; simp at hk; subst hk; exact hi
    · intro j
      rw [q7 j]
      simp only [List.mem_cons]
      constructor
      · rintro (h | h)
        · exact Or.inl h
        · exact Or.inr ⟨Or.inr h.1, h.2⟩
      · rintro (h | ⟨h | h, h2⟩)
        · exact Or.inl h
        · subst h; simp [hp] at h2
        · exact Or.inr ⟨h, h2⟩
  | put hf ht hl =>
    exact ⟨q1, q2, by simpa [hf] using q3, by simp, q5, q6, q7⟩
  | unbound hf ht => exact ⟨q1, q2, by simpa [hf] using q3, by simp, q5, q6, q7⟩
  | putEnd hf hl => exact ⟨q1, q2, by simpa [hf] using q3, by simp, q5, q6, q7⟩
  | putExc hf hl => exact ⟨q1, q2, by simpa [hf] using q3, by simp, q5, q6, q7⟩
  | start hp =>
    rename_i j
    have hjp : j ∈ s.pending := hp
    have hsub : ∀ k, k ∈ s.pending.erase j → k ∈ s.pending := fun k hk => List.mem_of_mem_erase hk
    have hjne : ∀ k, k ∈ s.pending.erase j → k ≠ j := by
      intro k hk hkj; subst hkj
      exact (List.Nodup.mem_erase_iff q1).mp hk |>.1 rfl
    have hjc : j ∉ s.calls := by
      rw [q7 j]; intro h
      rcases h with h | h
      · exact (q2 j hjp).1 h
      · exact (q2 j hjp).2 h.1
    refine ⟨q1.erase _, ?_, ?_, q4, ?_, ?_, ?_⟩
    · intro k hk
      have := q2 k (hsub k hk)
      refine ⟨?_, this.2⟩
      simp only [List.mem_append, List.mem_singleton, not_or]
      exact ⟨this.1, hjne k hk⟩
    · intro k hk
      simp only [List.mem_append, List.mem_singleton] at hk
      rcases hk with hk | (hk | hk) | hk
      · exact q3 k (Or.inl (hsub k hk))
      · exact q3 k (Or.inr (Or.inl hk))
      · subst hk; exact q3 k (Or.inl hjp)
      · exact q3 k (Or.inr (Or.inr hk))
    · intro k hk
      simp only [List.mem_append, List.mem_singleton] at hk
      rcases hk with hk | hk | hk
      · exact q5 k (Or.inl (hsub k hk))
      · exact q5 k (Or.inr hk)
      · subst hk; exact q5 k (Or.inl hjp)
    · exact List.nodup_cons.mpr ⟨hjc, q6⟩
    · intro k
      simp only [List.mem_cons, List.mem_append, List.not_mem_nil, or_false]
      rw [q7 k]
      constructor
      · rintro (h | h | h)
        · exact Or.inl (Or.inr h)
        · exact Or.inl (Or.inl h)
        · exact Or.inr h
      · rintro ((h | h) | h)
        · exact Or.inr (Or.inl h)
        · exact Or.inl h
        · exact Or.inr (Or.inr h)
  | finish hj =>
    rename_i j
    have hpf : c.preFail j = false := q5 j (Or.inr hj)
    refine ⟨q1, ?_, ?_, q4, ?_, q6, ?_⟩
    · intro k hk
      have := q2 k hk
      refine ⟨fun h => this.1 (List.mem_of_mem_erase h), ?_⟩
      simp only [List.mem_cons, not_or]
      exact ⟨fun h => this.1 (h ▸ hj), this.2⟩
    · intro k hk
      simp only [List.mem_cons] at hk
      rcases hk with hk | hk | hk | hk
      · exact q3 k (Or.inl hk)
      · exact q3 k (Or.inr (Or.inl (List.mem_of_mem_erase hk)))
      · subst hk; exact q3 k (Or.inr (Or.inl hj))
      · exact q3 k (Or.inr (Or.inr hk))
    · intro k hk
      rcases hk with hk | hk
      · exact q5 k (Or.inl hk)
      · exact q5 k (Or.inr (List.mem_of_mem_erase hk))
    · intro k
      rw [q7 k]
      simp only [List.mem_cons]
      by_cases hkj : k = j
      · subst hkj
        constructor
        · intro _; exact Or.inr ⟨Or.inl rfl, hpf⟩
        · intro _; exact Or.inl hj
      · constructor
        · rintro (h | h)
          · exact Or.inl ((List.mem_erase_of_ne hkj).mpr h)
          · exact Or.inr ⟨Or.inr h.1, h.2⟩
        · rintro (h | ⟨h | h, h2⟩)
          · exact Or.inl (List.mem_of_mem_erase h)
          · exact absurd h hkj
          · exact Or.inr ⟨h, h2⟩
  | getItem hc hq => exact ⟨q1, q2, q3, q4, q5, q6, q7⟩
  | getEnd hc hq => exact ⟨q1, q2, q3, q4, q5, q6, q7⟩
  | getExc hc hq => exact ⟨q1, q2, q3, q4, q5, q6, q7⟩
  | yld hcp hfin hok => exact ⟨q1, q2, q3, q4, q5, q6, q7⟩
  | raiseItem hcp hfin he hr => exact ⟨q1, q2, q3, q4, q5, q6, q7⟩
  | next hc => exact ⟨q1, q2, q3, q4, q5, q6, q7⟩
  | close hc => exact ⟨q1, q2, q3, q4, q5, q6, q7⟩
  | setStop hc => exact ⟨q1, q2, q3, q4, q5, q6, q7⟩
  | drainCancel hc hq hp =>
    refine ⟨q1.erase _, ?_, ?_, q4, ?_, q6, q7⟩
    · intro k hk; exact q2 k (List.mem_of_mem_erase hk)
    · intro k hk
      rcases hk with hk | hk
      · exact q3 k (Or.inl (List.mem_of_mem_erase hk))
      · exact q3 k (Or.inr hk)
    · intro k hk
      rcases hk with hk | hk
      · exact q5 k (Or.inl (List.mem_of_mem_erase hk))
      · exact q5 k (Or.inr hk)
  | drainCancelRun hc hq hp => exact ⟨q1, q2, q3, q4, q5, q6, q7⟩
  | drainDetach hc hq hp => exact ⟨q1, q2, q3, q4, q5, q6, q7⟩
  | drainSkip hc hq hp => exact ⟨q1, q2, q3, q4, q5, q6, q7⟩
  | drainEnd hc hq => exact ⟨q1, q2, q3, q4, q5, q6, q7⟩
  | drainExc hc hq => exact ⟨q1, q2, q3, q4, q5, q6, q7⟩
  | drainEmpty hc hq => exact ⟨q1, q2, q3, q4, q5, q6, q7⟩
  | reap hc hq => exact ⟨q1, q2, q3, q4, q5, q6, q7⟩
  | join hc hf => exact ⟨q1, q2, q3, q4, q5, q6, q7⟩

end AFifo
