import MpsVerif.Proofs.AFifoInv
/-! Invariants of the `async_fifo_stream` model, part 2: end marks and what the consumer has been
    handed (same structure as the corresponding part of `Proofs/FifoInv.lean`). -/
namespace AFifo
open Fifo (Cfg SrcEnd Raised)

/-! ## Supporting facts about end marks -/

/-- nothing follows an end mark in the queue -/
def tailOK : List QItem → Prop
  | [] => True
  | .item _ _ :: r => tailOK r
  | _ :: r => r = []

theorem tailOK_append (q : List QItem) (x : QItem) (h : tailOK q) (hm : marks q = 0) : tailOK (q ++ [x]) := by
  induction q with
  | nil => cases x <;> simp [tailOK]
  | cons a q ih => cases a <;> simp_all [tailOK, marks]

theorem tailOK_tail (a : QItem) (q : List QItem) (h : tailOK (a :: q)) : tailOK q := by
  cases a <;> simp_all [tailOK]

theorem no_exc_of_marks_zero (q : List QItem) (h : marks q = 0) : QItem.excMark ∉ q := by
  induction q with
  | nil => simp
  | cons a q ih => cases a <;> simp_all [marks]

theorem no_end_of_marks_zero (q : List QItem) (h : marks q = 0) : QItem.endMark ∉ q := by
  induction q with
  | nil => simp
  | cons a q ih => cases a <;> simp_all [marks]

def SuppInv (c : Cfg) (s : State) : Prop :=
  tailOK s.queue ∧
  ((.excMark ∈ s.queue ∨ s.fpc = .putExc) → s.pulled = c.n ∧ c.srcEnd = .exc) ∧
  ((.endMark ∈ s.queue ∨ s.fpc = .putEnd) → (s.pulled = c.n ∧ c.srcEnd = .clean) ∨ s.toStop = true) ∧
  s.pulled ≤ c.n

theorem supp_init (c : Cfg) : SuppInv c init := by simp [SuppInv, init, tailOK]

theorem supp_step (c : Cfg) (s : State) (a : Act) (s' : State) (hph : PhaseInv s) (hpair : PairInv s)
    (h : SuppInv c s) (hs : Step c s a s') : SuppInv c s' := by
  obtain ⟨p1, p2, p3, p4, p5, p6⟩ := hph
  obtain ⟨h1, h2, h3, h4⟩ := h
  cases hs with
  | unbound hf ht =>
    -- unreachable: the feeder never holds an element without having assigned `t`
    have := hpair.2.2 _ hf
    rw [ht] at this; simp at this
  | _ =>
    simp_all [SuppInv, tailOK] <;>
    first
    | exact tailOK_append _ _ h1 p5
    | (have := no_exc_of_marks_zero _ p5; have := no_end_of_marks_zero _ p5; simp_all; omega)

/-! ## Results: what the consumer has been handed -/

def okToYield (c : Cfg) (i : Nat) : Prop := c.isErr i = false ∨ c.returnExc = true

/-- element `i` travelling with its own awaitable -/
def dup (i : Nat) : Nat × Nat := (i, i)

def ResInv (c : Cfg) (s : State) : Prop :=
  s.out = (List.range s.out.length).map dup ∧
  (∀ p ∈ s.out, p.2 ∈ s.finished ∧ okToYield c p.2) ∧
  (∀ i, s.raised = some (.item i) →
      i = s.out.length ∧ i ∈ s.finished ∧ c.isErr i = true ∧ c.returnExc = false ∧ i < c.n) ∧
  (s.raised = some .src → s.out.length = c.n ∧ c.srcEnd = .exc) ∧
  (s.cpc.over = true → s.raised = none → s.closeReq = false →
      s.out.length = c.n ∧ c.srcEnd = .clean) ∧
  (s.cpc = .stopping → s.raised ≠ none ∨ s.closeReq = true)

theorem res_init (c : Cfg) : ResInv c init := by simp [ResInv, init, CPc.over]

theorem res_step (c : Cfg) (s : State) (a : Act) (s' : State) (hph : PhaseInv s) (hpair : PairInv s)
    (hord : OrderInv s) (hsup : SuppInv c s) (h : ResInv c s) (hs : Step c s a s') : ResInv c s' := by
  obtain ⟨p1, p2, p3, p4, p5, p6⟩ := hph
  obtain ⟨u1, u2, u3, u4⟩ := hsup
  obtain ⟨r1, r2, r3, r4, r5, r6⟩ := h
  cases hs with
  | getEnd hc hq =>
    rename_i rest
    have hts : s.toStop = false := by
      cases ht : s.toStop with
      | false => rfl
      | true => have := p1 ht; simp [hc, CPc.over] at this
    have hact : s.cpc.active = true := by simp [hc, CPc.active]
    have hrest : rest = [] := by simpa [hq, tailOK] using u1
    have hdone : s.fpc = .done := by
      apply Classical.byContradiction; intro hnd
      have := p5 hnd; simp [hq, marks] at this
    obtain ⟨o1, o2⟩ := hord hact
    have hn : s.pulled = c.n ∧ c.srcEnd = .clean := by
      rcases u3 (Or.inl (by simp [hq])) with h' | h'
      · exact h'
      · simp [hts] at h'
    simp [hc, hq, hrest, hdone, cIdx, qidx, fIdx] at o1
    refine ⟨r1, r2, r3, r4, ?_, by simp⟩
    intro _ _ _
    show s.out.length = c.n ∧ _
    exact ⟨by omega, hn.2⟩
  | getExc hc hq =>
    rename_i rest
    have hact : s.cpc.active = true := by simp [hc, CPc.active]
    have hrest : rest = [] := by simpa [hq, tailOK] using u1
    have hdone : s.fpc = .done := by
      apply Classical.byContradiction; intro hnd
      have := p5 hnd; simp [hq, marks] at this
    obtain ⟨o1, o2⟩ := hord hact
    have hn := u2 (Or.inl (by simp [hq]))
    simp [hc, hq, hrest, hdone, cIdx, qidx, fIdx] at o1
    refine ⟨r1, r2, by simp, ?_, by simp [CPc.over], by simp⟩
    intro _
    show s.out.length = c.n ∧ _
    exact ⟨by omega, hn.2⟩
  | yld hcp hfin hok =>
    rename_i x t
    have hact : s.cpc.active = true := by simp [hcp, CPc.active]
    obtain ⟨o1, o2⟩ := hord hact
    have hxt : x = t := hpair.2.1 x t hcp
    have hi : x = s.out.length := by
      cases hd : s.pulled - s.out.length with
      | zero => simp [hd, hcp, cIdx] at o1
      | succ k => rw [hd, List.range'_succ] at o1; simp [hcp, cIdx] at o1; exact o1.1
    have hrn := p3 hact
    refine ⟨?_, ?_, ?_, ?_, ?_, by simp⟩
    · simp only [List.length_append, List.length_cons, List.length_nil]
      rw [List.range_succ, List.map_append, ← r1, ← hxt, hi]
      simp [dup]
    · intro j hj
      simp only [List.mem_append, List.mem_singleton] at hj
      rcases hj with hj | hj
      · exact r2 j hj
      · subst hj; exact ⟨hfin, hok⟩
    · intro j hj; simp [hrn] at hj
    · intro hj; simp [hrn] at hj
    · intro hj; simp [CPc.over] at hj
  | raiseItem hcp hfin he hr =>
    rename_i x t
    have hact : s.cpc.active = true := by simp [hcp, CPc.active]
    obtain ⟨o1, o2⟩ := hord hact
    have hxt : x = t := hpair.2.1 x t hcp
    have hi : x = s.out.length ∧ x < s.pulled := by
      cases hd : s.pulled - s.out.length with
      | zero => simp [hd, hcp, cIdx] at o1
      | succ k =>
        rw [hd, List.range'_succ] at o1; simp [hcp, cIdx] at o1
        exact ⟨o1.1, by omega⟩
    refine ⟨r1, r2, ?_, by simp, by simp [CPc.over], by simp⟩
    intro j hj
    simp at hj; subst hj
    refine ⟨?_, hfin, he, hr, by omega⟩
    show t = s.out.length
    omega
  | pull hf hn => exact ⟨r1, r2, r3, r4, r5, r6⟩
  | srcEnd hf hn hc => exact ⟨r1, r2, r3, r4, r5, r6⟩
  | srcRaise hf hn hc => exact ⟨r1, r2, r3, r4, r5, r6⟩
  | fcheck hf ht => exact ⟨r1, r2, r3, r4, r5, r6⟩
  | stopSeen hf ht => exact ⟨r1, r2, r3, r4, r5, r6⟩
  | submit hf hp => exact ⟨r1, r2, r3, r4, r5, r6⟩
  | preFail hf hp =>
    refine ⟨r1, fun i hi => ⟨List.mem_cons_of_mem _ (r2 i hi).1, (r2 i hi).2⟩, ?_, r4, r5, r6⟩
    intro j hj
    obtain ⟨a1, a2, a3⟩ := r3 j hj
    exact ⟨a1, List.mem_cons_of_mem _ a2, a3⟩
  | put hf ht hl => exact ⟨r1, r2, r3, r4, r5, r6⟩
  | unbound hf ht => exact ⟨r1, r2, r3, r4, r5, r6⟩
  | putEnd hf hl => exact ⟨r1, r2, r3, r4, r5, r6⟩
  | putExc hf hl => exact ⟨r1, r2, r3, r4, r5, r6⟩
  | start hp => exact ⟨r1, r2, r3, r4, r5, r6⟩
  | finish hj =>
    refine ⟨r1, fun i hi => ⟨List.mem_cons_of_mem _ (r2 i hi).1, (r2 i hi).2⟩, ?_, r4, r5, r6⟩
    intro j hj
    obtain ⟨a1, a2, a3⟩ := r3 j hj
    exact ⟨a1, List.mem_cons_of_mem _ a2, a3⟩
  | getItem hc hq => exact ⟨r1, r2, r3, r4, by simp [CPc.over], by simp⟩
  | next hc => exact ⟨r1, r2, r3, r4, by simp [CPc.over], by simp⟩
  | close hc => exact ⟨r1, r2, r3, r4, by simp [CPc.over], by simp⟩
  | setStop hc =>
    refine ⟨r1, r2, r3, r4, ?_, by simp⟩
    intro _ hrn hcl
    simp only at hrn hcl
    rcases r6 hc with h' | h'
    · exact absurd hrn h'
    · rw [hcl] at h'; simp at h'
  | drainCancel hc hq hp => exact ⟨r1, r2, r3, r4, by simpa [hc] using r5, by simp [hc]⟩
  | drainCancelRun hc hq hp => exact ⟨r1, r2, r3, r4, by simpa [hc] using r5, by simp [hc]⟩
  | drainDetach hc hq hp => exact ⟨r1, r2, r3, r4, by simpa [hc] using r5, by simp [hc]⟩
  | drainSkip hc hq hp => exact ⟨r1, r2, r3, r4, by simpa [hc] using r5, by simp [hc]⟩
  | drainEnd hc hq => exact ⟨r1, r2, r3, r4, by simpa [hc, CPc.over] using r5, by simp⟩
  | drainExc hc hq => exact ⟨r1, r2, r3, r4, by simpa [hc, CPc.over] using r5, by simp⟩
  | drainEmpty hc hq => exact ⟨r1, r2, r3, r4, by simpa [hc, CPc.over] using r5, by simp⟩
  | reap hc hq => exact ⟨r1, r2, r3, r4, by simpa [hc, CPc.over] using r5, by simp⟩
  | join hc hf => exact ⟨r1, r2, r3, r4, by simpa [hc, CPc.over] using r5, by simp⟩

end AFifo
