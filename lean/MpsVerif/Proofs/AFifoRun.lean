import MpsVerif.Proofs.AFifoAll
/-! Invariants of the `async_fifo_stream` model, part 4: the tasks under way.  Used by `Props/C08Async.lean`
    (how many invocations of an async worker function can be under way: the envelope of finding F35). -/
namespace AFifo
open Fifo (Cfg)

/-- the running tasks are pairwise different and none of them is done -/
def RunInv (s : State) : Prop := s.running.Nodup ∧ ∀ j ∈ s.running, j ∉ s.finished

theorem run_init : RunInv init := by simp [RunInv, init]

theorem run_step (c : Cfg) (s : State) (a : Act) (s' : State) (hp : PoolInv c s) (h : RunInv s)
    (hs : Step c s a s') : RunInv s' := by
  obtain ⟨h1, h2⟩ := h
  obtain ⟨_, q2, q3, q4, _, _, _⟩ := hp
  cases hs
  case start j hj =>
    have := q2 j hj
    refine ⟨?_, ?_⟩
    · rw [List.nodup_append]
      exact ⟨h1, by simp, by intro a ha b hb; simp at hb; subst hb; intro hab; subst hab; exact this.1 ha⟩
    · intro k hk
      simp only [List.mem_append, List.mem_singleton] at hk
      rcases hk with hk | hk
      · exact h2 k hk
      · subst hk; exact this.2
  case finish j hj =>
    refine ⟨h1.erase j, ?_⟩
    intro k hk
    have hk' := (List.Nodup.mem_erase_iff h1).1 hk
    simp only [List.mem_cons, not_or]
    exact ⟨hk'.1, h2 k hk'.2⟩
  case preFail i hf hpf =>
    refine ⟨h1, ?_⟩
    intro k hk
    simp only [List.mem_cons, not_or]
    refine ⟨?_, h2 k hk⟩
    have a := q3 k (Or.inr (Or.inl hk))
    have b := q4 i (Or.inr (Or.inl hf))
    simp [hf] at a
    omega
  all_goals exact ⟨h1, h2⟩

/-- the hand-off queue never holds more than `cap + 1` items -/
def QLenInv (c : Cfg) (s : State) : Prop := s.queue.length ≤ c.cap + 1

theorem qlen_init (c : Cfg) : QLenInv c init := by simp [QLenInv, init]

theorem qlen_step (c : Cfg) (s : State) (a : Act) (s' : State) (h : QLenInv c s)
    (hs : Step c s a s') : QLenInv c s' := by
  unfold QLenInv at *
  cases hs <;> simp_all <;> omega

theorem run_reachable (c : Cfg) {s : State} (hr : Reachable c s) : RunInv s ∧ QLenInv c s := by
  have : AllInv c s ∧ RunInv s ∧ QLenInv c s := by
    refine reachable_inv c (Inv := fun s => AllInv c s ∧ RunInv s ∧ QLenInv c s)
      ⟨all_init c, run_init, qlen_init c⟩ ?_ hr
    intro s a s' ⟨ha, hrun, hq⟩ hs
    exact ⟨all_step c s a s' ha hs, run_step c s a s' ha.pool hrun hs, qlen_step c s a s' hq hs⟩
  exact this.2

theorem qidx_length_le (q : List QItem) : (qidx q).length ≤ q.length := by
  induction q with
  | nil => simp [qidx]
  | cons a r ih => cases a <;> simp [qidx] <;> omega

end AFifo
