import MpsVerif.Model.AFifo
import MpsVerif.Core.Sys
/-! Relational presentation of `AFifo.step` (one constructor per enabled case) and its soundness.
    Invariant proofs do `cases` on `Step`; the property theorems are stated over `step`/`run`. -/
namespace AFifo
open Fifo (Cfg SrcEnd Raised)

inductive Step (c : Cfg) : State → Act → State → Prop where
  | pull {s} : s.fpc = .idle → s.pulled < c.n →
      Step c s .pull { s with fpc := .check s.pulled, pulled := s.pulled + 1 }
  | srcEnd {s} : s.fpc = .idle → s.pulled = c.n → c.srcEnd = .clean →
      Step c s .srcEnd { s with fpc := .putEnd }
  | srcRaise {s} : s.fpc = .idle → s.pulled = c.n → c.srcEnd = .exc →
      Step c s .srcRaise { s with fpc := .putExc }
  | fcheck {s i} : s.fpc = .check i → s.toStop = false → Step c s .fcheck { s with fpc := .sub i }
  | stopSeen {s i} : s.fpc = .check i → s.toStop = true → Step c s .stopSeen { s with fpc := .putEnd }
  | submit {s i} : s.fpc = .sub i → c.preFail i = false →
      Step c s .submit { s with fpc := .hold i, tvar := some i, pending := s.pending ++ [i] }
  | preFail {s i} : s.fpc = .sub i → c.preFail i = true →
      Step c s .preFail { s with fpc := .hold i, tvar := some i, finished := i :: s.finished }
  | put {s i t} : s.fpc = .hold i → s.tvar = some t → s.queue.length < c.cap + 1 →
      Step c s .put { s with fpc := .idle, queue := s.queue ++ [.item i t] }
  | unbound {s i} : s.fpc = .hold i → s.tvar = none → Step c s .unbound { s with fpc := .putExc }
  | putEnd {s} : s.fpc = .putEnd → s.queue.length < c.cap + 1 →
      Step c s .putEnd { s with fpc := .done, queue := s.queue ++ [.endMark] }
  | putExc {s} : s.fpc = .putExc → s.queue.length < c.cap + 1 →
      Step c s .putExc { s with fpc := .done, queue := s.queue ++ [.excMark] }
  | start {s j} : j ∈ s.pending →
      Step c s (.start j) { s with pending := s.pending.erase j, running := s.running ++ [j], calls := j :: s.calls }
  | finish {s j} : j ∈ s.running →
      Step c s (.finish j) { s with running := s.running.erase j, finished := j :: s.finished }
  | getItem {s x t rest} : s.cpc = .idle → s.queue = .item x t :: rest →
      Step c s .get { s with cpc := .wait x t, queue := rest }
  | getEnd {s rest} : s.cpc = .idle → s.queue = .endMark :: rest →
      Step c s .get { s with cpc := .drain, queue := rest }
  | getExc {s rest} : s.cpc = .idle → s.queue = .excMark :: rest →
      Step c s .get { s with cpc := .stopping, queue := rest, raised := some .src }
  | yld {s x t} : s.cpc = .wait x t → t ∈ s.finished → (c.isErr t = false ∨ c.returnExc = true) →
      Step c s .yld { s with cpc := .susp, out := s.out ++ [(x, t)] }
  | raiseItem {s x t} : s.cpc = .wait x t → t ∈ s.finished → c.isErr t = true → c.returnExc = false →
      Step c s .raiseItem { s with cpc := .stopping, raised := some (.item t) }
  | next {s} : s.cpc = .susp → Step c s .next { s with cpc := .idle }
  | close {s} : s.cpc = .susp → Step c s .close { s with cpc := .stopping, closeReq := true }
  | setStop {s} : s.cpc = .stopping → Step c s .setStop { s with cpc := .drain, toStop := true }
  | drainCancel {s x t rest} : s.cpc = .drain → s.queue = .item x t :: rest → t ∈ s.pending →
      Step c s .drainCancel { s with queue := rest, pending := s.pending.erase t, cancelled := t :: s.cancelled }
  | drainCancelRun {s x t rest} : s.cpc = .drain → s.queue = .item x t :: rest → t ∈ s.running →
      Step c s .drainCancelRun { s with queue := rest, creq := t :: s.creq }
  | drainDetach {s x t rest} : s.cpc = .drain → s.queue = .item x t :: rest → (t ∈ s.pending ∨ t ∈ s.running) →
      Step c s .drainDetach { s with queue := rest }
  | drainSkip {s x t rest} : s.cpc = .drain → s.queue = .item x t :: rest → t ∈ s.finished →
      Step c s .drainSkip { s with queue := rest }
  | drainEnd {s rest} : s.cpc = .drain → s.queue = .endMark :: rest →
      Step c s .drainMark { s with cpc := .reap, queue := rest }
  | drainExc {s rest} : s.cpc = .drain → s.queue = .excMark :: rest →
      Step c s .drainMark { s with cpc := .reap, queue := rest }
  | drainEmpty {s} : s.cpc = .drain → s.queue = [] → Step c s .drainEmpty { s with cpc := .reap }
  | reap {s} : s.cpc = .reap → (∀ t ∈ s.creq, t ∉ s.running) → Step c s .reap { s with cpc := .join }
  | join {s} : s.cpc = .join → s.fpc = .done → Step c s .join { s with cpc := .closed }

theorem step_sound (c : Cfg) (s s' : State) (a : Act) (h : step c s a = some s') : Step c s a s' := by
  cases a <;> simp only [step] at h
  case pull => split at h <;> simp at h; subst h; rename_i hc; exact .pull hc.1 hc.2
  case srcEnd => split at h <;> simp at h; subst h; rename_i hc; exact .srcEnd hc.1 hc.2.1 hc.2.2
  case srcRaise => split at h <;> simp at h; subst h; rename_i hc; exact .srcRaise hc.1 hc.2.1 hc.2.2
  case fcheck =>
    split at h
    · rename_i i hf; split at h <;> simp at h; subst h; rename_i ht; exact .fcheck hf ht
    · simp at h
  case stopSeen =>
    split at h
    · rename_i i hf; split at h <;> simp at h; subst h; rename_i ht; exact .stopSeen hf ht
    · simp at h
  case submit =>
    split at h
    · rename_i i hf; split at h <;> simp at h; subst h; rename_i ht; exact .submit hf ht
    · simp at h
  case preFail =>
    split at h
    · rename_i i hf; split at h <;> simp at h; subst h; rename_i ht; exact .preFail hf ht
    · simp at h
  case put =>
    split at h
    · rename_i i t hf ht; split at h <;> simp at h; subst h; rename_i hl; exact .put hf ht hl
    · simp at h
  case unbound =>
    split at h
    · rename_i i hf ht; simp at h; subst h; exact .unbound hf ht
    · simp at h
  case putEnd => split at h <;> simp at h; subst h; rename_i hc; exact .putEnd hc.1 hc.2
  case putExc => split at h <;> simp at h; subst h; rename_i hc; exact .putExc hc.1 hc.2
  case start j => split at h <;> simp at h; subst h; rename_i hc; exact .start hc
  case finish j => split at h <;> simp at h; subst h; rename_i hc; exact .finish hc
  case get =>
    split at h
    · rename_i hc
      split at h
      · rename_i x t rest hq; simp at h; subst h; exact .getItem hc hq
      · rename_i rest hq; simp at h; subst h; exact .getEnd hc hq
      · rename_i rest hq; simp at h; subst h; exact .getExc hc hq
      · simp at h
    · simp at h
  case yld =>
    split at h
    · rename_i x t hcp; split at h <;> simp at h; subst h; rename_i hf; exact .yld hcp hf.1 hf.2
    · simp at h
  case raiseItem =>
    split at h
    · rename_i x t hcp; split at h <;> simp at h; subst h; rename_i hf
      exact .raiseItem hcp hf.1 hf.2.1 hf.2.2
    · simp at h
  case next => split at h <;> simp at h; subst h; rename_i hc; exact .next hc
  case close => split at h <;> simp at h; subst h; rename_i hc; exact .close hc
  case setStop => split at h <;> simp at h; subst h; rename_i hc; exact .setStop hc
  case drainCancel =>
    split at h
    · rename_i hc
      split at h
      · rename_i x t rest hq
        split at h
        · simp at h; subst h; rename_i hp; exact .drainCancel hc hq hp
        · simp at h
      · simp at h
    · simp at h
  case drainCancelRun =>
    split at h
    · rename_i hc
      split at h
      · rename_i x t rest hq
        split at h
        · simp at h; subst h; rename_i hp; exact .drainCancelRun hc hq hp
        · simp at h
      · simp at h
    · simp at h
  case drainDetach =>
    split at h
    · rename_i hc
      split at h
      · rename_i x t rest hq
        split at h
        · simp at h; subst h; rename_i hp; exact .drainDetach hc hq hp
        · simp at h
      · simp at h
    · simp at h
  case drainSkip =>
    split at h
    · rename_i hc
      split at h
      · rename_i x t rest hq
        split at h
        · simp at h; subst h; rename_i hp; exact .drainSkip hc hq hp
        · simp at h
      · simp at h
    · simp at h
  case drainMark =>
    split at h
    · rename_i hc
      split at h
      · rename_i rest hq; simp at h; subst h; exact .drainEnd hc hq
      · rename_i rest hq; simp at h; subst h; exact .drainExc hc hq
      · simp at h
    · simp at h
  case drainEmpty => split at h <;> simp at h; subst h; rename_i hc; exact .drainEmpty hc.1 hc.2
  case reap => split at h <;> simp at h; subst h; rename_i hc; exact .reap hc.1 hc.2
  case join => split at h <;> simp at h; subst h; rename_i hc; exact .join hc.1 hc.2

/-- reachable states of the model for configuration `c` -/
def Reachable (c : Cfg) (s : State) : Prop := Core.Reach (step c) init s

/-- lift a `Step`-inductive invariant to all reachable states -/
theorem reachable_inv (c : Cfg) {Inv : State → Prop} (h0 : Inv init)
    (hstep : ∀ s a s', Inv s → Step c s a s' → Inv s') {s : State} (hr : Reachable c s) : Inv s :=
  Core.invariant_reach (fun s a s' hi hs => hstep s a s' hi (step_sound c s s' a hs)) h0 hr

end AFifo
