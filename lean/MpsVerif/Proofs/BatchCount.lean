import MpsVerif.Proofs.BatchInv
set_option linter.unusedSimpArgs false
/-!
Conservation of requests in the batching-worker model: every request that arrived is, at any
time, in exactly one place — still on `q_in`, in flight inside exactly one worker (held by its
collector, in its buffer, in the batch under assembly, in a released batch that has not entered
`call`), in exactly one recorded call, or short-circuited to `q_out`.
-/
namespace Batch

def reqsOf : List Item → List Req
  | [] => []
  | .req r :: t => r :: reqsOf t
  | .stop :: t => reqsOf t

@[simp] theorem reqsOf_nil : reqsOf [] = [] := rfl
@[simp] theorem reqsOf_cons_req (r : Req) (t : List Item) : reqsOf (.req r :: t) = r :: reqsOf t := rfl
@[simp] theorem reqsOf_cons_stop (t : List Item) : reqsOf (.stop :: t) = reqsOf t := rfl
@[simp] theorem reqsOf_append (a b : List Item) : reqsOf (a ++ b) = reqsOf a ++ reqsOf b := by
  induction a with
  | nil => rfl
  | cons z t ih => cases z <;> simp [ih]

def heldOf : CPh → List Req
  | .have (.req r) => [r]
  | _ => []

/-- the batch of a released entry that has not entered `call` yet -/
def qb (e : PEnt) : List Req := if e.st = .queued then e.batch else []

def inflight (w : W) : List Req := heldOf w.cph ++ reqsOf w.buf ++ batchOf w.gph ++ w.pd.flatMap qb

/-- occurrences of uid `u` -/
def cntU (u : Nat) (l : List Req) : Nat := l.countP (fun r => r.uid == u)

@[simp] theorem cntU_nil (u : Nat) : cntU u [] = 0 := rfl
@[simp] theorem cntU_cons (u : Nat) (r : Req) (l : List Req) :
    cntU u (r :: l) = cntU u l + (if r.uid = u then 1 else 0) := by
  simp [cntU, List.countP_cons]
@[simp] theorem cntU_append (u : Nat) (a b : List Req) : cntU u (a ++ b) = cntU u a + cntU u b := by
  simp [cntU]

def isShort (u : Nat) : Out → Bool
  | .res u' .preErr => u' == u
  | .res u' .inErr => u' == u
  | _ => false

/-- short-circuited outputs for uid `u` -/
def shortCnt (u : Nat) (out : List Out) : Nat := out.countP (isShort u)

@[simp] theorem shortCnt_append (u : Nat) (a b : List Out) : shortCnt u (a ++ b) = shortCnt u a + shortCnt u b := by
  simp [shortCnt]
@[simp] theorem shortCnt_sentinel (u i : Nat) : shortCnt u [.sentinel i] = 0 := by simp [shortCnt, isShort]
@[simp] theorem shortCnt_short (u : Nat) (r : Req) :
    shortCnt u [.res r.uid (shortRes r.kind)] = if r.uid = u then 1 else 0 := by
  cases hk : r.kind <;> simp [shortCnt, isShort, shortRes, List.countP_cons]
@[simp] theorem shortCnt_outsOf (u : Nat) (b : List Req) (cid : Nat) (ok : Bool) :
    shortCnt u (outsOf b cid ok) = 0 := by
  induction b with
  | nil => simp [outsOf, shortCnt]
  | cons r t ih =>
    simp only [outsOf, shortCnt, List.map_cons, List.countP_cons] at ih ⊢
    cases ok <;> simp_all [isShort]

def wsum : Nat → (Nat → Nat) → Nat
  | 0, _ => 0
  | k + 1, f => wsum k f + f k

theorem wsum_congr (k : Nat) (f g : Nat → Nat) (h : ∀ j, j < k → f j = g j) : wsum k f = wsum k g := by
  induction k with
  | zero => rfl
  | succ k ih =>
    simp only [wsum]
    rw [ih (fun j hj => h j (by omega)), h k (by omega)]

theorem wsum_update (k : Nat) (f g : Nat → Nat) (i : Nat) (hi : i < k) (h : ∀ j, j ≠ i → g j = f j) :
    wsum k g + f i = wsum k f + g i := by
  induction k with
  | zero => omega
  | succ k ih =>
    simp only [wsum]
    by_cases hik : i = k
    · subst hik
      have : wsum i g = wsum i f := wsum_congr i g f (fun j hj => h j (by omega))
      omega
    · have := ih (by omega)
      have hk := h k (by omega)
      omega

def flightCnt (u : Nat) (k : Nat) (ws : Nat → W) : Nat := wsum k (fun j => cntU u (inflight (ws j)))

theorem flight_setW (u : Nat) (k : Nat) (s : State) (i : Nat) (w : W) (hi : i < k) :
    flightCnt u k (setW s i w).ws + cntU u (inflight (s.ws i)) = flightCnt u k s.ws + cntU u (inflight w) := by
  unfold flightCnt
  have := wsum_update k (fun j => cntU u (inflight (s.ws j))) (fun j => cntU u (inflight ((setW s i w).ws j))) i hi
    (by intro j hj; simp [setW, hj])
  simpa using this

def calledAll (s : State) : List Req := s.calls.flatMap (·.batch)

def tot (u : Nat) (c : Cfg) (s : State) : Nat :=
  cntU u (reqsOf s.qin) + flightCnt u c.k s.ws + cntU u (calledAll s) + shortCnt u s.out

structure CountInv (c : Cfg) (s : State) : Prop where
  tot : ∀ u, tot u c s = cntU u s.arrived
  ids : s.arrived.map (·.uid) = List.range s.nextId

theorem count_flatMap_set (u : Nat) (l : List PEnt) (j : Nat) (e e' : PEnt) (h : l[j]? = some e) :
    cntU u ((l.set j e').flatMap qb) + cntU u (qb e) = cntU u (l.flatMap qb) + cntU u (qb e') := by
  induction l generalizing j with
  | nil => simp at h
  | cons a t ih =>
    cases j with
    | zero => simp at h; subst h; simp; omega
    | succ j =>
      simp at h
      have := ih j h
      simp; omega

theorem flight_zero (u k : Nat) : flightCnt u k (fun _ => ({} : W)) = 0 := by
  unfold flightCnt
  have h0 : (fun j : Nat => cntU u (inflight ((fun _ : Nat => ({} : W)) j))) = fun _ : Nat => 0 := by
    funext j; simp [inflight, heldOf, batchOf]
  rw [h0]
  induction k with
  | zero => rfl
  | succ k ih => simp [wsum, ih]

theorem count_init (c : Cfg) : CountInv c init := by
  refine ⟨fun u => ?_, by simp [init]⟩
  simp [tot, init, calledAll, shortCnt, flight_zero]

theorem count_step (c : Cfg) (s : State) (a : Act) (s' : State) (h : CountInv c s) (hs : Step c s a s') :
    CountInv c s' := by
  obtain ⟨ht, hid⟩ := h
  cases hs with
  | arrive kd =>
    refine ⟨fun u => ?_, by simp [hid, List.range_succ]⟩
    have := ht u
    simp only [tot, calledAll] at this ⊢
    simp; omega
  | stop _ =>
    refine ⟨fun u => ?_, hid⟩
    have := ht u
    simp only [tot, calledAll] at this ⊢
    simpa using this
  | tick _ => exact ⟨ht, hid⟩
  | @cLock i hi _ hp _ _ =>
    refine ⟨fun u => ?_, hid⟩
    have := ht u
    have hf := flight_setW u c.k s i { s.ws i with cph := .locked } hi
    simp only [tot, calledAll] at this ⊢
    simp [inflight, heldOf, hp] at hf ⊢
    omega
  | @cGet i z rest hi hp hq =>
    refine ⟨fun u => ?_, hid⟩
    have := ht u
    have hf := flight_setW u c.k s i { s.ws i with cph := .have z } hi
    simp only [tot, calledAll] at this ⊢
    cases z <;> simp [inflight, heldOf, hp, hq] at hf this ⊢ <;> omega
  | @cPutStop i hi hp =>
    refine ⟨fun u => ?_, hid⟩
    have := ht u
    have hf := flight_setW u c.k s i { s.ws i with cph := .done, buf := (s.ws i).buf ++ [.stop] } hi
    simp only [tot, calledAll] at this ⊢
    simp [inflight, heldOf, batchOf, qb, hp] at hf this ⊢
    omega
  | @cPutGood i r hi hp _ _ =>
    refine ⟨fun u => ?_, hid⟩
    have := ht u
    have hf := flight_setW u c.k s i { s.ws i with cph := .after, buf := (s.ws i).buf ++ [.req r] } hi
    simp only [tot, calledAll] at this ⊢
    simp [inflight, heldOf, batchOf, qb, hp] at hf this ⊢
    omega
  | @cPutShort i r hi hp _ =>
    refine ⟨fun u => ?_, hid⟩
    have := ht u
    have hf := flight_setW u c.k s i { s.ws i with cph := .after } hi
    simp only [tot, calledAll] at this ⊢
    simp [inflight, heldOf, batchOf, qb, hp] at hf this ⊢
    omega
  | @cMore i z rest hi hp _ hq =>
    refine ⟨fun u => ?_, hid⟩
    have := ht u
    have hf := flight_setW u c.k s i { s.ws i with cph := .have z } hi
    simp only [tot, calledAll] at this ⊢
    cases z <;> simp [inflight, heldOf, batchOf, qb, hp, hq] at hf this ⊢ <;> omega
  | @cNoMore i hi hp _ =>
    refine ⟨fun u => ?_, hid⟩
    have := ht u
    have hf := flight_setW u c.k s i { s.ws i with cph := .decide } hi
    simp only [tot, calledAll] at this ⊢
    simp [inflight, heldOf, batchOf, qb, hp] at hf this ⊢
    omega
  | @cDecFlag i hi hp _ =>
    refine ⟨fun u => ?_, hid⟩
    have := ht u
    have hf := flight_setW u c.k s i { s.ws i with cph := .top, flag := false } hi
    simp only [tot, calledAll] at this ⊢
    simp [inflight, heldOf, batchOf, qb, hp] at hf this ⊢
    omega
  | @cDecFull i hi hp _ _ =>
    refine ⟨fun u => ?_, hid⟩
    have := ht u
    have hf := flight_setW u c.k s i { s.ws i with cph := .top } hi
    simp only [tot, calledAll] at this ⊢
    simp [inflight, heldOf, batchOf, qb, hp] at hf this ⊢
    omega
  | @cDecCont i hi hp _ _ =>
    refine ⟨fun u => ?_, hid⟩
    have := ht u
    have hf := flight_setW u c.k s i { s.ws i with cph := .locked } hi
    simp only [tot, calledAll] at this ⊢
    simp [inflight, heldOf, batchOf, qb, hp] at hf this ⊢
    omega
  | @gFirstStop i rest hi _ hg _ hb =>
    refine ⟨fun u => ?_, hid⟩
    have := ht u
    have hf := flight_setW u c.k s i { s.ws i with gph := .fin, buf := rest } hi
    simp only [tot, calledAll] at this ⊢
    simp [inflight, heldOf, batchOf, qb, hg, hb] at hf this ⊢
    omega
  | @gFirstReq i r rest hi _ hg _ hb =>
    refine ⟨fun u => ?_, hid⟩
    have := ht u
    have hf := flight_setW u c.k s i { s.ws i with gph := .coll [r] s.clock, buf := rest } hi
    simp only [tot, calledAll] at this ⊢
    simp [inflight, heldOf, batchOf, qb, hg, hb] at hf this ⊢
    omega
  | @gNextStop i batch t0 rest hi hg _ hb =>
    refine ⟨fun u => ?_, hid⟩
    have := ht u
    have hf := flight_setW u c.k s i { s.ws i with gph := .ready batch t0, buf := rest ++ [.stop] } hi
    simp only [tot, calledAll] at this ⊢
    simp [inflight, heldOf, batchOf, qb, hg, hb] at hf this ⊢
    omega
  | @gNextMore i batch t0 r rest hi hg _ hb _ =>
    refine ⟨fun u => ?_, hid⟩
    have := ht u
    have hf := flight_setW u c.k s i { s.ws i with gph := .coll (batch ++ [r]) t0, buf := rest } hi
    simp only [tot, calledAll] at this ⊢
    simp [inflight, heldOf, batchOf, qb, hg, hb] at hf this ⊢
    omega
  | @gNextFull i batch t0 r rest hi hg _ hb _ =>
    refine ⟨fun u => ?_, hid⟩
    have := ht u
    have hf := flight_setW u c.k s i { s.ws i with gph := .ready (batch ++ [r]) t0, buf := rest } hi
    simp only [tot, calledAll] at this ⊢
    simp [inflight, heldOf, batchOf, qb, hg, hb] at hf this ⊢
    omega
  | @gTimeout i batch t0 hi hg _ =>
    refine ⟨fun u => ?_, hid⟩
    have := ht u
    have hf := flight_setW u c.k s i { s.ws i with gph := .ready batch t0 } hi
    simp only [tot, calledAll] at this ⊢
    simp [inflight, heldOf, batchOf, qb, hg] at hf this ⊢
    omega
  | @gRelease i batch t0 hi hg =>
    refine ⟨fun u => ?_, hid⟩
    have := ht u
    have hf := flight_setW u c.k s i { s.ws i with gph := .idle, flag := true, pd := (s.ws i).pd ++ [⟨batch, t0, s.clock, .queued⟩] } hi
    simp only [tot, calledAll] at this ⊢
    simp [inflight, heldOf, batchOf, qb, hg] at hf this ⊢
    omega
  | @sGetStop i rest hi _ hg _ hq =>
    refine ⟨fun u => ?_, hid⟩
    have := ht u
    have hf := flight_setW u c.k s i { s.ws i with gph := .fin } hi
    simp only [tot, calledAll] at this ⊢
    simp [inflight, heldOf, batchOf, qb, hg, hq] at hf this ⊢
    omega
  | @sGetGood i r rest hi _ hg _ hq _ =>
    refine ⟨fun u => ?_, hid⟩
    have := ht u
    have hf := flight_setW u c.k s i { s.ws i with pd := (s.ws i).pd ++ [⟨[r], s.clock, s.clock, .queued⟩] } hi
    simp only [tot, calledAll] at this ⊢
    simp [inflight, heldOf, batchOf, qb, hg, hq] at hf this ⊢
    omega
  | @sGetShort i r rest hi _ hg _ hq _ =>
    refine ⟨fun u => ?_, hid⟩
    have := ht u
    simp only [tot, calledAll] at this ⊢
    simp [hq] at this ⊢
    omega
  | @callEnter i j e hi he hst =>
    refine ⟨fun u => ?_, hid⟩
    have := ht u
    have hf := flight_setW u c.k s i { s.ws i with pd := (s.ws i).pd.set j { e with st := .running s.calls.length } } hi
    simp only [tot, calledAll] at this ⊢
    have hc := count_flatMap_set u (s.ws i).pd j e { e with st := .running s.calls.length } he
    simp [inflight, heldOf, batchOf, qb, hst] at hf this hc ⊢
    omega
  | @callRet i j e cid ok hi he hst =>
    refine ⟨fun u => ?_, hid⟩
    have := ht u
    have hf := flight_setW u c.k s i { s.ws i with pd := (s.ws i).pd.set j { e with st := .done cid ok } } hi
    simp only [tot, calledAll] at this ⊢
    have hc := count_flatMap_set u (s.ws i).pd j e { e with st := .done cid ok } he
    simp [inflight, heldOf, batchOf, qb, hst] at hf this hc ⊢
    omega
  | @emit i e rest cid ok hi hp hst =>
    refine ⟨fun u => ?_, hid⟩
    have := ht u
    have hf := flight_setW u c.k s i { s.ws i with pd := rest } hi
    simp only [tot, calledAll] at this ⊢
    simp [inflight, heldOf, batchOf, qb, hp, hst] at hf this ⊢
    omega

end Batch

namespace Batch

theorem cntU_eq_count (u : Nat) (l : List Req) : cntU u l = (l.map (·.uid)).count u := by
  induction l with
  | nil => rfl
  | cons r t ih => simp [List.count_cons, ih]

theorem cntU_pos_of_mem {r : Req} {l : List Req} (h : r ∈ l) : 0 < cntU r.uid l := by
  unfold cntU
  exact List.countP_pos_iff.mpr ⟨r, h, by simp⟩

theorem mem_of_cntU_pos {u : Nat} {l : List Req} (h : 0 < cntU u l) : ∃ r ∈ l, r.uid = u := by
  unfold cntU at h
  obtain ⟨r, hr, hp⟩ := List.countP_pos_iff.mp h
  exact ⟨r, hr, by simpa using hp⟩

theorem cntU_arrived (c : Cfg) (s : State) (h : CountInv c s) (u : Nat) :
    cntU u s.arrived = if u < s.nextId then 1 else 0 := by
  rw [cntU_eq_count, h.ids, List.nodup_range.count]
  simp

theorem cntU_arrived_mem (c : Cfg) (s : State) (h : CountInv c s) {r : Req} (hr : r ∈ s.arrived) :
    cntU r.uid s.arrived = 1 := by
  have := cntU_pos_of_mem hr
  rw [cntU_arrived c s h] at this ⊢
  split <;> simp_all

theorem cntU_two {l : List Req} {r r' : Req} (hr : r ∈ l) (hr' : r' ∈ l) (hne : r ≠ r') (hu : r.uid = r'.uid) :
    2 ≤ cntU r.uid l := by
  induction l with
  | nil => simp at hr
  | cons a t ih =>
    simp only [cntU_cons]
    rcases List.mem_cons.mp hr with h1 | h1 <;> rcases List.mem_cons.mp hr' with h2 | h2
    · exact absurd (h1.trans h2.symm) hne
    · subst h1; have := cntU_pos_of_mem h2; rw [← hu] at this; simp; omega
    · subst h2; have := cntU_pos_of_mem h1; simp [hu]; rw [hu] at this; omega
    · have := ih h1 h2; omega

/-- two arrived requests with the same uid are the same request -/
theorem arrived_uid_inj (c : Cfg) (s : State) (h : CountInv c s) {r r' : Req} (hr : r ∈ s.arrived)
    (hr' : r' ∈ s.arrived) (hu : r.uid = r'.uid) : r = r' := by
  by_cases hne : r = r'
  · exact hne
  · have h2 := cntU_two hr hr' hne hu
    have := cntU_arrived_mem c s h hr
    omega

theorem flight_pos (u k : Nat) (ws : Nat → W) (h : 0 < flightCnt u k ws) :
    ∃ i, i < k ∧ 0 < cntU u (inflight (ws i)) := by
  unfold flightCnt at h
  induction k with
  | zero => simp [wsum] at h
  | succ k ih =>
    simp only [wsum] at h
    by_cases h0 : 0 < wsum k (fun j => cntU u (inflight (ws j)))
    · obtain ⟨i, hi, hp⟩ := ih h0
      exact ⟨i, by omega, hp⟩
    · exact ⟨k, by omega, by omega⟩

theorem flight_zero_of (u k : Nat) (ws : Nat → W) (h : ∀ i, i < k → inflight (ws i) = []) :
    flightCnt u k ws = 0 := by
  unfold flightCnt
  induction k with
  | zero => rfl
  | succ k ih =>
    simp only [wsum]
    rw [ih (fun i hi => h i (by omega)), h k (by omega)]
    simp

end Batch

namespace Batch

/-- a short-circuit output is only ever written for an arrived request that is not a regular
    accepted input -/
def ShortInv (s : State) : Prop :=
  ∀ o ∈ s.out, ∀ u, isShort u o = true → ∃ r ∈ s.arrived, r.uid = u ∧ r.kind ≠ .good

theorem isShort_outsOf (u : Nat) (b : List Req) (cid : Nat) (ok : Bool) :
    ∀ o ∈ outsOf b cid ok, isShort u o = false := by
  intro o ho
  simp only [outsOf, List.mem_map] at ho
  obtain ⟨r, _, rfl⟩ := ho
  cases ok <;> simp [isShort]

theorem isShort_shortRes {u : Nat} {r : Req} (h : isShort u (.res r.uid (shortRes r.kind)) = true) : r.uid = u := by
  cases hk : r.kind <;> simp [isShort, shortRes, hk] at h <;> exact h

theorem short_step (c : Cfg) (s : State) (a : Act) (s' : State) (hsh : ShapeInv c s) (h : ShortInv s)
    (hs : Step c s a s') : ShortInv s' := by
  have happ : ∀ (extra : List Out) (arr : List Req), (∀ r ∈ s.arrived, r ∈ arr) →
      (∀ o ∈ extra, ∀ u, isShort u o = true → ∃ r ∈ arr, r.uid = u ∧ r.kind ≠ .good) →
      ∀ o ∈ s.out ++ extra, ∀ u, isShort u o = true → ∃ r ∈ arr, r.uid = u ∧ r.kind ≠ .good := by
    intro extra arr hm he o ho u hu
    rcases List.mem_append.mp ho with h1 | h1
    · obtain ⟨r, hr, h2⟩ := h o h1 u hu
      exact ⟨r, hm r hr, h2⟩
    · exact he o h1 u hu
  cases hs with
  | arrive kd =>
    intro o ho u hu
    obtain ⟨r, hr, h2⟩ := h o ho u hu
    exact ⟨r, List.mem_append_left _ hr, h2⟩
  | @cPutStop i hi hp =>
    exact happ _ _ (fun _ hr => hr) (by intro o ho u hu; simp at ho; subst ho; simp [isShort] at hu)
  | @cPutShort i r hi hp hk =>
    refine happ _ _ (fun _ hr => hr) ?_
    intro o ho u hu; simp at ho; subst ho
    exact ⟨r, (hsh.ws i).held r hp, isShort_shortRes hu, hk⟩
  | @gFirstStop i rest hi _ hg _ hb =>
    exact happ _ _ (fun _ hr => hr) (by intro o ho u hu; simp at ho; subst ho; simp [isShort] at hu)
  | @sGetStop i rest hi _ hg _ hq =>
    exact happ _ _ (fun _ hr => hr) (by intro o ho u hu; simp at ho; subst ho; simp [isShort] at hu)
  | @sGetShort i r rest hi _ hg _ hq hk =>
    refine happ _ _ (fun _ hr => hr) ?_
    intro o ho u hu; simp at ho; subst ho
    exact ⟨r, hsh.qin r (by simp [hq]), isShort_shortRes hu, hk⟩
  | @emit i e rest cid ok hi hp hst =>
    refine happ _ _ (fun _ hr => hr) ?_
    intro o ho u hu
    rw [isShort_outsOf u _ _ _ o ho] at hu; simp at hu
  | _ => exact h

theorem shortCnt_pos {u : Nat} {out : List Out} (h : 0 < shortCnt u out) : ∃ o ∈ out, isShort u o = true := by
  unfold shortCnt at h
  exact List.countP_pos_iff.mp h

end Batch
