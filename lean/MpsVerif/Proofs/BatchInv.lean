import MpsVerif.Proofs.BatchStep
/-!
Shape and timing invariants of the batching-worker model: what may sit in a buffer, in a batch
under assembly, in a released batch and in a recorded call; and the clock relations behind
`C09_deadline`.
-/
namespace Batch

@[simp] theorem setW_same (s : State) (i : Nat) (w : W) : (setW s i w).ws i = w := by simp [setW]
theorem setW_other (s : State) (i j : Nat) (w : W) (h : j ≠ i) : (setW s i w).ws j = s.ws j := by
  simp [setW, h]
@[simp] theorem setW_clock (s : State) (i : Nat) (w : W) : (setW s i w).clock = s.clock := rfl
@[simp] theorem setW_qin (s : State) (i : Nat) (w : W) : (setW s i w).qin = s.qin := rfl
@[simp] theorem setW_lock (s : State) (i : Nat) (w : W) : (setW s i w).lock = s.lock := rfl
@[simp] theorem setW_out (s : State) (i : Nat) (w : W) : (setW s i w).out = s.out := rfl
@[simp] theorem setW_calls (s : State) (i : Nat) (w : W) : (setW s i w).calls = s.calls := rfl
@[simp] theorem setW_arrived (s : State) (i : Nat) (w : W) : (setW s i w).arrived = s.arrived := rfl
@[simp] theorem setW_nextId (s : State) (i : Nat) (w : W) : (setW s i w).nextId = s.nextId := rfl
@[simp] theorem setW_stopped (s : State) (i : Nat) (w : W) : (setW s i w).stopped = s.stopped := rfl

/-- largest batch the configuration may hand to `call` -/
def Cfg.bmax (c : Cfg) : Nat := max c.b 1

/-- a genuine input: regular value accepted by `preprocess`, and it did arrive -/
def Genuine (arr : List Req) (r : Req) : Prop := r.kind = .good ∧ r ∈ arr

def ItemGen (arr : List Req) : Item → Prop
  | .stop => True
  | .req r => Genuine arr r

def batchOf : GPh → List Req
  | .coll b _ => b
  | .ready b _ => b
  | _ => []

/-- shape of a batch that is complete (or being handed on) -/
def BatchOk (c : Cfg) (arr : List Req) (b : List Req) : Prop :=
  b ≠ [] ∧ b.length ≤ c.bmax ∧ ∀ r ∈ b, Genuine arr r

structure WShape (c : Cfg) (arr : List Req) (w : W) : Prop where
  buf : ∀ z ∈ w.buf, ItemGen arr z
  held : ∀ r, w.cph = .have (.req r) → r ∈ arr
  coll : ∀ b t0, w.gph = .coll b t0 → BatchOk c arr b ∧ b.length < c.b
  ready : ∀ b t0, w.gph = .ready b t0 → BatchOk c arr b ∧ 1 < c.b
  pd : ∀ e ∈ w.pd, BatchOk c arr e.batch

def CallOk (c : Cfg) (arr : List Req) (cl : Call) : Prop :=
  BatchOk c arr cl.batch ∧ cl.isList = decide (0 < c.b)

structure ShapeInv (c : Cfg) (s : State) : Prop where
  ws : ∀ j, WShape c s.arrived (s.ws j)
  qin : ∀ r, Item.req r ∈ s.qin → r ∈ s.arrived
  calls : ∀ cl ∈ s.calls, CallOk c s.arrived cl

theorem Genuine.mono {arr arr' : List Req} (h : ∀ r ∈ arr, r ∈ arr') {r : Req} (g : Genuine arr r) :
    Genuine arr' r := ⟨g.1, h r g.2⟩

theorem ItemGen.mono {arr arr' : List Req} (h : ∀ r ∈ arr, r ∈ arr') {z : Item} (g : ItemGen arr z) :
    ItemGen arr' z := by
  cases z with
  | stop => trivial
  | req r => exact Genuine.mono h g

theorem BatchOk.mono {c : Cfg} {arr arr' : List Req} (h : ∀ r ∈ arr, r ∈ arr') {b : List Req}
    (g : BatchOk c arr b) : BatchOk c arr' b :=
  ⟨g.1, g.2.1, fun r hr => Genuine.mono h (g.2.2 r hr)⟩

theorem WShape.mono {c : Cfg} {arr arr' : List Req} (h : ∀ r ∈ arr, r ∈ arr') {w : W}
    (g : WShape c arr w) : WShape c arr' w :=
  ⟨fun z hz => ItemGen.mono h (g.buf z hz), fun r hr => h r (g.held r hr),
   fun b t0 hb => ⟨BatchOk.mono h (g.coll b t0 hb).1, (g.coll b t0 hb).2⟩,
   fun b t0 hb => ⟨BatchOk.mono h (g.ready b t0 hb).1, (g.ready b t0 hb).2⟩,
   fun e he => BatchOk.mono h (g.pd e he)⟩

theorem shape_init (c : Cfg) : ShapeInv c init := by
  refine ⟨fun j => ⟨?_, ?_, ?_, ?_, ?_⟩, ?_, ?_⟩ <;> simp [init]

/-- replacing one worker by a well-shaped one keeps all workers well-shaped -/
theorem ws_setW {c : Cfg} {s : State} {arr : List Req} (h : ∀ j, WShape c arr (s.ws j)) (i : Nat) {w : W}
    (hw : WShape c arr w) : ∀ j, WShape c arr ((setW s i w).ws j) := by
  intro j
  by_cases hj : j = i
  · subst hj; simpa using hw
  · rw [setW_other _ _ _ _ hj]; exact h j

theorem bmax_pos (c : Cfg) : 1 ≤ c.bmax := by unfold Cfg.bmax; omega
theorem bmax_of_lt {c : Cfg} (h : 1 < c.b) : c.bmax = c.b := by unfold Cfg.bmax; omega

theorem shape_step (c : Cfg) (s : State) (a : Act) (s' : State) (h : ShapeInv c s) (hs : Step c s a s') :
    ShapeInv c s' := by
  obtain ⟨hw, hq, hc⟩ := h
  cases hs with
  | arrive kd =>
    have hm : ∀ r ∈ s.arrived, r ∈ s.arrived ++ [⟨s.nextId, kd⟩] := fun r hr => List.mem_append_left _ hr
    refine ⟨fun j => (hw j).mono hm, ?_, fun cl hcl => ⟨BatchOk.mono hm (hc cl hcl).1, (hc cl hcl).2⟩⟩
    intro r hr
    simp only [List.mem_append, List.mem_singleton] at hr ⊢
    rcases hr with hr | hr
    · exact Or.inl (hq r hr)
    · right; injection hr
  | stop _ =>
    refine ⟨hw, ?_, hc⟩
    intro r hr; simp at hr; exact hq r hr
  | tick _ => exact ⟨hw, hq, hc⟩
  | @cLock i _ _ _ _ _ =>
    refine ⟨ws_setW hw i ?_, hq, hc⟩
    have := hw i
    exact ⟨this.buf, by simp, this.coll, this.ready, this.pd⟩
  | @cGet i z rest _ _ hqin =>
    refine ⟨ws_setW hw i ?_, ?_, hc⟩
    · have := hw i
      refine ⟨this.buf, ?_, this.coll, this.ready, this.pd⟩
      intro r hr; simp at hr; subst hr; exact hq r (by simp [hqin])
    · intro r hr; exact hq r (by simp [hqin, hr])
  | @cPutStop i _ _ =>
    refine ⟨ws_setW hw i ?_, ?_, hc⟩
    · have := hw i
      refine ⟨?_, by simp, this.coll, this.ready, this.pd⟩
      intro z hz; simp at hz
      rcases hz with hz | hz
      · exact this.buf z hz
      · subst hz; trivial
    · intro r hr; simp at hr; exact hq r hr
  | @cPutGood i r _ hp hk _ =>
    refine ⟨ws_setW hw i ?_, hq, hc⟩
    have := hw i
    refine ⟨?_, by simp, this.coll, this.ready, this.pd⟩
    intro z hz; simp at hz
    rcases hz with hz | hz
    · exact this.buf z hz
    · subst hz; exact ⟨hk, this.held r hp⟩
  | @cPutShort i r _ _ _ =>
    refine ⟨ws_setW hw i ?_, hq, hc⟩
    have := hw i
    exact ⟨this.buf, by simp, this.coll, this.ready, this.pd⟩
  | @cMore i z rest _ _ _ hqin =>
    refine ⟨ws_setW hw i ?_, ?_, hc⟩
    · have := hw i
      refine ⟨this.buf, ?_, this.coll, this.ready, this.pd⟩
      intro r hr; simp at hr; subst hr; exact hq r (by simp [hqin])
    · intro r hr; exact hq r (by simp [hqin, hr])
  | @cNoMore i _ _ _ =>
    refine ⟨ws_setW hw i ?_, hq, hc⟩
    have := hw i
    exact ⟨this.buf, by simp, this.coll, this.ready, this.pd⟩
  | @cDecFlag i _ _ _ =>
    refine ⟨ws_setW hw i ?_, hq, hc⟩
    have := hw i
    exact ⟨this.buf, by simp, this.coll, this.ready, this.pd⟩
  | @cDecFull i _ _ _ _ =>
    refine ⟨ws_setW hw i ?_, hq, hc⟩
    have := hw i
    exact ⟨this.buf, by simp, this.coll, this.ready, this.pd⟩
  | @cDecCont i _ _ _ _ =>
    refine ⟨ws_setW hw i ?_, hq, hc⟩
    have := hw i
    exact ⟨this.buf, by simp, this.coll, this.ready, this.pd⟩
  | @gFirstStop i rest _ _ _ _ hb =>
    refine ⟨ws_setW hw i ?_, ?_, hc⟩
    · have := hw i
      refine ⟨fun z hz => this.buf z (by simp [hb, hz]), this.held, by simp, by simp, this.pd⟩
    · intro r hr; simp at hr; exact hq r hr
  | @gFirstReq i r rest _ hb1 _ _ hb =>
    refine ⟨ws_setW hw i ?_, hq, hc⟩
    have := hw i
    refine ⟨fun z hz => this.buf z (by simp [hb, hz]), this.held, ?_, by simp, this.pd⟩
    intro b t0 hg
    simp at hg
    obtain ⟨rfl, _⟩ := hg
    have hg : Genuine s.arrived r := this.buf (.req r) (by simp [hb])
    refine ⟨⟨by simp, by simp [bmax_pos], ?_⟩, by simpa using hb1⟩
    intro r' hr'; simp at hr'; subst hr'; exact hg
  | @gNextStop i batch t0 rest _ hg hl hb =>
    refine ⟨ws_setW hw i ?_, hq, hc⟩
    have := hw i
    refine ⟨?_, this.held, by simp, ?_, this.pd⟩
    · intro z hz; simp at hz
      rcases hz with hz | hz
      · exact this.buf z (by simp [hb, hz])
      · subst hz; trivial
    · intro b t hgg; simp at hgg; obtain ⟨rfl, _⟩ := hgg
      have hpos : 0 < batch.length := List.length_pos_iff.mpr (this.coll _ _ hg).1.1
      exact ⟨(this.coll _ _ hg).1, by omega⟩
  | @gNextMore i batch t0 r rest _ hg hl hb hm =>
    refine ⟨ws_setW hw i ?_, hq, hc⟩
    have := hw i
    have hgen : Genuine s.arrived r := this.buf (.req r) (by simp [hb])
    refine ⟨fun z hz => this.buf z (by simp [hb, hz]), this.held, ?_, by simp, this.pd⟩
    intro b t hgg; simp at hgg; obtain ⟨rfl, _⟩ := hgg
    have h1 : 1 < c.b := by simp at hm; omega
    refine ⟨⟨by simp, ?_, ?_⟩, hm⟩
    · rw [bmax_of_lt h1]; omega
    · intro r' hr'; simp at hr'
      rcases hr' with hr' | hr'
      · exact (this.coll _ _ hg).1.2.2 r' hr'
      · subst hr'; exact hgen
  | @gNextFull i batch t0 r rest _ hg hl hb hm =>
    refine ⟨ws_setW hw i ?_, hq, hc⟩
    have := hw i
    have hgen : Genuine s.arrived r := this.buf (.req r) (by simp [hb])
    have hne := (this.coll _ _ hg).1.1
    have hpos : 0 < batch.length := List.length_pos_iff.mpr hne
    refine ⟨fun z hz => this.buf z (by simp [hb, hz]), this.held, by simp, ?_, this.pd⟩
    intro b t hgg; simp at hgg; obtain ⟨rfl, _⟩ := hgg
    have h1 : 1 < c.b := by omega
    refine ⟨⟨by simp, ?_, ?_⟩, h1⟩
    · rw [bmax_of_lt h1]; simp; omega
    · intro r' hr'; simp at hr'
      rcases hr' with hr' | hr'
      · exact (this.coll _ _ hg).1.2.2 r' hr'
      · subst hr'; exact hgen
  | @gTimeout i batch t0 _ hg _ =>
    refine ⟨ws_setW hw i ?_, hq, hc⟩
    have := hw i
    have hne := (this.coll _ _ hg).1.1
    have hpos : 0 < batch.length := List.length_pos_iff.mpr hne
    refine ⟨this.buf, this.held, by simp, ?_, this.pd⟩
    intro b t hgg; simp at hgg; obtain ⟨rfl, _⟩ := hgg
    exact ⟨(this.coll _ _ hg).1, by have := (this.coll _ _ hg).2; omega⟩
  | @gRelease i batch t0 _ hg =>
    refine ⟨ws_setW hw i ?_, hq, hc⟩
    have := hw i
    refine ⟨this.buf, this.held, by simp, by simp, ?_⟩
    intro e he; simp at he
    rcases he with he | he
    · exact this.pd e he
    · subst he; exact (this.ready _ _ hg).1
  | @sGetStop i rest _ _ _ _ hqin =>
    refine ⟨ws_setW hw i ?_, ?_, hc⟩
    · have := hw i
      exact ⟨this.buf, this.held, by simp, by simp, this.pd⟩
    · intro r hr; simp at hr; exact hq r (by simp [hqin, hr])
  | @sGetGood i r rest _ _ _ _ hqin hk =>
    refine ⟨ws_setW hw i ?_, ?_, hc⟩
    · have := hw i
      refine ⟨this.buf, this.held, this.coll, this.ready, ?_⟩
      intro e he; simp at he
      rcases he with he | he
      · exact this.pd e he
      · subst he
        refine ⟨by simp, by simp [bmax_pos], ?_⟩
        intro r' hr'; simp at hr'; subst hr'; exact ⟨hk, hq _ (by simp [hqin])⟩
    · intro r' hr'; exact hq r' (by simp [hqin, hr'])
  | @sGetShort i r rest _ _ _ _ hqin _ =>
    refine ⟨hw, ?_, hc⟩
    intro r' hr'; exact hq r' (by simp [hqin, hr'])
  | @callEnter i j e _ he hst =>
    have hmem : e ∈ (s.ws i).pd := List.mem_of_getElem? he
    refine ⟨ws_setW hw i ?_, hq, ?_⟩
    · have := hw i
      refine ⟨this.buf, this.held, this.coll, this.ready, ?_⟩
      intro e' he'
      rcases List.mem_or_eq_of_mem_set he' with h1 | h1
      · exact this.pd e' h1
      · subst h1; exact this.pd e hmem
    · intro cl hcl; simp at hcl
      rcases hcl with hcl | hcl
      · exact hc cl hcl
      · subst hcl; exact ⟨(hw i).pd e hmem, rfl⟩
  | @callRet i j e cid ok _ he hst =>
    have hmem : e ∈ (s.ws i).pd := List.mem_of_getElem? he
    refine ⟨ws_setW hw i ?_, hq, hc⟩
    have := hw i
    refine ⟨this.buf, this.held, this.coll, this.ready, ?_⟩
    intro e' he'
    rcases List.mem_or_eq_of_mem_set he' with h1 | h1
    · exact this.pd e' h1
    · subst h1; exact this.pd e hmem
  | @emit i e rest cid ok _ hp hst =>
    refine ⟨ws_setW hw i ?_, hq, hc⟩
    have := hw i
    exact ⟨this.buf, this.held, this.coll, this.ready, fun e' he' => this.pd e' (by simp [hp, he'])⟩

end Batch
