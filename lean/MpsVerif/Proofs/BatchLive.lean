import MpsVerif.Proofs.BatchPhase
import MpsVerif.Proofs.BatchReach
set_option linter.unusedSimpArgs false
set_option linter.unusedVariables false
/-!
Liveness of the batching-worker model: a measure that every worker action and every useful clock
tick strictly decreases (so, absent new arrivals, only finitely many steps are possible), and
progress (while a request is pending and the end marker has not been issued, some worker action
or a useful tick is enabled).
-/
namespace Batch

/-- weight of one entry of `q_in` -/
def qwt (c : Cfg) : Nat := c.wait + 16

def qw (c : Cfg) : List Item → Nat
  | [] => 0
  | _ :: t => qw c t + qwt c

def bw (c : Cfg) : List Item → Nat
  | [] => 0
  | .req _ :: t => bw c t + (c.wait + 9)
  | .stop :: t => bw c t + 1

def hwt (c : Cfg) : Item → Nat
  | .req _ => c.wait + 10
  | .stop => 0

def cw (c : Cfg) : CPh → Nat
  | .top => 2 + (qwt c + 1)
  | .locked => 1 + (qwt c + 1)
  | .have z => 5 + hwt c z + (qwt c + 1)
  | .after => 4 + (qwt c + 1)
  | .decide => 3 + (qwt c + 1)
  | .done => 0

def gw (c : Cfg) (clock : Nat) : GPh → Nat
  | .idle => qwt c
  | .coll b t0 => qwt c + 5 + (t0 + c.wait - clock) + 3 * b.length
  | .ready b _ => qwt c + 4 + 3 * b.length
  | .fin => 0

def pw : PSt → Nat
  | .queued => 3
  | .running _ => 2
  | .done _ _ => 1

def pdw : List PEnt → Nat
  | [] => 0
  | e :: t => pdw t + pw e.st

def muW (c : Cfg) (clock : Nat) (w : W) : Nat := cw c w.cph + bw c w.buf + gw c clock w.gph + pdw w.pd

def muSum (c : Cfg) (clock : Nat) (ws : Nat → W) : Nat := wsum c.k (fun j => muW c clock (ws j))

def mu (c : Cfg) (s : State) : Nat := qw c s.qin + muSum c s.clock s.ws

@[simp] theorem qw_nil (c : Cfg) : qw c [] = 0 := rfl
@[simp] theorem qw_cons (c : Cfg) (z : Item) (t : List Item) : qw c (z :: t) = qw c t + qwt c := rfl
@[simp] theorem qw_append (c : Cfg) (a b : List Item) : qw c (a ++ b) = qw c a + qw c b := by
  induction a with
  | nil => simp
  | cons z t ih => simp [ih]; omega
@[simp] theorem bw_nil (c : Cfg) : bw c [] = 0 := rfl
@[simp] theorem bw_req (c : Cfg) (r : Req) (t : List Item) : bw c (.req r :: t) = bw c t + (c.wait + 9) := rfl
@[simp] theorem bw_stop (c : Cfg) (t : List Item) : bw c (.stop :: t) = bw c t + 1 := rfl
@[simp] theorem bw_append (c : Cfg) (a b : List Item) : bw c (a ++ b) = bw c a + bw c b := by
  induction a with
  | nil => simp
  | cons z t ih => cases z <;> simp [ih] <;> omega
@[simp] theorem pdw_nil : pdw [] = 0 := rfl
@[simp] theorem pdw_cons (e : PEnt) (t : List PEnt) : pdw (e :: t) = pdw t + pw e.st := rfl
@[simp] theorem pdw_append (a b : List PEnt) : pdw (a ++ b) = pdw a + pdw b := by
  induction a with
  | nil => simp
  | cons z t ih => simp [ih]; omega

theorem pdw_set (l : List PEnt) (j : Nat) (e e' : PEnt) (h : l[j]? = some e) :
    pdw (l.set j e') + pw e.st = pdw l + pw e'.st := by
  induction l generalizing j with
  | nil => simp at h
  | cons a t ih =>
    cases j with
    | zero => simp at h; subst h; simp; omega
    | succ j => simp at h; have := ih j h; simp; omega

theorem muSum_setW (c : Cfg) (clock : Nat) (s : State) (i : Nat) (w : W) (hi : i < c.k) :
    muSum c clock (setW s i w).ws + muW c clock (s.ws i) = muSum c clock s.ws + muW c clock w := by
  unfold muSum
  have := wsum_update c.k (fun j => muW c clock (s.ws j)) (fun j => muW c clock ((setW s i w).ws j)) i hi
    (by intro j hj; simp [setW, hj])
  simpa using this

theorem wsum_le (k : Nat) (f g : Nat → Nat) (h : ∀ j, j < k → g j ≤ f j) : wsum k g ≤ wsum k f := by
  induction k with
  | zero => simp [wsum]
  | succ k ih =>
    simp only [wsum]
    have := ih (fun j hj => h j (by omega)); have := h k (by omega); omega

theorem wsum_lt (k : Nat) (f g : Nat → Nat) (h : ∀ j, j < k → g j ≤ f j) (i : Nat) (hi : i < k) (hlt : g i < f i) :
    wsum k g < wsum k f := by
  induction k with
  | zero => omega
  | succ k ih =>
    simp only [wsum]
    by_cases hik : i = k
    · subst hik
      have := wsum_le i f g (fun j hj => h j (by omega)); omega
    · have := ih (fun j hj => h j (by omega)) (by omega); have := h k (by omega); omega

/-- the actions that count for liveness: every worker action, and a clock tick while some
    consumer is waiting for its deadline (arrivals / the end marker are the environment's; a tick
    with no consumer waiting changes nothing but the clock) -/
def Useful (c : Cfg) (s : State) : Act → Prop
  | .arrive _ => False
  | .stop => False
  | .tick => ∃ i, i < c.k ∧ ∃ b t0, (s.ws i).gph = .coll b t0
  | _ => True

theorem mu_decreases (c : Cfg) (s : State) (a : Act) (s' : State) (hs : Step c s a s') (hu : Useful c s a) :
    mu c s' < mu c s := by
  cases hs with
  | arrive kd => exact absurd hu (by simp [Useful])
  | stop _ => exact absurd hu (by simp [Useful])
  | tick ht =>
    obtain ⟨i, hi, b, t0, hg⟩ := hu
    simp only [mu, muSum]
    have hle : ∀ j, j < c.k → muW c (s.clock + 1) (s.ws j) ≤ muW c s.clock (s.ws j) := by
      intro j hj
      simp only [muW]
      cases hgj : (s.ws j).gph <;> simp [gw]
      omega
    have hlt : muW c (s.clock + 1) (s.ws i) < muW c s.clock (s.ws i) := by
      have hto := ht i hi
      simp only [tickOk, hg, Bool.and_eq_true, decide_eq_true_eq] at hto
      simp only [muW, hg, gw]
      omega
    have := wsum_lt c.k (fun j => muW c s.clock (s.ws j)) (fun j => muW c (s.clock + 1) (s.ws j)) hle i hi hlt
    simpa using this
  | @cLock i hi hb hp hl hr =>
    have hf := muSum_setW c s.clock s i { s.ws i with cph := .locked } hi
    simp [mu, muW, cw, gw, hwt, pw, qwt, hp] at hf ⊢
    omega
  | @cGet i z rest hi hp hq =>
    have hf := muSum_setW c s.clock s i { s.ws i with cph := .have z } hi
    cases z <;> simp [mu, muW, cw, gw, hwt, pw, qwt, hp, hq] at hf ⊢ <;> omega
  | @cPutStop i hi hp =>
    have hf := muSum_setW c s.clock s i { s.ws i with cph := .done, buf := (s.ws i).buf ++ [.stop] } hi
    simp [mu, muW, cw, gw, hwt, pw, qwt, hp] at hf ⊢
    omega
  | @cPutGood i r hi hp hk hl =>
    have hf := muSum_setW c s.clock s i { s.ws i with cph := .after, buf := (s.ws i).buf ++ [.req r] } hi
    simp [mu, muW, cw, gw, hwt, pw, qwt, hp] at hf ⊢
    omega
  | @cPutShort i r hi hp hk =>
    have hf := muSum_setW c s.clock s i { s.ws i with cph := .after } hi
    simp [mu, muW, cw, gw, hwt, pw, qwt, hp] at hf ⊢
    omega
  | @cMore i z rest hi hp hl hq =>
    have hf := muSum_setW c s.clock s i { s.ws i with cph := .have z } hi
    cases z <;> simp [mu, muW, cw, gw, hwt, pw, qwt, hp, hq] at hf ⊢ <;> omega
  | @cNoMore i hi hp hor =>
    have hf := muSum_setW c s.clock s i { s.ws i with cph := .decide } hi
    simp [mu, muW, cw, gw, hwt, pw, qwt, hp] at hf ⊢
    omega
  | @cDecFlag i hi hp hf' =>
    have hf := muSum_setW c s.clock s i { s.ws i with cph := .top, flag := false } hi
    simp [mu, muW, cw, gw, hwt, pw, qwt, hp] at hf ⊢
    omega
  | @cDecFull i hi hp hf' hl =>
    have hf := muSum_setW c s.clock s i { s.ws i with cph := .top } hi
    simp [mu, muW, cw, gw, hwt, pw, qwt, hp] at hf ⊢
    omega
  | @cDecCont i hi hp hf' hl =>
    have hf := muSum_setW c s.clock s i { s.ws i with cph := .locked } hi
    simp [mu, muW, cw, gw, hwt, pw, qwt, hp] at hf ⊢
    omega
  | @gFirstStop i rest hi hb hg hm hbuf =>
    have hf := muSum_setW c s.clock s i { s.ws i with gph := .fin, buf := rest } hi
    simp [mu, muW, cw, gw, hwt, pw, qwt, hg, hbuf] at hf ⊢
    omega
  | @gFirstReq i r rest hi hb hg hm hbuf =>
    have hf := muSum_setW c s.clock s i { s.ws i with gph := .coll [r] s.clock, buf := rest } hi
    simp [mu, muW, cw, gw, hwt, pw, qwt, hg, hbuf] at hf ⊢
    omega
  | @gNextStop i batch t0 rest hi hg hl hbuf =>
    have hf := muSum_setW c s.clock s i { s.ws i with gph := .ready batch t0, buf := rest ++ [.stop] } hi
    simp [mu, muW, cw, gw, hwt, pw, qwt, hg, hbuf] at hf ⊢
    omega
  | @gNextMore i batch t0 r rest hi hg hl hbuf hm =>
    have hf := muSum_setW c s.clock s i { s.ws i with gph := .coll (batch ++ [r]) t0, buf := rest } hi
    simp [mu, muW, cw, gw, hwt, pw, qwt, hg, hbuf] at hf ⊢
    omega
  | @gNextFull i batch t0 r rest hi hg hl hbuf hm =>
    have hf := muSum_setW c s.clock s i { s.ws i with gph := .ready (batch ++ [r]) t0, buf := rest } hi
    simp [mu, muW, cw, gw, hwt, pw, qwt, hg, hbuf] at hf ⊢
    omega
  | @gTimeout i batch t0 hi hg hd =>
    have hf := muSum_setW c s.clock s i { s.ws i with gph := .ready batch t0 } hi
    simp [mu, muW, cw, gw, hwt, pw, qwt, hg] at hf ⊢
    omega
  | @gRelease i batch t0 hi hg =>
    have hf := muSum_setW c s.clock s i { s.ws i with gph := .idle, flag := true, pd := (s.ws i).pd ++ [⟨batch, t0, s.clock, .queued⟩] } hi
    simp [mu, muW, cw, gw, hwt, pw, qwt, hg] at hf ⊢
    omega
  | @sGetStop i rest hi hb hg hm hq =>
    have hf := muSum_setW c s.clock s i { s.ws i with gph := .fin } hi
    simp [mu, muW, cw, gw, hwt, pw, qwt, hg, hq] at hf ⊢
    omega
  | @sGetGood i r rest hi hb hg hm hq hk =>
    have hf := muSum_setW c s.clock s i { s.ws i with pd := (s.ws i).pd ++ [⟨[r], s.clock, s.clock, .queued⟩] } hi
    simp [mu, muW, cw, gw, hwt, pw, qwt, hg, hq] at hf ⊢
    omega
  | @sGetShort i r rest hi hb hg hm hq hk =>
    simp [mu, qwt, hq]
  | @callEnter i j e hi he hst =>
    have hf := muSum_setW c s.clock s i { s.ws i with pd := (s.ws i).pd.set j { e with st := .running s.calls.length } } hi
    have hp := pdw_set (s.ws i).pd j e { e with st := .running s.calls.length } he
    simp [mu, muW, cw, gw, hwt, pw, qwt, hst] at hf hp ⊢
    omega
  | @callRet i j e cid ok hi he hst =>
    have hf := muSum_setW c s.clock s i { s.ws i with pd := (s.ws i).pd.set j { e with st := .done cid ok } } hi
    have hp := pdw_set (s.ws i).pd j e { e with st := .done cid ok } he
    simp [mu, muW, cw, gw, hwt, pw, qwt, hst] at hf hp ⊢
    omega
  | @emit i e rest cid ok hi hp hst =>
    have hf := muSum_setW c s.clock s i { s.ws i with pd := rest } hi
    simp [mu, muW, cw, gw, hwt, pw, qwt, hp, hst] at hf ⊢
    omega

end Batch

namespace Batch

/-- a useful action is enabled -/
def CanMove (c : Cfg) (s : State) : Prop := ∃ a, Useful c s a ∧ (step c s a).isSome = true

theorem move_pd (c : Cfg) (s : State) (i : Nat) (hi : i < c.k) (h : (s.ws i).pd ≠ []) : CanMove c s := by
  match hpd : (s.ws i).pd, h with
  | e :: rest, _ =>
    cases hst : e.st with
    | queued => exact ⟨.callEnter i 0, trivial, by simp [step, hi, hpd, hst]⟩
    | running cid => exact ⟨.callRet i 0 true, trivial, by simp [step, hi, hpd, hst]⟩
    | done cid ok => exact ⟨.emit i, trivial, by simp [step, hi, hpd, hst]⟩

theorem move_have (c : Cfg) (s : State) (hph : PhInv c s) (i : Nat) (hi : i < c.k) (z : Item)
    (h : (s.ws i).cph = .have z) : CanMove c s := by
  refine ⟨.cPut i, trivial, ?_⟩
  cases z with
  | stop => simp [step, hi, h]
  | req r =>
    have hroom := (hph.ws i).2.1 (Or.inr ⟨_, h⟩)
    by_cases hk : r.kind = .good <;> simp [step, hi, h, hk, hroom]

theorem move_after (c : Cfg) (s : State) (i : Nat) (hi : i < c.k) (h : (s.ws i).cph = .after) : CanMove c s := by
  by_cases hm : s.qin ≠ [] ∧ (s.ws i).buf.length < c.b
  · refine ⟨.cMore i, trivial, ?_⟩
    match hq : s.qin, hm.1 with
    | z :: rest, _ => simp [step, hi, h, hm.2, hq]
  · refine ⟨.cNoMore i, trivial, ?_⟩
    have : s.qin = [] ∨ c.b ≤ (s.ws i).buf.length := by
      by_cases hq : s.qin = []
      · exact Or.inl hq
      · right; exact Nat.le_of_not_lt (fun hl => hm ⟨hq, hl⟩)
    simp [step, hi, h, this]

theorem move_decide (c : Cfg) (s : State) (i : Nat) (hi : i < c.k) (h : (s.ws i).cph = .decide) : CanMove c s := by
  refine ⟨.cDecide i, trivial, ?_⟩
  simp only [step, hi, h, and_self, if_true]
  split
  · rfl
  · split <;> rfl

theorem move_ready (c : Cfg) (s : State) (i : Nat) (hi : i < c.k) (b : List Req) (t0 : Nat)
    (h : (s.ws i).gph = .ready b t0) : CanMove c s :=
  ⟨.gRelease i, trivial, by simp [step, hi, h]⟩

/-- a consumer that is assembling a batch can always go on: take the next element, give up at the
    deadline, or let the clock advance — unless some other thread has to move first -/
theorem move_coll (c : Cfg) (s : State) (hsh : ShapeInv c s) (i : Nat) (hi : i < c.k) (b : List Req) (t0 : Nat)
    (h : (s.ws i).gph = .coll b t0) : CanMove c s := by
  have hlen := ((hsh.ws i).coll b t0 h).2
  match hbuf : (s.ws i).buf with
  | z :: rest =>
    refine ⟨.gNext i, trivial, ?_⟩
    cases z with
    | stop => simp [step, hi, h, hlen, hbuf]
    | req r =>
      simp only [step, hi, h, hlen, hbuf, if_true]
      split <;> rfl
  | [] =>
    by_cases hd : t0 + c.wait ≤ s.clock
    · exact ⟨.gTimeout i, trivial, by simp [step, hi, h, hd]⟩
    · by_cases hall : (List.range c.k).all (fun j => tickOk c s.clock (s.ws j)) = true
      · exact ⟨.tick, ⟨i, hi, b, t0, h⟩, by simp only [step, hall, if_true]; rfl⟩
      · have hex : ∃ j, j < c.k ∧ ¬ tickOk c s.clock (s.ws j) = true := by
          apply Classical.byContradiction
          intro hne
          apply hall
          simp only [List.all_eq_true, List.mem_range]
          intro j hj
          cases ht : tickOk c s.clock (s.ws j) with
          | true => rfl
          | false => exact absurd ⟨j, hj, by simp [ht]⟩ hne
        obtain ⟨j, hj, hnot⟩ := hex
        simp only [tickOk, Bool.and_eq_true, Bool.or_eq_true] at hnot
        have hnot : ¬ ((match (s.ws j).gph with
              | GPh.ready _ _ => false
              | GPh.coll _ t0 => decide (s.clock < t0 + c.wait)
              | _ => true) = true) ∨
            ¬ (c.pool = true ∨ ((s.ws j).pd.all fun e => e.st != PSt.queued) = true) := by
          by_cases h1 : ((match (s.ws j).gph with
              | GPh.ready _ _ => false
              | GPh.coll _ t0 => decide (s.clock < t0 + c.wait)
              | _ => true) = true)
          · exact Or.inr (fun h2 => hnot ⟨h1, h2⟩)
          · exact Or.inl h1
        rcases hnot with hnot | hnot
        · cases hg : (s.ws j).gph with
          | idle => simp [hg] at hnot
          | fin => simp [hg] at hnot
          | ready b' t' => exact move_ready c s j hj b' t' hg
          | coll b' t' =>
            simp [hg] at hnot
            exact ⟨.gTimeout j, trivial, by simp [step, hj, hg, hnot]⟩
        · have hne : (s.ws j).pd ≠ [] := by
            intro he; apply hnot; right; simp [he]
          exact move_pd c s j hj hne

/-- the consumer side of worker `i` can move whenever its buffer is not empty -/
theorem move_buf (c : Cfg) (s : State) (hsh : ShapeInv c s) (hph : PhInv c s) (hns : s.stopped = false)
    (i : Nat) (hi : i < c.k) (hb : (s.ws i).buf ≠ []) : CanMove c s := by
  have hb1 : 1 < c.b := by
    by_cases h : 1 < c.b
    · exact h
    · exact absurd ((hph.ws i).2.2.2 (by omega)).1 hb
  cases hg : (s.ws i).gph with
  | fin => exact absurd hg ((hph.ws i).2.2.1 hns).2.2.2
  | ready b t0 => exact move_ready c s i hi b t0 hg
  | coll b t0 => exact move_coll c s hsh i hi b t0 hg
  | idle =>
    by_cases hpd : (s.ws i).pd = []
    · refine ⟨.gFirst i, trivial, ?_⟩
      match hbuf : (s.ws i).buf, hb with
      | z :: rest, _ => cases z <;> simp [step, hi, hb1, hg, mayPull, hpd, hbuf]
    · exact move_pd c s i hi hpd

theorem progress_of_inv (c : Cfg) (s : State) (hsh : ShapeInv c s) (hph : PhInv c s) (hti : TimeInv c s)
    (hk : 0 < c.k) (hns : s.stopped = false) (hp : ∃ r, Pending c s r) : CanMove c s := by
  obtain ⟨r, hr⟩ := hp
  rcases hr with hr | ⟨i, hi, hr⟩
  · -- a request is waiting on q_in
    have hq : s.qin ≠ [] := by intro he; simp [he] at hr
    by_cases hb1 : 1 < c.b
    · cases hl : s.lock with
      | some i =>
        have hh := (hph.ws i).1.mp hl
        have hi : i < c.k := by
          by_cases hi : i < c.k
          · exact hi
          · have := hti.idle i (by omega); rw [this] at hh; simp [holds] at hh
        cases hc : (s.ws i).cph with
        | top => simp [hc, holds] at hh
        | done => simp [hc, holds] at hh
        | locked =>
          refine ⟨.cGet i, trivial, ?_⟩
          match hqq : s.qin, hq with
          | z :: rest, _ => simp [step, hi, hc, hqq]
        | «have» z => exact move_have c s hph i hi z hc
        | after => exact move_after c s i hi hc
        | decide => exact move_decide c s i hi hc
      | none =>
        have hnh : holds (s.ws 0).cph ≠ true := by
          intro hh; have := (hph.ws 0).1.mpr hh; simp [hl] at this
        have hc : (s.ws 0).cph = .top := by
          cases hc : (s.ws 0).cph with
          | top => rfl
          | done => exact absurd hc ((hph.ws 0).2.2.1 hns).2.2.1
          | locked => simp [hc, holds] at hnh
          | «have» z => simp [hc, holds] at hnh
          | after => simp [hc, holds] at hnh
          | decide => simp [hc, holds] at hnh
        by_cases hroom : (s.ws 0).buf.length < c.cap
        · exact ⟨.cLock 0, trivial, by simp [step, hk, hb1, hc, hl, hroom]⟩
        · have hne : (s.ws 0).buf ≠ [] := by
            intro he; simp [he, Cfg.cap] at hroom
          exact move_buf c s hsh hph hns 0 hk hne
    · -- single mode: worker 0 reads q_in itself
      cases hg : (s.ws 0).gph with
      | fin => exact absurd hg ((hph.ws 0).2.2.1 hns).2.2.2
      | ready b t0 => exact move_ready c s 0 hk b t0 hg
      | coll b t0 => exact move_coll c s hsh 0 hk b t0 hg
      | idle =>
        by_cases hpd : (s.ws 0).pd = []
        · refine ⟨.sGet 0, trivial, ?_⟩
          match hqq : s.qin, hq with
          | z :: rest, _ =>
            have hb0 : c.b ≤ 1 := by omega
            cases z with
            | stop => simp [step, hk, hg, mayPull, hpd, hqq, hb0]
            | req r' =>
              by_cases hkind : r'.kind = .good <;> simp [step, hk, hg, mayPull, hpd, hkind, hqq, hb0]
        · exact move_pd c s 0 hk hpd
  · -- a request is inside worker i
    simp only [inflight, List.mem_append] at hr
    rcases hr with ((hr | hr) | hr) | hr
    · cases hc : (s.ws i).cph with
      | «have» z => exact move_have c s hph i hi z hc
      | _ => simp [hc, heldOf] at hr
    · have hne : (s.ws i).buf ≠ [] := by intro he; simp [he] at hr
      exact move_buf c s hsh hph hns i hi hne
    · cases hg : (s.ws i).gph with
      | coll b t0 => exact move_coll c s hsh i hi b t0 hg
      | ready b t0 => exact move_ready c s i hi b t0 hg
      | _ => simp [hg, batchOf] at hr
    · have hne : (s.ws i).pd ≠ [] := by intro he; simp [he] at hr
      exact move_pd c s i hi hne

end Batch

namespace Batch

theorem ph_reachable (c : Cfg) {s : State} (hr : Reachable c s) : PhInv c s :=
  reachable_inv c (ph_init c) (ph_step c) hr

def isColl : GPh → Bool
  | .coll _ _ => true
  | _ => false

/-- executable form of `Useful` -/
def usefulB (c : Cfg) (s : State) : Act → Bool
  | .arrive _ => false
  | .stop => false
  | .tick => (List.range c.k).any (fun i => isColl (s.ws i).gph)
  | _ => true

theorem useful_iff (c : Cfg) (s : State) (a : Act) : usefulB c s a = true ↔ Useful c s a := by
  cases a <;> simp [usefulB, Useful]
  constructor
  · rintro ⟨i, hi, hc⟩
    cases hg : (s.ws i).gph <;> simp [hg, isColl] at hc
    exact ⟨i, hi, _, _, hg⟩
  · rintro ⟨i, hi, b, t0, hg⟩
    exact ⟨i, hi, by simp [hg, isColl]⟩

/-- the system on its own: worker actions and useful ticks only (no arrival, no end marker) -/
def ustep (c : Cfg) (s : State) (a : Act) : Option State := if usefulB c s a then step c s a else none

theorem ustep_some {c : Cfg} {s s' : State} {a : Act} (h : ustep c s a = some s') :
    Useful c s a ∧ step c s a = some s' := by
  unfold ustep at h
  split at h
  · rename_i hu; exact ⟨(useful_iff c s a).mp hu, h⟩
  · simp at h

theorem ustep_keeps {c : Cfg} {s s' : State} {a : Act} (h : ustep c s a = some s') :
    s'.stopped = s.stopped ∧ s'.arrived = s.arrived := by
  obtain ⟨hu, hs⟩ := ustep_some h
  have := step_sound c s s' a hs
  cases this <;> first | exact ⟨rfl, rfl⟩ | (simp [Useful] at hu)

theorem run_ustep (c : Cfg) : ∀ (as : List Act) (s s' : State), Core.run (ustep c) s as = some s' →
    Core.Reach (step c) s s' ∧ s'.stopped = s.stopped ∧ s'.arrived = s.arrived := by
  intro as
  induction as with
  | nil => intro s s' h; simp at h; subst h; exact ⟨Core.Reach.refl _ _, rfl, rfl⟩
  | cons a as ih =>
    intro s s' h
    rw [Core.run_cons] at h
    cases hst : ustep c s a with
    | none => simp [hst] at h
    | some s1 =>
      simp [hst] at h
      obtain ⟨⟨bs, hbs⟩, h2, h3⟩ := ih s1 s' h
      obtain ⟨k1, k2⟩ := ustep_keeps hst
      refine ⟨⟨a :: bs, ?_⟩, by rw [h2, k1], by rw [h3, k2]⟩
      rw [Core.run_cons, (ustep_some hst).2]; simpa using hbs

theorem reach_trans {c : Cfg} {s s' : State} (h : Reachable c s) (h' : Core.Reach (step c) s s') : Reachable c s' := by
  obtain ⟨as, has⟩ := h
  obtain ⟨bs, hbs⟩ := h'
  exact ⟨as ++ bs, by rw [Core.run_append, has]; simpa using hbs⟩

theorem mu_ustep (c : Cfg) (s : State) (a : Act) (s' : State) (h : ustep c s a = some s') : mu c s' < mu c s := by
  obtain ⟨hu, hs⟩ := ustep_some h
  exact mu_decreases c s a s' (step_sound c s s' a hs) hu

theorem quiet_of_not_pending (c : Cfg) (s : State) (h : ¬ ∃ r, Pending c s r) : Quiet c s := by
  constructor
  · apply List.eq_nil_iff_forall_not_mem.mpr
    intro r hr; exact h ⟨r, Or.inl hr⟩
  · intro i hi
    apply List.eq_nil_iff_forall_not_mem.mpr
    intro r hr; exact h ⟨r, Or.inr ⟨i, hi, hr⟩⟩

/-- every state has a maximal run of the system on its own (runs are bounded by `mu`) -/
theorem exists_maximal_run (c : Cfg) : ∀ (n : Nat) (s : State), mu c s ≤ n →
    ∃ as s', Core.run (ustep c) s as = some s' ∧ ∀ a, ustep c s' a = none := by
  intro n
  induction n with
  | zero =>
    intro s hs
    refine ⟨[], s, rfl, ?_⟩
    intro a
    cases h : ustep c s a with
    | none => rfl
    | some s1 => have := mu_ustep c s a s1 h; omega
  | succ n ih =>
    intro s hs
    by_cases hmax : ∀ a, ustep c s a = none
    · exact ⟨[], s, rfl, hmax⟩
    · have : ∃ a s1, ustep c s a = some s1 := by
        apply Classical.byContradiction
        intro hne
        apply hmax
        intro a
        cases h : ustep c s a with
        | none => rfl
        | some s1 => exact absurd ⟨a, s1, h⟩ hne
      obtain ⟨a, s1, h1⟩ := this
      have hlt := mu_ustep c s a s1 h1
      obtain ⟨as, s', hrun, hm⟩ := ih s1 (by omega)
      exact ⟨a :: as, s', by rw [Core.run_cons, h1]; simpa using hrun, hm⟩

end Batch
