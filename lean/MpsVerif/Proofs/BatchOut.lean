import MpsVerif.Proofs.BatchCount
set_option linter.unusedSimpArgs false
set_option linter.unusedVariables false
/-!
Output side of the batching-worker model: what is written to `q_out` for the members of a
batch.  (i) counting: the value / call-error outputs for a uid plus its occurrences in batches
that are inside `call` or waiting for their outputs equal its occurrences in recorded calls;
(ii) linking: every such output names a call the uid was a member of, and a call whose entry is
gone has delivered one and the same outcome to every one of its members.
-/
namespace Batch

/-- the batch of an entry that has entered `call` (outputs not yet written) -/
def eb (e : PEnt) : List Req := if e.st = .queued then [] else e.batch

def entered (w : W) : List Req := w.pd.flatMap eb

def isVal (u : Nat) : Out → Bool
  | .res u' (.val _) => u' == u
  | .res u' (.callErr _) => u' == u
  | _ => false

/-- outputs for uid `u` that come from a call (its value or the call's exception) -/
def valCnt (u : Nat) (out : List Out) : Nat := out.countP (isVal u)

@[simp] theorem valCnt_append (u : Nat) (a b : List Out) : valCnt u (a ++ b) = valCnt u a + valCnt u b := by
  simp [valCnt]
@[simp] theorem valCnt_sentinel (u i : Nat) : valCnt u [.sentinel i] = 0 := by simp [valCnt, isVal]
@[simp] theorem valCnt_short (u : Nat) (r : Req) : valCnt u [.res r.uid (shortRes r.kind)] = 0 := by
  cases hk : r.kind <;> simp [valCnt, isVal, shortRes]
@[simp] theorem valCnt_outsOf (u : Nat) (b : List Req) (cid : Nat) (ok : Bool) :
    valCnt u (outsOf b cid ok) = cntU u b := by
  induction b with
  | nil => simp [outsOf, valCnt]
  | cons r t ih =>
    simp only [outsOf, valCnt, List.map_cons, List.countP_cons, cntU_cons] at ih ⊢
    cases ok <;> simp_all [isVal]

def enteredCnt (u : Nat) (k : Nat) (ws : Nat → W) : Nat := wsum k (fun j => cntU u (entered (ws j)))

theorem entered_setW (u : Nat) (k : Nat) (s : State) (i : Nat) (w : W) (hi : i < k) :
    enteredCnt u k (setW s i w).ws + cntU u (entered (s.ws i)) = enteredCnt u k s.ws + cntU u (entered w) := by
  unfold enteredCnt
  have := wsum_update k (fun j => cntU u (entered (s.ws j))) (fun j => cntU u (entered ((setW s i w).ws j))) i hi
    (by intro j hj; simp [setW, hj])
  simpa using this

theorem count_eb_set (u : Nat) (l : List PEnt) (j : Nat) (e e' : PEnt) (h : l[j]? = some e) :
    cntU u ((l.set j e').flatMap eb) + cntU u (eb e) = cntU u (l.flatMap eb) + cntU u (eb e') := by
  induction l generalizing j with
  | nil => simp at h
  | cons a t ih =>
    cases j with
    | zero => simp at h; subst h; simp; omega
    | succ j => simp at h; have := ih j h; simp; omega

/-- (i) -/
def EmitInv (c : Cfg) (s : State) : Prop :=
  ∀ u, valCnt u s.out + enteredCnt u c.k s.ws = cntU u (calledAll s)

theorem entered_zero (u k : Nat) : enteredCnt u k (fun _ => ({} : W)) = 0 := by
  unfold enteredCnt
  have h0 : (fun j : Nat => cntU u (entered ((fun _ : Nat => ({} : W)) j))) = fun _ : Nat => 0 := by
    funext j; simp [entered]
  rw [h0]
  induction k with
  | zero => rfl
  | succ k ih => simp [wsum, ih]

theorem emit_init (c : Cfg) : EmitInv c init := by
  intro u; simp [init, calledAll, valCnt, entered_zero]

theorem emit_step (c : Cfg) (s : State) (a : Act) (s' : State) (h : EmitInv c s) (hs : Step c s a s') :
    EmitInv c s' := by
  cases hs with
  | arrive kd => exact h
  | stop _ => exact h
  | tick _ => exact h
  | @sGetShort i r rest hi _ hg _ hq _ =>
    intro u; have := h u; simp only [calledAll] at this ⊢; simpa using this
  | @cLock i hi hb hp hl hr =>
    intro u
    have := h u
    have hf := entered_setW u c.k s i { s.ws i with cph := .locked } hi
    simp only [calledAll] at this ⊢
    simp [entered, eb, hp] at hf this ⊢
    omega
  | @cGet i z rest hi hp hq =>
    intro u
    have := h u
    have hf := entered_setW u c.k s i { s.ws i with cph := .have z } hi
    simp only [calledAll] at this ⊢
    simp [entered, eb, hp] at hf this ⊢
    omega
  | @cPutStop i hi hp =>
    intro u
    have := h u
    have hf := entered_setW u c.k s i { s.ws i with cph := .done, buf := (s.ws i).buf ++ [.stop] } hi
    simp only [calledAll] at this ⊢
    simp [entered, eb, hp] at hf this ⊢
    omega
  | @cPutGood i r hi hp hk hl =>
    intro u
    have := h u
    have hf := entered_setW u c.k s i { s.ws i with cph := .after, buf := (s.ws i).buf ++ [.req r] } hi
    simp only [calledAll] at this ⊢
    simp [entered, eb, hp] at hf this ⊢
    omega
  | @cPutShort i r hi hp hk =>
    intro u
    have := h u
    have hf := entered_setW u c.k s i { s.ws i with cph := .after } hi
    simp only [calledAll] at this ⊢
    simp [entered, eb, hp] at hf this ⊢
    omega
  | @cMore i z rest hi hp hl hq =>
    intro u
    have := h u
    have hf := entered_setW u c.k s i { s.ws i with cph := .have z } hi
    simp only [calledAll] at this ⊢
    simp [entered, eb, hp] at hf this ⊢
    omega
  | @cNoMore i hi hp hor =>
    intro u
    have := h u
    have hf := entered_setW u c.k s i { s.ws i with cph := .decide } hi
    simp only [calledAll] at this ⊢
    simp [entered, eb, hp] at hf this ⊢
    omega
  | @cDecFlag i hi hp hf' =>
    intro u
    have := h u
    have hf := entered_setW u c.k s i { s.ws i with cph := .top, flag := false } hi
    simp only [calledAll] at this ⊢
    simp [entered, eb, hp] at hf this ⊢
    omega
  | @cDecFull i hi hp hf' hl =>
    intro u
    have := h u
    have hf := entered_setW u c.k s i { s.ws i with cph := .top } hi
    simp only [calledAll] at this ⊢
    simp [entered, eb, hp] at hf this ⊢
    omega
  | @cDecCont i hi hp hf' hl =>
    intro u
    have := h u
    have hf := entered_setW u c.k s i { s.ws i with cph := .locked } hi
    simp only [calledAll] at this ⊢
    simp [entered, eb, hp] at hf this ⊢
    omega
  | @gFirstStop i rest hi hb hg hm hbuf =>
    intro u
    have := h u
    have hf := entered_setW u c.k s i { s.ws i with gph := .fin, buf := rest } hi
    simp only [calledAll] at this ⊢
    simp [entered, eb, hg] at hf this ⊢
    omega
  | @gFirstReq i r rest hi hb hg hm hbuf =>
    intro u
    have := h u
    have hf := entered_setW u c.k s i { s.ws i with gph := .coll [r] s.clock, buf := rest } hi
    simp only [calledAll] at this ⊢
    simp [entered, eb, hg] at hf this ⊢
    omega
  | @gNextStop i batch t0 rest hi hg hl hbuf =>
    intro u
    have := h u
    have hf := entered_setW u c.k s i { s.ws i with gph := .ready batch t0, buf := rest ++ [.stop] } hi
    simp only [calledAll] at this ⊢
    simp [entered, eb, hg] at hf this ⊢
    omega
  | @gNextMore i batch t0 r rest hi hg hl hbuf hm =>
    intro u
    have := h u
    have hf := entered_setW u c.k s i { s.ws i with gph := .coll (batch ++ [r]) t0, buf := rest } hi
    simp only [calledAll] at this ⊢
    simp [entered, eb, hg] at hf this ⊢
    omega
  | @gNextFull i batch t0 r rest hi hg hl hbuf hm =>
    intro u
    have := h u
    have hf := entered_setW u c.k s i { s.ws i with gph := .ready (batch ++ [r]) t0, buf := rest } hi
    simp only [calledAll] at this ⊢
    simp [entered, eb, hg] at hf this ⊢
    omega
  | @gTimeout i batch t0 hi hg hd =>
    intro u
    have := h u
    have hf := entered_setW u c.k s i { s.ws i with gph := .ready batch t0 } hi
    simp only [calledAll] at this ⊢
    simp [entered, eb, hg] at hf this ⊢
    omega
  | @gRelease i batch t0 hi hg =>
    intro u
    have := h u
    have hf := entered_setW u c.k s i { s.ws i with gph := .idle, flag := true, pd := (s.ws i).pd ++ [⟨batch, t0, s.clock, .queued⟩] } hi
    simp only [calledAll] at this ⊢
    simp [entered, eb, hg] at hf this ⊢
    omega
  | @sGetStop i rest hi hb hg hm hq =>
    intro u
    have := h u
    have hf := entered_setW u c.k s i { s.ws i with gph := .fin } hi
    simp only [calledAll] at this ⊢
    simp [entered, eb, hg] at hf this ⊢
    omega
  | @sGetGood i r rest hi hb hg hm hq hk =>
    intro u
    have := h u
    have hf := entered_setW u c.k s i { s.ws i with pd := (s.ws i).pd ++ [⟨[r], s.clock, s.clock, .queued⟩] } hi
    simp only [calledAll] at this ⊢
    simp [entered, eb, hg] at hf this ⊢
    omega
  | @callEnter i j e hi he hst =>
    intro u
    have := h u
    have hf := entered_setW u c.k s i { s.ws i with pd := (s.ws i).pd.set j { e with st := .running s.calls.length } } hi
    simp only [calledAll] at this ⊢
    have hp := count_eb_set u (s.ws i).pd j e { e with st := .running s.calls.length } he
    simp [entered, eb, hst] at hf this hp ⊢
    omega
  | @callRet i j e cid ok hi he hst =>
    intro u
    have := h u
    have hf := entered_setW u c.k s i { s.ws i with pd := (s.ws i).pd.set j { e with st := .done cid ok } } hi
    simp only [calledAll] at this ⊢
    have hp := count_eb_set u (s.ws i).pd j e { e with st := .done cid ok } he
    simp [entered, eb, hst] at hf this hp ⊢
    omega
  | @emit i e rest cid ok hi hp hst =>
    intro u
    have := h u
    have hf := entered_setW u c.k s i { s.ws i with pd := rest } hi
    simp only [calledAll] at this ⊢
    simp [entered, eb, hp, hst] at hf this ⊢
    omega

/-! ### (ii) linking outputs, entries and recorded calls -/

def cidOf : PSt → Option Nat
  | .queued => none
  | .running cid => some cid
  | .done cid _ => some cid

/-- an output is justified by the recorded calls -/
def OutOk (calls : List Call) : Out → Prop
  | .res u (.val v) => v = u ∧ ∃ cl ∈ calls, ∃ r ∈ cl.batch, r.uid = u
  | .res u (.callErr cid) => ∃ cl, calls[cid]? = some cl ∧ ∃ r ∈ cl.batch, r.uid = u
  | _ => True

/-- the outcome call `cid` delivers to its member `r` -/
def outcome (cid : Nat) (ok : Bool) (r : Req) : Out := .res r.uid (if ok then .val r.uid else .callErr cid)

structure LinkInv (s : State) : Prop where
  pd : ∀ i, ∀ e ∈ (s.ws i).pd, ∀ cid, cidOf e.st = some cid →
        ∃ cl, s.calls[cid]? = some cl ∧ cl.batch = e.batch ∧ cl.w = i
  out : ∀ o ∈ s.out, OutOk s.calls o
  done : ∀ cid cl, s.calls[cid]? = some cl →
        (∃ e ∈ (s.ws cl.w).pd, cidOf e.st = some cid) ∨ (∃ ok, ∀ r ∈ cl.batch, outcome cid ok r ∈ s.out)

theorem OutOk.mono {calls : List Call} (x : Call) {o : Out} (h : OutOk calls o) : OutOk (calls ++ [x]) o := by
  cases o with
  | sentinel w => trivial
  | res u r =>
    cases r with
    | val v =>
      obtain ⟨h1, cl, hcl, h2⟩ := h
      exact ⟨h1, cl, List.mem_append_left _ hcl, h2⟩
    | callErr cid =>
      obtain ⟨cl, hcl, h2⟩ := h
      refine ⟨cl, ?_, h2⟩
      have hlt : cid < calls.length := by
        by_cases hlt : cid < calls.length
        · exact hlt
        · rw [List.getElem?_eq_none (by omega)] at hcl; simp at hcl
      rw [List.getElem?_append_left hlt]; exact hcl
    | preErr => trivial
    | inErr => trivial

theorem link_init : LinkInv init := by
  refine ⟨?_, ?_, ?_⟩ <;> simp [init]

/-- a step that leaves every worker's list of released batches and the recorded calls alone, and
    appends only justified outputs -/
theorem link_same {s s' : State} (h : LinkInv s) (hpd : ∀ j, (s'.ws j).pd = (s.ws j).pd)
    (hcalls : s'.calls = s.calls) (extra : List Out) (hout : s'.out = s.out ++ extra)
    (hex : ∀ o ∈ extra, OutOk s.calls o) : LinkInv s' := by
  refine ⟨?_, ?_, ?_⟩
  · intro i e he cid hc
    rw [hpd i] at he; rw [hcalls]; exact h.pd i e he cid hc
  · intro o ho
    rw [hout] at ho; rw [hcalls]
    rcases List.mem_append.mp ho with h1 | h1
    · exact h.out o h1
    · exact hex o h1
  · intro cid cl hcl
    rw [hcalls] at hcl
    rcases h.done cid cl hcl with ⟨e, he, hc⟩ | ⟨ok, hall⟩
    · exact Or.inl ⟨e, by rw [hpd]; exact he, hc⟩
    · exact Or.inr ⟨ok, fun r hr => by rw [hout]; exact List.mem_append_left _ (hall r hr)⟩

theorem pd_setW_same (s : State) (i : Nat) (w : W) (hw : w.pd = (s.ws i).pd) :
    ∀ j, ((setW s i w).ws j).pd = (s.ws j).pd := by
  intro j
  by_cases hj : j = i
  · subst hj; simpa using hw
  · rw [setW_other _ _ _ _ hj]

theorem OutOk_short (calls : List Call) (r : Req) : OutOk calls (.res r.uid (shortRes r.kind)) := by
  cases hk : r.kind <;> simp [shortRes, OutOk]

/-- appending a fresh (not yet entered) batch to worker `i`'s list -/
theorem link_push {s : State} (h : LinkInv s) (i : Nat) (w : W) (e : PEnt) (hq : e.st = .queued)
    (hw : w.pd = (s.ws i).pd ++ [e]) {s' : State} (hws : s'.ws = (setW s i w).ws) (hcalls : s'.calls = s.calls)
    (hout : s'.out = s.out) : LinkInv s' := by
  have hpd : ∀ j, j ≠ i → (s'.ws j).pd = (s.ws j).pd := by
    intro j hj; rw [hws, setW_other _ _ _ _ hj]
  have hpi : (s'.ws i).pd = (s.ws i).pd ++ [e] := by rw [hws]; simpa using hw
  refine ⟨?_, ?_, ?_⟩
  · intro j e' he' cid hc
    rw [hcalls]
    by_cases hj : j = i
    · subst hj
      rw [hpi] at he'
      rcases List.mem_append.mp he' with h1 | h1
      · exact h.pd j e' h1 cid hc
      · simp at h1; subst h1; simp [hq, cidOf] at hc
    · rw [hpd j hj] at he'; exact h.pd j e' he' cid hc
  · intro o ho; rw [hout] at ho; rw [hcalls]; exact h.out o ho
  · intro cid cl hcl
    rw [hcalls] at hcl
    rcases h.done cid cl hcl with ⟨e', he', hc⟩ | ⟨ok, hall⟩
    · left
      by_cases hj : cl.w = i
      · exact ⟨e', by rw [hj, hpi]; exact List.mem_append_left _ (hj ▸ he'), hc⟩
      · exact ⟨e', by rw [hpd _ hj]; exact he', hc⟩
    · exact Or.inr ⟨ok, fun r hr => by rw [hout]; exact hall r hr⟩

theorem mem_set_of_ne {α : Type} {l : List α} {j : Nat} {e e' x : α} (hx : x ∈ l) (hj : l[j]? = some e)
    (hne : x ≠ e) : x ∈ l.set j e' := by
  induction l generalizing j with
  | nil => simp at hx
  | cons a t ih =>
    cases j with
    | zero =>
      simp at hj; subst hj
      rcases List.mem_cons.mp hx with h1 | h1
      · exact absurd h1 hne
      · simp [h1]
    | succ j =>
      simp at hj
      rcases List.mem_cons.mp hx with h1 | h1
      · subst h1; simp
      · simp [ih h1 hj]

theorem mem_set_self' {α : Type} {l : List α} {j : Nat} {e e' : α} (hj : l[j]? = some e) : e' ∈ l.set j e' := by
  induction l generalizing j with
  | nil => simp at hj
  | cons a t ih =>
    cases j with
    | zero => simp
    | succ j => simp at hj; simp [ih hj]

theorem link_step (c : Cfg) (s : State) (a : Act) (s' : State) (h : LinkInv s) (hs : Step c s a s') :
    LinkInv s' := by
  cases hs with
  | arrive kd => exact link_same h (fun _ => rfl) rfl [] (by simp) (by simp)
  | stop _ => exact link_same h (fun _ => rfl) rfl [] (by simp) (by simp)
  | tick _ => exact link_same h (fun _ => rfl) rfl [] (by simp) (by simp)
  | @cLock i hi hb hp hl hr => exact link_same h (pd_setW_same s i _ rfl) rfl [] (by simp) (by simp)
  | @cGet i z rest hi hp hq => exact link_same h (pd_setW_same s i _ rfl) rfl [] (by simp) (by simp)
  | @cPutStop i hi hp =>
    exact link_same h (pd_setW_same s i _ rfl) rfl [.sentinel i] rfl (by intro o ho; simp at ho; subst ho; trivial)
  | @cPutGood i r hi hp hk hl => exact link_same h (pd_setW_same s i _ rfl) rfl [] (by simp) (by simp)
  | @cPutShort i r hi hp hk =>
    exact link_same h (pd_setW_same s i _ rfl) rfl [.res r.uid (shortRes r.kind)] rfl
      (by intro o ho; simp at ho; subst ho; exact OutOk_short _ r)
  | @cMore i z rest hi hp hl hq => exact link_same h (pd_setW_same s i _ rfl) rfl [] (by simp) (by simp)
  | @cNoMore i hi hp hor => exact link_same h (pd_setW_same s i _ rfl) rfl [] (by simp) (by simp)
  | @cDecFlag i hi hp hf => exact link_same h (pd_setW_same s i _ rfl) rfl [] (by simp) (by simp)
  | @cDecFull i hi hp hf hl => exact link_same h (pd_setW_same s i _ rfl) rfl [] (by simp) (by simp)
  | @cDecCont i hi hp hf hl => exact link_same h (pd_setW_same s i _ rfl) rfl [] (by simp) (by simp)
  | @gFirstStop i rest hi hb hg hm hbuf =>
    exact link_same h (pd_setW_same s i _ rfl) rfl [.sentinel i] rfl (by intro o ho; simp at ho; subst ho; trivial)
  | @gFirstReq i r rest hi hb hg hm hbuf => exact link_same h (pd_setW_same s i _ rfl) rfl [] (by simp) (by simp)
  | @gNextStop i batch t0 rest hi hg hl hbuf => exact link_same h (pd_setW_same s i _ rfl) rfl [] (by simp) (by simp)
  | @gNextMore i batch t0 r rest hi hg hl hbuf hm => exact link_same h (pd_setW_same s i _ rfl) rfl [] (by simp) (by simp)
  | @gNextFull i batch t0 r rest hi hg hl hbuf hm => exact link_same h (pd_setW_same s i _ rfl) rfl [] (by simp) (by simp)
  | @gTimeout i batch t0 hi hg hd => exact link_same h (pd_setW_same s i _ rfl) rfl [] (by simp) (by simp)
  | @gRelease i batch t0 hi hg => exact link_push h i _ ⟨batch, t0, s.clock, .queued⟩ rfl rfl rfl rfl rfl
  | @sGetStop i rest hi hb hg hm hq =>
    exact link_same h (pd_setW_same s i _ rfl) rfl [.sentinel i] rfl (by intro o ho; simp at ho; subst ho; trivial)
  | @sGetGood i r rest hi hb hg hm hq hk => exact link_push h i _ ⟨[r], s.clock, s.clock, .queued⟩ rfl rfl rfl rfl rfl
  | @sGetShort i r rest hi hb hg hm hq hk =>
    exact link_same h (fun _ => rfl) rfl [.res r.uid (shortRes r.kind)] rfl
      (by intro o ho; simp at ho; subst ho; exact OutOk_short _ r)
  | @callEnter i j e hi he hst =>
    have hmem : e ∈ (s.ws i).pd := List.mem_of_getElem? he
    have hold : ∀ (cid : Nat) (cl : Call), s.calls[cid]? = some cl → ∀ x : Call, (s.calls ++ [x])[cid]? = some cl := by
      intro cid cl hcl x
      have hlt : cid < s.calls.length := by
        by_cases hlt : cid < s.calls.length
        · exact hlt
        · rw [List.getElem?_eq_none (by omega)] at hcl; simp at hcl
      rw [List.getElem?_append_left hlt]; exact hcl
    refine ⟨?_, ?_, ?_⟩
    · intro i' e' he' cid hc
      by_cases hj : i' = i
      · subst hj
        simp only [setW_same] at he'
        rcases List.mem_or_eq_of_mem_set he' with h1 | h1
        · obtain ⟨cl, h2, h3⟩ := h.pd i' e' h1 cid hc
          exact ⟨cl, hold cid cl h2 _, h3⟩
        · subst h1
          simp [cidOf] at hc; subst hc
          exact ⟨⟨i', e.batch, decide (0 < c.b), e.t0, e.trel, s.clock⟩, by simp, rfl, rfl⟩
      · simp only [setW_other _ _ _ _ hj] at he'
        obtain ⟨cl, h2, h3⟩ := h.pd i' e' he' cid hc
        exact ⟨cl, hold cid cl h2 _, h3⟩
    · intro o ho; exact OutOk.mono _ (h.out o ho)
    · intro cid cl hcl
      by_cases hlt : cid < s.calls.length
      · have hcl' : s.calls[cid]? = some cl := by
          simp only [] at hcl; rw [List.getElem?_append_left hlt] at hcl; exact hcl
        rcases h.done cid cl hcl' with ⟨e', he', hc⟩ | ⟨ok, hall⟩
        · left
          by_cases hj : cl.w = i
          · refine ⟨e', ?_, hc⟩
            rw [hj]; simp only [setW_same]
            apply mem_set_of_ne (hj ▸ he') he
            intro heq; subst heq; simp [hst, cidOf] at hc
          · exact ⟨e', by simp only [setW_other _ _ _ _ hj]; exact he', hc⟩
        · exact Or.inr ⟨ok, hall⟩
      · have hcid : cid = s.calls.length := by
          have : cid < (s.calls ++ [(⟨i, e.batch, decide (0 < c.b), e.t0, e.trel, s.clock⟩ : Call)]).length := by
            by_cases h2 : cid < (s.calls ++ [(⟨i, e.batch, decide (0 < c.b), e.t0, e.trel, s.clock⟩ : Call)]).length
            · exact h2
            · simp only [] at hcl; rw [List.getElem?_eq_none (by omega)] at hcl; simp at hcl
          simp at this; omega
        subst hcid
        simp at hcl; subst hcl
        left
        exact ⟨_, by simp only [setW_same]; exact mem_set_self' he, by simp [cidOf]⟩
  | @callRet i j e cid0 ok hi he hst =>
    have hmem : e ∈ (s.ws i).pd := List.mem_of_getElem? he
    refine ⟨?_, h.out, ?_⟩
    · intro i' e' he' cid hc
      by_cases hj : i' = i
      · subst hj
        simp only [setW_same] at he'
        rcases List.mem_or_eq_of_mem_set he' with h1 | h1
        · exact h.pd i' e' h1 cid hc
        · subst h1
          simp [cidOf] at hc; subst hc
          exact h.pd i' e hmem cid0 (by simp [hst, cidOf])
      · simp only [setW_other _ _ _ _ hj] at he'
        exact h.pd i' e' he' cid hc
    · intro cid cl hcl
      rcases h.done cid cl hcl with ⟨e', he', hc⟩ | ⟨ok', hall⟩
      · left
        by_cases hj : cl.w = i
        · rw [hj]; simp only [setW_same]
          by_cases heq : e' = e
          · subst heq
            refine ⟨_, mem_set_self' he, ?_⟩
            simp [hst, cidOf] at hc ⊢; exact hc
          · exact ⟨e', mem_set_of_ne (hj ▸ he') he heq, hc⟩
        · exact ⟨e', by simp only [setW_other _ _ _ _ hj]; exact he', hc⟩
      · exact Or.inr ⟨ok', hall⟩
  | @emit i e rest cid0 ok hi hp hst =>
    have hmem : e ∈ (s.ws i).pd := by simp [hp]
    obtain ⟨cl0, hcl0, hb0, hw0⟩ := h.pd i e hmem cid0 (by simp [hst, cidOf])
    refine ⟨?_, ?_, ?_⟩
    · intro i' e' he' cid hc
      by_cases hj : i' = i
      · subst hj
        simp only [setW_same] at he'
        exact h.pd i' e' (by simp [hp, he']) cid hc
      · simp only [setW_other _ _ _ _ hj] at he'
        exact h.pd i' e' he' cid hc
    · intro o ho
      rcases List.mem_append.mp ho with h1 | h1
      · exact h.out o h1
      · simp only [outsOf, List.mem_map] at h1
        obtain ⟨r, hr, rfl⟩ := h1
        cases ok with
        | true => exact ⟨rfl, cl0, List.mem_of_getElem? hcl0, r, hb0 ▸ hr, rfl⟩
        | false => exact ⟨cl0, hcl0, r, hb0 ▸ hr, rfl⟩
    · intro cid cl hcl
      have hcl2 : s.calls[cid]? = some cl := hcl
      rcases h.done cid cl hcl2 with ⟨e', he', hc⟩ | ⟨ok', hall⟩
      · by_cases hj : cl.w = i
        · rw [hj, hp] at he'
          rcases List.mem_cons.mp he' with h1 | h1
          · subst h1
            simp [hst, cidOf] at hc; subst hc
            rw [hcl0] at hcl2; injection hcl2 with hcl2; subst hcl2
            right
            refine ⟨ok, fun r hr => List.mem_append_right _ ?_⟩
            simp only [outsOf, List.mem_map, outcome]
            exact ⟨r, hb0 ▸ hr, rfl⟩
          · left; exact ⟨e', by rw [hj]; simp only [setW_same]; exact h1, hc⟩
        · left; exact ⟨e', by simp only [setW_other _ _ _ _ hj]; exact he', hc⟩
      · exact Or.inr ⟨ok', fun r hr => List.mem_append_left _ (hall r hr)⟩

end Batch
