import MpsVerif.Proofs.BatchInv
set_option linter.unusedSimpArgs false
set_option linter.unusedVariables false
/-! Lock / phase invariants of the batching-worker model (used by progress). -/
namespace Batch

/-- collector phases in which the read lock of `q_in` is held -/
def holds : CPh → Bool
  | .locked | .have _ | .after | .decide => true
  | _ => false

/-- per-worker part: the lock is held by `i` iff its collector is in a lock-holding phase; a
    collector about to put has room; before the end marker was issued no trace of it exists -/
def WPh (c : Cfg) (lock : Option Nat) (stopped : Bool) (i : Nat) (w : W) : Prop :=
  (lock = some i ↔ holds w.cph = true) ∧
  ((w.cph = .locked ∨ ∃ z, w.cph = .have z) → w.buf.length < c.cap) ∧
  (stopped = false → Item.stop ∉ w.buf ∧ w.cph ≠ .have .stop ∧ w.cph ≠ .done ∧ w.gph ≠ .fin) ∧
  (c.b ≤ 1 → w.buf = [] ∧ w.cph = .top)

structure PhInv (c : Cfg) (s : State) : Prop where
  ws : ∀ i, WPh c s.lock s.stopped i (s.ws i)
  qin : s.stopped = false → Item.stop ∉ s.qin

theorem ph_init (c : Cfg) : PhInv c init := by
  refine ⟨fun i => ?_, ?_⟩ <;> simp [init, holds, WPh]

set_option hygiene false in
/-- one worker `i` moved: re-establish its own part and the (unchanged) parts of the others -/
macro "ph_case" i:ident : tactic => `(tactic| (
    refine ⟨fun j => ?_, ?_⟩
    · have hwi := hw $i; have hwj := hw j
      by_cases hj : j = $i
      · subst hj; simp_all [WPh, holds, Cfg.cap] <;> first | omega | grind
      · have hj' : ¬ $i = j := fun h => hj h.symm
        simp only [WPh, setW_other _ _ _ _ hj] at hwi hwj ⊢; simp_all [holds]
    · have hwi := hw $i; simp_all [WPh, holds]))

theorem ph_step (c : Cfg) (s : State) (a : Act) (s' : State) (h : PhInv c s) (hs : Step c s a s') :
    PhInv c s' := by
  obtain ⟨hw, hq⟩ := h
  cases hs with
  | arrive kd => exact ⟨hw, by intro hst; simp [hq hst]⟩
  | stop _ =>
    refine ⟨fun i => ?_, by simp⟩
    have := hw i; simp only [WPh] at this ⊢; simp; exact ⟨this.1, this.2.1, this.2.2.2⟩
  | tick _ => exact ⟨hw, hq⟩
  | @sGetShort i r rest hi _ hg _ hqq hk =>
    refine ⟨hw, ?_⟩
    intro hst; have := hq hst; simp [hqq] at this ⊢; exact this
  | @cLock i hi hb hp hl hr => ph_case i
  | @cGet i z rest hi hp hqq => ph_case i
  | @cPutStop i hi hp => ph_case i
  | @cPutGood i r hi hp hk hl => ph_case i
  | @cPutShort i r hi hp hk => ph_case i
  | @cMore i z rest hi hp hl hqq => ph_case i
  | @cNoMore i hi hp hor => ph_case i
  | @cDecFlag i hi hp hf => ph_case i
  | @cDecFull i hi hp hf hl => ph_case i
  | @cDecCont i hi hp hf hl => ph_case i
  | @gFirstStop i rest hi hb hg hm hbuf => ph_case i
  | @gFirstReq i r rest hi hb hg hm hbuf => ph_case i
  | @gNextStop i batch t0 rest hi hg hl hbuf => ph_case i
  | @gNextMore i batch t0 r rest hi hg hl hbuf hm => ph_case i
  | @gNextFull i batch t0 r rest hi hg hl hbuf hm => ph_case i
  | @gTimeout i batch t0 hi hg hd => ph_case i
  | @gRelease i batch t0 hi hg => ph_case i
  | @sGetStop i rest hi hb hg hm hqq => ph_case i
  | @sGetGood i r rest hi hb hg hm hqq hk => ph_case i
  | @callEnter i j' e hi he hst => ph_case i
  | @callRet i j' e cid ok hi he hst => ph_case i
  | @emit i e rest cid ok hi hp hst => ph_case i

end Batch
