import MpsVerif.Proofs.BatchTime
import MpsVerif.Proofs.BatchCount
import MpsVerif.Proofs.BatchOut
/-! The invariants hold in every reachable state. -/
namespace Batch

theorem shape_reachable (c : Cfg) {s : State} (hr : Reachable c s) : ShapeInv c s :=
  reachable_inv c (shape_init c) (shape_step c) hr

theorem time_reachable (c : Cfg) {s : State} (hr : Reachable c s) : TimeInv c s :=
  reachable_inv c (time_init c) (time_step c) hr

theorem count_reachable (c : Cfg) {s : State} (hr : Reachable c s) : CountInv c s :=
  reachable_inv c (count_init c) (count_step c) hr

theorem short_reachable (c : Cfg) {s : State} (hr : Reachable c s) : ShortInv s :=
  (reachable_inv c (Inv := fun s => ShapeInv c s ∧ ShortInv s)
    ⟨shape_init c, by intro o ho; simp [init] at ho⟩
    (fun s a s' h hs => ⟨shape_step c s a s' h.1 hs, short_step c s a s' h.1 h.2 hs⟩) hr).2

theorem emit_reachable (c : Cfg) {s : State} (hr : Reachable c s) : EmitInv c s :=
  reachable_inv c (emit_init c) (emit_step c) hr

theorem link_reachable (c : Cfg) {s : State} (hr : Reachable c s) : LinkInv s :=
  reachable_inv c link_init (link_step c) hr

/-- no request is on `q_in` or inside a worker (everything that arrived has been dispatched) -/
def Quiet (c : Cfg) (s : State) : Prop := reqsOf s.qin = [] ∧ ∀ i, i < c.k → inflight (s.ws i) = []

/-- request `r` is still on its way to `call` / `q_out`: on `q_in`, or inside worker `i` -/
def Pending (c : Cfg) (s : State) (r : Req) : Prop :=
  r ∈ reqsOf s.qin ∨ ∃ i, i < c.k ∧ r ∈ inflight (s.ws i)

end Batch
