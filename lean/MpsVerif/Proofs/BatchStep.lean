import MpsVerif.Model.Batch
import MpsVerif.Core.Sys
/-! Relational presentation of `Batch.step` (one constructor per action and outcome) and its
soundness; invariant proofs do `cases` on `Step`. -/
namespace Batch

inductive Step (c : Cfg) : State → Act → State → Prop where
  | arrive {s} (kd : Kind) :
      Step c s (.arrive kd) { s with qin := s.qin ++ [.req ⟨s.nextId, kd⟩], nextId := s.nextId + 1,
                                      arrived := s.arrived ++ [⟨s.nextId, kd⟩] }
  | stop {s} : s.stopped = false → Step c s .stop { s with qin := s.qin ++ [.stop], stopped := true }
  | tick {s} : (∀ i, i < c.k → tickOk c s.clock (s.ws i) = true) → Step c s .tick { s with clock := s.clock + 1 }
  | cLock {s i} : i < c.k → 1 < c.b → (s.ws i).cph = .top → s.lock = none → (s.ws i).buf.length < c.cap →
      Step c s (.cLock i) { setW s i { s.ws i with cph := .locked } with lock := some i }
  | cGet {s i z rest} : i < c.k → (s.ws i).cph = .locked → s.qin = z :: rest →
      Step c s (.cGet i) { setW s i { s.ws i with cph := .have z } with qin := rest }
  | cPutStop {s i} : i < c.k → (s.ws i).cph = .have .stop →
      Step c s (.cPut i) { setW s i { s.ws i with cph := .done, buf := (s.ws i).buf ++ [.stop] } with
                           qin := s.qin ++ [.stop], out := s.out ++ [.sentinel i], lock := none }
  | cPutGood {s i r} : i < c.k → (s.ws i).cph = .have (.req r) → r.kind = .good → (s.ws i).buf.length < c.cap →
      Step c s (.cPut i) (setW s i { s.ws i with cph := .after, buf := (s.ws i).buf ++ [.req r] })
  | cPutShort {s i r} : i < c.k → (s.ws i).cph = .have (.req r) → r.kind ≠ .good →
      Step c s (.cPut i) { setW s i { s.ws i with cph := .after } with out := s.out ++ [.res r.uid (shortRes r.kind)] }
  | cMore {s i z rest} : i < c.k → (s.ws i).cph = .after → (s.ws i).buf.length < c.b → s.qin = z :: rest →
      Step c s (.cMore i) { setW s i { s.ws i with cph := .have z } with qin := rest }
  | cNoMore {s i} : i < c.k → (s.ws i).cph = .after → (s.qin = [] ∨ c.b ≤ (s.ws i).buf.length) →
      Step c s (.cNoMore i) (setW s i { s.ws i with cph := .decide })
  | cDecFlag {s i} : i < c.k → (s.ws i).cph = .decide → (s.ws i).flag = true →
      Step c s (.cDecide i) { setW s i { s.ws i with cph := .top, flag := false } with lock := none }
  | cDecFull {s i} : i < c.k → (s.ws i).cph = .decide → (s.ws i).flag = false → c.b ≤ (s.ws i).buf.length →
      Step c s (.cDecide i) { setW s i { s.ws i with cph := .top } with lock := none }
  | cDecCont {s i} : i < c.k → (s.ws i).cph = .decide → (s.ws i).flag = false → (s.ws i).buf.length < c.b →
      Step c s (.cDecide i) (setW s i { s.ws i with cph := .locked })
  | gFirstStop {s i rest} : i < c.k → 1 < c.b → (s.ws i).gph = .idle → mayPull c (s.ws i) = true →
      (s.ws i).buf = .stop :: rest →
      Step c s (.gFirst i) { setW s i { s.ws i with gph := .fin, buf := rest } with
                             qin := s.qin ++ [.stop], out := s.out ++ [.sentinel i] }
  | gFirstReq {s i r rest} : i < c.k → 1 < c.b → (s.ws i).gph = .idle → mayPull c (s.ws i) = true →
      (s.ws i).buf = .req r :: rest →
      Step c s (.gFirst i) (setW s i { s.ws i with gph := .coll [r] s.clock, buf := rest })
  | gNextStop {s i batch t0 rest} : i < c.k → (s.ws i).gph = .coll batch t0 → batch.length < c.b →
      (s.ws i).buf = .stop :: rest →
      Step c s (.gNext i) (setW s i { s.ws i with gph := .ready batch t0, buf := rest ++ [.stop] })
  | gNextMore {s i batch t0 r rest} : i < c.k → (s.ws i).gph = .coll batch t0 → batch.length < c.b →
      (s.ws i).buf = .req r :: rest → (batch ++ [r]).length < c.b →
      Step c s (.gNext i) (setW s i { s.ws i with gph := .coll (batch ++ [r]) t0, buf := rest })
  | gNextFull {s i batch t0 r rest} : i < c.k → (s.ws i).gph = .coll batch t0 → batch.length < c.b →
      (s.ws i).buf = .req r :: rest → ¬ (batch ++ [r]).length < c.b →
      Step c s (.gNext i) (setW s i { s.ws i with gph := .ready (batch ++ [r]) t0, buf := rest })
  | gTimeout {s i batch t0} : i < c.k → (s.ws i).gph = .coll batch t0 → t0 + c.wait ≤ s.clock →
      Step c s (.gTimeout i) (setW s i { s.ws i with gph := .ready batch t0 })
  | gRelease {s i batch t0} : i < c.k → (s.ws i).gph = .ready batch t0 →
      Step c s (.gRelease i)
        (setW s i { s.ws i with gph := .idle, flag := true, pd := (s.ws i).pd ++ [⟨batch, t0, s.clock, .queued⟩] })
  | sGetStop {s i rest} : i < c.k → c.b ≤ 1 → (s.ws i).gph = .idle → mayPull c (s.ws i) = true →
      s.qin = .stop :: rest →
      Step c s (.sGet i) { setW s i { s.ws i with gph := .fin } with
                           qin := rest ++ [.stop], out := s.out ++ [.sentinel i] }
  | sGetGood {s i r rest} : i < c.k → c.b ≤ 1 → (s.ws i).gph = .idle → mayPull c (s.ws i) = true →
      s.qin = .req r :: rest → r.kind = .good →
      Step c s (.sGet i) { setW s i { s.ws i with pd := (s.ws i).pd ++ [⟨[r], s.clock, s.clock, .queued⟩] } with
                           qin := rest }
  | sGetShort {s i r rest} : i < c.k → c.b ≤ 1 → (s.ws i).gph = .idle → mayPull c (s.ws i) = true →
      s.qin = .req r :: rest → r.kind ≠ .good →
      Step c s (.sGet i) { s with qin := rest, out := s.out ++ [.res r.uid (shortRes r.kind)] }
  | callEnter {s i j e} : i < c.k → (s.ws i).pd[j]? = some e → e.st = .queued →
      Step c s (.callEnter i j)
        { setW s i { s.ws i with pd := (s.ws i).pd.set j { e with st := .running s.calls.length } } with
          calls := s.calls ++ [⟨i, e.batch, decide (0 < c.b), e.t0, e.trel, s.clock⟩] }
  | callRet {s i j e cid} (ok : Bool) : i < c.k → (s.ws i).pd[j]? = some e → e.st = .running cid →
      Step c s (.callRet i j ok) (setW s i { s.ws i with pd := (s.ws i).pd.set j { e with st := .done cid ok } })
  | emit {s i e rest cid ok} : i < c.k → (s.ws i).pd = e :: rest → e.st = .done cid ok →
      Step c s (.emit i) { setW s i { s.ws i with pd := rest } with out := s.out ++ outsOf e.batch cid ok }

theorem step_sound (c : Cfg) (s s' : State) (a : Act) (h : step c s a = some s') : Step c s a s' := by
  cases a <;> simp only [step] at h
  case arrive kd => simp at h; subst h; exact .arrive kd
  case stop => split at h <;> simp at h; subst h; rename_i hc; exact .stop hc
  case tick =>
    split at h <;> simp at h; subst h; rename_i hc
    exact .tick (by simpa using hc)
  case cLock i =>
    split at h <;> simp at h; subst h; rename_i hc
    exact .cLock hc.1 hc.2.1 hc.2.2.1 hc.2.2.2.1 hc.2.2.2.2
  case cGet i =>
    split at h
    · rename_i hc
      split at h
      · rename_i z rest hq; simp at h; subst h; exact .cGet hc.1 hc.2 hq
      · simp at h
    · simp at h
  case cPut i =>
    split at h
    · rename_i hc
      split at h
      · rename_i hp; simp at h; subst h; exact .cPutStop hc hp
      · rename_i r hp
        split at h
        · rename_i hk
          split at h
          · rename_i hl; simp at h; subst h; exact .cPutGood hc hp hk hl
          · simp at h
        · rename_i hk; simp at h; subst h; exact .cPutShort hc hp hk
      · simp at h
    · simp at h
  case cMore i =>
    split at h
    · rename_i hc
      split at h
      · rename_i z rest hq; simp at h; subst h; exact .cMore hc.1 hc.2.1 hc.2.2 hq
      · simp at h
    · simp at h
  case cNoMore i =>
    split at h <;> simp at h; subst h; rename_i hc
    exact .cNoMore hc.1 hc.2.1 hc.2.2
  case cDecide i =>
    split at h
    · rename_i hc
      split at h
      · rename_i hf; simp at h; subst h; exact .cDecFlag hc.1 hc.2 hf
      · rename_i hf
        split at h
        · rename_i hb; simp at h; subst h; exact .cDecFull hc.1 hc.2 (by simpa using hf) hb
        · rename_i hb; simp at h; subst h; exact .cDecCont hc.1 hc.2 (by simpa using hf) (by omega)
    · simp at h
  case gFirst i =>
    split at h
    · rename_i hc
      split at h
      · rename_i rest hq; simp at h; subst h; exact .gFirstStop hc.1 hc.2.1 hc.2.2.1 hc.2.2.2 hq
      · rename_i r rest hq; simp at h; subst h; exact .gFirstReq hc.1 hc.2.1 hc.2.2.1 hc.2.2.2 hq
      · simp at h
    · simp at h
  case gNext i =>
    split at h
    · rename_i hc
      split at h
      · rename_i batch t0 hg
        split at h
        · rename_i hl
          split at h
          · rename_i rest hq; simp at h; subst h; exact .gNextStop hc hg hl hq
          · rename_i r rest hq
            split at h
            · rename_i hm; simp at h; subst h; exact .gNextMore hc hg hl hq hm
            · rename_i hm; simp at h; subst h; exact .gNextFull hc hg hl hq hm
          · simp at h
        · simp at h
      · simp at h
    · simp at h
  case gTimeout i =>
    split at h
    · rename_i hc
      split at h
      · rename_i batch t0 hg
        split at h
        · rename_i hd; simp at h; subst h; exact .gTimeout hc hg hd
        · simp at h
      · simp at h
    · simp at h
  case gRelease i =>
    split at h
    · rename_i hc
      split at h
      · rename_i batch t0 hg; simp at h; subst h; exact .gRelease hc hg
      · simp at h
    · simp at h
  case sGet i =>
    split at h
    · rename_i hc
      split at h
      · rename_i rest hq; simp at h; subst h; exact .sGetStop hc.1 hc.2.1 hc.2.2.1 hc.2.2.2 hq
      · rename_i r rest hq
        split at h
        · rename_i hk; simp at h; subst h; exact .sGetGood hc.1 hc.2.1 hc.2.2.1 hc.2.2.2 hq hk
        · rename_i hk; simp at h; subst h; exact .sGetShort hc.1 hc.2.1 hc.2.2.1 hc.2.2.2 hq hk
      · simp at h
    · simp at h
  case callEnter i j =>
    split at h
    · rename_i hc
      split at h
      · rename_i e he
        split at h
        · rename_i hq; simp at h; subst h; exact .callEnter hc he hq
        · simp at h
      · simp at h
    · simp at h
  case callRet i j ok =>
    split at h
    · rename_i hc
      split at h
      · rename_i e he
        split at h
        · rename_i cid hst; simp at h; subst h; exact .callRet ok hc he hst
        · simp at h
      · simp at h
    · simp at h
  case emit i =>
    split at h
    · rename_i hc
      split at h
      · rename_i e rest hp
        split at h
        · rename_i cid ok hst; simp at h; subst h; exact .emit hc hp hst
        · simp at h
      · simp at h
    · simp at h

def Reachable (c : Cfg) (s : State) : Prop := Core.Reach (step c) init s

theorem reachable_inv (c : Cfg) {Inv : State → Prop} (h0 : Inv init)
    (hstep : ∀ s a s', Inv s → Step c s a s' → Inv s') {s : State} (hr : Reachable c s) : Inv s :=
  Core.invariant_reach (fun s a s' hi hs => hstep s a s' hi (step_sound c s s' a hs)) h0 hr

end Batch
