import MpsVerif.Proofs.BatchInv
/-! Clock invariants of the batching-worker model (behind `C09_deadline`). -/
namespace Batch

structure WTime (c : Cfg) (clock : Nat) (w : W) : Prop where
  coll : ∀ b t0, w.gph = .coll b t0 → t0 ≤ clock ∧ clock ≤ t0 + c.wait
  ready : ∀ b t0, w.gph = .ready b t0 → t0 ≤ clock ∧ clock ≤ t0 + c.wait
  pd : ∀ e ∈ w.pd, e.t0 ≤ e.trel ∧ e.trel ≤ e.t0 + c.wait ∧ e.trel ≤ clock ∧
        (c.pool = false → e.st = .queued → e.trel = clock)

def CallTime (c : Cfg) (clock : Nat) (cl : Call) : Prop :=
  cl.t0 ≤ cl.trel ∧ cl.trel ≤ cl.t0 + c.wait ∧ cl.trel ≤ cl.tcall ∧ cl.tcall ≤ clock ∧
    (c.pool = false → cl.tcall = cl.trel)

structure TimeInv (c : Cfg) (s : State) : Prop where
  ws : ∀ j, WTime c s.clock (s.ws j)
  idle : ∀ j, c.k ≤ j → s.ws j = {}
  calls : ∀ cl ∈ s.calls, CallTime c s.clock cl

theorem time_init (c : Cfg) : TimeInv c init := by
  refine ⟨fun j => ⟨?_, ?_, ?_⟩, ?_, ?_⟩ <;> simp [init]

theorem wt_setW {c : Cfg} {s : State} {clk : Nat} (h : ∀ j, WTime c clk (s.ws j)) (i : Nat) {w : W}
    (hw : WTime c clk w) : ∀ j, WTime c clk ((setW s i w).ws j) := by
  intro j
  by_cases hj : j = i
  · subst hj; simpa using hw
  · rw [setW_other _ _ _ _ hj]; exact h j

theorem idle_setW {c : Cfg} {s : State} (h : ∀ j, c.k ≤ j → s.ws j = {}) {i : Nat} (hi : i < c.k) (w : W) :
    ∀ j, c.k ≤ j → (setW s i w).ws j = {} := by
  intro j hj
  rw [setW_other _ _ _ _ (by omega)]; exact h j hj

theorem time_step (c : Cfg) (s : State) (a : Act) (s' : State) (h : TimeInv c s) (hs : Step c s a s') :
    TimeInv c s' := by
  obtain ⟨hw, hid, hc⟩ := h
  cases hs with
  | arrive kd => exact ⟨hw, hid, hc⟩
  | stop _ => exact ⟨hw, hid, hc⟩
  | tick ht =>
    refine ⟨?_, hid, ?_⟩
    · intro j
      have hj := hw j
      by_cases hk : j < c.k
      · have hto := ht j hk
        simp only [tickOk, Bool.and_eq_true, Bool.or_eq_true, List.all_eq_true] at hto
        refine ⟨?_, ?_, ?_⟩
        · intro b t0 hg
          have hg' : (s.ws j).gph = .coll b t0 := hg
          have := hj.coll b t0 hg'
          rw [hg'] at hto
          have hlt : s.clock < t0 + c.wait := by simpa using hto.1
          exact ⟨by show t0 ≤ s.clock + 1; omega, by show s.clock + 1 ≤ t0 + c.wait; omega⟩
        · intro b t0 hg
          have hg' : (s.ws j).gph = .ready b t0 := hg
          rw [hg'] at hto
          simp at hto
        · intro e he
          obtain ⟨h1, h2, h3, h4⟩ := hj.pd e he
          refine ⟨h1, h2, by show e.trel ≤ s.clock + 1; omega, ?_⟩
          intro hp hq
          rcases hto.2 with hp' | hall
          · simp [hp] at hp'
          · have := hall e he; simp [hq] at this
      · have := hid j (by omega)
        refine ⟨?_, ?_, ?_⟩ <;> simp [this]
    · intro cl hcl
      obtain ⟨h1, h2, h3, h4, h5⟩ := hc cl hcl
      exact ⟨h1, h2, h3, by show cl.tcall ≤ s.clock + 1; omega, h5⟩
  | @cLock i hi _ _ _ _ =>
    exact ⟨wt_setW hw i ⟨(hw i).coll, (hw i).ready, (hw i).pd⟩, idle_setW hid hi _, hc⟩
  | @cGet i z rest hi _ _ =>
    exact ⟨wt_setW hw i ⟨(hw i).coll, (hw i).ready, (hw i).pd⟩, idle_setW hid hi _, hc⟩
  | @cPutStop i hi _ =>
    exact ⟨wt_setW hw i ⟨(hw i).coll, (hw i).ready, (hw i).pd⟩, idle_setW hid hi _, hc⟩
  | @cPutGood i r hi _ _ _ =>
    exact ⟨wt_setW hw i ⟨(hw i).coll, (hw i).ready, (hw i).pd⟩, idle_setW hid hi _, hc⟩
  | @cPutShort i r hi _ _ =>
    exact ⟨wt_setW hw i ⟨(hw i).coll, (hw i).ready, (hw i).pd⟩, idle_setW hid hi _, hc⟩
  | @cMore i z rest hi _ _ _ =>
    exact ⟨wt_setW hw i ⟨(hw i).coll, (hw i).ready, (hw i).pd⟩, idle_setW hid hi _, hc⟩
  | @cNoMore i hi _ _ =>
    exact ⟨wt_setW hw i ⟨(hw i).coll, (hw i).ready, (hw i).pd⟩, idle_setW hid hi _, hc⟩
  | @cDecFlag i hi _ _ =>
    exact ⟨wt_setW hw i ⟨(hw i).coll, (hw i).ready, (hw i).pd⟩, idle_setW hid hi _, hc⟩
  | @cDecFull i hi _ _ _ =>
    exact ⟨wt_setW hw i ⟨(hw i).coll, (hw i).ready, (hw i).pd⟩, idle_setW hid hi _, hc⟩
  | @cDecCont i hi _ _ _ =>
    exact ⟨wt_setW hw i ⟨(hw i).coll, (hw i).ready, (hw i).pd⟩, idle_setW hid hi _, hc⟩
  | @gFirstStop i rest hi _ _ _ _ =>
    exact ⟨wt_setW hw i ⟨by simp, by simp, (hw i).pd⟩, idle_setW hid hi _, hc⟩
  | @gFirstReq i r rest hi _ _ _ _ =>
    refine ⟨wt_setW hw i ⟨?_, by simp, (hw i).pd⟩, idle_setW hid hi _, hc⟩
    intro b t0 hg; simp at hg; obtain ⟨_, rfl⟩ := hg; omega
  | @gNextStop i batch t0 rest hi hg _ _ =>
    refine ⟨wt_setW hw i ⟨by simp, ?_, (hw i).pd⟩, idle_setW hid hi _, hc⟩
    intro b t hgg; simp at hgg; obtain ⟨_, rfl⟩ := hgg; exact (hw i).coll _ _ hg
  | @gNextMore i batch t0 r rest hi hg _ _ _ =>
    refine ⟨wt_setW hw i ⟨?_, by simp, (hw i).pd⟩, idle_setW hid hi _, hc⟩
    intro b t hgg; simp at hgg; obtain ⟨_, rfl⟩ := hgg; exact (hw i).coll _ _ hg
  | @gNextFull i batch t0 r rest hi hg _ _ _ =>
    refine ⟨wt_setW hw i ⟨by simp, ?_, (hw i).pd⟩, idle_setW hid hi _, hc⟩
    intro b t hgg; simp at hgg; obtain ⟨_, rfl⟩ := hgg; exact (hw i).coll _ _ hg
  | @gTimeout i batch t0 hi hg _ =>
    refine ⟨wt_setW hw i ⟨by simp, ?_, (hw i).pd⟩, idle_setW hid hi _, hc⟩
    intro b t hgg; simp at hgg; obtain ⟨_, rfl⟩ := hgg; exact (hw i).coll _ _ hg
  | @gRelease i batch t0 hi hg =>
    refine ⟨wt_setW hw i ⟨by simp, by simp, ?_⟩, idle_setW hid hi _, hc⟩
    intro e he; simp at he
    rcases he with he | he
    · exact (hw i).pd e he
    · subst he
      have := (hw i).ready _ _ hg
      exact ⟨this.1, this.2, Nat.le_refl _, fun _ _ => rfl⟩
  | @sGetStop i rest hi _ _ _ _ =>
    exact ⟨wt_setW hw i ⟨by simp, by simp, (hw i).pd⟩, idle_setW hid hi _, hc⟩
  | @sGetGood i r rest hi _ _ _ _ _ =>
    refine ⟨wt_setW hw i ⟨(hw i).coll, (hw i).ready, ?_⟩, idle_setW hid hi _, hc⟩
    intro e he; simp at he
    rcases he with he | he
    · exact (hw i).pd e he
    · subst he; exact ⟨Nat.le_refl _, Nat.le_add_right _ _, Nat.le_refl _, fun _ _ => rfl⟩
  | @sGetShort i r rest hi _ _ _ _ _ => exact ⟨hw, hid, hc⟩
  | @callEnter i j e hi he hst =>
    have hmem : e ∈ (s.ws i).pd := List.mem_of_getElem? he
    obtain ⟨h1, h2, h3, h4⟩ := (hw i).pd e hmem
    refine ⟨wt_setW hw i ⟨(hw i).coll, (hw i).ready, ?_⟩, idle_setW hid hi _, ?_⟩
    · intro e' he'
      rcases List.mem_or_eq_of_mem_set he' with h5 | h5
      · exact (hw i).pd e' h5
      · subst h5; exact ⟨h1, h2, h3, by simp⟩
    · intro cl hcl; simp at hcl
      rcases hcl with hcl | hcl
      · exact hc cl hcl
      · subst hcl
        exact ⟨h1, h2, h3, Nat.le_refl _, fun hp => (h4 hp hst).symm⟩
  | @callRet i j e cid ok hi he hst =>
    have hmem : e ∈ (s.ws i).pd := List.mem_of_getElem? he
    obtain ⟨h1, h2, h3, h4⟩ := (hw i).pd e hmem
    refine ⟨wt_setW hw i ⟨(hw i).coll, (hw i).ready, ?_⟩, idle_setW hid hi _, hc⟩
    intro e' he'
    rcases List.mem_or_eq_of_mem_set he' with h5 | h5
    · exact (hw i).pd e' h5
    · subst h5; exact ⟨h1, h2, h3, by simp⟩
  | @emit i e rest cid ok hi hp hst =>
    exact ⟨wt_setW hw i ⟨(hw i).coll, (hw i).ready, fun e' he' => (hw i).pd e' (by simp [hp, he'])⟩,
           idle_setW hid hi _, hc⟩

end Batch
