import MpsVerif.Proofs.BufferStep
/-! Invariants of the `Buffer` model. -/
namespace Buffer

def wIdx : WPc → List Nat
  | .check i => [i] | .hold i => [i] | _ => []
def cIdx : CPc → List Nat
  | .got i => [i] | _ => []
def qidx : List QItem → List Nat
  | [] => []
  | .item i :: r => i :: qidx r
  | _ :: r => qidx r

def wHold : WPc → Nat
  | .check _ => 1 | .hold _ => 1 | _ => 0
def cHold : CPc → Nat
  | .got _ => 1 | _ => 0
@[simp] theorem wHold_idle : wHold .idle = 0 := rfl
@[simp] theorem wHold_check (i : Nat) : wHold (.check i) = 1 := rfl
@[simp] theorem wHold_hold (i : Nat) : wHold (.hold i) = 1 := rfl
@[simp] theorem wHold_putFin : wHold .putFin = 0 := rfl
@[simp] theorem wHold_putStop : wHold .putStop = 0 := rfl
@[simp] theorem wHold_putExc : wHold .putExc = 0 := rfl
@[simp] theorem wHold_done : wHold .done = 0 := rfl
@[simp] theorem cHold_idle : cHold .idle = 0 := rfl
@[simp] theorem cHold_got (i : Nat) : cHold (.got i) = 1 := rfl
@[simp] theorem cHold_needExc : cHold .needExc = 0 := rfl
@[simp] theorem cHold_susp : cHold .susp = 0 := rfl
@[simp] theorem cHold_stopping : cHold .stopping = 0 := rfl
@[simp] theorem cHold_drain : cHold .drain = 0 := rfl
@[simp] theorem cHold_closed : cHold .closed = 0 := rfl
theorem wHold_le (w : WPc) : wHold w ≤ 1 := by cases w <;> simp [wHold]
theorem cHold_le (w : CPc) : cHold w ≤ 1 := by cases w <;> simp [cHold]

/-- the consumer is in its normal iteration loop -/
def CPc.iter : CPc → Bool
  | .idle | .got _ | .susp => true
  | _ => false

@[simp] theorem qidx_append (q r : List QItem) : qidx (q ++ r) = qidx q ++ qidx r := by
  induction q with
  | nil => simp [qidx]
  | cons a q ih => cases a <;> simp [qidx, ih]

theorem qidx_length_le (q : List QItem) : (qidx q).length ≤ q.length := by
  induction q with
  | nil => simp [qidx]
  | cons a q ih => cases a <;> simp [qidx] <;> omega

/-- classification of the queue content: `0` items only, `1` items then FINISHED, `2` items then
    STOPPED, `3` items then STOPPED and the exception object, `4` the exception object alone,
    `9` anything else -/
def shape : List QItem → Nat
  | [] => 0
  | .item _ :: r => if shape r = 4 ∨ shape r = 9 then 9 else shape r
  | [.fin] => 1
  | [.stopMark] => 2
  | [.stopMark, .excObj] => 3
  | [.excObj] => 4
  | _ => 9

theorem shape_cases (q : List QItem) : shape q = 0 ∨ shape q = 1 ∨ shape q = 2 ∨ shape q = 3 ∨ shape q = 4 ∨ shape q = 9 := by
  induction q with
  | nil => simp [shape]
  | cons a q ih =>
    cases a with
    | item i => simp only [shape]; split <;> simp_all
    | fin => cases q <;> simp [shape]
    | stopMark =>
      cases q with
      | nil => simp [shape]
      | cons b r => cases b <;> cases r <;> simp [shape]
    | excObj => cases q <;> simp [shape]

theorem shape_snoc_item (q : List QItem) (i : Nat) (h : shape q = 0) : shape (q ++ [.item i]) = 0 := by
  induction q with
  | nil => simp [shape]
  | cons a q ih =>
    cases a with
    | item j =>
      simp only [shape] at h
      split at h
      · omega
      · simp only [List.cons_append, shape]; rw [ih h]; simp
    | fin => cases q <;> simp [shape] at h
    | stopMark =>
      cases q with
      | nil => simp [shape] at h
      | cons b r => cases b <;> cases r <;> simp [shape] at h
    | excObj => cases q <;> simp [shape] at h

theorem shape_snoc_fin (q : List QItem) (h : shape q = 0) : shape (q ++ [.fin]) = 1 := by
  induction q with
  | nil => simp [shape]
  | cons a q ih =>
    cases a with
    | item j =>
      simp only [shape] at h
      split at h
      · omega
      · simp only [List.cons_append, shape]; rw [ih h]; simp
    | fin => cases q <;> simp [shape] at h
    | stopMark =>
      cases q with
      | nil => simp [shape] at h
      | cons b r => cases b <;> cases r <;> simp [shape] at h
    | excObj => cases q <;> simp [shape] at h

theorem shape_snoc_stop (q : List QItem) (h : shape q = 0) : shape (q ++ [.stopMark]) = 2 := by
  induction q with
  | nil => simp [shape]
  | cons a q ih =>
    cases a with
    | item j =>
      simp only [shape] at h
      split at h
      · omega
      · simp only [List.cons_append, shape]; rw [ih h]; simp
    | fin => cases q <;> simp [shape] at h
    | stopMark =>
      cases q with
      | nil => simp [shape] at h
      | cons b r => cases b <;> cases r <;> simp [shape] at h
    | excObj => cases q <;> simp [shape] at h

theorem shape_snoc_exc (q : List QItem) (h : shape q = 2) : shape (q ++ [.excObj]) = 3 := by
  induction q with
  | nil => simp [shape] at h
  | cons a q ih =>
    cases a with
    | item j =>
      simp only [shape] at h
      split at h
      · omega
      · simp only [List.cons_append, shape]; rw [ih h]; simp
    | fin => cases q <;> simp [shape] at h
    | stopMark =>
      cases q with
      | nil => simp [shape]
      | cons b r => cases b <;> cases r <;> simp [shape] at h
    | excObj => cases q <;> simp [shape] at h

theorem shape_item_tail (i : Nat) (r : List QItem) (k : Nat) (h : shape (.item i :: r) = k) (hk : k ≤ 3) :
    shape r = k := by
  simp only [shape] at h
  split at h
  · omega
  · exact h

theorem shape_fin_tail (r : List QItem) (k : Nat) (h : shape (.fin :: r) = k) (hk : k ≤ 3) :
    r = [] ∧ k = 1 := by
  cases r with
  | nil => simp [shape] at h; exact ⟨rfl, h.symm⟩
  | cons b r => simp [shape] at h; omega

theorem shape_stop_tail (r : List QItem) (k : Nat) (h : shape (.stopMark :: r) = k) (hk : k ≤ 3) :
    (r = [] ∧ k = 2) ∨ (r = [.excObj] ∧ k = 3) := by
  cases r with
  | nil => simp [shape] at h; exact Or.inl ⟨rfl, h.symm⟩
  | cons b r =>
    cases b <;> cases r <;> simp [shape] at h <;> try omega
    exact Or.inr ⟨rfl, h.symm⟩

theorem shape_exc_head (r : List QItem) (k : Nat) (h : shape (.excObj :: r) = k) (hk : k ≤ 3) : False := by
  cases r <;> simp [shape] at h <;> omega

/-- queue shape expected while the consumer iterates, from where the worker is -/
def expShape (c : Cfg) : WPc → Nat
  | .putExc => 2
  | .done => match c.srcEnd with | .clean => 1 | .exc => 3
  | _ => 0

/-! ## Phase + shape invariant -/

def PhaseInv (c : Cfg) (s : State) : Prop :=
  (s.flag = true → s.cpc = .drain ∨ s.cpc = .closed) ∧
  (s.cpc.iter = true → s.raised = false ∧ s.ended = false ∧ s.closeReq = false ∧ shape s.queue = expShape c s.wpc) ∧
  (s.cpc = .needExc → s.raised = false ∧ s.ended = false ∧ s.closeReq = false ∧
      ((s.wpc = .putExc ∧ s.queue = []) ∨ (s.wpc = .done ∧ s.queue = [.excObj]))) ∧
  (s.cpc = .closed → s.wpc = .done) ∧
  (s.wpc = .putStop ∨ s.wpc = .putExc → s.pulled = c.n ∧ c.srcEnd = .exc) ∧
  (s.wpc = .putFin → (s.pulled = c.n ∧ c.srcEnd = .clean) ∨ s.flag = true) ∧
  (s.wpc = .done → s.flag = false → s.pulled = c.n) ∧
  s.pulled ≤ c.n

theorem phase_init (c : Cfg) : PhaseInv c init := by
  simp [PhaseInv, init, CPc.iter, shape, expShape]

theorem phase_step (c : Cfg) (s : State) (a : Act) (s' : State) (h : PhaseInv c s) (hs : Step c s a s') :
    PhaseInv c s' := by
  obtain ⟨p1, p2, p3, p4, p5, p6, p7, p8⟩ := h
  cases hs with
  | pull hf hn => simp_all [PhaseInv, expShape]; omega
  | srcEnd hf hn hc => simp_all [PhaseInv, expShape]
  | srcRaise hf hn hc => simp_all [PhaseInv, expShape]
  | wcheck hf ht => simp_all [PhaseInv, expShape]
  | stopSeen hf ht =>
    refine ⟨p1, ?_, ?_, (by intro hcl; have := p4 hcl; simp [hf] at this), by simp, by simp [ht], by simp, p8⟩
    · intro hi; rcases p1 ht with h | h <;> simp [h, CPc.iter] at hi
    · intro hi; rcases p1 ht with h | h <;> simp [h] at hi
  | put hf hl =>
    refine ⟨p1, ?_, ?_, (by intro hcl; have := p4 hcl; simp [hf] at this), by simp, by simp, by simp, p8⟩
    · intro hi
      obtain ⟨a1, a2, a3, a4⟩ := p2 hi
      exact ⟨a1, a2, a3, by simpa [expShape] using shape_snoc_item _ _ (by simpa [hf, expShape] using a4)⟩
    · intro hi; have := p3 hi; simp [hf] at this
  | putFin hf hl =>
    refine ⟨p1, ?_, ?_, (by intro _; rfl), by simp, by simp, ?_, p8⟩
    · intro hi
      obtain ⟨a1, a2, a3, a4⟩ := p2 hi
      have hfl : s.flag = false := by
        cases hfl : s.flag with
        | false => rfl
        | true => rcases p1 hfl with h | h <;> simp [h, CPc.iter] at hi
      have hcl : c.srcEnd = .clean := by
        rcases p6 hf with h | h
        · exact h.2
        · simp [hfl] at h
      exact ⟨a1, a2, a3, by simpa [expShape, hcl] using shape_snoc_fin _ (by simpa [hf, expShape] using a4)⟩
    · intro hi; have := p3 hi; simp [hf] at this
    · intro _ hfl
      rcases p6 hf with h | h
      · exact h.1
      · simp only at hfl; simp [hfl] at h
  | putStop hf hl =>
    refine ⟨p1, ?_, ?_, (by intro hcl; have := p4 hcl; simp [hf] at this), by simpa using p5 (Or.inl hf), by simp, by simp, p8⟩
    · intro hi
      obtain ⟨a1, a2, a3, a4⟩ := p2 hi
      exact ⟨a1, a2, a3, by simpa [expShape] using shape_snoc_stop _ (by simpa [hf, expShape] using a4)⟩
    · intro hi; have := p3 hi; simp [hf] at this
  | putExc hf hl =>
    have hexc := p5 (Or.inr hf)
    refine ⟨p1, ?_, ?_, (by intro _; rfl), by simp, by simp, by intro _ _; exact hexc.1, p8⟩
    · intro hi
      obtain ⟨a1, a2, a3, a4⟩ := p2 hi
      exact ⟨a1, a2, a3, by simpa [expShape, hexc.2] using shape_snoc_exc _ (by simpa [hf, expShape] using a4)⟩
    · intro hi
      obtain ⟨a1, a2, a3, a4⟩ := p3 hi
      refine ⟨a1, a2, a3, Or.inr ⟨rfl, ?_⟩⟩
      rcases a4 with h | h
      · simp [h.2]
      · simp [hf] at h
  | getItem hc hq =>
    rename_i i rest
    refine ⟨by simpa [hc] using p1, ?_, by simp, by simp, p5, p6, p7, p8⟩
    intro _
    obtain ⟨a1, a2, a3, a4⟩ := p2 (by simp [hc, CPc.iter])
    refine ⟨a1, a2, a3, ?_⟩
    have hk : expShape c s.wpc ≤ 3 := by unfold expShape; split <;> try omega
                                         split <;> omega
    exact shape_item_tail i rest _ (by rw [← hq]; exact a4) hk
  | getFin hc hq => exact ⟨by simpa [hc] using p1, by simp [CPc.iter], by simp, by simp, p5, p6, p7, p8⟩
  | getStop hc hq =>
    rename_i rest
    obtain ⟨a1, a2, a3, a4⟩ := p2 (by simp [hc, CPc.iter])
    have hk : expShape c s.wpc ≤ 3 := by unfold expShape; split <;> try omega
                                         split <;> omega
    refine ⟨by simpa [hc] using p1, by simp [CPc.iter], ?_, by simp, p5, p6, p7, p8⟩
    intro _
    refine ⟨a1, a2, a3, ?_⟩
    rcases shape_stop_tail rest _ (by rw [← hq]; exact a4) hk with ⟨h1, h2⟩ | ⟨h1, h2⟩
    · left
      refine ⟨?_, h1⟩
      cases hw : s.wpc <;> simp [hw, expShape] at h2
      · rfl
      · split at h2 <;> omega
    · right
      refine ⟨?_, h1⟩
      cases hw : s.wpc <;> simp [hw, expShape] at h2
      rfl
  | getExc hc hq => exact ⟨by simpa [hc] using p1, by simp [CPc.iter], by simp, by simp, p5, p6, p7, p8⟩
  | yld hcp =>
    refine ⟨by simpa [hcp] using p1, ?_, by simp, by simp, p5, p6, p7, p8⟩
    intro _; exact p2 (by simp [hcp, CPc.iter])
  | next hc =>
    refine ⟨by simpa [hc] using p1, ?_, by simp, by simp, p5, p6, p7, p8⟩
    intro _; exact p2 (by simp [hc, CPc.iter])
  | close hc => exact ⟨by simpa [hc] using p1, by simp [CPc.iter], by simp, by simp, p5, p6, p7, p8⟩
  | setFlag hc =>
    refine ⟨by simp, by simp [CPc.iter], by simp, by simp, p5, ?_, by simp, p8⟩
    intro hw; exact Or.inr rfl
  | drainPop hc hq => exact ⟨p1, by simp [hc, CPc.iter], by simp [hc], by simp [hc], p5, p6, p7, p8⟩
  | joined hc hw => exact ⟨by simp, by simp [CPc.iter], by simp, by intro _; exact hw, p5, p6, p7, p8⟩

end Buffer

namespace Buffer

/-! ## Counting (C08) -/

def morePulls : WPc → Nat
  | .idle => 1 | .hold _ => 1 | _ => 0
@[simp] theorem morePulls_idle : morePulls .idle = 1 := rfl
@[simp] theorem morePulls_check (i : Nat) : morePulls (.check i) = 0 := rfl
@[simp] theorem morePulls_hold (i : Nat) : morePulls (.hold i) = 1 := rfl
@[simp] theorem morePulls_putFin : morePulls .putFin = 0 := rfl
@[simp] theorem morePulls_putStop : morePulls .putStop = 0 := rfl
@[simp] theorem morePulls_putExc : morePulls .putExc = 0 := rfl
@[simp] theorem morePulls_done : morePulls .done = 0 := rfl
theorem wHold_morePulls_le (w : WPc) : wHold w + morePulls w ≤ 2 := by cases w <;> simp [wHold, morePulls]

/-- the consumer has not yet set the stop flag -/
def CPc.pre : CPc → Bool
  | .drain | .closed => false
  | _ => true

def CountInv (c : Cfg) (s : State) : Prop :=
  s.queue.length ≤ c.maxsize ∧
  (s.cpc.pre = true → s.pulled = s.out.length + cHold s.cpc + (qidx s.queue).length + wHold s.wpc) ∧
  (s.cpc.pre = false → s.flag = true ∧ s.pulled + morePulls s.wpc ≤ s.out.length + c.maxsize + 2)

theorem count_init (c : Cfg) : CountInv c init := by simp [CountInv, init, CPc.pre, qidx]

theorem count_step (c : Cfg) (s : State) (a : Act) (s' : State) (hph : PhaseInv c s) (h : CountInv c s)
    (hs : Step c s a s') : CountInv c s' := by
  obtain ⟨h1, h2, h3⟩ := h
  have p1 := hph.1
  have hq := qidx_length_le s.queue
  have hwm := wHold_morePulls_le s.wpc
  cases hs <;> cases hc : s.cpc <;> simp_all [CountInv, CPc.pre, qidx] <;> (try omega)

/-! ## Order -/

def OrderInv (s : State) : Prop :=
  s.cpc.iter = true →
    cIdx s.cpc ++ qidx s.queue ++ wIdx s.wpc = List.range' s.out.length (s.pulled - s.out.length)
    ∧ s.out.length ≤ s.pulled

theorem range'_snoc (a n : Nat) : List.range' a (n+1) = List.range' a n ++ [a+n] := by
  simpa using List.range'_concat (s := a) (n := n) (step := 1)

theorem order_init : OrderInv init := by simp [OrderInv, init, cIdx, qidx, wIdx]

theorem order_step (c : Cfg) (s : State) (a : Act) (s' : State) (hph : PhaseInv c s) (h : OrderInv s)
    (hs : Step c s a s') : OrderInv s' := by
  unfold OrderInv at h ⊢
  cases hs with
  | pull hf hn =>
    intro hact
    obtain ⟨h1, h2⟩ := h hact
    simp only [hf, wIdx, List.append_nil] at h1 ⊢
    refine ⟨?_, by omega⟩
    have : s.pulled + 1 - s.out.length = (s.pulled - s.out.length) + 1 := by omega
    rw [this, range'_snoc, ← h1]
    simp; omega
  | srcEnd hf hn hc => intro hact; simpa [hf, wIdx] using h hact
  | srcRaise hf hn hc => intro hact; simpa [hf, wIdx] using h hact
  | wcheck hf ht => intro hact; simpa [hf, wIdx] using h hact
  | stopSeen hf ht =>
    intro hact
    rcases hph.1 ht with h' | h' <;> simp [h', CPc.iter] at hact
  | put hf hl => intro hact; simpa [hf, wIdx, qidx] using h hact
  | putFin hf hl => intro hact; simpa [hf, wIdx, qidx] using h hact
  | putStop hf hl => intro hact; simpa [hf, wIdx, qidx] using h hact
  | putExc hf hl => intro hact; simpa [hf, wIdx, qidx] using h hact
  | getItem hc hq =>
    intro _
    have := h (by simp [hc, CPc.iter])
    simpa [hc, hq, cIdx, qidx] using this
  | getFin hc hq => intro hact; simp [CPc.iter] at hact
  | getStop hc hq => intro hact; simp [CPc.iter] at hact
  | getExc hc hq => intro hact; simp [CPc.iter] at hact
  | yld hcp =>
    intro _
    obtain ⟨h1, h2⟩ := h (by simp [hcp, CPc.iter])
    simp only [hcp, cIdx] at h1
    simp only [cIdx, List.nil_append, List.length_append, List.length_cons, List.length_nil]
    have hpos : s.pulled - s.out.length = (s.pulled - (s.out.length + 1)) + 1 := by
      cases hd : s.pulled - s.out.length with
      | zero => simp [hd] at h1
      | succ k => omega
    rw [hpos, List.range'_succ] at h1
    simp at h1
    exact ⟨by simpa using h1.2, by omega⟩
  | next hc =>
    intro _
    have := h (by simp [hc, CPc.iter])
    simpa [hc, cIdx] using this
  | close hc => intro hact; simp [CPc.iter] at hact
  | setFlag hc => intro hact; simp [CPc.iter] at hact
  | drainPop hc hq => intro hact; simp [hc, CPc.iter] at hact
  | joined hc hw => intro hact; simp [CPc.iter] at hact

/-! ## Results (C05, and the list meaning of `buffer` for C03) -/

def ResInv (c : Cfg) (s : State) : Prop :=
  s.out = List.range s.out.length ∧
  (s.raised = true → s.out.length = c.n ∧ c.srcEnd = .exc) ∧
  (s.ended = true → s.out.length = c.n ∧ c.srcEnd = .clean) ∧
  (s.cpc = .needExc → s.out.length = c.n ∧ c.srcEnd = .exc) ∧
  ((s.cpc = .stopping ∨ s.cpc = .drain ∨ s.cpc = .closed) → s.raised = true ∨ s.ended = true ∨ s.closeReq = true)

theorem res_init (c : Cfg) : ResInv c init := by simp [ResInv, init]

theorem range'_nil_iff (a n : Nat) : List.range' a n = [] ↔ n = 0 := by
  cases n <;> simp [List.range'_succ]

theorem res_step (c : Cfg) (s : State) (a : Act) (s' : State) (hph : PhaseInv c s) (hord : OrderInv s)
    (h : ResInv c s) (hs : Step c s a s') : ResInv c s' := by
  obtain ⟨p1, p2, p3, p4, p5, p6, p7, p8⟩ := hph
  obtain ⟨r1, r2, r3, r4, r5⟩ := h
  cases hs with
  | pull hf hn => exact ⟨r1, r2, r3, r4, r5⟩
  | srcEnd hf hn hc => exact ⟨r1, r2, r3, r4, r5⟩
  | srcRaise hf hn hc => exact ⟨r1, r2, r3, r4, r5⟩
  | wcheck hf ht => exact ⟨r1, r2, r3, r4, r5⟩
  | stopSeen hf ht => exact ⟨r1, r2, r3, r4, r5⟩
  | put hf hl => exact ⟨r1, r2, r3, r4, r5⟩
  | putFin hf hl => exact ⟨r1, r2, r3, r4, r5⟩
  | putStop hf hl => exact ⟨r1, r2, r3, r4, r5⟩
  | putExc hf hl => exact ⟨r1, r2, r3, r4, r5⟩
  | getItem hc hq => exact ⟨r1, r2, r3, by simp, by simp⟩
  | getFin hc hq =>
    rename_i rest
    have hit : s.cpc.iter = true := by simp [hc, CPc.iter]
    obtain ⟨a1, a2, a3, a4⟩ := p2 hit
    have hk : expShape c s.wpc ≤ 3 := by unfold expShape; split <;> try omega
                                         split <;> omega
    obtain ⟨hrest, hk1⟩ := shape_fin_tail rest _ (by rw [← hq]; exact a4) hk
    have hw : s.wpc = .done ∧ c.srcEnd = .clean := by
      cases hw : s.wpc <;> simp [hw, expShape] at hk1
      cases hse : c.srcEnd <;> simp [hse] at hk1
      exact ⟨rfl, rfl⟩
    have hfl : s.flag = false := by
      cases hfl : s.flag with
      | false => rfl
      | true => rcases p1 hfl with h | h <;> simp [h] at hc
    obtain ⟨o1, o2⟩ := hord hit
    simp [hc, hq, hrest, hw.1, cIdx, qidx, wIdx] at o1
    have hn := p7 hw.1 hfl
    refine ⟨r1, r2, ?_, by simp, by simp⟩
    intro _
    show s.out.length = c.n ∧ _
    exact ⟨by omega, hw.2⟩
  | getStop hc hq =>
    rename_i rest
    have hit : s.cpc.iter = true := by simp [hc, CPc.iter]
    obtain ⟨a1, a2, a3, a4⟩ := p2 hit
    have hk : expShape c s.wpc ≤ 3 := by unfold expShape; split <;> try omega
                                         split <;> omega
    have hfl : s.flag = false := by
      cases hfl : s.flag with
      | false => rfl
      | true => rcases p1 hfl with h | h <;> simp [h] at hc
    obtain ⟨o1, o2⟩ := hord hit
    have key : s.pulled = c.n ∧ c.srcEnd = .exc ∧ qidx rest = [] ∧ wIdx s.wpc = [] := by
      rcases shape_stop_tail rest _ (by rw [← hq]; exact a4) hk with ⟨h1, h2⟩ | ⟨h1, h2⟩
      · have hw : s.wpc = .putExc := by
          cases hw : s.wpc <;> simp [hw, expShape] at h2
          · rfl
          · split at h2 <;> omega
        have := p5 (Or.inr hw)
        exact ⟨this.1, this.2, by simp [h1, qidx], by simp [hw, wIdx]⟩
      · have hw : s.wpc = .done ∧ c.srcEnd = .exc := by
          cases hw : s.wpc <;> simp [hw, expShape] at h2
          cases hse : c.srcEnd <;> simp [hse] at h2
          exact ⟨rfl, rfl⟩
        exact ⟨p7 hw.1 hfl, hw.2, by simp [h1, qidx], by simp [hw.1, wIdx]⟩
    simp [hc, hq, key.2.2.1, key.2.2.2, cIdx, qidx] at o1
    refine ⟨r1, r2, r3, ?_, by simp⟩
    intro _
    show s.out.length = c.n ∧ _
    exact ⟨by omega, key.2.1⟩
  | getExc hc hq =>
    refine ⟨r1, ?_, r3, by simp, by simp⟩
    intro _; exact r4 hc
  | yld hcp =>
    rename_i i
    have hit : s.cpc.iter = true := by simp [hcp, CPc.iter]
    obtain ⟨o1, o2⟩ := hord hit
    have hi : i = s.out.length := by
      cases hd : s.pulled - s.out.length with
      | zero => simp [hd, hcp, cIdx] at o1
      | succ k => rw [hd, List.range'_succ] at o1; simp [hcp, cIdx] at o1; exact o1.1
    obtain ⟨a1, a2, a3, a4⟩ := p2 hit
    refine ⟨?_, ?_, ?_, by simp, by simp⟩
    · simp only [List.length_append, List.length_cons, List.length_nil]
      rw [List.range_succ, ← r1, hi]
    · intro hr; simp [a1] at hr
    · intro hr; simp [a2] at hr
  | next hc => exact ⟨r1, r2, r3, by simp, by simp⟩
  | close hc => exact ⟨r1, r2, r3, by simp, by simp⟩
  | setFlag hc => exact ⟨r1, r2, r3, by simp, by intro _; exact r5 (Or.inl hc)⟩
  | drainPop hc hq => exact ⟨r1, r2, r3, by simp [hc], by intro _; exact r5 (Or.inr (Or.inl hc))⟩
  | joined hc hw => exact ⟨r1, r2, r3, by simp, by intro _; exact r5 (Or.inr (Or.inl hc))⟩

end Buffer
