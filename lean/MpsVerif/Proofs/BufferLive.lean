import MpsVerif.Proofs.BufferInv
/-! Liveness of the `Buffer` model: decreasing measure + progress. -/
namespace Buffer

def wrank : WPc → Nat
  | .done => 0 | .putExc => 4 | .putFin => 4 | .putStop => 8 | .idle => 9 | .hold _ => 13 | .check _ => 14
def crank : CPc → Nat
  | .closed => 0 | .drain => 1 | .stopping => 2 | .needExc => 3 | .idle => 4 | .susp => 5 | .got _ => 6

def mu (c : Cfg) (s : State) : Nat :=
  6 * (c.n - s.pulled) + wrank s.wpc + 3 * s.queue.length + crank s.cpc

theorem mu_decreases (c : Cfg) (s : State) (a : Act) (s' : State) (hs : Step c s a s') :
    mu c s' < mu c s := by
  cases hs <;> simp_all [mu, wrank, crank] <;> omega

structure AllInv (c : Cfg) (s : State) : Prop where
  ph : PhaseInv c s
  cnt : CountInv c s
  ord : OrderInv s
  res : ResInv c s

theorem all_init (c : Cfg) : AllInv c init := ⟨phase_init c, count_init c, order_init, res_init c⟩

theorem all_step (c : Cfg) (s : State) (a : Act) (s' : State) (h : AllInv c s) (hs : Step c s a s') :
    AllInv c s' :=
  ⟨phase_step c s a s' h.ph hs, count_step c s a s' h.ph h.cnt hs, order_step c s a s' h.ph h.ord hs,
   res_step c s a s' h.ph h.ord h.res hs⟩

theorem all_reachable (c : Cfg) {s : State} (hr : Reachable c s) : AllInv c s :=
  reachable_inv c (all_init c) (all_step c) hr

/-- Progress: some action is enabled in every non-final state satisfying the invariants
    (`maxsize ≥ 1`). -/
theorem progress_of_inv (c : Cfg) (hms : 1 ≤ c.maxsize) (s : State) (h : AllInv c s) (hnf : ¬ Final s) :
    ∃ a, (step c s a).isSome = true := by
  obtain ⟨⟨p1, p2, p3, p4, p5, p6, p7, p8⟩, ⟨k1, k2, k3⟩, _, _⟩ := h
  have worker : s.wpc ≠ .done → s.queue.length < c.maxsize → ∃ a, (step c s a).isSome = true := by
    intro hnd hroom
    cases hf : s.wpc with
    | idle =>
      by_cases hn : s.pulled < c.n
      · exact ⟨.pull, by simp [step, hf, hn]⟩
      · have hn' : s.pulled = c.n := by omega
        cases hse : c.srcEnd with
        | clean => exact ⟨.srcEnd, by simp [step, hf, hn', hse]⟩
        | exc => exact ⟨.srcRaise, by simp [step, hf, hn', hse]⟩
    | check i =>
      cases ht : s.flag with
      | false => exact ⟨.wcheck, by simp [step, hf, ht]⟩
      | true => exact ⟨.stopSeen, by simp [step, hf, ht]⟩
    | hold i => exact ⟨.put, by simp [step, hf, hroom]⟩
    | putFin => exact ⟨.putFin, by simp [step, hf, hroom]⟩
    | putStop => exact ⟨.putStop, by simp [step, hf, hroom]⟩
    | putExc => exact ⟨.putExc, by simp [step, hf, hroom]⟩
    | done => exact absurd hf hnd
  cases hc : s.cpc with
  | idle =>
    obtain ⟨a1, a2, a3, a4⟩ := p2 (by simp [hc, CPc.iter])
    have hk : expShape c s.wpc ≤ 3 := by unfold expShape; split <;> try omega
                                         split <;> omega
    cases hq : s.queue with
    | nil =>
      have hnd : s.wpc ≠ .done := by
        intro hd
        simp [hq, shape, hd, expShape] at a4
        split at a4 <;> omega
      exact worker hnd (by simp [hq]; omega)
    | cons x rest =>
      cases x with
      | item i => exact ⟨.get, by simp [step, hc, hq]⟩
      | fin => exact ⟨.get, by simp [step, hc, hq]⟩
      | stopMark => exact ⟨.get, by simp [step, hc, hq]⟩
      | excObj => exact absurd (shape_exc_head rest _ (by rw [← hq]; exact a4) hk) id
  | got i => exact ⟨.yld, by simp [step, hc]⟩
  | needExc =>
    obtain ⟨_, _, _, a4⟩ := p3 hc
    rcases a4 with ⟨hw, hq⟩ | ⟨hw, hq⟩
    · exact ⟨.putExc, by simp [step, hw, hq]; omega⟩
    · exact ⟨.getExc, by simp [step, hc, hq]⟩
  | susp => exact ⟨.next, by simp [step, hc]⟩
  | stopping => exact ⟨.setFlag, by simp [step, hc]⟩
  | drain =>
    by_cases hd : s.wpc = .done
    · exact ⟨.joined, by simp [step, hc, hd]⟩
    · cases hq : s.queue with
      | nil => exact worker hd (by simp [hq]; omega)
      | cons x rest => exact ⟨.drainPop, by simp [step, hc, hq]⟩
  | closed => exact absurd hc hnf

end Buffer
