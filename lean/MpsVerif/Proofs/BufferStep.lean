import MpsVerif.Model.Buffer
import MpsVerif.Core.Sys
/-! Relational presentation of `Buffer.step` and its soundness. -/
namespace Buffer

inductive Step (c : Cfg) : State → Act → State → Prop where
  | pull {s} : s.wpc = .idle → s.pulled < c.n →
      Step c s .pull { s with wpc := .check s.pulled, pulled := s.pulled + 1 }
  | srcEnd {s} : s.wpc = .idle → s.pulled = c.n → c.srcEnd = .clean → Step c s .srcEnd { s with wpc := .putFin }
  | srcRaise {s} : s.wpc = .idle → s.pulled = c.n → c.srcEnd = .exc → Step c s .srcRaise { s with wpc := .putStop }
  | wcheck {s i} : s.wpc = .check i → s.flag = false → Step c s .wcheck { s with wpc := .hold i }
  | stopSeen {s i} : s.wpc = .check i → s.flag = true → Step c s .stopSeen { s with wpc := .putFin }
  | put {s i} : s.wpc = .hold i → s.queue.length < c.maxsize →
      Step c s .put { s with wpc := .idle, queue := s.queue ++ [.item i] }
  | putFin {s} : s.wpc = .putFin → s.queue.length < c.maxsize →
      Step c s .putFin { s with wpc := .done, queue := s.queue ++ [.fin] }
  | putStop {s} : s.wpc = .putStop → s.queue.length < c.maxsize →
      Step c s .putStop { s with wpc := .putExc, queue := s.queue ++ [.stopMark] }
  | putExc {s} : s.wpc = .putExc → s.queue.length < c.maxsize →
      Step c s .putExc { s with wpc := .done, queue := s.queue ++ [.excObj] }
  | getItem {s i rest} : s.cpc = .idle → s.queue = .item i :: rest →
      Step c s .get { s with cpc := .got i, queue := rest }
  | getFin {s rest} : s.cpc = .idle → s.queue = .fin :: rest →
      Step c s .get { s with cpc := .stopping, queue := rest, ended := true }
  | getStop {s rest} : s.cpc = .idle → s.queue = .stopMark :: rest →
      Step c s .get { s with cpc := .needExc, queue := rest }
  | getExc {s rest} : s.cpc = .needExc → s.queue = .excObj :: rest →
      Step c s .getExc { s with cpc := .stopping, queue := rest, raised := true }
  | yld {s i} : s.cpc = .got i → Step c s .yld { s with cpc := .susp, out := s.out ++ [i] }
  | next {s} : s.cpc = .susp → Step c s .next { s with cpc := .idle }
  | close {s} : s.cpc = .susp → Step c s .close { s with cpc := .stopping, closeReq := true }
  | setFlag {s} : s.cpc = .stopping → Step c s .setFlag { s with cpc := .drain, flag := true }
  | drainPop {s x rest} : s.cpc = .drain → s.queue = x :: rest → Step c s .drainPop { s with queue := rest }
  | joined {s} : s.cpc = .drain → s.wpc = .done → Step c s .joined { s with cpc := .closed }

theorem step_sound (c : Cfg) (s s' : State) (a : Act) (h : step c s a = some s') : Step c s a s' := by
  cases a <;> simp only [step] at h
  case pull => split at h <;> simp at h; subst h; rename_i hc; exact .pull hc.1 hc.2
  case srcEnd => split at h <;> simp at h; subst h; rename_i hc; exact .srcEnd hc.1 hc.2.1 hc.2.2
  case srcRaise => split at h <;> simp at h; subst h; rename_i hc; exact .srcRaise hc.1 hc.2.1 hc.2.2
  case wcheck =>
    split at h
    · rename_i i hf; split at h <;> simp at h; subst h; rename_i ht; exact .wcheck hf ht
    · simp at h
  case stopSeen =>
    split at h
    · rename_i i hf; split at h <;> simp at h; subst h; rename_i ht; exact .stopSeen hf ht
    · simp at h
  case put =>
    split at h
    · rename_i i hf; split at h <;> simp at h; subst h; rename_i hl; exact .put hf hl
    · simp at h
  case putFin => split at h <;> simp at h; subst h; rename_i hc; exact .putFin hc.1 hc.2
  case putStop => split at h <;> simp at h; subst h; rename_i hc; exact .putStop hc.1 hc.2
  case putExc => split at h <;> simp at h; subst h; rename_i hc; exact .putExc hc.1 hc.2
  case get =>
    split at h
    · rename_i hc
      split at h
      · rename_i i rest hq; simp at h; subst h; exact .getItem hc hq
      · rename_i rest hq; simp at h; subst h; exact .getFin hc hq
      · rename_i rest hq; simp at h; subst h; exact .getStop hc hq
      · simp at h
    · simp at h
  case getExc =>
    split at h
    · rename_i hc
      split at h
      · rename_i rest hq; simp at h; subst h; exact .getExc hc hq
      · simp at h
    · simp at h
  case yld =>
    split at h
    · rename_i i hcp; simp at h; subst h; exact .yld hcp
    · simp at h
  case next => split at h <;> simp at h; subst h; rename_i hc; exact .next hc
  case close => split at h <;> simp at h; subst h; rename_i hc; exact .close hc
  case setFlag => split at h <;> simp at h; subst h; rename_i hc; exact .setFlag hc
  case drainPop =>
    split at h
    · rename_i hc
      split at h
      · rename_i x rest hq; simp at h; subst h; exact .drainPop hc hq
      · simp at h
    · simp at h
  case joined => split at h <;> simp at h; subst h; rename_i hc; exact .joined hc.1 hc.2

def Reachable (c : Cfg) (s : State) : Prop := Core.Reach (step c) init s

theorem reachable_inv (c : Cfg) {Inv : State → Prop} (h0 : Inv init)
    (hstep : ∀ s a s', Inv s → Step c s a s' → Inv s') {s : State} (hr : Reachable c s) : Inv s :=
  Core.invariant_reach (fun s a s' hi hs => hstep s a s' hi (step_sound c s s' a hs)) h0 hr

end Buffer
