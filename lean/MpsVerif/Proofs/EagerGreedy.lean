import MpsVerif.Proofs.EagerInv
/-! The closed form: under zero processing time, and as long as no entry is taken at exactly
    `t0 + wait` of an open batch (a tie), the batches of the model are the greedy grouping `greedy` of
    the take-stamped sequence.  `Rel` is the simulation relation between a model state and
    `greedy c s.takenAt`; the model may be one step behind the grouping (a full or marker-cut batch is
    closed by `feed` at the take, by the model at the following `emit`: `Ahead`) or ahead of it (an
    expired batch is handed out by the model at `t0 + wait`, closed by `feed` only at the next take:
    `Behind`). -/
namespace Eager

theorem greedy_append (c : Cfg) (l : List (Item × Nat)) (p : Item × Nat) :
    greedy c (l ++ [p]) = feed c (greedy c l) p := by
  simp [greedy, List.foldl_append]

def Sync (s : State) (g : Grp) : Prop :=
  g.out = s.out ∧ g.outAt = s.outAt ∧ g.cur = s.cur ∧ (s.cur ≠ [] → g.t0 = s.t0) ∧ g.fin = s.fin

def Ahead (s : State) (g : Grp) : Prop :=
  g.out = s.out ++ [s.cur] ∧ g.outAt = s.outAt ++ [s.clock] ∧ g.cur = [] ∧ g.fin = s.fin

def Behind (c : Cfg) (s : State) (g : Grp) : Prop :=
  s.cur = [] ∧ g.cur ≠ [] ∧ s.out = g.out ++ [g.cur] ∧ s.outAt = g.outAt ++ [g.t0 + c.wait] ∧
  g.t0 + c.wait ≤ s.clock ∧ g.fin = false ∧ s.fin = false

def Rel (c : Cfg) (s : State) : Prop :=
  (greedy c s.takenAt).tie = false →
    ((s.pc = .idle ∨ s.pc = .held) → Sync s (greedy c s.takenAt) ∨ Behind c s (greedy c s.takenAt)) ∧
    ((s.pc = .coll ∨ s.pc = .closing ∨ s.pc = .done) → Sync s (greedy c s.takenAt)) ∧
    (s.pc = .flush → (Sync s (greedy c s.takenAt) ∧ s.fin = false ∧ s.cur.length < c.bs) ∨
                      Ahead s (greedy c s.takenAt))

theorem rel_init (c : Cfg) : Rel c init := by
  intro _
  refine ⟨?_, ?_, ?_⟩ <;> intro h <;> simp [init, greedy, Grp.init, Sync] at h ⊢

theorem expire_tie (c : Cfg) (g : Grp) (t : Nat) : (g.expire c t).tie = g.tie := by
  unfold Grp.expire; split <;> rfl

theorem expire_fin (c : Cfg) (g : Grp) (t : Nat) : (g.expire c t).fin = g.fin := by
  unfold Grp.expire; split <;> rfl

theorem add_tie (c : Cfg) (g : Grp) (p : Item × Nat) : (g.add c p).tie = g.tie := by
  unfold Grp.add; split <;> split <;> rfl

theorem feed_tie (c : Cfg) (g : Grp) (p : Item × Nat) (hf : g.fin = false) :
    (feed c g p).tie = (g.tie || g.isTie c p) := by
  simp [feed, hf, add_tie, expire_tie]

/-- without a tie the flag update is the identity -/
theorem feed_eq (c : Cfg) (g : Grp) (p : Item × Nat) (hf : g.fin = false)
    (ht : (feed c g p).tie = false) :
    g.tie = false ∧ g.isTie c p = false ∧ feed c g p = (g.expire c p.2).add c p := by
  rw [feed_tie c g p hf] at ht
  simp only [Bool.or_eq_false_iff] at ht
  refine ⟨ht.1, ht.2, ?_⟩
  have hg : ({ g with tie := g.tie || g.isTie c p } : Grp) = g := by
    rw [ht.1, ht.2]; cases g; simp_all
  unfold feed
  rw [if_neg (by simp [hf]), hg]

theorem expire_closed (c : Cfg) (g : Grp) (t : Nat) (hc : g.cur = []) : g.expire c t = g := by
  simp [Grp.expire, hc]

theorem expire_within (c : Cfg) (g : Grp) (t : Nat) (h : t ≤ g.t0 + c.wait) : g.expire c t = g := by
  have : ¬ g.t0 + c.wait < t := by omega
  simp [Grp.expire, this]

theorem expire_after (c : Cfg) (g : Grp) (t : Nat) (hc : g.cur ≠ []) (h : g.t0 + c.wait < t) :
    g.expire c t = { g with out := g.out ++ [g.cur], outAt := g.outAt ++ [g.t0 + c.wait], cur := [] } := by
  simp [Grp.expire, hc, h]

theorem feed_tie_mono (c : Cfg) (g : Grp) (p : Item × Nat) (ht : (feed c g p).tie = false) :
    g.tie = false := by
  cases hf : g.fin with
  | true => simpa [feed, hf] using ht
  | false => exact (feed_eq c g p hf ht).1

theorem not_tie {c : Cfg} {g : Grp} {p : Item × Nat} (h : g.isTie c p = false) (hc : g.cur ≠ []) :
    p.2 ≠ g.t0 + c.wait := by
  simpa [Grp.isTie, hc] using h

theorem rel_step (c : Cfg) (hstrict : c.strict = true) (s : State) (a : Act) (s' : State)
    (hi : Inv c s) (hR : Rel c s) (hs : Step c s a s') : Rel c s' := by
  cases hs with
  | arrive x => exact hR
  | tick d hd hg =>
    intro ht
    obtain ⟨r1, r2, r3⟩ := hR ht
    refine ⟨?_, r2, ?_⟩
    · intro hpc
      rcases r1 hpc with h | h
      · exact .inl h
      · obtain ⟨b1, b2, b3, b4, b5, b6, b7⟩ := h
        exact .inr ⟨b1, b2, b3, b4, by show (greedy c s.takenAt).t0 + c.wait ≤ s.clock + d; omega, b6, b7⟩
    · intro hpc
      have hpc : s.pc = .flush := hpc
      rcases hg with hg | hg | hg | hg | hg
      · simp [hstrict] at hg
      · simp [hpc] at hg
      · simp [hpc] at hg
      · simp [hpc] at hg
      · simp [hpc] at hg
  | takeIdleEnd hq hpc he =>
    rename_i z rest
    obtain ⟨hc, hf⟩ := hi.idle hpc
    intro ht
    have ht : (feed c (greedy c s.takenAt) (z, s.clock)).tie = false := by rw [← greedy_append]; exact ht
    have htg := feed_tie_mono c _ _ ht
    obtain ⟨r1, _, _⟩ := hR htg
    refine ⟨by intro h; simp at h, ?_, by intro h; simp at h⟩
    intro _
    show Sync _ (greedy c (s.takenAt ++ [(z, s.clock)]))
    rw [greedy_append]
    rcases r1 (.inl hpc) with h | h
    · obtain ⟨a1, a2, a3, a4, a5⟩ := h
      have hgf : (greedy c s.takenAt).fin = false := by rw [a5, hf]
      have hgc : (greedy c s.takenAt).cur = [] := by rw [a3, hc]
      obtain ⟨_, _, hfe⟩ := feed_eq c _ _ hgf ht
      rw [hfe, expire_closed c _ _ hgc]
      simp [Grp.add, he, hgc, Sync, a1, a2, hc]
    · obtain ⟨b1, b2, b3, b4, b5, b6, b7⟩ := h
      obtain ⟨_, hnt, hfe⟩ := feed_eq c _ _ b6 ht
      have hne := not_tie hnt b2
      have hlt : (greedy c s.takenAt).t0 + c.wait < s.clock := by
        have : s.clock ≠ (greedy c s.takenAt).t0 + c.wait := hne
        omega
      rw [hfe, expire_after c _ _ b2 hlt]
      simp [Grp.add, he, Sync, b3, b4, hc]
  | takeIdleItem hq hpc he =>
    rename_i z rest
    obtain ⟨hc, hf⟩ := hi.idle hpc
    intro ht
    have ht : (feed c (greedy c s.takenAt) (z, s.clock)).tie = false := by rw [← greedy_append]; exact ht
    have htg := feed_tie_mono c _ _ ht
    obtain ⟨r1, _, _⟩ := hR htg
    -- the grouping after closing an expired batch, if any: no open batch, in step with the model
    have key : ∃ g1 : Grp, feed c (greedy c s.takenAt) (z, s.clock) = g1.add c (z, s.clock) ∧
        g1.out = s.out ∧ g1.outAt = s.outAt ∧ g1.cur = [] ∧ g1.fin = false := by
      rcases r1 (.inl hpc) with h | h
      · obtain ⟨a1, a2, a3, a4, a5⟩ := h
        have hgf : (greedy c s.takenAt).fin = false := by rw [a5, hf]
        have hgc : (greedy c s.takenAt).cur = [] := by rw [a3, hc]
        obtain ⟨_, _, hfe⟩ := feed_eq c _ _ hgf ht
        exact ⟨_, by rw [hfe, expire_closed c _ _ hgc], a1, a2, hgc, hgf⟩
      · obtain ⟨b1, b2, b3, b4, b5, b6, b7⟩ := h
        obtain ⟨_, hnt, hfe⟩ := feed_eq c _ _ b6 ht
        have hne := not_tie hnt b2
        have hlt : (greedy c s.takenAt).t0 + c.wait < s.clock := by
          have : s.clock ≠ (greedy c s.takenAt).t0 + c.wait := hne
          omega
        exact ⟨{ greedy c s.takenAt with
                  out := (greedy c s.takenAt).out ++ [(greedy c s.takenAt).cur],
                  outAt := (greedy c s.takenAt).outAt ++ [(greedy c s.takenAt).t0 + c.wait], cur := [] },
               by rw [hfe, expire_after c _ _ b2 hlt], b3.symm, b4.symm, rfl, b6⟩
    obtain ⟨g1, hfe, k1, k2, k3, k4⟩ := key
    have hgr : greedy c (s.takenAt ++ [(z, s.clock)]) = g1.add c (z, s.clock) := by rw [greedy_append, hfe]
    by_cases hb : 1 < c.bs
    · refine ⟨by intro h; simp [hb] at h, ?_, by intro h; simp [hb] at h⟩
      intro _
      show Sync _ (greedy c (s.takenAt ++ [(z, s.clock)]))
      rw [hgr]
      simp [Grp.add, he, k3, hb, Sync, k1, k2, k4, hf]
    · refine ⟨by intro h; simp [hb] at h, by intro h; simp [hb] at h, ?_⟩
      intro _
      right
      show Ahead _ (greedy c (s.takenAt ++ [(z, s.clock)]))
      rw [hgr]
      simp [Grp.add, he, k3, hb, Ahead, k1, k2, k4, hf]
  | takeCollEnd hq hpc he =>
    rename_i z rest
    obtain ⟨hc1, hc2, hf, hc3, hc4⟩ := hi.coll hpc
    have hcne : s.cur ≠ [] := by intro h; simp [h] at hc1
    intro ht
    have ht : (feed c (greedy c s.takenAt) (z, s.clock)).tie = false := by rw [← greedy_append]; exact ht
    have htg := feed_tie_mono c _ _ ht
    obtain ⟨_, r2, _⟩ := hR htg
    obtain ⟨a1, a2, a3, a4, a5⟩ := r2 (.inl hpc)
    have hgf : (greedy c s.takenAt).fin = false := by rw [a5, hf]
    have hgc : (greedy c s.takenAt).cur ≠ [] := by rw [a3]; exact hcne
    obtain ⟨_, _, hfe⟩ := feed_eq c _ _ hgf ht
    have hle : s.clock ≤ (greedy c s.takenAt).t0 + c.wait := by rw [a4 hcne]; exact hc4 hstrict
    refine ⟨by intro h; simp at h, by intro h; simp at h, ?_⟩
    intro _
    right
    show Ahead _ (greedy c (s.takenAt ++ [(z, s.clock)]))
    rw [greedy_append, hfe, expire_within c _ _ hle]
    simp [Grp.add, he, hcne, Ahead, a1, a2, a3]
  | takeCollItem hq hpc he =>
    rename_i z rest
    obtain ⟨hc1, hc2, hf, hc3, hc4⟩ := hi.coll hpc
    have hcne : s.cur ≠ [] := by intro h; simp [h] at hc1
    intro ht
    have ht : (feed c (greedy c s.takenAt) (z, s.clock)).tie = false := by rw [← greedy_append]; exact ht
    have htg := feed_tie_mono c _ _ ht
    obtain ⟨_, r2, _⟩ := hR htg
    obtain ⟨a1, a2, a3, a4, a5⟩ := r2 (.inl hpc)
    have hgf : (greedy c s.takenAt).fin = false := by rw [a5, hf]
    have hgc : (greedy c s.takenAt).cur ≠ [] := by rw [a3]; exact hcne
    obtain ⟨_, _, hfe⟩ := feed_eq c _ _ hgf ht
    have hle : s.clock ≤ (greedy c s.takenAt).t0 + c.wait := by rw [a4 hcne]; exact hc4 hstrict
    have hgr : greedy c (s.takenAt ++ [(z, s.clock)]) = (greedy c s.takenAt).add c (z, s.clock) := by
      rw [greedy_append, hfe, expire_within c _ _ hle]
    by_cases hb : s.cur.length + 1 < c.bs
    · refine ⟨by intro h; simp [hb] at h, ?_, by intro h; simp [hb] at h⟩
      intro _
      show Sync _ (greedy c (s.takenAt ++ [(z, s.clock)]))
      rw [hgr]
      simp [Grp.add, he, a3, hb, hcne, Sync, a1, a2, a4 hcne, a5]
    · refine ⟨by intro h; simp [hb] at h, by intro h; simp [hb] at h, ?_⟩
      intro _
      right
      show Ahead _ (greedy c (s.takenAt ++ [(z, s.clock)]))
      rw [hgr]
      simp [Grp.add, he, a3, hb, Ahead, a1, a2, a5]
  | timeout hpc hq ht =>
    obtain ⟨hc1, hc2, hf, hc3, hc4⟩ := hi.coll hpc
    intro htie
    obtain ⟨_, r2, _⟩ := hR htie
    refine ⟨by intro h; simp at h, by intro h; simp at h, ?_⟩
    intro _
    exact .inl ⟨r2 (.inl hpc), hf, hc2⟩
  | emit hpc =>
    obtain ⟨h1, h2, h3⟩ := hi.flush hpc
    have hcne : s.cur ≠ [] := by intro h; simp [h] at h1
    intro htie
    obtain ⟨_, _, r3⟩ := hR htie
    refine ⟨?_, by intro h; simp at h, by intro h; simp at h⟩
    intro _
    rcases r3 hpc with ⟨⟨a1, a2, a3, a4, a5⟩, hf, hshort⟩ | ⟨b1, b2, b3, b4⟩
    · right
      obtain ⟨k1, k2, _⟩ := h3 hf hshort
      have hclk : s.clock = s.t0 + c.wait := k2 hstrict
      refine ⟨rfl, by rw [a3]; exact hcne, ?_, ?_, ?_, by rw [a5, hf], hf⟩
      · show s.out ++ [s.cur] = _; rw [a1, a3]
      · show s.outAt ++ [s.clock] = _; rw [a2, a4 hcne, hclk]
      · show (greedy c s.takenAt).t0 + c.wait ≤ s.clock; rw [a4 hcne]; omega
    · left
      exact ⟨b1, b2, b3, by intro h; exact absurd rfl h, b4⟩
  | resume hpc =>
    have hcur := hi.held hpc
    intro htie
    obtain ⟨r1, _, _⟩ := hR htie
    by_cases hf : s.fin = true
    · refine ⟨by intro h; simp [hf] at h, ?_, by intro h; simp [hf] at h⟩
      intro _
      rcases r1 (.inr hpc) with h | h
      · exact h
      · exact absurd h.2.2.2.2.2.2 (by simp [hf])
    · refine ⟨?_, by intro h; simp [hf] at h, by intro h; simp [hf] at h⟩
      intro _
      exact r1 (.inr hpc)
  | stop hpc =>
    intro htie
    obtain ⟨_, r2, _⟩ := hR htie
    refine ⟨by intro h; simp at h, ?_, by intro h; simp at h⟩
    intro _
    exact r2 (.inr (.inl hpc))

/-- the simulation relation holds in every reachable state under zero processing time -/
theorem rel_reachable (c : Cfg) (hbs : 1 ≤ c.bs) (hstrict : c.strict = true) {s : State}
    (hr : Reachable c s) : Rel c s :=
  (reachable_inv c (Inv := fun s => Inv c s ∧ Rel c s) ⟨inv_init c, rel_init c⟩
    (fun s a s' hi hs => ⟨inv_step c hbs s a s' hi.1 hs, rel_step c hstrict s a s' hi.1 hi.2 hs⟩) hr).2

/-- `takenAt` is `taken` with stamps, and the stamps are clock values of the past, in order -/
theorem takenAt_reachable (c : Cfg) {s : State} (hr : Reachable c s) :
    s.takenAt.map (·.1) = s.taken ∧ (∀ p ∈ s.takenAt, p.2 ≤ s.clock) ∧
    (s.takenAt.map (·.2)).Pairwise (· ≤ ·) := by
  refine reachable_inv c (Inv := fun s => s.takenAt.map (·.1) = s.taken ∧ (∀ p ∈ s.takenAt, p.2 ≤ s.clock) ∧
    (s.takenAt.map (·.2)).Pairwise (· ≤ ·)) (by simp [init]) ?_ hr
  intro s a s' ⟨h1, h2, h3⟩ hs
  have happ : ∀ z : Item, (s.takenAt ++ [(z, s.clock)]).map (·.1) = s.taken ++ [z] ∧
      (∀ p ∈ s.takenAt ++ [(z, s.clock)], p.2 ≤ s.clock) ∧
      ((s.takenAt ++ [(z, s.clock)]).map (·.2)).Pairwise (· ≤ ·) := by
    intro z
    refine ⟨by simp [h1], ?_, ?_⟩
    · intro p hp
      rcases List.mem_append.mp hp with hp | hp
      · exact h2 p hp
      · simp at hp; subst hp; simp
    · simp only [List.map_append, List.map_cons, List.map_nil]
      rw [List.pairwise_append]
      refine ⟨h3, by simp, ?_⟩
      intro a ha b hb
      simp only [List.mem_singleton] at hb; subst hb
      simp only [List.mem_map] at ha
      obtain ⟨p, hp, rfl⟩ := ha
      exact h2 p hp
  cases hs with
  | arrive x => exact ⟨h1, h2, h3⟩
  | tick d hd hg => exact ⟨h1, fun p hp => by have := h2 p hp; show p.2 ≤ s.clock + d; omega, h3⟩
  | takeIdleEnd => exact happ _
  | takeIdleItem => exact happ _
  | takeCollEnd => exact happ _
  | takeCollItem => exact happ _
  | timeout => exact ⟨h1, h2, h3⟩
  | emit => exact ⟨h1, h2, h3⟩
  | resume => exact ⟨h1, h2, h3⟩
  | stop => exact ⟨h1, h2, h3⟩

end Eager
