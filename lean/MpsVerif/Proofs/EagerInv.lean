import MpsVerif.Proofs.EagerStep
/-! The inductive invariant of the `EagerBatcher` model. -/
namespace Eager

structure Inv (c : Cfg) (s : State) : Prop where
  /-- everything that arrived was taken or is still queued, in order -/
  arr : s.arrived.map (·.1) = s.taken ++ s.q
  /-- everything taken is in an emitted batch, in the current batch, or is the end marker -/
  tak : s.taken = s.out.flatten ++ s.cur ++ (if s.fin = true then [c.endm] else [])
  noEnd : ∀ x ∈ s.out.flatten ++ s.cur, c.isEnd x = false
  sizes : ∀ b ∈ s.out, 1 ≤ b.length ∧ b.length ≤ c.bs
  stamps : ∀ p ∈ s.arrived, p.2 ≤ s.clock
  sorted : (s.arrived.map (·.2)).Pairwise (· ≤ ·)
  idle : s.pc = .idle → s.cur = [] ∧ s.fin = false
  coll : s.pc = .coll → 1 ≤ s.cur.length ∧ s.cur.length < c.bs ∧ s.fin = false ∧
            s.t0 ≤ s.clock ∧ (c.strict = true → s.clock ≤ s.t0 + c.wait)
  flush : s.pc = .flush → 1 ≤ s.cur.length ∧ s.cur.length ≤ c.bs ∧
            (s.fin = false → s.cur.length < c.bs →
              s.t0 + c.wait ≤ s.clock ∧ (c.strict = true → s.clock = s.t0 + c.wait) ∧
              arrivedBefore s (s.t0 + c.wait) ≤ s.taken.length)
  held : s.pc = .held → s.cur = []
  closing : s.pc = .closing → s.cur = [] ∧ s.fin = true
  done : s.pc = .done → s.cur = [] ∧ s.fin = true
  /-- zero processing time: items the batcher holds have been held for at most `wait` -/
  told : c.strict = true → s.cur ≠ [] → s.clock ≤ s.t0 + c.wait

theorem inv_init (c : Cfg) : Inv c init := by
  constructor <;> simp [init]

theorem isEnd_eq {c : Cfg} {z : Item} (h : c.isEnd z = true) : z = c.endm := by
  simpa [Cfg.isEnd] using h

/-- closes the `pc = … → …` fields whose premise is impossible for the new `pc` -/
macro "pc_vac" : tactic =>
  `(tactic| all_goals try (intro hpc1; simp at hpc1; done))

theorem inv_step (c : Cfg) (hbs : 1 ≤ c.bs) (s : State) (a : Act) (s' : State)
    (hi : Inv c s) (hs : Step c s a s') : Inv c s' := by
  obtain ⟨harr, htak, hnoEnd, hsizes, hstamps, hsorted, hidle, hcoll, hflush, hheld, hclosing, hdone, htold⟩ := hi
  cases hs with
  | arrive x =>
    constructor <;> try assumption
    case arr => simp [harr]
    case stamps =>
      intro p hp
      simp only [List.mem_append, List.mem_singleton] at hp
      rcases hp with hp | hp
      · exact hstamps p hp
      · subst hp; simp
    case sorted =>
      simp only [List.map_append, List.map_cons, List.map_nil]
      rw [List.pairwise_append]
      refine ⟨hsorted, by simp, ?_⟩
      intro a ha b hb
      simp only [List.mem_singleton] at hb; subst hb
      simp only [List.mem_map] at ha
      obtain ⟨p, hp, rfl⟩ := ha
      exact hstamps p hp
    case flush =>
      intro hpc
      obtain ⟨h1, h2, h3⟩ := hflush hpc
      refine ⟨h1, h2, ?_⟩
      intro hf hl
      obtain ⟨h4, h4', h5⟩ := h3 hf hl
      refine ⟨h4, h4', ?_⟩
      simp only [arrivedBefore, List.filter_append] at h5 ⊢
      have : ¬ s.clock < s.t0 + c.wait := by omega
      simpa [this] using h5
  | tick d hd hg =>
    constructor <;> try assumption
    case stamps => intro p hp; have := hstamps p hp; show p.2 ≤ s.clock + d; omega
    case coll =>
      intro hpc
      have hpc : s.pc = .coll := hpc
      obtain ⟨h1, h2, h3, h4, h5⟩ := hcoll hpc
      refine ⟨h1, h2, h3, ?_, ?_⟩
      · show s.t0 ≤ s.clock + d; omega
      · intro hstrict
        show s.clock + d ≤ s.t0 + c.wait
        rcases hg with hg | hg | hg | hg | hg
        · simp [hstrict] at hg
        · simp [hpc] at hg
        · exact hg.2.2
        · simp [hpc] at hg
        · simp [hpc] at hg
    case flush =>
      intro hpc
      have hpc : s.pc = .flush := hpc
      obtain ⟨h1, h2, h3⟩ := hflush hpc
      refine ⟨h1, h2, ?_⟩
      intro hf hl
      obtain ⟨h4, h4', h5⟩ := h3 hf hl
      refine ⟨by show s.t0 + c.wait ≤ s.clock + d; omega, ?_, h5⟩
      intro hstrict
      rcases hg with hg | hg | hg | hg | hg
      · simp [hstrict] at hg
      · simp [hpc] at hg
      · simp [hpc] at hg
      · simp [hpc] at hg
      · simp [hpc] at hg
    case told =>
      intro hstrict hcur
      have hcur : s.cur ≠ [] := hcur
      show s.clock + d ≤ s.t0 + c.wait
      rcases hg with hg | hg | hg | hg | hg
      · simp [hstrict] at hg
      · exact absurd (hidle hg.1).1 hcur
      · exact hg.2.2
      · exact absurd (hheld hg) hcur
      · exact absurd (hdone hg).1 hcur
  | takeIdleEnd hq hpc he =>
    have hz := isEnd_eq he
    obtain ⟨hc, hf⟩ := hidle hpc
    constructor <;> try assumption
    pc_vac
    case arr => simp [harr, hq]
    case tak => simp [htak, hf, hz]
    case closing => intro _; exact ⟨hc, rfl⟩
  | takeIdleItem hq hpc he =>
    obtain ⟨hc, hf⟩ := hidle hpc
    constructor <;> try assumption
    case told => intro _ _; show s.clock ≤ s.clock + c.wait; omega
    case arr => simp [harr, hq]
    case tak => simp [htak, hf, hc]
    case noEnd =>
      intro x hx
      simp only [List.mem_append, List.mem_singleton] at hx
      rcases hx with hx | hx
      · exact hnoEnd x (by simp [hx])
      · subst hx; exact he
    case idle => intro h; simp only at h; split at h <;> simp at h
    case held => intro h; simp only at h; split at h <;> simp at h
    case closing => intro h; simp only at h; split at h <;> simp at h
    case done => intro h; simp only at h; split at h <;> simp at h
    case coll =>
      intro h; simp only at h
      split at h
      · rename_i hb; simp; exact ⟨hb, hf⟩
      · simp at h
    case flush =>
      intro h; simp only at h
      split at h
      · simp at h
      · rename_i hb
        refine ⟨by simp, by simp; omega, ?_⟩
        intro _ hl; simp at hl; omega
  | takeCollEnd hq hpc he =>
    have hz := isEnd_eq he
    obtain ⟨hc1, hc2, hf, hc3, hc4⟩ := hcoll hpc
    constructor <;> try assumption
    pc_vac
    case arr => simp [harr, hq]
    case tak => simp [htak, hf, hz]
    case flush => intro _; exact ⟨hc1, by show s.cur.length ≤ c.bs; omega, by intro h; simp at h⟩
  | takeCollItem hq hpc he =>
    obtain ⟨hc1, hc2, hf, hc3, hc4⟩ := hcoll hpc
    constructor <;> try assumption
    case told => intro hstrict _; exact hc4 hstrict
    case arr => simp [harr, hq]
    case tak => simp [htak, hf]
    case noEnd =>
      intro x hx
      simp only [List.mem_append, List.mem_singleton] at hx
      rcases hx with hx | hx | hx
      · exact hnoEnd x (by simp [hx])
      · exact hnoEnd x (by simp [hx])
      · subst hx; exact he
    case idle => intro h; simp only at h; split at h <;> simp at h
    case held => intro h; simp only at h; split at h <;> simp at h
    case closing => intro h; simp only at h; split at h <;> simp at h
    case done => intro h; simp only at h; split at h <;> simp at h
    case coll =>
      intro h; simp only at h
      split at h
      · rename_i hb; simp; exact ⟨hb, hf, hc3, hc4⟩
      · simp at h
    case flush =>
      intro h; simp only at h
      split at h
      · simp at h
      · rename_i hb
        refine ⟨by simp, by simp; omega, ?_⟩
        intro _ hl; simp at hl; omega
  | timeout hpc hq ht =>
    obtain ⟨hc1, hc2, hf, hc3, hc4⟩ := hcoll hpc
    constructor <;> try assumption
    pc_vac
    case flush =>
      intro _
      refine ⟨hc1, by show s.cur.length ≤ c.bs; omega, ?_⟩
      intro _ _
      refine ⟨ht, by intro hstrict; have := hc4 hstrict; show s.clock = s.t0 + c.wait; omega, ?_⟩
      show (s.arrived.filter (fun p : Item × Nat => decide (p.2 < s.t0 + c.wait))).length ≤ s.taken.length
      have h1 : s.arrived.length = s.taken.length := by
        have := congrArg List.length harr
        simpa [hq] using this
      have h2 := List.length_filter_le (fun p : Item × Nat => decide (p.2 < s.t0 + c.wait)) s.arrived
      omega
  | emit hpc =>
    obtain ⟨h1, h2, h3⟩ := hflush hpc
    constructor <;> try assumption
    case told => intro _ hcur; exact absurd rfl hcur
    pc_vac
    case tak => simp [htak]
    case noEnd => simpa using hnoEnd
    case sizes =>
      intro b hb
      simp only [List.mem_append, List.mem_singleton] at hb
      rcases hb with hb | hb
      · exact hsizes b hb
      · subst hb; exact ⟨h1, h2⟩
    case held => intro _; rfl
  | resume hpc =>
    have hcur := hheld hpc
    constructor <;> try assumption
    case idle =>
      intro h; simp only at h
      split at h
      · simp at h
      · rename_i hb; exact ⟨hcur, by simpa using hb⟩
    case coll => intro h; simp only at h; split at h <;> simp at h
    case flush => intro h; simp only at h; split at h <;> simp at h
    case held => intro h; simp only at h; split at h <;> simp at h
    case done => intro h; simp only at h; split at h <;> simp at h
    case closing =>
      intro h; simp only at h
      split at h
      · rename_i hb; exact ⟨hcur, hb⟩
      · simp at h
  | stop hpc =>
    obtain ⟨hc, hf⟩ := hclosing hpc
    constructor <;> try assumption
    pc_vac
    case done => intro _; exact ⟨hc, hf⟩

/-- the invariant holds in every reachable state (for `batch_size ≥ 1`) -/
theorem all_reachable (c : Cfg) (hbs : 1 ≤ c.bs) {s : State} (hr : Reachable c s) : Inv c s :=
  reachable_inv c (inv_init c) (fun s a s' hi hs => inv_step c hbs s a s' hi hs) hr

end Eager
