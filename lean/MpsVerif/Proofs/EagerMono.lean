import MpsVerif.Proofs.EagerInv
/-! Monotonicity facts of the `EagerBatcher` model: the clock never goes back, `arrived` only grows at
    its end, and whatever arrives later is stamped with a clock value ≥ the present one. -/
namespace Eager

theorem step_mono (c : Cfg) (s s' : State) (a : Act) (h : Step c s a s') :
    s.clock ≤ s'.clock ∧ ∃ ext, s'.arrived = s.arrived ++ ext ∧ ∀ p ∈ ext, s.clock ≤ p.2 := by
  cases h with
  | arrive x => exact ⟨Nat.le_refl _, [(x, s.clock)], rfl, by simp⟩
  | tick d hd hg => exact ⟨by show s.clock ≤ s.clock + d; omega, [], by simp, by simp⟩
  | takeIdleEnd => exact ⟨Nat.le_refl _, [], by simp, by simp⟩
  | takeIdleItem => exact ⟨Nat.le_refl _, [], by simp, by simp⟩
  | takeCollEnd => exact ⟨Nat.le_refl _, [], by simp, by simp⟩
  | takeCollItem => exact ⟨Nat.le_refl _, [], by simp, by simp⟩
  | timeout => exact ⟨Nat.le_refl _, [], by simp, by simp⟩
  | emit => exact ⟨Nat.le_refl _, [], by simp, by simp⟩
  | resume => exact ⟨Nat.le_refl _, [], by simp, by simp⟩
  | stop => exact ⟨Nat.le_refl _, [], by simp, by simp⟩

theorem run_mono (c : Cfg) : ∀ (as : List Act) (s s2 : State), Core.run (step c) s as = some s2 →
    s.clock ≤ s2.clock ∧ ∃ ext, s2.arrived = s.arrived ++ ext ∧ ∀ p ∈ ext, s.clock ≤ p.2 := by
  intro as
  induction as with
  | nil => intro s s2 h; simp at h; subst h; exact ⟨Nat.le_refl _, [], by simp, by simp⟩
  | cons a as ih =>
    intro s s2 h
    rw [Core.run_cons] at h
    cases hst : step c s a with
    | none => simp [hst] at h
    | some s1 =>
      simp [hst] at h
      obtain ⟨h1, e1, he1, hp1⟩ := step_mono c s s1 a (step_sound c s s1 a hst)
      obtain ⟨h2, e2, he2, hp2⟩ := ih s1 s2 h
      refine ⟨by omega, e1 ++ e2, by rw [he2, he1, List.append_assoc], ?_⟩
      intro p hp
      rcases List.mem_append.mp hp with hp | hp
      · exact hp1 p hp
      · have := hp2 p hp; omega

/-- arrivals stamped before `t ≤ now` are all in the past: no continuation adds one -/
theorem arrivedBefore_stable (c : Cfg) (as : List Act) (s s2 : State) (t : Nat)
    (h : Core.run (step c) s as = some s2) (ht : t ≤ s.clock) :
    arrivedBefore s2 t = arrivedBefore s t := by
  obtain ⟨_, ext, he, hp⟩ := run_mono c as s s2 h
  simp only [arrivedBefore, he, List.filter_append, List.length_append]
  have : ext.filter (fun p => decide (p.2 < t)) = [] := by
    rw [List.filter_eq_nil_iff]
    intro p hp1
    have := hp p hp1
    simp; omega
  simp [this]

end Eager
