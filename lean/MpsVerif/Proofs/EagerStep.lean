import MpsVerif.Model.EagerBatcher
import MpsVerif.Core.Sys
/-! Relational presentation of `Eager.step` (one constructor per enabled case) and its soundness.
    Invariant proofs do `cases` on `Step`; the property theorems are stated over `step`/`run`. -/
namespace Eager

inductive Step (c : Cfg) : State → Act → State → Prop where
  | arrive {s} (x : Item) :
      Step c s (.arrive x) { s with q := s.q ++ [x], arrived := s.arrived ++ [(x, s.clock)] }
  | tick {s} (d : Nat) : 0 < d →
      (c.strict = false ∨ (s.pc = .idle ∧ s.q = []) ∨ (s.pc = .coll ∧ s.q = [] ∧ s.clock + d ≤ s.t0 + c.wait)
        ∨ s.pc = .held ∨ s.pc = .done) →
      Step c s (.tick d) { s with clock := s.clock + d }
  | takeIdleEnd {s z rest} : s.q = z :: rest → s.pc = .idle → c.isEnd z = true →
      Step c s .take { s with q := rest, taken := s.taken ++ [z], takenAt := s.takenAt ++ [(z, s.clock)], pc := .closing, fin := true }
  | takeIdleItem {s z rest} : s.q = z :: rest → s.pc = .idle → c.isEnd z = false →
      Step c s .take { s with q := rest, taken := s.taken ++ [z], takenAt := s.takenAt ++ [(z, s.clock)], cur := [z], t0 := s.clock,
                              pc := if 1 < c.bs then .coll else .flush }
  | takeCollEnd {s z rest} : s.q = z :: rest → s.pc = .coll → c.isEnd z = true →
      Step c s .take { s with q := rest, taken := s.taken ++ [z], takenAt := s.takenAt ++ [(z, s.clock)], pc := .flush, fin := true }
  | takeCollItem {s z rest} : s.q = z :: rest → s.pc = .coll → c.isEnd z = false →
      Step c s .take { s with q := rest, taken := s.taken ++ [z], takenAt := s.takenAt ++ [(z, s.clock)], cur := s.cur ++ [z],
                              pc := if s.cur.length + 1 < c.bs then .coll else .flush }
  | timeout {s} : s.pc = .coll → s.q = [] → s.t0 + c.wait ≤ s.clock →
      Step c s .timeout { s with pc := .flush }
  | emit {s} : s.pc = .flush →
      Step c s .emit { s with pc := .held, out := s.out ++ [s.cur], outAt := s.outAt ++ [s.clock], cur := [] }
  | resume {s} : s.pc = .held →
      Step c s .resume { s with pc := if s.fin = true then .closing else .idle }
  | stop {s} : s.pc = .closing → Step c s .stop { s with pc := .done }

theorem step_sound (c : Cfg) (s s' : State) (a : Act) (h : step c s a = some s') : Step c s a s' := by
  cases a <;> simp only [step] at h
  case arrive x => simp at h; subst h; exact .arrive x
  case tick d => split at h <;> simp at h; subst h; rename_i hc; exact .tick d hc.1 hc.2
  case take =>
    split at h
    · simp at h
    · rename_i z rest hq
      split at h
      · rename_i hpc
        split at h
        · rename_i he; simp at h; subst h; exact .takeIdleEnd hq hpc he
        · rename_i he; simp at h; subst h; exact .takeIdleItem hq hpc (by simpa using he)
      · split at h
        · rename_i hpc
          split at h
          · rename_i he; simp at h; subst h; exact .takeCollEnd hq hpc he
          · rename_i he; simp at h; subst h; exact .takeCollItem hq hpc (by simpa using he)
        · simp at h
  case timeout => split at h <;> simp at h; subst h; rename_i hc; exact .timeout hc.1 hc.2.1 hc.2.2
  case emit => split at h <;> simp at h; subst h; rename_i hc; exact .emit hc
  case resume => split at h <;> simp at h; subst h; rename_i hc; exact .resume hc
  case stop => split at h <;> simp at h; subst h; rename_i hc; exact .stop hc

/-- reachable states of the model for configuration `c` -/
def Reachable (c : Cfg) (s : State) : Prop := Core.Reach (step c) init s

/-- lift a `Step`-inductive invariant to all reachable states -/
theorem reachable_inv (c : Cfg) {Inv : State → Prop} (h0 : Inv init)
    (hstep : ∀ s a s', Inv s → Step c s a s' → Inv s') {s : State} (hr : Reachable c s) : Inv s :=
  Core.invariant_reach (fun s a s' hi hs => hstep s a s' hi (step_sound c s s' a hs)) h0 hr

end Eager
