import MpsVerif.Proofs.EagerStep
/-! The batcher never spins: a potential argument bounding the number of its steps by the number of
    arrivals (no invariant needed — the bookkeeping follows the `pc` transitions alone). -/
namespace Eager

/-- steps of the batcher and the consumer (everything that is not an arrival or passing time) -/
def isWork : Act → Bool
  | .arrive _ => false
  | .tick _ => false
  | _ => true

def work (as : List Act) : Nat := (as.filter isWork).length

def isArrive : Act → Bool
  | .arrive _ => true
  | _ => false

def arrivals (as : List Act) : Nat := (as.filter isArrive).length

/-- steps still owed: 4 per queued entry (take, expiry, yield, resume) plus what the current `pc` owes -/
def pot (s : State) : Nat :=
  4 * s.q.length +
  (match s.pc with
   | .idle => (if s.fin = true then 1 else 0)
   | .coll => 3 + (if s.fin = true then 1 else 0)
   | .flush => 2 + (if s.fin = true then 1 else 0)
   | .held => 1 + (if s.fin = true then 1 else 0)
   | .closing => 1
   | .done => 0)

theorem step_pot (c : Cfg) (s s' : State) (a : Act) (h : Step c s a s') :
    (if isWork a then 1 else 0) + pot s' ≤ (if isArrive a then 4 else 0) + pot s := by
  cases h with
  | arrive x => simp [isWork, isArrive, pot]; omega
  | tick d hd hg => simp [isWork, isArrive, pot]
  | takeIdleEnd hq hpc he => simp [isWork, isArrive, pot, hq, hpc]; omega
  | takeIdleItem hq hpc he =>
    by_cases hb : 1 < c.bs <;> cases hf : s.fin <;> simp [isWork, isArrive, pot, hq, hpc, hb, hf] <;> omega
  | takeCollEnd hq hpc he => cases hf : s.fin <;> simp [isWork, isArrive, pot, hq, hpc, hf] <;> omega
  | takeCollItem hq hpc he =>
    by_cases hb : s.cur.length + 1 < c.bs <;> cases hf : s.fin <;>
      simp [isWork, isArrive, pot, hq, hpc, hb, hf] <;> omega
  | timeout hpc hq ht => simp [isWork, isArrive, pot, hpc]; omega
  | emit hpc => simp [isWork, isArrive, pot, hpc]; omega
  | resume hpc => cases hf : s.fin <;> simp [isWork, isArrive, pot, hpc, hf] <;> omega
  | stop hpc => simp [isWork, isArrive, pot, hpc]; omega

theorem run_pot (c : Cfg) : ∀ (as : List Act) (s s' : State), Core.run (step c) s as = some s' →
    work as + pot s' ≤ 4 * arrivals as + pot s := by
  intro as
  induction as with
  | nil => intro s s' h; simp at h; subst h; simp [work, arrivals]
  | cons a as ih =>
    intro s s' h
    rw [Core.run_cons] at h
    cases hst : step c s a with
    | none => simp [hst] at h
    | some s1 =>
      simp [hst] at h
      have h1 := step_pot c s s1 a (step_sound c s s1 a hst)
      have h2 := ih s1 s' h
      simp only [work, arrivals, List.filter_cons] at h2 ⊢
      cases hw : isWork a <;> cases ha : isArrive a <;> simp [hw, ha] at h1 ⊢ <;> omega

end Eager
