import MpsVerif.Proofs.FifoStep
/-! Invariants of the `fifo_stream` model. -/
namespace Fifo

def fIdx : FPc → List Nat
  | .check i => [i] | .sub i => [i] | .hold i => [i] | _ => []
def cIdx : CPc → List Nat
  | .wait i => [i] | _ => []
def qidx : List QItem → List Nat
  | [] => []
  | .item i :: r => i :: qidx r
  | _ :: r => qidx r
def marks : List QItem → Nat
  | [] => 0
  | .item _ :: r => marks r
  | _ :: r => marks r + 1

/-- the consumer is still iterating (has neither raised nor closed nor seen the end) -/
def CPc.active : CPc → Bool
  | .idle | .wait _ | .susp => true
  | _ => false

/-- what has been handed to the consumer: outputs, plus the element whose exception was raised -/
def rz : Option Raised → Nat
  | some (.item _) => 1 | _ => 0
def handed (s : State) : Nat := s.out.length + rz s.raised
@[simp] theorem rz_none : rz none = 0 := rfl
@[simp] theorem rz_src : rz (some .src) = 0 := rfl
@[simp] theorem rz_item (i : Nat) : rz (some (.item i)) = 1 := rfl

def fHold : FPc → Nat
  | .check _ => 1 | .sub _ => 1 | .hold _ => 1 | _ => 0
def cHold : CPc → Nat
  | .wait _ => 1 | _ => 0
@[simp] theorem fHold_idle : fHold .idle = 0 := rfl
@[simp] theorem fHold_check (i : Nat) : fHold (.check i) = 1 := rfl
@[simp] theorem fHold_sub (i : Nat) : fHold (.sub i) = 1 := rfl
@[simp] theorem fHold_hold (i : Nat) : fHold (.hold i) = 1 := rfl
@[simp] theorem fHold_putEnd : fHold .putEnd = 0 := rfl
@[simp] theorem fHold_putExc : fHold .putExc = 0 := rfl
@[simp] theorem fHold_done : fHold .done = 0 := rfl
theorem fHold_le (f : FPc) : fHold f ≤ 1 := by cases f <;> simp [fHold]
theorem cHold_le (f : CPc) : cHold f ≤ 1 := by cases f <;> simp [cHold]

@[simp] theorem qidx_append (q r : List QItem) : qidx (q ++ r) = qidx q ++ qidx r := by
  induction q with
  | nil => simp [qidx]
  | cons a q ih => cases a <;> simp [qidx, ih]

@[simp] theorem marks_append (q r : List QItem) : marks (q ++ r) = marks q + marks r := by
  induction q with
  | nil => simp [marks]
  | cons a q ih => cases a <;> simp [marks, ih] <;> omega

theorem qidx_length_le (q : List QItem) : (qidx q).length ≤ q.length := by
  induction q with
  | nil => simp [qidx]
  | cons a q ih => cases a <;> simp [qidx] <;> omega

theorem qidx_marks_length (q : List QItem) : (qidx q).length + marks q = q.length := by
  induction q with
  | nil => simp [qidx, marks]
  | cons a q ih => cases a <;> simp [qidx, marks] <;> omega

/-! ## Phase structure -/

/-- `toStop` is set only after the consumer has left the iteration; a consumer that has left with
    the flag still clear has seen the end mark, so the feeder is done. -/
def PhaseInv (s : State) : Prop :=
  (s.toStop = true → s.cpc = .drain ∨ s.cpc = .join ∨ s.cpc = .closed) ∧
  ((s.cpc = .drain ∨ s.cpc = .join ∨ s.cpc = .closed) → s.toStop = false → s.fpc = .done) ∧
  (s.cpc.active = true → s.raised = none) ∧
  (s.cpc = .closed → s.fpc = .done) ∧
  (s.fpc ≠ .done → marks s.queue = 0) ∧
  (s.cpc.active = true → s.fpc = .done → marks s.queue = 1)

theorem phase_init : PhaseInv init := by simp [PhaseInv, init, CPc.active, marks]

theorem phase_step (c : Cfg) (s : State) (a : Act) (s' : State) (h : PhaseInv s) (hs : Step c s a s') :
    PhaseInv s' := by
  obtain ⟨h1, h2, h3, h4, h5, h6⟩ := h
  cases hs <;> simp_all [PhaseInv, CPc.active, marks]

/-! ## Order: what sits between source and consumer is the contiguous index range, in order -/

def OrderInv (s : State) : Prop :=
  s.cpc.active = true →
    cIdx s.cpc ++ qidx s.queue ++ fIdx s.fpc = List.range' s.out.length (s.pulled - s.out.length)
    ∧ s.out.length ≤ s.pulled

theorem range'_snoc (a n : Nat) : List.range' a (n+1) = List.range' a n ++ [a+n] := by
  simpa using List.range'_concat (s := a) (n := n) (step := 1)

theorem order_init : OrderInv init := by simp [OrderInv, init, cIdx, qidx, fIdx]

theorem order_step (c : Cfg) (s : State) (a : Act) (s' : State) (hph : PhaseInv s) (h : OrderInv s)
    (hs : Step c s a s') :
    OrderInv s' := by
  unfold OrderInv at h ⊢
  cases hs with
  | pull hf hn =>
    intro hact
    obtain ⟨h1, h2⟩ := h hact
    simp only [hf, fIdx, List.append_nil] at h1 ⊢
    refine ⟨?_, by omega⟩
    have : s.pulled + 1 - s.out.length = (s.pulled - s.out.length) + 1 := by omega
    rw [this, range'_snoc, ← h1]
    simp; omega
  | srcEnd hf hn hc => intro hact; simpa [hf, fIdx] using h hact
  | srcRaise hf hn hc => intro hact; simpa [hf, fIdx] using h hact
  | fcheck hf ht => intro hact; simpa [hf, fIdx] using h hact
  | stopSeen hf ht =>
    intro hact
    rcases hph.1 ht with h' | h' | h' <;> simp [h', CPc.active] at hact
  | submit hf hp => intro hact; simpa [hf, fIdx] using h hact
  | preFail hf hp => intro hact; simpa [hf, fIdx] using h hact
  | put hf hl => intro hact; simpa [hf, fIdx, qidx] using h hact
  | putEnd hf hl => intro hact; simpa [hf, fIdx, qidx] using h hact
  | putExc hf hl => intro hact; simpa [hf, fIdx, qidx] using h hact
  | start hp hl => exact h
  | finish hj => exact h
  | getItem hc hq =>
    intro _
    have := h (by simp [hc, CPc.active])
    simpa [hc, hq, cIdx, qidx] using this
  | getEnd hc hq => intro hact; simp [CPc.active] at hact
  | getExc hc hq => intro hact; simp [CPc.active] at hact
  | yld hcp hfin hok =>
    intro _
    obtain ⟨h1, h2⟩ := h (by simp [hcp, CPc.active])
    simp only [hcp, cIdx] at h1
    simp only [cIdx, List.nil_append, List.length_append, List.length_cons, List.length_nil]
    have hpos : s.pulled - s.out.length = (s.pulled - (s.out.length + 1)) + 1 := by
      cases hd : s.pulled - s.out.length with
      | zero => simp [hd] at h1
      | succ k => omega
    rw [hpos, List.range'_succ] at h1
    simp at h1
    exact ⟨by simpa using h1.2, by omega⟩
  | raiseItem hcp hfin he hr => intro hact; simp [CPc.active] at hact
  | next hc =>
    intro _
    have := h (by simp [hc, CPc.active])
    simpa [hc, cIdx] using this
  | close hc => intro hact; simp [CPc.active] at hact
  | setStop hc => intro hact; simp [CPc.active] at hact
  | drainCancel hc hq hp => intro hact; simp [hc, CPc.active] at hact
  | drainSkip hc hq => intro hact; simp [hc, CPc.active] at hact
  | drainEnd hc hq => intro hact; simp [CPc.active] at hact
  | drainExc hc hq => intro hact; simp [CPc.active] at hact
  | drainEmpty hc hq => intro hact; simp [CPc.active] at hact
  | join hc hf => intro hact; simp [CPc.active] at hact

end Fifo

namespace Fifo

/-! ## Counting: look-ahead and queue bound (C08) -/

/-- further source pulls the feeder can still make once the stop flag is set -/
def morePulls : FPc → Nat
  | .idle => 1 | .sub _ => 1 | .hold _ => 1 | _ => 0
@[simp] theorem morePulls_idle : morePulls .idle = 1 := rfl
@[simp] theorem morePulls_check (i : Nat) : morePulls (.check i) = 0 := rfl
@[simp] theorem morePulls_sub (i : Nat) : morePulls (.sub i) = 1 := rfl
@[simp] theorem morePulls_hold (i : Nat) : morePulls (.hold i) = 1 := rfl
@[simp] theorem morePulls_putEnd : morePulls .putEnd = 0 := rfl
@[simp] theorem morePulls_putExc : morePulls .putExc = 0 := rfl
@[simp] theorem morePulls_done : morePulls .done = 0 := rfl
theorem fHold_morePulls_le (f : FPc) : fHold f + morePulls f ≤ 2 := by cases f <;> simp [fHold, morePulls]

def CountInv (c : Cfg) (s : State) : Prop :=
  s.queue.length ≤ c.cap + 1 ∧
  ((s.cpc.active = true ∨ s.cpc = .stopping) →
    s.pulled = handed s + cHold s.cpc + (qidx s.queue).length + fHold s.fpc) ∧
  ((s.cpc = .drain ∨ s.cpc = .join ∨ s.cpc = .closed) →
    s.pulled + (if s.toStop = true then morePulls s.fpc else 0) ≤ handed s + c.cap + 3)

theorem count_init (c : Cfg) : CountInv c init := by
  simp [CountInv, init, CPc.active, handed, cHold, qidx]

theorem count_step (c : Cfg) (s : State) (a : Act) (s' : State) (hph : PhaseInv s) (h : CountInv c s)
    (hs : Step c s a s') : CountInv c s' := by
  obtain ⟨p1, p2, p3, p4, p5, p6⟩ := hph
  obtain ⟨h1, h2, h3⟩ := h
  have hq := qidx_length_le s.queue
  have hfm := fHold_morePulls_le s.fpc
  cases hs <;> cases hc : s.cpc <;>
    simp_all [CountInv, CPc.active, handed, cHold, qidx] <;>
    (try omega)

end Fifo

namespace Fifo

/-! ## Supporting facts about end marks -/

/-- nothing follows an end mark in the queue -/
def tailOK : List QItem → Prop
  | [] => True
  | .item _ :: r => tailOK r
  | _ :: r => r = []

theorem tailOK_append (q : List QItem) (x : QItem) (h : tailOK q) (hm : marks q = 0) : tailOK (q ++ [x]) := by
  induction q with
  | nil => cases x <;> simp [tailOK]
  | cons a q ih => cases a <;> simp_all [tailOK, marks]

theorem tailOK_tail (a : QItem) (q : List QItem) (h : tailOK (a :: q)) : tailOK q := by
  cases a <;> simp_all [tailOK]

theorem no_exc_of_marks_zero (q : List QItem) (h : marks q = 0) : QItem.excMark ∉ q := by
  induction q with
  | nil => simp
  | cons a q ih => cases a <;> simp_all [marks]

theorem no_end_of_marks_zero (q : List QItem) (h : marks q = 0) : QItem.endMark ∉ q := by
  induction q with
  | nil => simp
  | cons a q ih => cases a <;> simp_all [marks]

def SuppInv (c : Cfg) (s : State) : Prop :=
  tailOK s.queue ∧
  ((.excMark ∈ s.queue ∨ s.fpc = .putExc) → s.pulled = c.n ∧ c.srcEnd = .exc) ∧
  ((.endMark ∈ s.queue ∨ s.fpc = .putEnd) → (s.pulled = c.n ∧ c.srcEnd = .clean) ∨ s.toStop = true) ∧
  s.pulled ≤ c.n

theorem supp_init (c : Cfg) : SuppInv c init := by simp [SuppInv, init, tailOK]

theorem supp_step (c : Cfg) (s : State) (a : Act) (s' : State) (hph : PhaseInv s) (h : SuppInv c s)
    (hs : Step c s a s') : SuppInv c s' := by
  obtain ⟨p1, p2, p3, p4, p5, p6⟩ := hph
  obtain ⟨h1, h2, h3, h4⟩ := h
  cases hs <;> simp_all [SuppInv, tailOK] <;>
    first
    | exact tailOK_append _ _ h1 p5
    | (have := no_exc_of_marks_zero _ p5; have := no_end_of_marks_zero _ p5; simp_all; omega)

end Fifo

namespace Fifo

/-! ## Results: what the consumer has been handed (C01, C05) -/

def okToYield (c : Cfg) (i : Nat) : Prop := c.isErr i = false ∨ c.returnExc = true

def ResInv (c : Cfg) (s : State) : Prop :=
  s.out = List.range s.out.length ∧
  (∀ i ∈ s.out, i ∈ s.finished ∧ okToYield c i) ∧
  (∀ i, s.raised = some (.item i) →
      i = s.out.length ∧ i ∈ s.finished ∧ c.isErr i = true ∧ c.returnExc = false ∧ i < c.n) ∧
  (s.raised = some .src → s.out.length = c.n ∧ c.srcEnd = .exc) ∧
  ((s.cpc = .drain ∨ s.cpc = .join ∨ s.cpc = .closed) → s.raised = none → s.closeReq = false →
      s.out.length = c.n ∧ c.srcEnd = .clean) ∧
  (s.cpc = .stopping → s.raised ≠ none ∨ s.closeReq = true)

theorem res_init (c : Cfg) : ResInv c init := by simp [ResInv, init]

theorem range'_eq_nil_iff' (a n : Nat) : List.range' a n = [] ↔ n = 0 := by
  cases n <;> simp [List.range'_succ]

theorem res_step (c : Cfg) (s : State) (a : Act) (s' : State) (hph : PhaseInv s) (hord : OrderInv s)
    (hsup : SuppInv c s) (h : ResInv c s) (hs : Step c s a s') : ResInv c s' := by
  obtain ⟨p1, p2, p3, p4, p5, p6⟩ := hph
  obtain ⟨u1, u2, u3, u4⟩ := hsup
  obtain ⟨r1, r2, r3, r4, r5, r6⟩ := h
  cases hs with
  | getEnd hc hq =>
    rename_i rest
    have hts : s.toStop = false := by
      cases ht : s.toStop with
      | false => rfl
      | true => rcases p1 ht with h' | h' | h' <;> simp [h'] at hc
    have hact : s.cpc.active = true := by simp [hc, CPc.active]
    have hrest : rest = [] := by simpa [hq, tailOK] using u1
    have hdone : s.fpc = .done := by
      apply Classical.byContradiction; intro hnd
      have := p5 hnd; simp [hq, marks] at this
    obtain ⟨o1, o2⟩ := hord hact
    have hn : s.pulled = c.n ∧ c.srcEnd = .clean := by
      rcases u3 (Or.inl (by simp [hq])) with h' | h'
      · exact h'
      · simp [hts] at h'
    simp [hc, hq, hrest, hdone, cIdx, qidx, fIdx] at o1
    refine ⟨r1, r2, r3, r4, ?_, by simp⟩
    intro _ _ _
    show s.out.length = c.n ∧ _
    exact ⟨by omega, hn.2⟩
  | getExc hc hq =>
    rename_i rest
    have hact : s.cpc.active = true := by simp [hc, CPc.active]
    have hrest : rest = [] := by simpa [hq, tailOK] using u1
    have hdone : s.fpc = .done := by
      apply Classical.byContradiction; intro hnd
      have := p5 hnd; simp [hq, marks] at this
    obtain ⟨o1, o2⟩ := hord hact
    have hn := u2 (Or.inl (by simp [hq]))
    simp [hc, hq, hrest, hdone, cIdx, qidx, fIdx] at o1
    refine ⟨r1, r2, by simp, ?_, by simp, by simp⟩
    intro _
    show s.out.length = c.n ∧ _
    exact ⟨by omega, hn.2⟩
  | yld hcp hfin hok =>
    rename_i i
    have hact : s.cpc.active = true := by simp [hcp, CPc.active]
    obtain ⟨o1, o2⟩ := hord hact
    have hi : i = s.out.length := by
      cases hd : s.pulled - s.out.length with
      | zero => simp [hd, hcp, cIdx] at o1
      | succ k => rw [hd, List.range'_succ] at o1; simp [hcp, cIdx] at o1; exact o1.1
    have hrn := p3 hact
    refine ⟨?_, ?_, ?_, ?_, ?_, by simp⟩
    · simp only [List.length_append, List.length_cons, List.length_nil]
      rw [List.range_succ, ← r1, hi]
    · intro j hj
      simp only [List.mem_append, List.mem_singleton] at hj
      rcases hj with hj | hj
      · exact r2 j hj
      · subst hj; exact ⟨hfin, hok⟩
    · intro j hj; simp [hrn] at hj
    · intro hj; simp [hrn] at hj
    · intro hj; simp at hj
  | raiseItem hcp hfin he hr =>
    rename_i i
    have hact : s.cpc.active = true := by simp [hcp, CPc.active]
    obtain ⟨o1, o2⟩ := hord hact
    have hi : i = s.out.length ∧ i < s.pulled := by
      cases hd : s.pulled - s.out.length with
      | zero => simp [hd, hcp, cIdx] at o1
      | succ k =>
        rw [hd, List.range'_succ] at o1; simp [hcp, cIdx] at o1
        exact ⟨o1.1, by omega⟩
    refine ⟨r1, r2, ?_, by simp, by simp, by simp⟩
    intro j hj
    simp at hj; subst hj
    exact ⟨hi.1, hfin, he, hr, by omega⟩
  | pull hf hn => exact ⟨r1, r2, r3, r4, r5, r6⟩
  | srcEnd hf hn hc => exact ⟨r1, r2, r3, r4, r5, r6⟩
  | srcRaise hf hn hc => exact ⟨r1, r2, r3, r4, r5, r6⟩
  | fcheck hf ht => exact ⟨r1, r2, r3, r4, r5, r6⟩
  | stopSeen hf ht => exact ⟨r1, r2, r3, r4, r5, r6⟩
  | submit hf hp => exact ⟨r1, r2, r3, r4, r5, r6⟩
  | preFail hf hp =>
    refine ⟨r1, fun i hi => ⟨List.mem_cons_of_mem _ (r2 i hi).1, (r2 i hi).2⟩, ?_, r4, r5, r6⟩
    intro j hj
    obtain ⟨a1, a2, a3⟩ := r3 j hj
    exact ⟨a1, List.mem_cons_of_mem _ a2, a3⟩
  | put hf hl => exact ⟨r1, r2, r3, r4, r5, r6⟩
  | putEnd hf hl => exact ⟨r1, r2, r3, r4, r5, r6⟩
  | putExc hf hl => exact ⟨r1, r2, r3, r4, r5, r6⟩
  | start hp hl => exact ⟨r1, r2, r3, r4, r5, r6⟩
  | finish hj =>
    refine ⟨r1, fun i hi => ⟨List.mem_cons_of_mem _ (r2 i hi).1, (r2 i hi).2⟩, ?_, r4, r5, r6⟩
    intro j hj
    obtain ⟨a1, a2, a3⟩ := r3 j hj
    exact ⟨a1, List.mem_cons_of_mem _ a2, a3⟩
  | getItem hc hq => exact ⟨r1, r2, r3, r4, by simp, by simp⟩
  | next hc => exact ⟨r1, r2, r3, r4, by simp, by simp⟩
  | close hc => exact ⟨r1, r2, r3, r4, by simp, by simp⟩
  | setStop hc =>
    refine ⟨r1, r2, r3, r4, ?_, by simp⟩
    intro _ hrn hcl
    simp only at hrn hcl
    rcases r6 hc with h' | h'
    · exact absurd hrn h'
    · rw [hcl] at h'; simp at h'
  | drainCancel hc hq hp => exact ⟨r1, r2, r3, r4, by simpa [hc] using r5, by simp [hc]⟩
  | drainSkip hc hq => exact ⟨r1, r2, r3, r4, by simpa [hc] using r5, by simp [hc]⟩
  | drainEnd hc hq => exact ⟨r1, r2, r3, r4, by simpa [hc] using r5, by simp⟩
  | drainExc hc hq => exact ⟨r1, r2, r3, r4, by simpa [hc] using r5, by simp⟩
  | drainEmpty hc hq => exact ⟨r1, r2, r3, r4, by simpa [hc] using r5, by simp⟩
  | join hc hf => exact ⟨r1, r2, r3, r4, by simpa [hc] using r5, by simp⟩

end Fifo

namespace Fifo

/-! ## Pool bookkeeping: exactly-once invocation, bounded concurrency (C01, C08) -/

/-- 1 while the feeder holds an element it has not yet submitted -/
def fFresh : FPc → Nat
  | .check _ => 1 | .sub _ => 1 | _ => 0
@[simp] theorem fFresh_idle : fFresh .idle = 0 := rfl
@[simp] theorem fFresh_check (i : Nat) : fFresh (.check i) = 1 := rfl
@[simp] theorem fFresh_sub (i : Nat) : fFresh (.sub i) = 1 := rfl
@[simp] theorem fFresh_hold (i : Nat) : fFresh (.hold i) = 0 := rfl
@[simp] theorem fFresh_putEnd : fFresh .putEnd = 0 := rfl
@[simp] theorem fFresh_putExc : fFresh .putExc = 0 := rfl
@[simp] theorem fFresh_done : fFresh .done = 0 := rfl

def PoolInv (c : Cfg) (s : State) : Prop :=
  s.pending.Nodup ∧
  (∀ j ∈ s.pending, j ∉ s.running ∧ j ∉ s.finished) ∧
  (∀ j, (j ∈ s.pending ∨ j ∈ s.running ∨ j ∈ s.finished) → j + fFresh s.fpc < s.pulled) ∧
  (∀ i, (s.fpc = .check i ∨ s.fpc = .sub i ∨ s.fpc = .hold i) → i + 1 = s.pulled) ∧
  (∀ j, (j ∈ s.pending ∨ j ∈ s.running) → c.preFail j = false) ∧
  s.calls.Nodup ∧
  (∀ j, j ∈ s.calls ↔ (j ∈ s.running ∨ (j ∈ s.finished ∧ c.preFail j = false))) ∧
  s.running.length ≤ c.conc

theorem pool_init (c : Cfg) : PoolInv c init := by simp [PoolInv, init]

theorem pool_step (c : Cfg) (s : State) (a : Act) (s' : State) (h : PoolInv c s)
    (hs : Step c s a s') : PoolInv c s' := by
  obtain ⟨q1, q2, q3, q4, q5, q6, q7, q8⟩ := h
  cases hs with
  | pull hf hn =>
    refine ⟨q1, q2, ?_, by simp, q5, q6, q7, q8⟩
    intro j hj; have := q3 j hj; simp [hf] at this ⊢; omega
  | srcEnd hf hn hc => exact ⟨q1, q2, by simpa [hf] using q3, by simp, q5, q6, q7, q8⟩
  | srcRaise hf hn hc => exact ⟨q1, q2, by simpa [hf] using q3, by simp, q5, q6, q7, q8⟩
  | fcheck hf ht =>
    refine ⟨q1, q2, by simpa [hf] using q3, ?_, q5, q6, q7, q8⟩
    intro i hi; simp at hi; subst hi; exact q4 _ (Or.inl hf)
  | stopSeen hf ht =>
    refine ⟨q1, q2, ?_, by simp, q5, q6, q7, q8⟩
    intro j hj; have := q3 j hj; simp [hf] at this ⊢; omega
  | submit hf hp =>
    rename_i i
    have hi := q4 i (Or.inr (Or.inl hf))
    have hfresh : ∀ j, (j ∈ s.pending ∨ j ∈ s.running ∨ j ∈ s.finished) → j ≠ i := by
      intro j hj; have := q3 j hj; simp [hf] at this; omega
    refine ⟨?_, ?_, ?_, ?_, ?_, q6, q7, q8⟩
    · rw [List.nodup_append]
      refine ⟨q1, by simp, ?_⟩
      intro a ha b hb; simp at hb; subst hb; exact hfresh a (Or.inl ha)
    · intro j hj
      simp only [List.mem_append, List.mem_singleton] at hj
      rcases hj with hj | hj
      · exact q2 j hj
      · subst hj
        exact ⟨fun h => hfresh j (Or.inr (Or.inl h)) rfl, fun h => hfresh j (Or.inr (Or.inr h)) rfl⟩
    · intro j hj
      simp only [List.mem_append, List.mem_singleton, fFresh_hold] at hj ⊢
      rcases hj with (hj | hj) | hj | hj
      · have := q3 j (Or.inl hj); omega
      · omega
      · have := q3 j (Or.inr (Or.inl hj)); omega
      · have := q3 j (Or.inr (Or.inr hj)); omega
    · intro k hk; simp at hk; subst hk; exact hi
    · intro j hj
      simp only [List.mem_append, List.mem_singleton] at hj
      rcases hj with (hj | hj) | hj
      · exact q5 j (Or.inl hj)
      · subst hj; exact hp
      · exact q5 j (Or.inr hj)
  | preFail hf hp =>
    rename_i i
    have hi := q4 i (Or.inr (Or.inl hf))
    have hfresh : ∀ j, (j ∈ s.pending ∨ j ∈ s.running ∨ j ∈ s.finished) → j ≠ i := by
      intro j hj; have := q3 j hj; simp [hf] at this; omega
    refine ⟨q1, ?_, ?_, ?_, q5, q6, ?_, q8⟩
    · intro j hj
      refine ⟨(q2 j hj).1, ?_⟩
      simp only [List.mem_cons, not_or]
      exact ⟨hfresh j (Or.inl hj), (q2 j hj).2⟩
    · intro j hj
      simp only [List.mem_cons, fFresh_hold] at hj ⊢
      rcases hj with hj | hj | hj | hj
      · have := q3 j (Or.inl hj); omega
      · have := q3 j (Or.inr (Or.inl hj)); omega
      · omega
      · have := q3 j (Or.inr (Or.inr hj)); omega
    · intro k hk; simp at hk; subst hk; exact hi
    · intro j
      rw [q7 j]
      simp only [List.mem_cons]
      constructor
      · rintro (h | h)
        · exact Or.inl h
        · exact Or.inr ⟨Or.inr h.1, h.2⟩
      · rintro (h | ⟨h | h, h2⟩)
        · exact Or.inl h
        · subst h; simp [hp] at h2
        · exact Or.inr ⟨h, h2⟩
  | put hf hl =>
    exact ⟨q1, q2, by simpa [hf] using q3, by simp, q5, q6, q7, q8⟩
  | putEnd hf hl => exact ⟨q1, q2, by simpa [hf] using q3, by simp, q5, q6, q7, q8⟩
  | putExc hf hl => exact ⟨q1, q2, by simpa [hf] using q3, by simp, q5, q6, q7, q8⟩
  | start hp hl =>
    rename_i j
    have hjp : j ∈ s.pending := hp
    have hsub : ∀ k, k ∈ s.pending.erase j → k ∈ s.pending := fun k hk => List.mem_of_mem_erase hk
    have hjne : ∀ k, k ∈ s.pending.erase j → k ≠ j := by
      intro k hk hkj; subst hkj
      exact (List.Nodup.mem_erase_iff q1).mp hk |>.1 rfl
    have hjc : j ∉ s.calls := by
      rw [q7 j]; intro h
      rcases h with h | h
      · exact (q2 j hjp).1 h
      · exact (q2 j hjp).2 h.1
    refine ⟨q1.erase _, ?_, ?_, q4, ?_, ?_, ?_, ?_⟩
    · intro k hk
      have := q2 k (hsub k hk)
      refine ⟨?_, this.2⟩
      simp only [List.mem_append, List.mem_singleton, not_or]
      exact ⟨this.1, hjne k hk⟩
    · intro k hk
      simp only [List.mem_append, List.mem_singleton] at hk
      rcases hk with hk | (hk | hk) | hk
      · exact q3 k (Or.inl (hsub k hk))
      · exact q3 k (Or.inr (Or.inl hk))
      · subst hk; exact q3 k (Or.inl hjp)
      · exact q3 k (Or.inr (Or.inr hk))
    · intro k hk
      simp only [List.mem_append, List.mem_singleton] at hk
      rcases hk with hk | hk | hk
      · exact q5 k (Or.inl (hsub k hk))
      · exact q5 k (Or.inr hk)
      · subst hk; exact q5 k (Or.inl hjp)
    · exact List.nodup_cons.mpr ⟨hjc, q6⟩
    · intro k
      simp only [List.mem_cons, List.mem_append, List.not_mem_nil, or_false]
      rw [q7 k]
      constructor
      · rintro (h | h | h)
        · exact Or.inl (Or.inr h)
        · exact Or.inl (Or.inl h)
        · exact Or.inr h
      · rintro ((h | h) | h)
        · exact Or.inr (Or.inl h)
        · exact Or.inl h
        · exact Or.inr (Or.inr h)
    · simp only [List.length_append, List.length_cons, List.length_nil]; omega
  | finish hj =>
    rename_i j
    have hpf : c.preFail j = false := q5 j (Or.inr hj)
    refine ⟨q1, ?_, ?_, q4, ?_, q6, ?_, ?_⟩
    · intro k hk
      have := q2 k hk
      refine ⟨fun h => this.1 (List.mem_of_mem_erase h), ?_⟩
      simp only [List.mem_cons, not_or]
      exact ⟨fun h => this.1 (h ▸ hj), this.2⟩
    · intro k hk
      simp only [List.mem_cons] at hk
      rcases hk with hk | hk | hk | hk
      · exact q3 k (Or.inl hk)
      · exact q3 k (Or.inr (Or.inl (List.mem_of_mem_erase hk)))
      · subst hk; exact q3 k (Or.inr (Or.inl hj))
      · exact q3 k (Or.inr (Or.inr hk))
    · intro k hk
      rcases hk with hk | hk
      · exact q5 k (Or.inl hk)
      · exact q5 k (Or.inr (List.mem_of_mem_erase hk))
    · intro k
      rw [q7 k]
      simp only [List.mem_cons]
      by_cases hkj : k = j
      · subst hkj
        constructor
        · intro _; exact Or.inr ⟨Or.inl rfl, hpf⟩
        · intro _; exact Or.inl hj
      · constructor
        · rintro (h | h)
          · exact Or.inl ((List.mem_erase_of_ne hkj).mpr h)
          · exact Or.inr ⟨Or.inr h.1, h.2⟩
        · rintro (h | ⟨h | h, h2⟩)
          · exact Or.inl (List.mem_of_mem_erase h)
          · exact absurd h hkj
          · exact Or.inr ⟨h, h2⟩
    · have := List.length_erase_of_mem hj
      simp only; omega
  | getItem hc hq => exact ⟨q1, q2, q3, q4, q5, q6, q7, q8⟩
  | getEnd hc hq => exact ⟨q1, q2, q3, q4, q5, q6, q7, q8⟩
  | getExc hc hq => exact ⟨q1, q2, q3, q4, q5, q6, q7, q8⟩
  | yld hcp hfin hok => exact ⟨q1, q2, q3, q4, q5, q6, q7, q8⟩
  | raiseItem hcp hfin he hr => exact ⟨q1, q2, q3, q4, q5, q6, q7, q8⟩
  | next hc => exact ⟨q1, q2, q3, q4, q5, q6, q7, q8⟩
  | close hc => exact ⟨q1, q2, q3, q4, q5, q6, q7, q8⟩
  | setStop hc => exact ⟨q1, q2, q3, q4, q5, q6, q7, q8⟩
  | drainCancel hc hq hp =>
    refine ⟨q1.erase _, ?_, ?_, q4, ?_, q6, q7, q8⟩
    · intro k hk; exact q2 k (List.mem_of_mem_erase hk)
    · intro k hk
      rcases hk with hk | hk
      · exact q3 k (Or.inl (List.mem_of_mem_erase hk))
      · exact q3 k (Or.inr hk)
    · intro k hk
      rcases hk with hk | hk
      · exact q5 k (Or.inl (List.mem_of_mem_erase hk))
      · exact q5 k (Or.inr hk)
  | drainSkip hc hq => exact ⟨q1, q2, q3, q4, q5, q6, q7, q8⟩
  | drainEnd hc hq => exact ⟨q1, q2, q3, q4, q5, q6, q7, q8⟩
  | drainExc hc hq => exact ⟨q1, q2, q3, q4, q5, q6, q7, q8⟩
  | drainEmpty hc hq => exact ⟨q1, q2, q3, q4, q5, q6, q7, q8⟩
  | join hc hf => exact ⟨q1, q2, q3, q4, q5, q6, q7, q8⟩

end Fifo
