import MpsVerif.Proofs.FifoInv
/-! Liveness of the `fifo_stream` model: a measure that every step decreases (every execution is
    finite) and progress (a non-final reachable state always has an enabled action).  Together:
    every maximal execution ends in `Final` — nothing blocks forever, whatever the schedule. -/
namespace Fifo

def frank : FPc → Nat
  | .done => 0 | .putEnd => 4 | .putExc => 4 | .idle => 5 | .hold _ => 9 | .sub _ => 12 | .check _ => 13
def crank : CPc → Nat
  | .closed => 0 | .join => 1 | .drain => 2 | .stopping => 3 | .idle => 4 | .susp => 5 | .wait _ => 6

def mu (c : Cfg) (s : State) : Nat :=
  9 * (c.n - s.pulled) + frank s.fpc + 3 * s.queue.length + crank s.cpc
    + 2 * s.pending.length + s.running.length

theorem mu_decreases (c : Cfg) (s : State) (a : Act) (s' : State) (hs : Step c s a s') :
    mu c s' < mu c s := by
  cases hs <;> simp_all [mu, frank, crank] <;> try omega
  case start hj _ => have : 0 < s.pending.length := List.length_pos_of_mem hj; omega
  case finish hj => have := List.length_erase_of_mem hj; have : 0 < s.running.length := List.length_pos_of_mem hj; omega

/-- items the pool owes a result for, as seen from the consumer side -/
def holdIdx : FPc → List Nat
  | .hold i => [i] | _ => []

/-- puts the feeder will still make once the stop flag is set -/
def futurePuts : FPc → Nat
  | .idle => 1 | .check _ => 1 | .sub _ => 2 | .hold _ => 2 | .putEnd => 1 | .putExc => 1 | .done => 0

def ProgInv (s : State) : Prop :=
  (s.cpc.active = true → ∀ i ∈ cIdx s.cpc ++ qidx s.queue ++ holdIdx s.fpc,
      i ∈ s.pending ∨ i ∈ s.running ∨ i ∈ s.finished) ∧
  (s.cpc = .join → s.toStop = true → s.queue.length + futurePuts s.fpc ≤ 2)

theorem prog_init : ProgInv init := by simp [ProgInv, init, cIdx, qidx, holdIdx]

theorem prog_step (c : Cfg) (s : State) (a : Act) (s' : State) (hph : PhaseInv s) (hsup : SuppInv c s)
    (h : ProgInv s)
    (hs : Step c s a s') : ProgInv s' := by
  obtain ⟨p1, p2, p3, p4, p5, p6⟩ := hph
  obtain ⟨g1, g2⟩ := h
  cases hs with
  | pull hf hn =>
    refine ⟨?_, ?_⟩
    · intro ha i hi; exact g1 ha i (by simpa [hf, holdIdx] using hi)
    · intro hj ht; have := g2 hj ht; simp [hf, futurePuts] at this ⊢; omega
  | srcEnd hf hn hc =>
    refine ⟨?_, ?_⟩
    · intro ha i hi; exact g1 ha i (by simpa [hf, holdIdx] using hi)
    · intro hj ht; have := g2 hj ht; simp [hf, futurePuts] at this ⊢; omega
  | srcRaise hf hn hc =>
    refine ⟨?_, ?_⟩
    · intro ha i hi; exact g1 ha i (by simpa [hf, holdIdx] using hi)
    · intro hj ht; have := g2 hj ht; simp [hf, futurePuts] at this ⊢; omega
  | fcheck hf ht =>
    refine ⟨?_, ?_⟩
    · intro ha i hi; exact g1 ha i (by simpa [hf, holdIdx] using hi)
    · intro hj ht'; simp only at ht'; rw [ht] at ht'; simp at ht'
  | stopSeen hf ht =>
    refine ⟨?_, ?_⟩
    · intro ha i hi; exact g1 ha i (by simpa [hf, holdIdx] using hi)
    · intro hj ht'; have := g2 hj ht'; simp [hf, futurePuts] at this ⊢; omega
  | submit hf hp =>
    refine ⟨?_, ?_⟩
    · intro ha i hi
      simp only [holdIdx, List.mem_append, List.mem_singleton] at hi
      rcases hi with hi | hi
      · rcases g1 ha i (by rcases hi with h | h <;> simp [h]) with h | h | h
        · exact Or.inl (by simp [h])
        · exact Or.inr (Or.inl h)
        · exact Or.inr (Or.inr h)
      · subst hi; exact Or.inl (by simp)
    · intro hj ht; have := g2 hj ht; simp [hf, futurePuts] at this ⊢; omega
  | preFail hf hp =>
    refine ⟨?_, ?_⟩
    · intro ha i hi
      simp only [holdIdx, List.mem_append, List.mem_singleton] at hi
      rcases hi with hi | hi
      · rcases g1 ha i (by rcases hi with h | h <;> simp [h]) with h | h | h
        · exact Or.inl h
        · exact Or.inr (Or.inl h)
        · exact Or.inr (Or.inr (by simp [h]))
      · subst hi; exact Or.inr (Or.inr (by simp))
    · intro hj ht; have := g2 hj ht; simp [hf, futurePuts] at this ⊢; omega
  | put hf hl =>
    refine ⟨?_, ?_⟩
    · intro ha i hi
      exact g1 ha i (by simpa [hf, holdIdx, qidx] using hi)
    · intro hj ht; have := g2 hj ht; simp [hf, futurePuts] at this ⊢; omega
  | putEnd hf hl =>
    refine ⟨?_, ?_⟩
    · intro ha i hi
      exact g1 ha i (by simpa [hf, holdIdx, qidx] using hi)
    · intro hj ht; have := g2 hj ht; simp [hf, futurePuts] at this ⊢; omega
  | putExc hf hl =>
    refine ⟨?_, ?_⟩
    · intro ha i hi
      exact g1 ha i (by simpa [hf, holdIdx, qidx] using hi)
    · intro hj ht; have := g2 hj ht; simp [hf, futurePuts] at this ⊢; omega
  | start hp hl =>
    rename_i j
    refine ⟨?_, g2⟩
    intro ha i hi
    rcases g1 ha i hi with h | h | h
    · by_cases hij : i = j
      · subst hij; exact Or.inr (Or.inl (by simp))
      · exact Or.inl ((List.mem_erase_of_ne hij).mpr h)
    · exact Or.inr (Or.inl (by simp [h]))
    · exact Or.inr (Or.inr h)
  | finish hj =>
    rename_i j
    refine ⟨?_, g2⟩
    intro ha i hi
    rcases g1 ha i hi with h | h | h
    · exact Or.inl h
    · by_cases hij : i = j
      · subst hij; exact Or.inr (Or.inr (by simp))
      · exact Or.inr (Or.inl ((List.mem_erase_of_ne hij).mpr h))
    · exact Or.inr (Or.inr (by simp [h]))
  | getItem hc hq =>
    refine ⟨?_, by simp⟩
    intro _ i hi
    exact g1 (by simp [hc, CPc.active]) i (by simpa [hc, hq, cIdx, qidx] using hi)
  | getEnd hc hq => exact ⟨by simp [CPc.active], by simp⟩
  | getExc hc hq => exact ⟨by simp [CPc.active], by simp⟩
  | yld hcp hfin hok =>
    refine ⟨?_, by simp⟩
    intro _ i hi
    exact g1 (by simp [hcp, CPc.active]) i (by simp [cIdx] at hi; simp [hi])
  | raiseItem hcp hfin he hr => exact ⟨by simp [CPc.active], by simp⟩
  | next hc =>
    refine ⟨?_, by simp⟩
    intro _ i hi
    exact g1 (by simp [hc, CPc.active]) i (by simpa [hc, cIdx] using hi)
  | close hc => exact ⟨by simp [CPc.active], by simp⟩
  | setStop hc => exact ⟨by simp [CPc.active], by simp⟩
  | drainCancel hc hq hp => exact ⟨by simp [hc, CPc.active], by simp [hc]⟩
  | drainSkip hc hq => exact ⟨by simp [hc, CPc.active], by simp [hc]⟩
  | drainEnd hc hq =>
    rename_i rest
    refine ⟨by simp [CPc.active], ?_⟩
    intro _ _
    have hdone : s.fpc = .done := by
      apply Classical.byContradiction; intro hnd
      have := p5 hnd; simp [hq, marks] at this
    have hrest : rest = [] := by simpa [hq, tailOK] using hsup.1
    simp [hdone, hrest, futurePuts]
  | drainExc hc hq =>
    rename_i rest
    refine ⟨by simp [CPc.active], ?_⟩
    intro _ _
    have hdone : s.fpc = .done := by
      apply Classical.byContradiction; intro hnd
      have := p5 hnd; simp [hq, marks] at this
    have hrest : rest = [] := by simpa [hq, tailOK] using hsup.1
    simp [hdone, hrest, futurePuts]
  | drainEmpty hc hq =>
    refine ⟨by simp [CPc.active], ?_⟩
    intro _ _
    simp only [hq, List.length_nil, Nat.zero_add]
    cases s.fpc <;> simp [futurePuts]
  | join hc hf => exact ⟨by simp [CPc.active], by simp⟩

end Fifo

namespace Fifo

structure AllInv (c : Cfg) (s : State) : Prop where
  ph : PhaseInv s
  ord : OrderInv s
  cnt : CountInv c s
  sup : SuppInv c s
  res : ResInv c s
  pool : PoolInv c s
  prog : ProgInv s

theorem all_init (c : Cfg) : AllInv c init :=
  ⟨phase_init, order_init, count_init c, supp_init c, res_init c, pool_init c, prog_init⟩

theorem all_step (c : Cfg) (s : State) (a : Act) (s' : State) (h : AllInv c s) (hs : Step c s a s') :
    AllInv c s' :=
  ⟨phase_step c s a s' h.ph hs, order_step c s a s' h.ph h.ord hs, count_step c s a s' h.ph h.cnt hs,
   supp_step c s a s' h.ph h.sup hs, res_step c s a s' h.ph h.ord h.sup h.res hs,
   pool_step c s a s' h.pool hs, prog_step c s a s' h.ph h.sup h.prog hs⟩

theorem all_reachable (c : Cfg) {s : State} (hr : Reachable c s) : AllInv c s :=
  reachable_inv c (all_init c) (all_step c) hr

/-- Progress: in every non-final state satisfying the invariants some action is enabled
    (`cap ≥ 1`, `conc ≥ 1`). -/
theorem progress_of_inv (c : Cfg) (hcap : 1 ≤ c.cap) (hconc : 1 ≤ c.conc) (s : State)
    (h : AllInv c s) (hnf : ¬ Final s) : ∃ a, (step c s a).isSome = true := by
  obtain ⟨⟨p1, p2, p3, p4, p5, p6⟩, _, ⟨k1, k2, k3⟩, ⟨u1, u2, u3, u4⟩, _, ⟨q1, q2, q3, q4, q5, q6, q7, q8⟩, ⟨g1, g2⟩⟩ := h
  -- the feeder can move whenever it is not done and the queue has room
  have feeder : s.fpc ≠ .done → s.queue.length < c.cap + 1 →
      (∀ i, s.fpc = .check i → True) → ∃ a, (step c s a).isSome = true := by
    intro hnd hroom _
    cases hf : s.fpc with
    | idle =>
      by_cases hn : s.pulled < c.n
      · exact ⟨.pull, by simp [step, hf, hn]⟩
      · have hn' : s.pulled = c.n := by omega
        cases hse : c.srcEnd with
        | clean => exact ⟨.srcEnd, by simp [step, hf, hn', hse]⟩
        | exc => exact ⟨.srcRaise, by simp [step, hf, hn', hse]⟩
    | check i =>
      cases ht : s.toStop with
      | false => exact ⟨.fcheck, by simp [step, hf, ht]⟩
      | true => exact ⟨.stopSeen, by simp [step, hf, ht]⟩
    | sub i =>
      cases hp : c.preFail i with
      | false => exact ⟨.submit, by simp [step, hf, hp]⟩
      | true => exact ⟨.preFail, by simp [step, hf, hp]⟩
    | hold i => exact ⟨.put, by simp [step, hf, hroom]⟩
    | putEnd => exact ⟨.putEnd, by simp [step, hf, hroom]⟩
    | putExc => exact ⟨.putExc, by simp [step, hf, hroom]⟩
    | done => exact absurd hf hnd
  -- the pool can move whenever something is pending or running
  have pool : (s.pending ≠ [] ∨ s.running ≠ []) → ∃ a, (step c s a).isSome = true := by
    intro h
    cases hr : s.running with
    | cons j rest => exact ⟨.finish j, by simp [step, hr]⟩
    | nil =>
      cases hp : s.pending with
      | nil => simp [hr, hp] at h
      | cons j rest =>
        refine ⟨.start j, ?_⟩
        simp only [step, hp, hr, List.length_nil]
        rw [if_pos ⟨by simp, by omega⟩]; rfl
  cases hc : s.cpc with
  | idle =>
    cases hq : s.queue with
    | nil =>
      have hnd : s.fpc ≠ .done := by
        intro hd
        have := p6 (by simp [hc, CPc.active]) hd
        simp [hq, marks] at this
      exact feeder hnd (by simp [hq]) (fun _ _ => trivial)
    | cons x rest =>
      cases x with
      | item i => exact ⟨.get, by simp [step, hc, hq]⟩
      | endMark => exact ⟨.get, by simp [step, hc, hq]⟩
      | excMark => exact ⟨.get, by simp [step, hc, hq]⟩
  | wait i =>
    rcases g1 (by simp [hc, CPc.active]) i (by simp [hc, cIdx]) with h | h | h
    · exact pool (Or.inl (List.ne_nil_of_mem h))
    · exact pool (Or.inr (List.ne_nil_of_mem h))
    · by_cases hok : c.isErr i = false ∨ c.returnExc = true
      · exact ⟨.yld, by simp [step, hc, h, hok]⟩
      · have h1 : c.isErr i = true := by
          cases he : c.isErr i with
          | true => rfl
          | false => exact absurd (Or.inl he) hok
        have h2 : c.returnExc = false := by
          cases he : c.returnExc with
          | false => rfl
          | true => exact absurd (Or.inr he) hok
        exact ⟨.raiseItem, by simp [step, hc, h, h1, h2]⟩
  | susp => exact ⟨.next, by simp [step, hc]⟩
  | stopping => exact ⟨.setStop, by simp [step, hc]⟩
  | drain =>
    cases hq : s.queue with
    | nil => exact ⟨.drainEmpty, by simp [step, hc, hq]⟩
    | cons x rest =>
      cases x with
      | item i =>
        exact ⟨.drainSkip, by simp [step, hc, hq]⟩
      | endMark => exact ⟨.drainMark, by simp [step, hc, hq]⟩
      | excMark => exact ⟨.drainMark, by simp [step, hc, hq]⟩
  | join =>
    by_cases hd : s.fpc = .done
    · exact ⟨.join, by simp [step, hc, hd]⟩
    · have hts : s.toStop = true := by
        cases ht : s.toStop with
        | true => rfl
        | false => exact absurd (p2 (Or.inr (Or.inl hc)) ht) hd
      have hb := g2 hc hts
      have hfp : 1 ≤ futurePuts s.fpc := by
        cases hf : s.fpc <;> simp [futurePuts] <;> exact absurd hf hd
      exact feeder hd (by omega) (fun _ _ => trivial)
  | closed =>
    apply pool
    apply Classical.byContradiction
    intro hne
    simp only [not_or, Classical.not_not] at hne
    exact hnf ⟨hc, hne.1, hne.2⟩

end Fifo
