import MpsVerif.Model.Frame
/-! Lemmas about the record framing model: decimal round trip, header parsing, one record. -/
namespace Frame

theorem digit_toNat {d : Nat} (h : d < 10) : (digit d).toNat = 48 + d := by
  simp only [digit, UInt8.toNat_ofNat']
  omega

theorem isDigit_digit {d : Nat} (h : d < 10) : isDigit (digit d) = true := by
  simp [isDigit, digit_toNat h]; omega

/-- a digit is neither white space nor a newline nor non-ASCII -/
theorem isDigit_props {b : UInt8} (h : isDigit b = true) :
    isWs b = false ∧ b ≠ NL ∧ b.toNat < 128 := by
  simp only [isDigit, Bool.and_eq_true, decide_eq_true_eq] at h
  refine ⟨?_, ?_, by omega⟩
  · simp [isWs]; omega
  · intro hb; subst hb; simp [NL] at h

theorem isTok_props {b : UInt8} (h : isTok b = true) :
    isWs b = false ∧ b ≠ NL ∧ b.toNat < 128 := by
  simp only [isTok, Bool.and_eq_true, decide_eq_true_eq] at h
  refine ⟨?_, ?_, by omega⟩
  · simp [isWs]; omega
  · intro hb; subst hb; simp [NL] at h

theorem decVal_append_single (bs : Bytes) (b : UInt8) :
    decVal (bs ++ [b]) = decVal bs * 10 + (b.toNat - 48) := by
  simp [decVal, List.foldl_append]

theorem toDecF_spec : ∀ (f n : Nat), n < f →
    toDecF f n ≠ [] ∧ (∀ b ∈ toDecF f n, isDigit b = true) ∧ decVal (toDecF f n) = n := by
  intro f
  induction f with
  | zero => intro n h; omega
  | succ f ih =>
    intro n h
    unfold toDecF
    split
    · rename_i h10
      refine ⟨by simp, ?_, ?_⟩
      · intro b hb; simp at hb; subst hb; exact isDigit_digit h10
      · simp [decVal, digit_toNat h10]
    · rename_i h10
      have hlt : n / 10 < f := by omega
      obtain ⟨h1, h2, h3⟩ := ih (n / 10) hlt
      have hm : n % 10 < 10 := Nat.mod_lt _ (by omega)
      refine ⟨by simp, ?_, ?_⟩
      · intro b hb
        simp only [List.mem_append, List.mem_singleton] at hb
        rcases hb with hb | hb
        · exact h2 b hb
        · subst hb; exact isDigit_digit hm
      · rw [decVal_append_single, h3, digit_toNat hm]; omega

theorem toDec_ne_nil (n : Nat) : toDec n ≠ [] := (toDecF_spec (n + 1) n (by omega)).1
theorem toDec_digits (n : Nat) : ∀ b ∈ toDec n, isDigit b = true := (toDecF_spec (n + 1) n (by omega)).2.1
theorem decVal_toDec (n : Nat) : decVal (toDec n) = n := (toDecF_spec (n + 1) n (by omega)).2.2

/-- `int(str(n)) == n` -/
theorem parseDec_toDec (n : Nat) : parseDec (toDec n) = some n := by
  unfold parseDec
  have h1 := toDec_ne_nil n
  have h2 : (toDec n).all isDigit = true := by
    rw [List.all_eq_true]; exact toDec_digits n
  have h3 : (toDec n).isEmpty = false := by
    cases h : toDec n with
    | nil => exact absurd h h1
    | cons _ _ => rfl
  simp [h2, h3, decVal_toDec]

theorem parseEnc_name (e : Enc) : parseEnc e.name = some e := by
  cases e <;> decide

theorem enc_name_tok (e : Enc) : e.name ≠ [] ∧ ∀ b ∈ e.name, isTok b = true := by
  cases e <;> decide

/-- `readuntil(b'\n')` stops at the first newline -/
theorem scanNl_append (h rest : Bytes) (hn : ∀ b ∈ h, b ≠ NL) :
    scanNl (h ++ NL :: rest) = some (h, rest) := by
  induction h with
  | nil => simp [scanNl]
  | cons b h ih =>
    have hb : b ≠ NL := hn b (by simp)
    have := ih (fun x hx => hn x (by simp [hx]))
    simp [scanNl, hb, this]

/-- without a newline `readuntil` finds nothing -/
theorem scanNl_none (h : Bytes) (hn : ∀ b ∈ h, b ≠ NL) : scanNl h = none := by
  induction h with
  | nil => simp [scanNl]
  | cons b h ih =>
    have hb : b ≠ NL := hn b (by simp)
    have := ih (fun x hx => hn x (by simp [hx]))
    simp [scanNl, hb, this]

theorem splitAux_tok (tok rest cur : Bytes) (ht : ∀ b ∈ tok, isWs b = false) :
    splitAux (tok ++ rest) cur = splitAux rest (tok.reverse ++ cur) := by
  induction tok generalizing cur with
  | nil => simp
  | cons b tok ih =>
    have hb : isWs b = false := ht b (by simp)
    have := ih (b :: cur) (fun x hx => ht x (by simp [hx]))
    simp [splitAux, hb, this]

theorem isWs_SP : isWs SP = true := by decide

/-- `'<rid> <n> <enc>'.split() == [rid, n, enc]` -/
theorem splitWs_three (a b c : Bytes) (ha : a ≠ []) (hb : b ≠ []) (hc : c ≠ [])
    (wa : ∀ x ∈ a, isWs x = false) (wb : ∀ x ∈ b, isWs x = false) (wc : ∀ x ∈ c, isWs x = false) :
    splitWs (a ++ SP :: (b ++ SP :: c)) = [a, b, c] := by
  unfold splitWs
  rw [splitAux_tok a _ [] wa]
  have e1 : (a.reverse ++ []).isEmpty = false := by
    cases a with
    | nil => exact absurd rfl ha
    | cons x xs => simp
  simp only [splitAux, isWs_SP, if_true, e1]
  rw [splitAux_tok b _ [] wb]
  have e2 : (b.reverse ++ []).isEmpty = false := by
    cases b with
    | nil => exact absurd rfl hb
    | cons x xs => simp
  simp only [splitAux, isWs_SP, if_true, e2]
  have := splitAux_tok c [] [] wc
  simp only [List.append_nil] at this
  rw [this]
  have e3 : c.reverse.isEmpty = false := by
    cases c with
    | nil => exact absurd rfl hc
    | cons x xs => simp
  simp [splitAux, e3]

/-- the header line without its newline -/
def headerLine (r : Rec) : Bytes := r.rid ++ SP :: (toDec r.payload.length ++ SP :: r.enc.name)

theorem header_eq (r : Rec) : header r = headerLine r ++ [NL] := by
  simp [header, headerLine]

theorem headerLine_props (r : Rec) (hw : wellFormedId r.rid) :
    (∀ b ∈ headerLine r, b ≠ NL) ∧ (∀ b ∈ headerLine r, b.toNat < 128) := by
  have hSP : SP ≠ NL ∧ SP.toNat < 128 := by decide
  constructor <;> intro b hb <;>
    simp only [headerLine, List.mem_append, List.mem_cons] at hb <;>
    rcases hb with hb | hb | hb | hb | hb
  · exact (isTok_props (hw.2 b hb)).2.1
  · subst hb; exact hSP.1
  · exact (isDigit_props (toDec_digits _ b hb)).2.1
  · subst hb; exact hSP.1
  · exact (isTok_props ((enc_name_tok r.enc).2 b hb)).2.1
  · exact (isTok_props (hw.2 b hb)).2.2
  · subst hb; exact hSP.2
  · exact (isDigit_props (toDec_digits _ b hb)).2.2
  · subst hb; exact hSP.2
  · exact (isTok_props ((enc_name_tok r.enc).2 b hb)).2.2

theorem splitWs_headerLine (r : Rec) (hw : wellFormedId r.rid) :
    splitWs (headerLine r) = [r.rid, toDec r.payload.length, r.enc.name] := by
  unfold headerLine
  exact splitWs_three _ _ _ hw.1 (toDec_ne_nil _) (enc_name_tok r.enc).1
    (fun x hx => (isTok_props (hw.2 x hx)).1)
    (fun x hx => (isDigit_props (toDec_digits _ x hx)).1)
    (fun x hx => (isTok_props ((enc_name_tok r.enc).2 x hx)).1)

/-- a record whose id is well formed and whose header line fits the reader's limit -/
def WellFormed (lim : Nat) (r : Rec) : Prop := wellFormedId r.rid ∧ (headerLine r).length ≤ lim

/-- One `read_record` on a stream that starts with a written record returns that record and leaves
    exactly what followed it, whatever the payload bytes and whatever follows. -/
theorem readRecord_encode (lim : Nat) (r : Rec) (rest : Bytes) (hw : WellFormed lim r) :
    readRecord lim (encodeRecord r ++ rest) = .ok r rest := by
  obtain ⟨hid, hlen⟩ := hw
  have hp := headerLine_props r hid
  have hscan : scanNl (encodeRecord r ++ rest) = some (headerLine r, r.payload ++ rest) := by
    have : encodeRecord r ++ rest = headerLine r ++ NL :: (r.payload ++ rest) := by
      simp [encodeRecord, header_eq]
    rw [this]; exact scanNl_append _ _ hp.1
  have hne : (encodeRecord r ++ rest).isEmpty = false := by
    simp [encodeRecord, header_eq]
  have hany : (headerLine r).any (fun b => decide (b.toNat ≥ 128)) = false := by
    rw [List.any_eq_false]
    intro b hb; have := hp.2 b hb; simp; omega
  unfold readRecord
  simp only [hne, hscan, hany, splitWs_headerLine r hid, parseDec_toDec, parseEnc_name]
  have h1 : ¬ (headerLine r).length > lim := by omega
  have h2 : ¬ (r.payload ++ rest).length < r.payload.length := by simp
  simp [h1]

theorem encodeRecord_length_pos (r : Rec) : 0 < (encodeRecord r).length := by
  simp [encodeRecord, header_eq]; omega

theorem decodeFuel_encodeStream (lim : Nat) (rs : List Rec) (hw : ∀ r ∈ rs, WellFormed lim r) :
    ∀ fuel, (encodeStream rs).length < fuel → decodeFuel lim fuel (encodeStream rs) = (rs, .eof) := by
  induction rs with
  | nil =>
    intro fuel hf
    cases fuel with
    | zero => omega
    | succ f => simp [encodeStream, decodeFuel, readRecord]
  | cons r rs ih =>
    intro fuel hf
    cases fuel with
    | zero => omega
    | succ f =>
      have hcons : encodeStream (r :: rs) = encodeRecord r ++ encodeStream rs := by
        simp [encodeStream]
      rw [hcons] at hf ⊢
      have hpos := encodeRecord_length_pos r
      have hf' : (encodeStream rs).length < f := by
        simp only [List.length_append] at hf; omega
      have := ih (fun x hx => hw x (by simp [hx])) f hf'
      simp [decodeFuel, readRecord_encode lim r _ (hw r (by simp)), this]

end Frame

namespace Frame

/-- records followed by a tail on which the next `read_record` fails with `e`: the loop returns
    exactly the records and ends with `e` -/
theorem decodeFuel_tail (lim : Nat) (rs : List Rec) (hw : ∀ r ∈ rs, WellFormed lim r) (t : Bytes) (e : End)
    (ht : ∀ f, decodeFuel lim (f + 1) t = ([], e)) :
    ∀ fuel, (encodeStream rs ++ t).length < fuel → decodeFuel lim fuel (encodeStream rs ++ t) = (rs, e) := by
  induction rs with
  | nil =>
    intro fuel hf
    cases fuel with
    | zero => omega
    | succ f => simpa [encodeStream] using ht f
  | cons r rs ih =>
    intro fuel hf
    cases fuel with
    | zero => omega
    | succ f =>
      have hcons : encodeStream (r :: rs) ++ t = encodeRecord r ++ (encodeStream rs ++ t) := by
        simp [encodeStream]
      rw [hcons] at hf ⊢
      have hpos := encodeRecord_length_pos r
      have hf' : (encodeStream rs ++ t).length < f := by
        simp only [List.length_append] at hf ⊢; omega
      have := ih (fun x hx => hw x (by simp [hx])) f hf'
      simp [decodeFuel, readRecord_encode lim r _ (hw r (by simp)), this]

/-- a non-empty proper prefix of a written record is never a record: `read_record` reports an
    incomplete read -/
theorem readRecord_prefix (lim : Nat) (r : Rec) (hw : WellFormed lim r) (p q : Bytes)
    (hpq : encodeRecord r = p ++ q) (hp : p ≠ []) (hq : q ≠ []) : readRecord lim p = .incomplete := by
  obtain ⟨hid, hlen⟩ := hw
  have hprops := headerLine_props r hid
  have henc : encodeRecord r = headerLine r ++ NL :: r.payload := by simp [encodeRecord, header_eq]
  rw [henc] at hpq
  have hpe : p.isEmpty = false := by
    cases p with
    | nil => exact absurd rfl hp
    | cons _ _ => rfl
  -- the case where `p` ends inside the header line
  have inside : ∀ a', headerLine r = p ++ a' → readRecord lim p = .incomplete := by
    intro a' ha
    have hnl : ∀ b ∈ p, b ≠ NL := fun b hb => hprops.1 b (by rw [ha]; simp [hb])
    have hl : p.length ≤ lim := by
      have := congrArg List.length ha; simp only [List.length_append] at this; omega
    have : ¬ p.length > lim := by omega
    simp [readRecord, hpe, scanNl_none p hnl, this]
  rcases List.append_eq_append_iff.mp hpq with ⟨a', h1, h2⟩ | ⟨a', h1, h2⟩
  · -- p = headerLine ++ a'
    cases a' with
    | nil => exact inside [] (by simpa using h1.symm)
    | cons b a'' =>
      simp only [List.cons_append, List.cons.injEq] at h2
      obtain ⟨hb, hpay⟩ := h2
      subst hb
      have hscan : scanNl p = some (headerLine r, a'') := by
        rw [h1]; exact scanNl_append _ _ hprops.1
      have hany : (headerLine r).any (fun b => decide (b.toNat ≥ 128)) = false := by
        rw [List.any_eq_false]
        intro b hb; have := hprops.2 b hb; simp; omega
      have hshort : a''.length < r.payload.length := by
        have := congrArg List.length hpay
        simp only [List.length_append] at this
        have : 0 < q.length := List.length_pos_iff.mpr hq
        omega
      have h1' : ¬ (headerLine r).length > lim := by omega
      unfold readRecord
      simp only [hpe, hscan, hany, splitWs_headerLine r hid, parseDec_toDec]
      simp [h1', hshort]
  · -- headerLine = p ++ a'
    exact inside a' h1

theorem scanNl_mono {bs h rest : Bytes} (x : Bytes) (hs : scanNl bs = some (h, rest)) :
    scanNl (bs ++ x) = some (h, rest ++ x) := by
  induction bs generalizing h rest with
  | nil => simp [scanNl] at hs
  | cons b bs ih =>
    simp only [scanNl, List.cons_append] at hs ⊢
    split at hs
    · simp only [Option.some.injEq, Prod.mk.injEq] at hs
      rename_i hb
      simp [hb, hs.1.symm, hs.2.symm]
    · rename_i hb
      cases hsc : scanNl bs with
      | none => simp [hsc] at hs
      | some p =>
        obtain ⟨h0, r0⟩ := p
        simp only [hsc, Option.some.injEq, Prod.mk.injEq] at hs
        simp [hb, ih hsc, hs.1.symm, hs.2.symm]

/-- Once a record can be read from the bytes received so far, the same record is read from any
    extension of them, and exactly the extension is appended to what is left: a reader that waits
    while the read is incomplete returns the same records whatever the chunk boundaries are. -/
theorem readRecord_mono (lim : Nat) {bs rest : Bytes} {r : Rec} (x : Bytes)
    (h : readRecord lim bs = .ok r rest) : readRecord lim (bs ++ x) = .ok r (rest ++ x) := by
  unfold readRecord at h ⊢
  split at h
  · simp at h
  · rename_i hne
    have hne' : ¬ (bs ++ x).isEmpty = true := by
      cases bs with
      | nil => simp at hne
      | cons b bs => simp
    simp only [hne']
    cases hsc : scanNl bs with
    | none =>
      rw [hsc] at h
      simp only at h
      split at h <;> simp at h
    | some p =>
      obtain ⟨hd, r0⟩ := p
      rw [hsc] at h
      rw [scanNl_mono x hsc]
      simp only at h ⊢
      split at h
      · simp at h
      · rename_i hlim
        simp only [hlim, if_false]
        split at h
        · simp at h
        · rename_i hany
          simp only [hany]
          split at h
          · rename_i rid nb e hsplit
            cases hn : parseDec nb with
            | none => simp [hn] at h
            | some n =>
              simp only [hn] at h
              by_cases hlen : r0.length < n
              · simp [hlen] at h
              · simp only [hlen, if_false] at h
                cases henc : parseEnc e with
                | none => simp [henc] at h
                | some enc =>
                  simp only [henc, RR.ok.injEq] at h
                  have hle : n ≤ r0.length := by omega
                  have hlen' : ¬ (r0 ++ x).length < n := by simp; omega
                  simp only [Bool.false_eq_true, if_false, hlen', RR.ok.injEq,
                    List.take_append_of_le_length hle, List.drop_append_of_le_length hle]
                  exact ⟨h.1, by rw [h.2]⟩
          · simp at h

end Frame
