import MpsVerif.Proofs.Frame
/-! Chunk independence of the record reader: `readChunks lim chunks = decodeStream lim chunks.flatten`. -/
namespace Frame

theorem scanNl_length {bs h rest : Bytes} (hs : scanNl bs = some (h, rest)) :
    bs.length = h.length + 1 + rest.length := by
  induction bs generalizing h rest with
  | nil => simp [scanNl] at hs
  | cons b bs ih =>
    simp only [scanNl] at hs
    split at hs
    · simp only [Option.some.injEq, Prod.mk.injEq] at hs
      rw [← hs.1, ← hs.2]; simp; omega
    · cases hsc : scanNl bs with
      | none => simp [hsc] at hs
      | some p =>
        obtain ⟨h0, r0⟩ := p
        simp only [hsc, Option.some.injEq, Prod.mk.injEq] at hs
        have := ih hsc
        rw [← hs.1, ← hs.2]; simp only [List.length_cons]; omega

/-- what `readRecord` returns is determined by these facts (inversion of the definition) -/
theorem readRecord_ok_inv {lim : Nat} {bs rest : Bytes} {r : Rec} (h : readRecord lim bs = .ok r rest) :
    ∃ hd r0 n, scanNl bs = some (hd, r0) ∧ n ≤ r0.length ∧ rest = r0.drop n := by
  unfold readRecord at h
  split at h
  · simp at h
  · cases hsc : scanNl bs with
    | none => rw [hsc] at h; simp only at h; split at h <;> simp at h
    | some p =>
      obtain ⟨hd, r0⟩ := p
      rw [hsc] at h
      simp only at h
      split at h
      · simp at h
      · split at h
        · simp at h
        · split at h
          · rename_i rid nb e hsplit
            cases hn : parseDec nb with
            | none => simp [hn] at h
            | some n =>
              simp only [hn] at h
              by_cases hlen : r0.length < n
              · simp [hlen] at h
              · simp only [hlen, if_false] at h
                cases henc : parseEnc e with
                | none => simp [henc] at h
                | some enc =>
                  simp only [henc, RR.ok.injEq] at h
                  exact ⟨hd, r0, n, rfl, by omega, h.2.symm⟩
          · simp at h

theorem readRecord_ok_length {lim : Nat} {bs rest : Bytes} {r : Rec} (h : readRecord lim bs = .ok r rest) :
    rest.length < bs.length := by
  obtain ⟨hd, r0, n, hsc, _, hrest⟩ := readRecord_ok_inv h
  have := scanNl_length hsc
  rw [hrest, List.length_drop]; omega

theorem readRecord_nil (lim : Nat) : readRecord lim [] = .eof := by simp [readRecord]

theorem readRecord_eof {lim : Nat} {bs : Bytes} (h : readRecord lim bs = .eof) : bs = [] := by
  cases bs with
  | nil => rfl
  | cons b bs =>
    exfalso
    unfold readRecord at h
    simp only [List.isEmpty_cons, Bool.false_eq_true, if_false] at h
    repeat' split at h
    all_goals simp at h

theorem readRecord_incomplete_ne {lim : Nat} {bs : Bytes} (h : readRecord lim bs = .incomplete) : bs ≠ [] := by
  intro e; subst e; rw [readRecord_nil] at h; cases h

/-- a malformed header stays malformed when more data arrives -/
theorem readRecord_bad_mono (lim : Nat) {bs : Bytes} (x : Bytes) (h : readRecord lim bs = .bad) :
    readRecord lim (bs ++ x) = .bad := by
  unfold readRecord at h ⊢
  split at h
  · simp at h
  · rename_i hne
    have hne' : ¬ (bs ++ x).isEmpty = true := by
      cases bs with
      | nil => simp at hne
      | cons b bs => simp
    simp only [hne']
    cases hsc : scanNl bs with
    | none => rw [hsc] at h; simp only at h; split at h <;> simp at h
    | some p =>
      obtain ⟨hd, r0⟩ := p
      rw [hsc] at h
      rw [scanNl_mono x hsc]
      simp only at h ⊢
      split at h
      · simp at h
      · rename_i hlim
        simp only [hlim, if_false]
        split at h
        · rename_i hany; simp [hany]
        · rename_i hany
          simp only [hany]
          split at h
          · rename_i rid nb e hsplit
            cases hn : parseDec nb with
            | none => simp
            | some n =>
              simp only [hn] at h
              by_cases hlen : r0.length < n
              · simp [hlen] at h
              · simp only [hlen, if_false] at h
                have hlen' : ¬ (r0 ++ x).length < n := by simp; omega
                cases henc : parseEnc e with
                | none => simp; omega
                | some enc => simp [henc] at h
          · simp

theorem scanNl_none_append {bs x : Bytes} (h : scanNl bs = none) :
    scanNl (bs ++ x) = match scanNl x with
      | some (hd, r) => some (bs ++ hd, r)
      | none => none := by
  induction bs with
  | nil => simp; cases scanNl x with
    | none => rfl
    | some p => rfl
  | cons b bs ih =>
    simp only [scanNl] at h
    split at h
    · simp at h
    · rename_i hb
      cases hsc : scanNl bs with
      | some p => simp [hsc] at h
      | none =>
        have := ih hsc
        simp only [List.cons_append, scanNl, hb, if_false, this]
        cases scanNl x with
        | none => rfl
        | some p => rfl

/-- a header line longer than the reader's limit stays an overrun when more data arrives -/
theorem readRecord_overrun_mono (lim : Nat) {bs : Bytes} (x : Bytes) (h : readRecord lim bs = .overrun) :
    readRecord lim (bs ++ x) = .overrun := by
  unfold readRecord at h ⊢
  split at h
  · simp at h
  · rename_i hne
    have hne' : ¬ (bs ++ x).isEmpty = true := by
      cases bs with
      | nil => simp at hne
      | cons b bs => simp
    simp only [hne']
    cases hsc : scanNl bs with
    | none =>
      rw [hsc] at h
      simp only at h
      split at h
      · rename_i hlen
        rw [scanNl_none_append hsc]
        cases hx : scanNl x with
        | none => simp; omega
        | some p =>
          obtain ⟨hd, r⟩ := p
          have : (bs ++ hd).length > lim := by simp; omega
          simp only [if_pos this]
          simp
      · simp at h
    | some p =>
      obtain ⟨hd, r0⟩ := p
      rw [hsc] at h
      rw [scanNl_mono x hsc]
      simp only at h ⊢
      split at h
      · rename_i hlim; simp [hlim]
      · repeat' split at h
        all_goals simp at h

/-! ### fuel -/

theorem drainFuel_fuel (lim : Nat) : ∀ (f1 f2 : Nat) (bs : Bytes), bs.length < f1 → bs.length < f2 →
    drainFuel lim f1 bs = drainFuel lim f2 bs := by
  intro f1
  induction f1 with
  | zero => intro f2 bs h; omega
  | succ f1 ih =>
    intro f2 bs h1 h2
    cases f2 with
    | zero => omega
    | succ f2 =>
      simp only [drainFuel]
      cases hr : readRecord lim bs with
      | ok r rest =>
        have := readRecord_ok_length hr
        simp only
        rw [ih f2 rest (by omega) (by omega)]
      | eof => rfl
      | incomplete => rfl
      | overrun => rfl
      | bad => rfl

/-- the ending a drained reader reports at end of stream -/
def fin (p : List Rec × Bytes × Option End) : List Rec × End :=
  (p.1, match p.2.2 with
    | some e => e
    | none => if p.2.1.isEmpty then .eof else .incomplete)

theorem decodeFuel_eq_drain (lim : Nat) : ∀ (f : Nat) (bs : Bytes), bs.length < f →
    decodeFuel lim f bs = fin (drainFuel lim f bs) := by
  intro f
  induction f with
  | zero => intro bs h; omega
  | succ f ih =>
    intro bs h
    simp only [decodeFuel, drainFuel]
    cases hr : readRecord lim bs with
    | ok r rest =>
      have := readRecord_ok_length hr
      simp only
      rw [ih rest (by omega)]
      simp [fin]
    | eof => simp [fin, readRecord_eof hr]
    | incomplete =>
      have := readRecord_incomplete_ne hr
      cases bs with
      | nil => exact absurd rfl this
      | cons b bs => simp [fin]
    | overrun => simp [fin]
    | bad => simp [fin]

/-- draining a prefix first and the rest later is draining everything at once -/
theorem drainFuel_append (lim : Nat) : ∀ (f : Nat) (bs x : Bytes) (f' f'' : Nat), bs.length < f →
    (bs ++ x).length < f' → ((drainFuel lim f bs).2.1 ++ x).length < f'' →
    drainFuel lim f' (bs ++ x) =
      match (drainFuel lim f bs).2.2 with
      | some e => ((drainFuel lim f bs).1, (drainFuel lim f bs).2.1 ++ x, some e)
      | none =>
        ((drainFuel lim f bs).1 ++ (drainFuel lim f'' ((drainFuel lim f bs).2.1 ++ x)).1,
         (drainFuel lim f'' ((drainFuel lim f bs).2.1 ++ x)).2.1,
         (drainFuel lim f'' ((drainFuel lim f bs).2.1 ++ x)).2.2) := by
  intro f
  induction f with
  | zero => intro bs x f' f'' h; omega
  | succ f ih =>
    intro bs x f' f'' h h' h''
    cases f' with
    | zero => omega
    | succ f' =>
      cases hr : readRecord lim bs with
      | ok r rest =>
        have hl := readRecord_ok_length hr
        have hm := readRecord_mono lim x hr
        have hlx : (rest ++ x).length < (bs ++ x).length := by simp only [List.length_append]; omega
        simp only [drainFuel, hr] at h''
        have := ih rest x f' f'' (by omega) (by omega) h''
        simp only [drainFuel, hr, hm, this]
        cases (drainFuel lim f rest).2.2 <;> simp
      | eof =>
        have hb := readRecord_eof hr
        subst hb
        simp only [drainFuel, readRecord_nil, List.nil_append] at h'' ⊢
        exact drainFuel_fuel lim _ _ _ (by simpa using h') h''
      | incomplete =>
        simp only [drainFuel, hr, List.nil_append] at h'' ⊢
        exact drainFuel_fuel lim _ _ _ h' h''
      | overrun =>
        simp only [drainFuel, hr, readRecord_overrun_mono lim x hr]
      | bad =>
        simp only [drainFuel, hr, readRecord_bad_mono lim x hr]

/-- the loop run on everything received so far -/
def drain (lim : Nat) (bs : Bytes) : List Rec × Bytes × Option End := drainFuel lim (bs.length + 1) bs

def Reader.ofDrain (p : List Rec × Bytes × Option End) : Reader := { out := p.1, buf := p.2.1, ended := p.2.2 }

theorem init_eq (lim : Nat) : Reader.init = Reader.ofDrain (drain lim []) := by
  simp [Reader.init, Reader.ofDrain, drain, drainFuel, readRecord_nil]

/-- feeding one more chunk to a reader that has seen `pre` gives the reader that has seen `pre ++ ch` -/
theorem feed_ofDrain (lim : Nat) (pre ch : Bytes) :
    Reader.feed lim (Reader.ofDrain (drain lim pre)) ch = Reader.ofDrain (drain lim (pre ++ ch)) := by
  have happ := drainFuel_append lim (pre.length + 1) pre ch ((pre ++ ch).length + 1)
    (((drainFuel lim (pre.length + 1) pre).2.1 ++ ch).length + 1) (by omega) (by omega) (by omega)
  simp only [Reader.feed, Reader.ofDrain, drain]
  rw [happ]
  cases (drainFuel lim (pre.length + 1) pre).2.2 <;> simp

theorem foldl_feed (lim : Nat) (cs : List Bytes) : ∀ pre : Bytes,
    cs.foldl (Reader.feed lim) (Reader.ofDrain (drain lim pre)) = Reader.ofDrain (drain lim (pre ++ cs.flatten)) := by
  induction cs with
  | nil => intro pre; simp
  | cons ch cs ih =>
    intro pre
    simp only [List.foldl_cons, List.flatten_cons, feed_ofDrain, ih, List.append_assoc]

/-- The records and the ending a reader obtains are the same for every chunking of the stream, and
    they are those of `decodeStream` on the concatenation — for every byte stream, well formed or not. -/
theorem readChunks_eq (lim : Nat) (chunks : List Bytes) :
    readChunks lim chunks = decodeStream lim chunks.flatten := by
  unfold readChunks decodeStream
  rw [init_eq lim, foldl_feed lim chunks [], decodeFuel_eq_drain lim _ _ (by omega)]
  simp only [List.nil_append, Reader.eof, Reader.ofDrain, drain, fin]
  cases (drainFuel lim (chunks.flatten.length + 1) chunks.flatten).2.2 <;> simp

end Frame
