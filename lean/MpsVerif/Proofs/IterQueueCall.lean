import MpsVerif.Model.IterQueue
/-! # One timed call of `ResponsiveQueue`: how it ends -/
namespace IterQueue

theorem nextPoll_bounds (w : Nat) (T : Option Nat) (t : Nat) (hT : ∀ T0, T = some T0 → t ≤ T0) :
    t ≤ nextPoll w T t ∧ nextPoll w T t ≤ t + w ∧ (∀ T0, T = some T0 → nextPoll w T t ≤ T0) := by
  cases T with
  | none => simp [nextPoll]
  | some T0 =>
    have := hT T0 rfl
    simp only [nextPoll]
    refine ⟨by omega, by omega, ?_⟩
    intro T1 h1; cases h1; omega

theorem expired_eq (T : Option Nat) (p : Nat) (h : expired T p = true) (hle : ∀ T0, T = some T0 → p ≤ T0) :
    T = some p := by
  cases T with
  | none => simp [expired] at h
  | some T0 => simp [expired] at h; have := hle T0 rfl; congr; omega

theorem nextPoll_full (w : Nat) (T : Option Nat) (t : Nat) (h : expired T (nextPoll w T t) = false) :
    nextPoll w T t = t + w := by
  cases T with
  | none => rfl
  | some T0 =>
    simp only [expired, nextPoll] at h ⊢
    have := of_decide_eq_false h
    omega

theorem rescued_eq (r : Option Nat) (p : Nat) (h : rescued r p = true) : ∃ r0, r = some r0 ∧ r0 ≤ p := by
  cases r with
  | none => simp [rescued] at h
  | some r0 => simp [rescued] at h; exact ⟨r0, rfl, h⟩

theorem stopSeen_true (s : Option Nat) (tie : Bool) (p : Nat) (h : stopSeen s tie p = true) :
    ∃ s0, s = some s0 ∧ s0 ≤ p := by
  cases s with
  | none => simp [stopSeen] at h
  | some s0 => simp [stopSeen] at h; exact ⟨s0, rfl, by omega⟩

theorem stopSeen_false (s0 : Nat) (tie : Bool) (p : Nat) (h : stopSeen (some s0) tie p = false) : p ≤ s0 := by
  simp [stopSeen] at h; omega

/-- Invariant of the loop: when a bounded wait starts at `t`, the stop request (if any) was not
    visible at `t`, i.e. `t ≤ s0`.  Then whatever way the call ends, it ends by `s0 + w`; it ends with
    `StopRequested` only at a clock in `[s0, s0 + w]`, with `Full/Empty` only at its own timeout, and
    successfully only at `r`. -/
theorem timedCall_spec (w : Nat) (T s : Option Nat) (tie : Bool) (r : Option Nat) :
    ∀ (fuel t : Nat), (∀ s0, s = some s0 → t ≤ s0) → (∀ T0, T = some T0 → t ≤ T0) →
      (∀ u, timedCall w T s tie r fuel t = .stop u → ∃ s0, s = some s0 ∧ s0 ≤ u ∧ u ≤ s0 + w) ∧
      (∀ u, timedCall w T s tie r fuel t = .expire u → T = some u) ∧
      (∀ u, timedCall w T s tie r fuel t = .ok u → r = some u) ∧
      (∀ s0, s = some s0 → timedCall w T s tie r fuel t ≠ .running →
          (timedCall w T s tie r fuel t).time ≤ s0 + w) := by
  intro fuel
  induction fuel with
  | zero => intro t _ _; simp [timedCall]
  | succ fuel ih =>
    intro t hs hT
    obtain ⟨h1, h2, h3⟩ := nextPoll_bounds w T t hT
    simp only [timedCall]
    cases hres : rescued r (nextPoll w T t) with
    | true =>
      obtain ⟨r0, hr0, hle⟩ := rescued_eq r _ hres
      simp only [if_true, hr0, Option.getD_some]
      refine ⟨(by intro u h; cases h), (by intro u h; cases h), (by intro u h; cases h; rfl), ?_⟩
      intro s0 hs0 _; have := hs s0 hs0; simp only [CallEnd.time]; omega
    | false =>
      simp only [Bool.false_eq_true, if_false]
      cases hex : expired T (nextPoll w T t) with
      | true =>
        simp only [if_true]
        refine ⟨(by intro u h; cases h), ?_, (by intro u h; cases h), ?_⟩
        · intro u h; cases h; exact expired_eq T _ hex h3
        · intro s0 hs0 _; have := hs s0 hs0; simp only [CallEnd.time]; omega
      | false =>
        simp only [Bool.false_eq_true, if_false]
        cases hst : stopSeen s tie (nextPoll w T t) with
        | true =>
          simp only [if_true]
          obtain ⟨s0, hs0, hle⟩ := stopSeen_true s tie _ hst
          have := hs s0 hs0
          refine ⟨?_, (by intro u h; cases h), (by intro u h; cases h), ?_⟩
          · intro u h; cases h; exact ⟨s0, hs0, hle, by omega⟩
          · intro s1 hs1 _; rw [hs0] at hs1; cases hs1; simp only [CallEnd.time]; omega
        | false =>
          simp only [Bool.false_eq_true, if_false]
          apply ih
          · intro s0 hs0; rw [hs0] at hst; exact stopSeen_false s0 tie _ hst
          · exact h3

/-- With a stop requested at `s0` the call does not outlive `fuel` waits as soon as
    `s0 + w < t + fuel · w` (`t ≤ s0`: the request was not visible when the wait at `t` began; every wait that does not end the call lasts a full interval). -/
theorem timedCall_ends (w : Nat) (T : Option Nat) (s0 : Nat) (tie : Bool) (r : Option Nat) :
    ∀ (fuel t : Nat), t ≤ s0 → s0 + w < t + fuel * w → timedCall w T (some s0) tie r fuel t ≠ .running := by
  intro fuel
  induction fuel with
  | zero => intro t h0 h; simp at h; omega
  | succ fuel ih =>
    intro t h0 h
    simp only [timedCall]
    cases hres : rescued r (nextPoll w T t) with
    | true => simp
    | false =>
      cases hex : expired T (nextPoll w T t) with
      | true => simp
      | false =>
        cases hst : stopSeen (some s0) tie (nextPoll w T t) with
        | true => simp
        | false =>
          simp only [Bool.false_eq_true, if_false]
          apply ih
          · exact stopSeen_false s0 tie _ hst
          · rw [nextPoll_full w T t hex]
            rw [Nat.succ_mul] at h
            omega

end IterQueue
