import MpsVerif.Proofs.IterQueueStep
/-!
# Counting lemmas for the `IterableQueue` model

All "how many actors are at pc …" quantities are `wsum` of an indicator over the actor list; one
lemma (`wsum_set`) says how such a sum changes when one actor is replaced.
-/
namespace IterQueue

def ind (b : Bool) : Nat := if b then 1 else 0
@[simp] theorem ind_true : ind true = 1 := rfl
@[simp] theorem ind_false : ind false = 0 := rfl
theorem ind_le (b : Bool) : ind b ≤ 1 := by cases b <;> simp

theorem wsum_set {α : Type} (f : α → Nat) : ∀ (l : List α) (j : Nat) (a b : α), l[j]? = some a →
    wsum f (l.set j b) = wsum f l - f a + f b ∧ f a ≤ wsum f l := by
  intro l
  induction l with
  | nil => intro j a b h; simp at h
  | cons x l ih =>
    intro j a b h
    cases j with
    | zero =>
      simp at h; subst h
      simp only [List.set_cons_zero, wsum]
      omega
    | succ j =>
      simp at h
      obtain ⟨h1, h2⟩ := ih j a b h
      simp only [List.set_cons_succ, wsum, h1]
      omega

theorem wsum_replicate {α : Type} (f : α → Nat) (a : α) : ∀ n, wsum f (List.replicate n a) = n * f a := by
  intro n
  induction n with
  | zero => simp [wsum]
  | succ n ih => simp only [List.replicate_succ, wsum, ih]; rw [Nat.succ_mul]; omega

theorem wsum_eq_zero {α : Type} (f : α → Nat) : ∀ (l : List α), (∀ a ∈ l, f a = 0) → wsum f l = 0 := by
  intro l
  induction l with
  | nil => intro _; rfl
  | cons x l ih =>
    intro h
    simp only [wsum, h x (List.mem_cons_self), ih (fun a ha => h a (List.mem_cons_of_mem _ ha))]

theorem wsum_zero_mem {α : Type} (f : α → Nat) : ∀ (l : List α), wsum f l = 0 → ∀ a ∈ l, f a = 0 := by
  intro l
  induction l with
  | nil => intro _ a ha; cases ha
  | cons x l ih =>
    intro h a ha
    simp only [wsum] at h
    rcases List.mem_cons.mp ha with h1 | h1
    · subst h1; omega
    · exact ih (by omega) a h1

def cntC (q : CPc → Bool) (l : List Con) : Nat := wsum (fun a => ind (q a.pc)) l
def cntS (q : SPc → Bool) (l : List Sup) : Nat := wsum (fun a => ind (q a.pc)) l

theorem cntC_set {q : CPc → Bool} {l : List Con} {j : Nat} {a : Con} (h : l[j]? = some a) (b : Con) :
    cntC q (l.set j b) = cntC q l - ind (q a.pc) + ind (q b.pc) := (wsum_set _ l j a b h).1

theorem cntC_ge (q : CPc → Bool) {l : List Con} {j : Nat} {a : Con} (h : l[j]? = some a) :
    ind (q a.pc) ≤ cntC q l := (wsum_set (fun a => ind (q a.pc)) l j a a h).2

theorem cntS_set {q : SPc → Bool} {l : List Sup} {j : Nat} {a : Sup} (h : l[j]? = some a) (b : Sup) :
    cntS q (l.set j b) = cntS q l - ind (q a.pc) + ind (q b.pc) := (wsum_set _ l j a b h).1

theorem cntS_ge (q : SPc → Bool) {l : List Sup} {j : Nat} {a : Sup} (h : l[j]? = some a) :
    ind (q a.pc) ≤ cntS q l := (wsum_set (fun a => ind (q a.pc)) l j a a h).2

theorem cntC_replicate (q : CPc → Bool) (n : Nat) (a : Con) : cntC q (List.replicate n a) = n * ind (q a.pc) :=
  wsum_replicate _ a n

theorem cntS_replicate (q : SPc → Bool) (n : Nat) (a : Sup) : cntS q (List.replicate n a) = n * ind (q a.pc) :=
  wsum_replicate _ a n

theorem cntC_zero_of_all (q : CPc → Bool) (l : List Con) (h : ∀ a ∈ l, q a.pc = false) : cntC q l = 0 :=
  wsum_eq_zero _ l (fun a ha => by simp [h a ha])

theorem cntS_zero_mem (q : SPc → Bool) (l : List Sup) (h : cntS q l = 0) : ∀ a ∈ l, q a.pc = false := by
  intro a ha
  have := wsum_zero_mem _ l h a ha
  cases hq : q a.pc <;> simp [hq] at this ⊢

theorem cntC_zero_mem (q : CPc → Bool) (l : List Con) (h : cntC q l = 0) : ∀ a ∈ l, q a.pc = false := by
  intro a ha
  have := wsum_zero_mem _ l h a ha
  cases hq : q a.pc <;> simp [hq] at this ⊢

-- ---------------------------------------------------------------- pc classes
namespace CPc
@[simp] def isChk2 : CPc → Bool | .chk2 => true | _ => false
@[simp] def isReput : CPc → Bool | .reput => true | _ => false
@[simp] def isLock : CPc → Bool | .lock => true | _ => false
@[simp] def isTake : CPc → Bool | .take => true | _ => false
@[simp] def isGive : CPc → Bool | .give => true | _ => false
@[simp] def isTest : CPc → Bool | .test => true | _ => false
@[simp] def isUnlT : CPc → Bool | .unl true => true | _ => false
@[simp] def isUnlF : CPc → Bool | .unl false => true | _ => false
@[simp] def isExtra : CPc → Bool | .extra => true | _ => false
@[simp] def isDone : CPc → Bool | .done => true | _ => false
@[simp] def isGet : CPc → Bool | .get => true | _ => false
@[simp] def isChk1 : CPc → Bool | .chk1 => true | _ => false
@[simp] def isStopped : CPc → Bool | .stopped => true | _ => false
end CPc

namespace SPc
/-- the supplier's token is still in `spare` -/
@[simp] def notStarted : SPc → Bool | .idle | .putw _ | .stoppedP => true | _ => false
@[simp] def isPe1 : SPc → Bool | .pe1 => true | _ => false
/-- the token is in `applied` (or beyond) but the marker has not been enqueued -/
@[simp] def noMark : SPc → Bool | .pe2 | .stoppedE => true | _ => false
@[simp] def isEnded : SPc → Bool | .ended => true | _ => false
end SPc

-- ---------------------------------------------------------------- queue contents
theorem itemsOf_append_item (q : List QItem) (i x : Nat) : itemsOf (q ++ [.item i x]) = itemsOf q ++ [(i, x)] := by
  induction q with
  | nil => rfl
  | cons a q ih => cases a <;> simp [itemsOf, ih]

theorem itemsOf_append_mark (q : List QItem) : itemsOf (q ++ [.mark]) = itemsOf q := by
  induction q with
  | nil => rfl
  | cons a q ih => cases a <;> simp [itemsOf, ih]

theorem marksOf_append_item (q : List QItem) (i x : Nat) : marksOf (q ++ [.item i x]) = marksOf q := by
  induction q with
  | nil => rfl
  | cons a q ih => cases a <;> simp [marksOf, ih]

theorem marksOf_append_mark (q : List QItem) : marksOf (q ++ [.mark]) = marksOf q + 1 := by
  induction q with
  | nil => rfl
  | cons a q ih => cases a <;> simp [marksOf, ih]

theorem length_eq_items_marks (q : List QItem) : q.length = (itemsOf q).length + marksOf q := by
  induction q with
  | nil => rfl
  | cons a q ih => cases a <;> simp [itemsOf, marksOf, ih] <;> omega

/-- every value in the queue whose supplier has ended has an end marker behind it -/
def fifoOk (e : Nat → Bool) : List QItem → Bool
  | [] => true
  | .item i _ :: q => (!e i || decide (1 ≤ marksOf q)) && fifoOk e q
  | .mark :: q => fifoOk e q

theorem fifoOk_append_mark (e : Nat → Bool) (q : List QItem) : fifoOk e (q ++ [.mark]) = true := by
  induction q with
  | nil => rfl
  | cons a q ih =>
    cases a with
    | mark => simpa [fifoOk] using ih
    | item i x =>
      simp only [List.cons_append, fifoOk, ih, Bool.and_true, marksOf_append_mark]
      simp

theorem fifoOk_append_item (e : Nat → Bool) (q : List QItem) (i x : Nat) (h : fifoOk e q = true)
    (hi : e i = false) : fifoOk e (q ++ [.item i x]) = true := by
  induction q with
  | nil => simp [fifoOk, hi]
  | cons a q ih =>
    cases a with
    | mark => simp only [List.cons_append, fifoOk] at h ⊢; exact ih h
    | item i' x' =>
      simp only [List.cons_append, fifoOk, Bool.and_eq_true, marksOf_append_item] at h ⊢
      exact ⟨h.1, ih h.2⟩

theorem fifoOk_mono (e e' : Nat → Bool) (hle : ∀ i, e' i = true → e i = true) (q : List QItem)
    (h : fifoOk e q = true) : fifoOk e' q = true := by
  induction q with
  | nil => rfl
  | cons a q ih =>
    cases a with
    | mark => simp only [fifoOk] at h ⊢; exact ih h
    | item i x =>
      simp only [fifoOk, Bool.and_eq_true, Bool.or_eq_true, Bool.not_eq_true', decide_eq_true_eq] at h ⊢
      refine ⟨?_, ih h.2⟩
      rcases h.1 with h1 | h1
      · left
        cases he : e' i with
        | false => rfl
        | true => rw [hle i he] at h1; cases h1
      · exact Or.inr h1

theorem fifoOk_no_items (e : Nat → Bool) (he : ∀ i, e i = true) (q : List QItem) (h : fifoOk e q = true)
    (hm : marksOf q = 0) : itemsOf q = [] := by
  induction q with
  | nil => rfl
  | cons a q ih =>
    cases a with
    | mark => simp [marksOf] at hm
    | item i x =>
      simp only [marksOf] at hm
      simp [fifoOk, he i, hm] at h

theorem queue_nil_of (q : List QItem) (hi : itemsOf q = []) (hm : marksOf q = 0) : q = [] := by
  have := length_eq_items_marks q
  simp [hi, hm] at this
  exact this

/-- supplier `i` has ended (an index outside the supplier list counts as ended) -/
def endedAt (sups : List Sup) (i : Nat) : Bool :=
  match sups[i]? with
  | some a => a.pc.isEnded
  | none => true

theorem endedAt_set_le (sups : List Sup) (j : Nat) (a b : Sup) (h : sups[j]? = some a)
    (hb : b.pc.isEnded = true → a.pc.isEnded = true) :
    ∀ i, endedAt (sups.set j b) i = true → endedAt sups i = true := by
  intro i hi
  unfold endedAt at hi ⊢
  rw [List.getElem?_set] at hi
  by_cases hji : j = i
  · subst hji
    have hlt : j < sups.length := (List.getElem?_eq_some_iff.mp h).1
    rw [if_pos rfl, if_pos hlt] at hi
    rw [h]
    exact hb hi
  · rw [if_neg hji] at hi; exact hi

theorem endedAt_set_self (sups : List Sup) (j : Nat) (a b : Sup) (h : sups[j]? = some a)
    (hb : b.pc.isEnded = false) : endedAt (sups.set j b) j = false := by
  have hlt : j < sups.length := (List.getElem?_eq_some_iff.mp h).1
  unfold endedAt
  rw [List.getElem?_set, if_pos rfl, if_pos hlt]
  exact hb

theorem wsum_partition4 {α : Type} (f1 f2 f3 f4 : α → Nat) (h : ∀ a, f1 a + f2 a + f3 a + f4 a = 1) :
    ∀ l : List α, wsum f1 l + wsum f2 l + wsum f3 l + wsum f4 l = l.length := by
  intro l
  induction l with
  | nil => rfl
  | cons a l ih =>
    have := h a
    simp only [wsum, List.length_cons]
    omega

theorem cntS_partition (l : List Sup) :
    cntS SPc.notStarted l + cntS SPc.isPe1 l + cntS SPc.noMark l + cntS SPc.isEnded l = l.length := by
  apply wsum_partition4
  intro a
  cases a.pc <;> rfl

theorem exists_of_wsum_pos {α : Type} (f : α → Nat) : ∀ (l : List α), 0 < wsum f l →
    ∃ (j : Nat) (a : α), l[j]? = some a ∧ 0 < f a := by
  intro l
  induction l with
  | nil => intro h; simp [wsum] at h
  | cons x l ih =>
    intro h
    simp only [wsum] at h
    by_cases hx : 0 < f x
    · exact ⟨0, x, by simp, hx⟩
    · obtain ⟨j, a, hj, ha⟩ := ih (by omega)
      exact ⟨j + 1, a, by simpa using hj, ha⟩

theorem exists_of_cntC_pos (q : CPc → Bool) (l : List Con) (h : 0 < cntC q l) :
    ∃ (j : Nat) (a : Con), l[j]? = some a ∧ q a.pc = true := by
  obtain ⟨j, a, hj, ha⟩ := exists_of_wsum_pos _ l h
  refine ⟨j, a, hj, ?_⟩
  cases hq : q a.pc <;> simp [hq] at ha ⊢

theorem mem_of_getElem? {α : Type} {l : List α} {j : Nat} {a : α} (h : l[j]? = some a) : a ∈ l :=
  List.mem_iff_getElem?.mpr ⟨j, h⟩

end IterQueue
