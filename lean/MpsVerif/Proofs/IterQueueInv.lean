import MpsVerif.Proofs.IterQueueCount
/-!
# The inductive invariant of the `IterableQueue` model (token conservation, one extra marker,
FIFO completeness, exactly-once logs)
-/
namespace IterQueue

structure Inv (c : Cfg) (s : State) : Prop where
  lenS : s.sups.length = c.m
  lenC : s.cons.length = c.n
  /-- token conservation -/
  tok : s.spare + cntS SPc.isPe1 s.sups + s.applied + cntC CPc.isGive s.cons + s.used = c.m
  spareEq : s.spare = cntS SPc.notStarted s.sups
  /-- every marker (in the queue or in a consumer's hand) is backed by an applied token, except the
      one extra marker -/
  mkr : marksOf s.queue + (cntC CPc.isChk2 s.cons + cntC CPc.isReput s.cons + cntC CPc.isLock s.cons
        + cntC CPc.isTake s.cons) + cntS SPc.noMark s.sups = s.applied + ind s.extraOut
  mutex : cntC CPc.isTake s.cons + cntC CPc.isGive s.cons + cntC CPc.isTest s.cons + cntC CPc.isUnlT s.cons
        + cntC CPc.isUnlF s.cons = ind s.lock
  wLt : s.used < c.m → ind s.extraOut + cntC CPc.isUnlT s.cons + cntC CPc.isExtra s.cons
        + cntC CPc.isReput s.cons + cntC CPc.isDone s.cons = 0
  /-- once the token set is complete there is exactly one "winner": about to read `full()` under the
      lock, about to add the extra marker, or having added it -/
  wEq : c.m ≤ s.used → ind s.extraOut + cntC CPc.isUnlT s.cons + cntC CPc.isExtra s.cons
        + cntC CPc.isTest s.cons = 1
  fifo : fifoOk (endedAt s.sups) s.queue = true
  noItems : c.m ≤ s.used → itemsOf s.queue = []
  rn : s.rpc = .get → c.m ≤ s.used ∧ ∀ a ∈ s.cons, a.pc = .done
  rf : s.rpc ≠ .failed
  perm : (s.putLog.map Prod.snd).Perm (s.gotLog.map Prod.snd ++ (itemsOf s.queue).map Prod.snd)
  hist : ∀ pg ∈ s.hist, (pg.1.map Prod.snd).Perm (pg.2.map Prod.snd)
  /-- a complete token set means every supplier's marker has been enqueued -/
  nme : c.m ≤ s.used → cntS SPc.noMark s.sups = 0
  /-- nobody is on the way to the token hand-over once the token set is complete -/
  lkT : c.m ≤ s.used → cntC CPc.isLock s.cons + cntC CPc.isTake s.cons = 0

/-- all `≥` facts about the consumer counts that follow from "consumer `j` is `a`" -/
macro "cfacts" h:ident : tactic => `(tactic| (
  have := cntC_ge CPc.isChk2 $h; have := cntC_ge CPc.isReput $h; have := cntC_ge CPc.isLock $h
  have := cntC_ge CPc.isTake $h; have := cntC_ge CPc.isGive $h; have := cntC_ge CPc.isTest $h
  have := cntC_ge CPc.isUnlT $h; have := cntC_ge CPc.isUnlF $h; have := cntC_ge CPc.isExtra $h
  have := cntC_ge CPc.isDone $h))

macro "sfacts" h:ident : tactic => `(tactic| (
  have := cntS_ge SPc.isPe1 $h; have := cntS_ge SPc.notStarted $h; have := cntS_ge SPc.noMark $h))

/-- numeric part of a step of consumer `j` (`h : s.cons[j]? = some a`, `hpc : a.pc = …`); the
    `rn` clause is discharged with `hnr : s.rpc ≠ .get` -/
macro "cfin" h:ident hpc:ident hnr:ident : tactic => `(tactic| (
  refine ⟨?_, ?_, ?_, ?_, ?_, ?_, ?_, ?_, ?_, ?_, ?_, ?_, ?_, ?_, ?_, ?_⟩ <;>
    simp only [cntC_set $h, List.length_set, marksOf_append_mark, itemsOf_append_mark] <;>
    simp only [$hpc:ident, CPc.isChk2, CPc.isReput, CPc.isLock, CPc.isTake, CPc.isGive, CPc.isTest,
      CPc.isUnlT, CPc.isUnlF, CPc.isExtra, CPc.isDone, ind_true, ind_false, usedFull,
      decide_eq_true_eq, decide_eq_false_iff_not, Nat.not_le, marksOf, itemsOf, fifoOk] at * <;>
    first | assumption | omega | (intro hr; exact absurd hr $hnr) | (intro _; omega) | skip))

macro "sfin" h:ident hpc:ident : tactic => `(tactic| (
  refine ⟨?_, ?_, ?_, ?_, ?_, ?_, ?_, ?_, ?_, ?_, ?_, ?_, ?_, ?_, ?_, ?_⟩ <;>
    simp only [cntS_set $h, List.length_set, marksOf_append_mark, itemsOf_append_mark,
      marksOf_append_item, itemsOf_append_item] <;>
    simp only [$hpc:ident, SPc.isPe1, SPc.notStarted, SPc.noMark, ind_true, ind_false, usedFull,
      decide_eq_true_eq, decide_eq_false_iff_not, Nat.not_le] at * <;>
    first | assumption | omega | (intro _; omega) | skip))

theorem fifo_set {sups : List Sup} {i : Nat} {a : Sup} (b : Sup) {q : List QItem}
    (h : sups[i]? = some a) (hb : b.pc.isEnded = true → a.pc.isEnded = true)
    (hf : fifoOk (endedAt sups) q = true) : fifoOk (endedAt (sups.set i b)) q = true :=
  fifoOk_mono _ _ (endedAt_set_le sups i a b h hb) q hf

theorem room_of_empty (c : Cfg) (s : State) (h : s.queue = []) : room c s = true := by
  simp only [room, h, List.length_nil, Bool.or_eq_true, beq_iff_eq, decide_eq_true_eq]
  omega

set_option maxHeartbeats 1000000 in
theorem inv_step (c : Cfg) (hm : 1 ≤ c.m) (hn : 1 ≤ c.n) (s s' : State) (a : Act)
    (hi : Inv c s) (hs : Step c s a s') : Inv c s' := by
  obtain ⟨lenS, lenC, tok, spareEq, mkr, mutex, wLt, wEq, fifo, noItems, rn, rf, perm, hist, nme, lkT⟩ := hi
  have hlock := ind_le s.lock
  have hE := ind_le s.extraOut
  cases hs with
  -- ------------------------------------------------------------ suppliers
  | sPutBeg i x a h hpc =>
    sfacts h
    sfin h hpc
    exact fifo_set _ h (by simp) fifo
  | sPut i x a h hpc hroom =>
    sfacts h
    sfin h hpc
    · exact fifoOk_append_item _ _ _ _ (fifo_set _ h (by simp) fifo) (endedAt_set_self _ _ _ _ h (by simp))
    · simp only [List.map_append, List.map_cons, List.map_nil]
      have := perm.append_right [x]
      simpa [List.append_assoc] using this
  | sEndBeg i a h hpc hsp =>
    sfacts h
    sfin h hpc
    exact fifo_set _ h (by simp) fifo
  | sApply i a h hpc hap =>
    sfacts h
    sfin h hpc
    exact fifo_set _ h (by simp) fifo
  | sMark i a h hpc hroom =>
    sfacts h
    sfin h hpc
    exact fifoOk_append_mark _ _
  | sRetry i a h hw hroom hdue hstop =>
    sfacts h
    refine ⟨?_, ?_, ?_, ?_, ?_, ?_, ?_, ?_, ?_, ?_, ?_, ?_, ?_, ?_, ?_, ?_⟩ <;>
      simp only [cntS_set h, List.length_set] <;> first | assumption | omega | skip
    exact fifo_set _ h (by simp) fifo
  | sStop i a h hw hroom hdue hstop =>
    sfacts h
    cases hpc : a.pc <;> simp [SPc.waiting, hpc] at hw
    · have hf2 := fifo_set { a with pc := SPc.stoppedP } h (by simp) fifo
      simp only [reduceCtorEq, if_false]
      sfin h hpc
    · have hf2 := fifo_set { a with pc := SPc.stoppedE } h (by simp) fifo
      simp only [if_true]
      sfin h hpc
  -- ------------------------------------------------------------ consumers
  | cChk1Full j a h hpc hf =>
    cfacts h
    have hnr : s.rpc ≠ .get := by
      intro hr; have := (rn hr).2 a (mem_of_getElem? h); simp [hpc] at this
    cfin h hpc hnr
  | cChk1Go j a h hpc hf =>
    cfacts h
    have hnr : s.rpc ≠ .get := by
      intro hr; have := (rn hr).2 a (mem_of_getElem? h); simp [hpc] at this
    cfin h hpc hnr
  | cGetItem j i x rest a h hpc hq =>
    cfacts h
    have hnr : s.rpc ≠ .get := by
      intro hr; have := (rn hr).2 a (mem_of_getElem? h); simp [hpc] at this
    rw [hq] at mkr fifo noItems perm
    cfin h hpc hnr
    · simp only [Bool.and_eq_true] at fifo; exact fifo.2
    · intro hu; have := noItems hu; simp at this
    · simpa [List.append_assoc] using perm
  | cGetMark j rest a h hpc hq =>
    cfacts h
    have hnr : s.rpc ≠ .get := by
      intro hr; have := (rn hr).2 a (mem_of_getElem? h); simp [hpc] at this
    rw [hq] at mkr fifo noItems perm
    cfin h hpc hnr
  | cChk2Full j a h hpc hf =>
    cfacts h
    have hnr : s.rpc ≠ .get := by
      intro hr; have := (rn hr).2 a (mem_of_getElem? h); simp [hpc] at this
    cfin h hpc hnr
  | cChk2Go j a h hpc hf =>
    cfacts h
    have hnr : s.rpc ≠ .get := by
      intro hr; have := (rn hr).2 a (mem_of_getElem? h); simp [hpc] at this
    cfin h hpc hnr
  | cReput j a h hpc hroom =>
    cfacts h
    have hnr : s.rpc ≠ .get := by
      intro hr; have := (rn hr).2 a (mem_of_getElem? h); simp [hpc] at this
    cfin h hpc hnr
    exact fifoOk_append_mark _ _
  | cLock j a h hpc hl =>
    cfacts h
    have hnr : s.rpc ≠ .get := by
      intro hr; have := (rn hr).2 a (mem_of_getElem? h); simp [hpc] at this
    simp only [hl, ind_false] at mutex
    cfin h hpc hnr
  | cTake j a h hpc hap =>
    cfacts h
    have hnr : s.rpc ≠ .get := by
      intro hr; have := (rn hr).2 a (mem_of_getElem? h); simp [hpc] at this
    cfin h hpc hnr
  | cGive j a h hpc hu =>
    cfacts h
    have hnr : s.rpc ≠ .get := by
      intro hr; have := (rn hr).2 a (mem_of_getElem? h); simp [hpc] at this
    have hni : c.m ≤ s.used + 1 → itemsOf s.queue = [] := by
      intro hu2
      have e1 : cntS SPc.notStarted s.sups = 0 := by
        simp only [hpc, CPc.isGive, ind_true] at *; omega
      have e2 : cntS SPc.isPe1 s.sups = 0 := by
        simp only [hpc, CPc.isGive, ind_true] at *; omega
      have e3 : cntS SPc.noMark s.sups = 0 := by
        have := wLt hu
        simp only [hpc, CPc.isGive, ind_true] at *; omega
      have e4 : marksOf s.queue = 0 := by
        have := wLt hu
        simp only [hpc, CPc.isGive, ind_true] at *; omega
      apply fifoOk_no_items _ _ _ fifo e4
      intro i
      unfold endedAt
      cases hi : s.sups[i]? with
      | none => rfl
      | some b =>
        have m1 := cntS_zero_mem _ _ e1 b (mem_of_getElem? hi)
        have m2 := cntS_zero_mem _ _ e2 b (mem_of_getElem? hi)
        have m3 := cntS_zero_mem _ _ e3 b (mem_of_getElem? hi)
        cases hb : b.pc <;> simp [hb] at m1 m2 m3 ⊢
    have hnm : c.m ≤ s.used + 1 → cntS SPc.noMark s.sups = 0 := by
      intro hu2
      have := wLt hu
      simp only [hpc, CPc.isGive, ind_true] at *; omega
    cfin h hpc hnr
  | cTest j a h hpc =>
    cfacts h
    have hnr : s.rpc ≠ .get := by
      intro hr; have := (rn hr).2 a (mem_of_getElem? h); simp [hpc] at this
    cases hf : usedFull c s
    · cfin h hpc hnr
    · cfin h hpc hnr
  | cUnlockLast j a h hpc =>
    cfacts h
    have hnr : s.rpc ≠ .get := by
      intro hr; have := (rn hr).2 a (mem_of_getElem? h); simp [hpc] at this
    cfin h hpc hnr
  | cUnlockGo j a h hpc =>
    cfacts h
    have hnr : s.rpc ≠ .get := by
      intro hr; have := (rn hr).2 a (mem_of_getElem? h); simp [hpc] at this
    cfin h hpc hnr
  | cExtra j a h hpc hroom =>
    cfacts h
    have hnr : s.rpc ≠ .get := by
      intro hr; have := (rn hr).2 a (mem_of_getElem? h); simp [hpc] at this
    have hE0 : s.extraOut = false := by
      cases hx : s.extraOut with
      | false => rfl
      | true =>
        exfalso
        simp only [hx, hpc, CPc.isExtra, ind_true] at *
        omega
    simp only [hE0, ind_false] at *
    cfin h hpc hnr
    exact fifoOk_append_mark _ _
  | cRetry j a h hw hb hdue hstop =>
    cfacts h
    have hnr : s.rpc ≠ .get := by
      intro hr; have := (rn hr).2 a (mem_of_getElem? h); rw [this] at hw; simp [CPc.waiting] at hw
    refine ⟨?_, ?_, ?_, ?_, ?_, ?_, ?_, ?_, ?_, ?_, ?_, ?_, ?_, ?_, ?_, ?_⟩ <;>
      simp only [cntC_set h, List.length_set] <;>
      first | assumption | omega | (intro hr; exact absurd hr hnr) | skip
  | cStop j a h hw hb hdue hstop =>
    cfacts h
    have hnr : s.rpc ≠ .get := by
      intro hr; have := (rn hr).2 a (mem_of_getElem? h); rw [this] at hw; simp [CPc.waiting] at hw
    -- a consumer inside `put(None)` is never blocked: the queue is empty at that moment
    have hempty : (a.pc = .reput ∨ a.pc = .extra) → s.queue = [] := by
      intro hp
      have hu : c.m ≤ s.used := by
        rcases hp with hp | hp <;> simp only [hp, CPc.isReput, CPc.isExtra, ind_true] at * <;> omega
      have := wEq hu
      apply queue_nil_of _ (noItems hu)
      rcases hp with hp | hp <;> simp only [hp, CPc.isReput, CPc.isExtra, CPc.isChk2, CPc.isLock,
        CPc.isTake, ind_true, ind_false] at * <;> omega
    cases hpc : a.pc <;> simp [CPc.waiting, hpc] at hw
    · cfin h hpc hnr
    · have := room_of_empty c s (hempty (Or.inl hpc)); simp [cBlocked, hpc, this] at hb
    · have := room_of_empty c s (hempty (Or.inr hpc)); simp [cBlocked, hpc, this] at hb
  -- ------------------------------------------------------------ renew
  | rStartOk hr hall hf =>
    refine ⟨lenS, lenC, tok, spareEq, mkr, mutex, wLt, wEq, fifo, noItems, ?_, ?_, perm, hist, nme, lkT⟩
    · intro _; exact ⟨by simpa [usedFull] using hf, hall⟩
    · simp
  | rStartFail hr hall hf =>
    exfalso
    cases hc : s.cons with
    | nil => simp [hc] at lenC; omega
    | cons b l =>
      have hb : s.cons[0]? = some b := by simp [hc]
      have hd := hall b (mem_of_getElem? hb)
      have := cntC_ge CPc.isDone hb
      simp only [usedFull, decide_eq_false_iff_not, Nat.not_le] at hf
      have := wLt hf
      simp only [hd, CPc.isDone, ind_true] at *
      omega
  | rGetMark rest hr hq hu =>
    obtain ⟨hu2, hall⟩ := rn hr
    have z : ∀ q : CPc → Bool, q .done = false → cntC q s.cons = 0 := by
      intro q hq2
      exact cntC_zero_of_all q _ (fun a ha => by rw [hall a ha]; exact hq2)
    have z1 := z CPc.isChk2 rfl; have z2 := z CPc.isReput rfl; have z3 := z CPc.isLock rfl
    have z4 := z CPc.isTake rfl; have z5 := z CPc.isGive rfl; have z6 := z CPc.isTest rfl
    have z7 := z CPc.isUnlT rfl; have z8 := z CPc.isUnlF rfl; have z9 := z CPc.isExtra rfl
    have hni := noItems hu2
    rw [hq] at mkr hni
    simp only [marksOf, itemsOf] at mkr hni
    have hrest : rest = [] := queue_nil_of rest hni (by omega)
    have hlk : s.lock = false := by
      cases hl : s.lock with
      | false => rfl
      | true => simp only [hl, ind_true] at mutex; omega
    refine ⟨?_, ?_, ?_, ?_, ?_, ?_, ?_, ?_, ?_, ?_, ?_, ?_, ?_, ?_, ?_, ?_⟩ <;>
      simp only [cntC_replicate, cntS_replicate, freshCon, freshSup, List.length_replicate, hrest, hlk,
        CPc.isChk2, CPc.isReput, CPc.isLock, CPc.isTake, CPc.isGive, CPc.isTest, CPc.isUnlT, CPc.isUnlF,
        CPc.isExtra, CPc.isDone, SPc.isPe1, SPc.notStarted, SPc.noMark, ind_true, ind_false, marksOf,
        itemsOf, fifoOk, Nat.mul_zero, Nat.mul_one, List.map_nil, List.append_nil] <;>
      first | omega | (intro _; omega) | trivial | (intro _; trivial) | skip
    · intro pg hpg
      rcases List.mem_append.mp hpg with h1 | h1
      · exact hist pg h1
      · simp at h1; subst h1
        rw [hq] at perm
        simpa [itemsOf, hrest] using perm
  | rGetItem i x rest hr hq =>
    exfalso
    have := noItems (rn hr).1
    rw [hq] at this; simp [itemsOf] at this
  | rRetry hr hq hdue hstop =>
    exact ⟨lenS, lenC, tok, spareEq, mkr, mutex, wLt, wEq, fifo, noItems, rn, rf, perm, hist, nme, lkT⟩
  | rStop hr hq hdue hstop =>
    refine ⟨lenS, lenC, tok, spareEq, mkr, mutex, wLt, wEq, fifo, noItems, ?_, ?_, perm, hist, nme, lkT⟩
    · intro hh; cases hh
    · simp
  | setStop hstop =>
    exact ⟨lenS, lenC, tok, spareEq, mkr, mutex, wLt, wEq, fifo, noItems, rn, rf, perm, hist, nme, lkT⟩
  | tick hnd =>
    exact ⟨lenS, lenC, tok, spareEq, mkr, mutex, wLt, wEq, fifo, noItems, rn, rf, perm, hist, nme, lkT⟩

/-- a consumer inside `put(None)` (handing the marker on, or adding the extra one) finds the queue
    empty, so that `put` never blocks -/
theorem put_none_room (c : Cfg) (s : State) (hi : Inv c s) (j : Nat) (a : Con) (h : s.cons[j]? = some a)
    (hp : a.pc = .reput ∨ a.pc = .extra) : s.queue = [] := by
  obtain ⟨lenS, lenC, tok, spareEq, mkr, mutex, wLt, wEq, fifo, noItems, rn, rf, perm, hist, nme, lkT⟩ := hi
  have hE := ind_le s.extraOut
  cfacts h
  have hu : c.m ≤ s.used := by
    rcases hp with hp | hp <;> simp only [hp, CPc.isReput, CPc.isExtra, ind_true] at * <;> omega
  have := wEq hu
  apply queue_nil_of _ (noItems hu)
  rcases hp with hp | hp <;> simp only [hp, CPc.isReput, CPc.isExtra, CPc.isChk2, CPc.isLock,
    CPc.isTake, ind_true, ind_false] at * <;> omega

/-- what `renew` finds when it takes the marker off the queue -/
theorem renew_facts (c : Cfg) (s : State) (rest : List QItem) (hi : Inv c s) (hr : s.rpc = .get)
    (hq : s.queue = .mark :: rest) :
    rest = [] ∧ s.spare = 0 ∧ s.applied = 0 ∧ s.used = c.m ∧ s.lock = false ∧ s.extraOut = true
      ∧ ∀ a ∈ s.sups, a.pc = .ended := by
  obtain ⟨lenS, lenC, tok, spareEq, mkr, mutex, wLt, wEq, fifo, noItems, rn, rf, perm, hist, nme, lkT⟩ := hi
  have hE := ind_le s.extraOut
  obtain ⟨hu2, hall⟩ := rn hr
  have z : ∀ q : CPc → Bool, q .done = false → cntC q s.cons = 0 := by
    intro q hq2
    exact cntC_zero_of_all q _ (fun a ha => by rw [hall a ha]; exact hq2)
  have z1 := z CPc.isChk2 rfl; have z2 := z CPc.isReput rfl; have z3 := z CPc.isLock rfl
  have z4 := z CPc.isTake rfl; have z5 := z CPc.isGive rfl; have z6 := z CPc.isTest rfl
  have z7 := z CPc.isUnlT rfl; have z8 := z CPc.isUnlF rfl; have z9 := z CPc.isExtra rfl
  have hni := noItems hu2
  have hpart := cntS_partition s.sups
  rw [hq] at mkr hni
  simp only [marksOf, itemsOf] at mkr hni
  have hrest : rest = [] := queue_nil_of rest hni (by omega)
  have hlk : s.lock = false := by
    cases hl : s.lock with
    | false => rfl
    | true => simp only [hl, ind_true] at mutex; omega
  have hx : s.extraOut = true := by
    cases hx : s.extraOut with
    | true => rfl
    | false => simp only [hx, ind_false] at mkr; omega
  refine ⟨hrest, by omega, by omega, by omega, hlk, hx, ?_⟩
  have e1 : cntS SPc.notStarted s.sups = 0 := by omega
  have e2 : cntS SPc.isPe1 s.sups = 0 := by omega
  have e3 : cntS SPc.noMark s.sups = 0 := by omega
  intro b hb
  have m1 := cntS_zero_mem _ _ e1 b hb
  have m2 := cntS_zero_mem _ _ e2 b hb
  have m3 := cntS_zero_mem _ _ e3 b hb
  cases hb : b.pc <;> simp [hb] at m1 m2 m3 ⊢

/-- once every consumer's iteration has ended, the token set is complete -/
theorem used_full_of_all_done (c : Cfg) (hn : 1 ≤ c.n) (s : State) (hi : Inv c s)
    (hall : ∀ a ∈ s.cons, a.pc = .done) : c.m ≤ s.used := by
  cases hc : s.cons with
  | nil => have := hi.lenC; simp [hc] at this; omega
  | cons b l =>
    have hb : s.cons[0]? = some b := by simp [hc]
    have hd := hall b (mem_of_getElem? hb)
    have h1 := cntC_ge CPc.isDone hb
    simp only [hd, CPc.isDone, ind_true] at h1
    by_cases hu : c.m ≤ s.used
    · exact hu
    · have := hi.wLt (by omega); omega

/-- the state at the end of a round: nothing but the one extra marker is left -/
theorem round_end_facts (c : Cfg) (hn : 1 ≤ c.n) (s : State) (hi : Inv c s)
    (hall : ∀ a ∈ s.cons, a.pc = .done) :
    s.queue = [.mark] ∧ s.spare = 0 ∧ s.applied = 0 ∧ s.used = c.m ∧ s.lock = false
      ∧ ∀ a ∈ s.sups, a.pc = .ended := by
  have hu2 := used_full_of_all_done c hn s hi hall
  obtain ⟨lenS, lenC, tok, spareEq, mkr, mutex, wLt, wEq, fifo, noItems, rn, rf, perm, hist, nme, lkT⟩ := hi
  have hE := ind_le s.extraOut
  have z : ∀ q : CPc → Bool, q .done = false → cntC q s.cons = 0 := by
    intro q hq2
    exact cntC_zero_of_all q _ (fun a ha => by rw [hall a ha]; exact hq2)
  have z1 := z CPc.isChk2 rfl; have z2 := z CPc.isReput rfl; have z3 := z CPc.isLock rfl
  have z4 := z CPc.isTake rfl; have z5 := z CPc.isGive rfl; have z6 := z CPc.isTest rfl
  have z7 := z CPc.isUnlT rfl; have z8 := z CPc.isUnlF rfl; have z9 := z CPc.isExtra rfl
  have hni := noItems hu2
  have hw := wEq hu2
  have hpart := cntS_partition s.sups
  have hlk : s.lock = false := by
    cases hl : s.lock with
    | false => rfl
    | true => simp only [hl, ind_true] at mutex; omega
  have e1 : cntS SPc.notStarted s.sups = 0 := by omega
  have e2 : cntS SPc.isPe1 s.sups = 0 := by omega
  have e3 : cntS SPc.noMark s.sups = 0 := nme hu2
  have hm1 : marksOf s.queue = 1 := by omega
  refine ⟨?_, by omega, by omega, by omega, hlk, ?_⟩
  · have hl := length_eq_items_marks s.queue
    rw [hni, hm1] at hl
    cases hq : s.queue with
    | nil => simp [hq] at hl
    | cons x r =>
      cases r with
      | cons y r2 => simp [hq] at hl
      | nil =>
        cases x with
        | mark => rfl
        | item i v => simp [hq, itemsOf] at hni
  · intro b hb
    have m1 := cntS_zero_mem _ _ e1 b hb
    have m2 := cntS_zero_mem _ _ e2 b hb
    have m3 := cntS_zero_mem _ _ e3 b hb
    cases hb : b.pc <;> simp [hb] at m1 m2 m3 ⊢

theorem inv_init (c : Cfg) (hm : 1 ≤ c.m) : Inv c (init c) := by
  refine ⟨?_, ?_, ?_, ?_, ?_, ?_, ?_, ?_, ?_, ?_, ?_, ?_, ?_, ?_, ?_, ?_⟩ <;>
    simp only [init, cntC_replicate, cntS_replicate, freshCon, freshSup, List.length_replicate,
      CPc.isChk2, CPc.isReput, CPc.isLock, CPc.isTake, CPc.isGive, CPc.isTest, CPc.isUnlT, CPc.isUnlF,
      CPc.isExtra, CPc.isDone, SPc.isPe1, SPc.notStarted, SPc.noMark, ind_true, ind_false, marksOf,
      itemsOf, fifoOk, Nat.mul_zero, Nat.mul_one, List.map_nil, List.append_nil] <;>
    first | omega | (intro _; omega) | trivial | (intro _; trivial) | skip

theorem all_reachable (c : Cfg) (hm : 1 ≤ c.m) (hn : 1 ≤ c.n) {s : State} (hr : Reachable c s) : Inv c s :=
  reachable_inv c (Inv c) (inv_init c hm) (fun s a s' hi hs => inv_step c hm hn s s' a hi hs) hr

end IterQueue
