import MpsVerif.Proofs.IterQueueInvS
import MpsVerif.Proofs.IterQueueInvC1
import MpsVerif.Proofs.IterQueueInvC2
import MpsVerif.Proofs.IterQueueInvR
/-!
# The inductive invariant of the `IterableQueue` model is preserved by every step
(`Inv` itself: `IterQueueInvDef.lean`; the case analysis is split over four files that build in parallel)
-/
namespace IterQueue

theorem inv_step (c : Cfg) (hm : 1 ≤ c.m) (hn : 1 ≤ c.n) (s s' : State) (a : Act)
    (hi : Inv c s) (hs : Step c s a s') : Inv c s' := by
  have h4 : a.grp = 0 ∨ a.grp = 1 ∨ a.grp = 2 ∨ a.grp = 3 := by cases a <;> simp [Act.grp]
  rcases h4 with h | h | h | h
  · exact inv_step_0 c hm hn s s' a hi hs h
  · exact inv_step_1 c hm hn s s' a hi hs h
  · exact inv_step_2 c hm hn s s' a hi hs h
  · exact inv_step_3 c hm hn s s' a hi hs h

/-- a consumer inside `put(None)` (handing the marker on, or adding the extra one) finds the queue
    empty, so that `put` never blocks -/
theorem put_none_room (c : Cfg) (s : State) (hi : Inv c s) (j : Nat) (a : Con) (h : s.cons[j]? = some a)
    (hp : a.pc = .reput ∨ a.pc = .extra) : s.queue = [] := by
  obtain ⟨lenS, lenC, tok, spareEq, mkr, mutex, wLt, wEq, fifo, noItems, rn, rf, perm, hist, nme, lkT⟩ := hi
  have hE := ind_le s.extraOut
  cfacts h
  have hu : c.m ≤ s.used := by
    rcases hp with hp | hp <;> simp only [hp, CPc.isReput, CPc.isExtra, ind_true] at * <;> omega
  have := wEq hu
  apply queue_nil_of _ (noItems hu)
  rcases hp with hp | hp <;> simp only [hp, CPc.isReput, CPc.isExtra, CPc.isChk2, CPc.isLock,
    CPc.isTake, ind_true, ind_false] at * <;> omega

/-- what `renew` finds when it takes the marker off the queue -/
theorem renew_facts (c : Cfg) (s : State) (rest : List QItem) (hi : Inv c s) (hr : s.rpc = .get)
    (hq : s.queue = .mark :: rest) :
    rest = [] ∧ s.spare = 0 ∧ s.applied = 0 ∧ s.used = c.m ∧ s.lock = false ∧ s.extraOut = true
      ∧ ∀ a ∈ s.sups, a.pc = .ended := by
  obtain ⟨lenS, lenC, tok, spareEq, mkr, mutex, wLt, wEq, fifo, noItems, rn, rf, perm, hist, nme, lkT⟩ := hi
  have hE := ind_le s.extraOut
  obtain ⟨hu2, hall⟩ := rn hr
  have z : ∀ q : CPc → Bool, q .done = false → cntC q s.cons = 0 := by
    intro q hq2
    exact cntC_zero_of_all q _ (fun a ha => by rw [hall a ha]; exact hq2)
  have z1 := z CPc.isChk2 rfl; have z2 := z CPc.isReput rfl; have z3 := z CPc.isLock rfl
  have z4 := z CPc.isTake rfl; have z5 := z CPc.isGive rfl; have z6 := z CPc.isTest rfl
  have z7 := z CPc.isUnlT rfl; have z8 := z CPc.isUnlF rfl; have z9 := z CPc.isExtra rfl
  have hni := noItems hu2
  have hpart := cntS_partition s.sups
  rw [hq] at mkr hni
  simp only [marksOf, itemsOf] at mkr hni
  have hrest : rest = [] := queue_nil_of rest hni (by omega)
  have hlk : s.lock = false := by
    cases hl : s.lock with
    | false => rfl
    | true => simp only [hl, ind_true] at mutex; omega
  have hx : s.extraOut = true := by
    cases hx : s.extraOut with
    | true => rfl
    | false => simp only [hx, ind_false] at mkr; omega
  refine ⟨hrest, by omega, by omega, by omega, hlk, hx, ?_⟩
  have e1 : cntS SPc.notStarted s.sups = 0 := by omega
  have e2 : cntS SPc.isPe1 s.sups = 0 := by omega
  have e3 : cntS SPc.noMark s.sups = 0 := by omega
  intro b hb
  have m1 := cntS_zero_mem _ _ e1 b hb
  have m2 := cntS_zero_mem _ _ e2 b hb
  have m3 := cntS_zero_mem _ _ e3 b hb
  cases hb : b.pc <;> simp [hb] at m1 m2 m3 ⊢

/-- once every consumer's iteration has ended, the token set is complete -/
theorem used_full_of_all_done (c : Cfg) (hn : 1 ≤ c.n) (s : State) (hi : Inv c s)
    (hall : ∀ a ∈ s.cons, a.pc = .done) : c.m ≤ s.used := by
  cases hc : s.cons with
  | nil => have := hi.lenC; simp [hc] at this; omega
  | cons b l =>
    have hb : s.cons[0]? = some b := by simp [hc]
    have hd := hall b (mem_of_getElem? hb)
    have h1 := cntC_ge CPc.isDone hb
    simp only [hd, CPc.isDone, ind_true] at h1
    by_cases hu : c.m ≤ s.used
    · exact hu
    · have := hi.wLt (by omega); omega

/-- the state at the end of a round: nothing but the one extra marker is left -/
theorem round_end_facts (c : Cfg) (hn : 1 ≤ c.n) (s : State) (hi : Inv c s)
    (hall : ∀ a ∈ s.cons, a.pc = .done) :
    s.queue = [.mark] ∧ s.spare = 0 ∧ s.applied = 0 ∧ s.used = c.m ∧ s.lock = false
      ∧ ∀ a ∈ s.sups, a.pc = .ended := by
  have hu2 := used_full_of_all_done c hn s hi hall
  obtain ⟨lenS, lenC, tok, spareEq, mkr, mutex, wLt, wEq, fifo, noItems, rn, rf, perm, hist, nme, lkT⟩ := hi
  have hE := ind_le s.extraOut
  have z : ∀ q : CPc → Bool, q .done = false → cntC q s.cons = 0 := by
    intro q hq2
    exact cntC_zero_of_all q _ (fun a ha => by rw [hall a ha]; exact hq2)
  have z1 := z CPc.isChk2 rfl; have z2 := z CPc.isReput rfl; have z3 := z CPc.isLock rfl
  have z4 := z CPc.isTake rfl; have z5 := z CPc.isGive rfl; have z6 := z CPc.isTest rfl
  have z7 := z CPc.isUnlT rfl; have z8 := z CPc.isUnlF rfl; have z9 := z CPc.isExtra rfl
  have hni := noItems hu2
  have hw := wEq hu2
  have hpart := cntS_partition s.sups
  have hlk : s.lock = false := by
    cases hl : s.lock with
    | false => rfl
    | true => simp only [hl, ind_true] at mutex; omega
  have e1 : cntS SPc.notStarted s.sups = 0 := by omega
  have e2 : cntS SPc.isPe1 s.sups = 0 := by omega
  have e3 : cntS SPc.noMark s.sups = 0 := nme hu2
  have hm1 : marksOf s.queue = 1 := by omega
  refine ⟨?_, by omega, by omega, by omega, hlk, ?_⟩
  · have hl := length_eq_items_marks s.queue
    rw [hni, hm1] at hl
    cases hq : s.queue with
    | nil => simp [hq] at hl
    | cons x r =>
      cases r with
      | cons y r2 => simp [hq] at hl
      | nil =>
        cases x with
        | mark => rfl
        | item i v => simp [hq, itemsOf] at hni
  · intro b hb
    have m1 := cntS_zero_mem _ _ e1 b hb
    have m2 := cntS_zero_mem _ _ e2 b hb
    have m3 := cntS_zero_mem _ _ e3 b hb
    cases hb : b.pc <;> simp [hb] at m1 m2 m3 ⊢

theorem inv_init (c : Cfg) (hm : 1 ≤ c.m) : Inv c (init c) := by
  refine ⟨?_, ?_, ?_, ?_, ?_, ?_, ?_, ?_, ?_, ?_, ?_, ?_, ?_, ?_, ?_, ?_⟩ <;>
    simp only [init, cntC_replicate, cntS_replicate, freshCon, freshSup, List.length_replicate,
      CPc.isChk2, CPc.isReput, CPc.isLock, CPc.isTake, CPc.isGive, CPc.isTest, CPc.isUnlT, CPc.isUnlF,
      CPc.isExtra, CPc.isDone, SPc.isPe1, SPc.notStarted, SPc.noMark, ind_true, ind_false, marksOf,
      itemsOf, fifoOk, Nat.mul_zero, Nat.mul_one, List.map_nil, List.append_nil] <;>
    first | omega | (intro _; omega) | trivial | (intro _; trivial) | skip

theorem all_reachable (c : Cfg) (hm : 1 ≤ c.m) (hn : 1 ≤ c.n) {s : State} (hr : Reachable c s) : Inv c s :=
  reachable_inv c (Inv c) (inv_init c hm) (fun s a s' hi hs => inv_step c hm hn s s' a hi hs) hr

end IterQueue

