import MpsVerif.Proofs.IterQueueInvDef
/-! Part 1 of the preservation proof of `Inv` (see `IterQueueInv.lean`). -/
namespace IterQueue

set_option maxHeartbeats 1000000 in
theorem inv_step_1 (c : Cfg) (_hm : 1 ≤ c.m) (_hn : 1 ≤ c.n) (s s' : State) (a : Act)
    (hi : Inv c s) (hs : Step c s a s') (hg : a.grp = 1) : Inv c s' := by
  obtain ⟨lenS, lenC, tok, spareEq, mkr, mutex, wLt, wEq, fifo, noItems, rn, rf, perm, hist, nme, lkT⟩ := hi
  have hlock := ind_le s.lock
  have hE := ind_le s.extraOut
  cases hs with
  | cChk1Full j a h hpc hf =>
    cfacts h
    have hnr : s.rpc ≠ .get := by
      intro hr; have := (rn hr).2 a (mem_of_getElem? h); simp [hpc] at this
    cfin h hpc hnr
  | cChk1Go j a h hpc hf =>
    cfacts h
    have hnr : s.rpc ≠ .get := by
      intro hr; have := (rn hr).2 a (mem_of_getElem? h); simp [hpc] at this
    cfin h hpc hnr
  | cGetItem j i x rest a h hpc hq =>
    cfacts h
    have hnr : s.rpc ≠ .get := by
      intro hr; have := (rn hr).2 a (mem_of_getElem? h); simp [hpc] at this
    rw [hq] at mkr fifo noItems perm
    cfin h hpc hnr
    · simp only [Bool.and_eq_true] at fifo; exact fifo.2
    · intro hu; have := noItems hu; simp at this
    · simpa [List.append_assoc] using perm
  | cGetMark j rest a h hpc hq =>
    cfacts h
    have hnr : s.rpc ≠ .get := by
      intro hr; have := (rn hr).2 a (mem_of_getElem? h); simp [hpc] at this
    rw [hq] at mkr fifo noItems perm
    cfin h hpc hnr
  | cChk2Full j a h hpc hf =>
    cfacts h
    have hnr : s.rpc ≠ .get := by
      intro hr; have := (rn hr).2 a (mem_of_getElem? h); simp [hpc] at this
    cfin h hpc hnr
  | cChk2Go j a h hpc hf =>
    cfacts h
    have hnr : s.rpc ≠ .get := by
      intro hr; have := (rn hr).2 a (mem_of_getElem? h); simp [hpc] at this
    cfin h hpc hnr
  | cReput j a h hpc hroom =>
    cfacts h
    have hnr : s.rpc ≠ .get := by
      intro hr; have := (rn hr).2 a (mem_of_getElem? h); simp [hpc] at this
    cfin h hpc hnr
    exact fifoOk_append_mark _ _
  | cLock j a h hpc hl =>
    cfacts h
    have hnr : s.rpc ≠ .get := by
      intro hr; have := (rn hr).2 a (mem_of_getElem? h); simp [hpc] at this
    simp only [hl, ind_false] at mutex
    cfin h hpc hnr
  | cTake j a h hpc hap =>
    cfacts h
    have hnr : s.rpc ≠ .get := by
      intro hr; have := (rn hr).2 a (mem_of_getElem? h); simp [hpc] at this
    cfin h hpc hnr
  | cGive j a h hpc hu =>
    cfacts h
    have hnr : s.rpc ≠ .get := by
      intro hr; have := (rn hr).2 a (mem_of_getElem? h); simp [hpc] at this
    have hni : c.m ≤ s.used + 1 → itemsOf s.queue = [] := by
      intro hu2
      have e1 : cntS SPc.notStarted s.sups = 0 := by
        simp only [hpc, CPc.isGive, ind_true] at *; omega
      have e2 : cntS SPc.isPe1 s.sups = 0 := by
        simp only [hpc, CPc.isGive, ind_true] at *; omega
      have e3 : cntS SPc.noMark s.sups = 0 := by
        have := wLt hu
        simp only [hpc, CPc.isGive, ind_true] at *; omega
      have e4 : marksOf s.queue = 0 := by
        have := wLt hu
        simp only [hpc, CPc.isGive, ind_true] at *; omega
      apply fifoOk_no_items _ _ _ fifo e4
      intro i
      unfold endedAt
      cases hi : s.sups[i]? with
      | none => rfl
      | some b =>
        have m1 := cntS_zero_mem _ _ e1 b (mem_of_getElem? hi)
        have m2 := cntS_zero_mem _ _ e2 b (mem_of_getElem? hi)
        have m3 := cntS_zero_mem _ _ e3 b (mem_of_getElem? hi)
        cases hb : b.pc <;> simp [hb] at m1 m2 m3 ⊢
    have hnm : c.m ≤ s.used + 1 → cntS SPc.noMark s.sups = 0 := by
      intro hu2
      have := wLt hu
      simp only [hpc, CPc.isGive, ind_true] at *; omega
    cfin h hpc hnr
  | sPutBeg => simp [Act.grp] at hg
  | sPut => simp [Act.grp] at hg
  | sEndBeg => simp [Act.grp] at hg
  | sApply => simp [Act.grp] at hg
  | sMark => simp [Act.grp] at hg
  | sRetry => simp [Act.grp] at hg
  | sStop => simp [Act.grp] at hg
  | cTest => simp [Act.grp] at hg
  | cUnlockLast => simp [Act.grp] at hg
  | cUnlockGo => simp [Act.grp] at hg
  | cExtra => simp [Act.grp] at hg
  | cRetry => simp [Act.grp] at hg
  | cStop => simp [Act.grp] at hg
  | rStartOk => simp [Act.grp] at hg
  | rStartFail => simp [Act.grp] at hg
  | rGetMark => simp [Act.grp] at hg
  | rGetItem => simp [Act.grp] at hg
  | rRetry => simp [Act.grp] at hg
  | rStop => simp [Act.grp] at hg
  | setStop => simp [Act.grp] at hg
  | tick => simp [Act.grp] at hg

end IterQueue
