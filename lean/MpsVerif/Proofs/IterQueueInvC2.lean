import MpsVerif.Proofs.IterQueueInvDef
/-! Part 2 of the preservation proof of `Inv` (see `IterQueueInv.lean`). -/
namespace IterQueue

set_option maxHeartbeats 1000000 in
theorem inv_step_2 (c : Cfg) (_hm : 1 ≤ c.m) (_hn : 1 ≤ c.n) (s s' : State) (a : Act)
    (hi : Inv c s) (hs : Step c s a s') (hg : a.grp = 2) : Inv c s' := by
  obtain ⟨lenS, lenC, tok, spareEq, mkr, mutex, wLt, wEq, fifo, noItems, rn, rf, perm, hist, nme, lkT⟩ := hi
  have hlock := ind_le s.lock
  have hE := ind_le s.extraOut
  cases hs with
  | cTest j a h hpc =>
    cfacts h
    have hnr : s.rpc ≠ .get := by
      intro hr; have := (rn hr).2 a (mem_of_getElem? h); simp [hpc] at this
    cases hf : usedFull c s
    · cfin h hpc hnr
    · cfin h hpc hnr
  | cUnlockLast j a h hpc =>
    cfacts h
    have hnr : s.rpc ≠ .get := by
      intro hr; have := (rn hr).2 a (mem_of_getElem? h); simp [hpc] at this
    cfin h hpc hnr
  | cUnlockGo j a h hpc =>
    cfacts h
    have hnr : s.rpc ≠ .get := by
      intro hr; have := (rn hr).2 a (mem_of_getElem? h); simp [hpc] at this
    cfin h hpc hnr
  | cExtra j a h hpc hroom =>
    cfacts h
    have hnr : s.rpc ≠ .get := by
      intro hr; have := (rn hr).2 a (mem_of_getElem? h); simp [hpc] at this
    have hE0 : s.extraOut = false := by
      cases hx : s.extraOut with
      | false => rfl
      | true =>
        exfalso
        simp only [hx, hpc, CPc.isExtra, ind_true] at *
        omega
    simp only [hE0, ind_false] at *
    cfin h hpc hnr
    exact fifoOk_append_mark _ _
  | cRetry j a h hw hb hdue hstop =>
    cfacts h
    have hnr : s.rpc ≠ .get := by
      intro hr; have := (rn hr).2 a (mem_of_getElem? h); rw [this] at hw; simp [CPc.waiting] at hw
    refine ⟨?_, ?_, ?_, ?_, ?_, ?_, ?_, ?_, ?_, ?_, ?_, ?_, ?_, ?_, ?_, ?_⟩ <;>
      simp only [cntC_set h, List.length_set] <;>
      first | assumption | omega | (intro hr; exact absurd hr hnr) | skip
  | cStop j a h hw hb hdue hstop =>
    cfacts h
    have hnr : s.rpc ≠ .get := by
      intro hr; have := (rn hr).2 a (mem_of_getElem? h); rw [this] at hw; simp [CPc.waiting] at hw
    -- a consumer inside `put(None)` is never blocked: the queue is empty at that moment
    have hempty : (a.pc = .reput ∨ a.pc = .extra) → s.queue = [] := by
      intro hp
      have hu : c.m ≤ s.used := by
        rcases hp with hp | hp <;> simp only [hp, CPc.isReput, CPc.isExtra, ind_true] at * <;> omega
      have := wEq hu
      apply queue_nil_of _ (noItems hu)
      rcases hp with hp | hp <;> simp only [hp, CPc.isReput, CPc.isExtra, CPc.isChk2, CPc.isLock,
        CPc.isTake, ind_true, ind_false] at * <;> omega
    cases hpc : a.pc <;> simp [CPc.waiting, hpc] at hw
    · cfin h hpc hnr
    · have := room_of_empty c s (hempty (Or.inl hpc)); simp [cBlocked, hpc, this] at hb
    · have := room_of_empty c s (hempty (Or.inr hpc)); simp [cBlocked, hpc, this] at hb
  | sPutBeg => simp [Act.grp] at hg
  | sPut => simp [Act.grp] at hg
  | sEndBeg => simp [Act.grp] at hg
  | sApply => simp [Act.grp] at hg
  | sMark => simp [Act.grp] at hg
  | sRetry => simp [Act.grp] at hg
  | sStop => simp [Act.grp] at hg
  | cChk1Full => simp [Act.grp] at hg
  | cChk1Go => simp [Act.grp] at hg
  | cGetItem => simp [Act.grp] at hg
  | cGetMark => simp [Act.grp] at hg
  | cChk2Full => simp [Act.grp] at hg
  | cChk2Go => simp [Act.grp] at hg
  | cReput => simp [Act.grp] at hg
  | cLock => simp [Act.grp] at hg
  | cTake => simp [Act.grp] at hg
  | cGive => simp [Act.grp] at hg
  | rStartOk => simp [Act.grp] at hg
  | rStartFail => simp [Act.grp] at hg
  | rGetMark => simp [Act.grp] at hg
  | rGetItem => simp [Act.grp] at hg
  | rRetry => simp [Act.grp] at hg
  | rStop => simp [Act.grp] at hg
  | setStop => simp [Act.grp] at hg
  | tick => simp [Act.grp] at hg

end IterQueue
