import MpsVerif.Proofs.IterQueueCount
/-!
# The inductive invariant of the `IterableQueue` model (token conservation, one extra marker,
FIFO completeness, exactly-once logs)
-/
namespace IterQueue

structure Inv (c : Cfg) (s : State) : Prop where
  lenS : s.sups.length = c.m
  lenC : s.cons.length = c.n
  /-- token conservation -/
  tok : s.spare + cntS SPc.isPe1 s.sups + s.applied + cntC CPc.isGive s.cons + s.used = c.m
  spareEq : s.spare = cntS SPc.notStarted s.sups
  /-- every marker (in the queue or in a consumer's hand) is backed by an applied token, except the
      one extra marker -/
  mkr : marksOf s.queue + (cntC CPc.isChk2 s.cons + cntC CPc.isReput s.cons + cntC CPc.isLock s.cons
        + cntC CPc.isTake s.cons) + cntS SPc.noMark s.sups = s.applied + ind s.extraOut
  mutex : cntC CPc.isTake s.cons + cntC CPc.isGive s.cons + cntC CPc.isTest s.cons + cntC CPc.isUnlT s.cons
        + cntC CPc.isUnlF s.cons = ind s.lock
  wLt : s.used < c.m → ind s.extraOut + cntC CPc.isUnlT s.cons + cntC CPc.isExtra s.cons
        + cntC CPc.isReput s.cons + cntC CPc.isDone s.cons = 0
  /-- once the token set is complete there is exactly one "winner": about to read `full()` under the
      lock, about to add the extra marker, or having added it -/
  wEq : c.m ≤ s.used → ind s.extraOut + cntC CPc.isUnlT s.cons + cntC CPc.isExtra s.cons
        + cntC CPc.isTest s.cons = 1
  fifo : fifoOk (endedAt s.sups) s.queue = true
  noItems : c.m ≤ s.used → itemsOf s.queue = []
  rn : s.rpc = .get → c.m ≤ s.used ∧ ∀ a ∈ s.cons, a.pc = .done
  rf : s.rpc ≠ .failed
  perm : (s.putLog.map Prod.snd).Perm (s.gotLog.map Prod.snd ++ (itemsOf s.queue).map Prod.snd)
  hist : ∀ pg ∈ s.hist, (pg.1.map Prod.snd).Perm (pg.2.map Prod.snd)
  /-- a complete token set means every supplier's marker has been enqueued -/
  nme : c.m ≤ s.used → cntS SPc.noMark s.sups = 0
  /-- nobody is on the way to the token hand-over once the token set is complete -/
  lkT : c.m ≤ s.used → cntC CPc.isLock s.cons + cntC CPc.isTake s.cons = 0

/-- all `≥` facts about the consumer counts that follow from "consumer `j` is `a`" -/
macro "cfacts" h:ident : tactic => `(tactic| (
  have := cntC_ge CPc.isChk2 $h; have := cntC_ge CPc.isReput $h; have := cntC_ge CPc.isLock $h
  have := cntC_ge CPc.isTake $h; have := cntC_ge CPc.isGive $h; have := cntC_ge CPc.isTest $h
  have := cntC_ge CPc.isUnlT $h; have := cntC_ge CPc.isUnlF $h; have := cntC_ge CPc.isExtra $h
  have := cntC_ge CPc.isDone $h))

macro "sfacts" h:ident : tactic => `(tactic| (
  have := cntS_ge SPc.isPe1 $h; have := cntS_ge SPc.notStarted $h; have := cntS_ge SPc.noMark $h))

/-- numeric part of a step of consumer `j` (`h : s.cons[j]? = some a`, `hpc : a.pc = …`); the
    `rn` clause is discharged with `hnr : s.rpc ≠ .get` -/
macro "cfin" h:ident hpc:ident hnr:ident : tactic => `(tactic| (
  refine ⟨?_, ?_, ?_, ?_, ?_, ?_, ?_, ?_, ?_, ?_, ?_, ?_, ?_, ?_, ?_, ?_⟩ <;>
    simp only [cntC_set $h, List.length_set, marksOf_append_mark, itemsOf_append_mark] <;>
    simp only [$hpc:ident, CPc.isChk2, CPc.isReput, CPc.isLock, CPc.isTake, CPc.isGive, CPc.isTest,
      CPc.isUnlT, CPc.isUnlF, CPc.isExtra, CPc.isDone, ind_true, ind_false, usedFull,
      decide_eq_true_eq, decide_eq_false_iff_not, Nat.not_le, marksOf, itemsOf, fifoOk] at * <;>
    first | assumption | omega | (intro hr; exact absurd hr $hnr) | (intro _; omega) | skip))

macro "sfin" h:ident hpc:ident : tactic => `(tactic| (
  refine ⟨?_, ?_, ?_, ?_, ?_, ?_, ?_, ?_, ?_, ?_, ?_, ?_, ?_, ?_, ?_, ?_⟩ <;>
    simp only [cntS_set $h, List.length_set, marksOf_append_mark, itemsOf_append_mark,
      marksOf_append_item, itemsOf_append_item] <;>
    simp only [$hpc:ident, SPc.isPe1, SPc.notStarted, SPc.noMark, ind_true, ind_false, usedFull,
      decide_eq_true_eq, decide_eq_false_iff_not, Nat.not_le] at * <;>
    first | assumption | omega | (intro _; omega) | skip))

theorem fifo_set {sups : List Sup} {i : Nat} {a : Sup} (b : Sup) {q : List QItem}
    (h : sups[i]? = some a) (hb : b.pc.isEnded = true → a.pc.isEnded = true)
    (hf : fifoOk (endedAt sups) q = true) : fifoOk (endedAt (sups.set i b)) q = true :=
  fifoOk_mono _ _ (endedAt_set_le sups i a b h hb) q hf

theorem room_of_empty (c : Cfg) (s : State) (h : s.queue = []) : room c s = true := by
  simp only [room, h, List.length_nil, Bool.or_eq_true, beq_iff_eq, decide_eq_true_eq]
  omega

/-- which part of the invariant proof handles an action (the proof is split over four files that
    build in parallel) -/
def Act.grp : Act → Nat
  | .sPutBeg _ _ | .sPut _ | .sEndBeg _ | .sApply _ | .sMark _ | .sRetry _ | .sStop _ => 0
  | .cChk1 _ | .cGet _ | .cChk2 _ | .cReput _ | .cLock _ | .cTake _ | .cGive _ => 1
  | .cTest _ | .cUnlock _ | .cExtra _ | .cRetry _ | .cStop _ => 2
  | .rStart | .rGet | .rRetry | .rStop | .setStop | .tick => 3

end IterQueue
