import MpsVerif.Proofs.IterQueueInvDef
/-! Part 3 of the preservation proof of `Inv` (see `IterQueueInv.lean`). -/
namespace IterQueue

set_option maxHeartbeats 1000000 in
theorem inv_step_3 (c : Cfg) (hm : 1 ≤ c.m) (hn : 1 ≤ c.n) (s s' : State) (a : Act)
    (hi : Inv c s) (hs : Step c s a s') (hg : a.grp = 3) : Inv c s' := by
  obtain ⟨lenS, lenC, tok, spareEq, mkr, mutex, wLt, wEq, fifo, noItems, rn, rf, perm, hist, nme, lkT⟩ := hi
  have hlock := ind_le s.lock
  have hE := ind_le s.extraOut
  cases hs with
  | rStartOk hr hall hf =>
    refine ⟨lenS, lenC, tok, spareEq, mkr, mutex, wLt, wEq, fifo, noItems, ?_, ?_, perm, hist, nme, lkT⟩
    · intro _; exact ⟨by simpa [usedFull] using hf, hall⟩
    · simp
  | rStartFail hr hall hf =>
    exfalso
    cases hc : s.cons with
    | nil => simp [hc] at lenC; omega
    | cons b l =>
      have hb : s.cons[0]? = some b := by simp [hc]
      have hd := hall b (mem_of_getElem? hb)
      have := cntC_ge CPc.isDone hb
      simp only [usedFull, decide_eq_false_iff_not, Nat.not_le] at hf
      have := wLt hf
      simp only [hd, CPc.isDone, ind_true] at *
      omega
  | rGetMark rest hr hq hu =>
    obtain ⟨hu2, hall⟩ := rn hr
    have z : ∀ q : CPc → Bool, q .done = false → cntC q s.cons = 0 := by
      intro q hq2
      exact cntC_zero_of_all q _ (fun a ha => by rw [hall a ha]; exact hq2)
    have z1 := z CPc.isChk2 rfl; have z2 := z CPc.isReput rfl; have z3 := z CPc.isLock rfl
    have z4 := z CPc.isTake rfl; have z5 := z CPc.isGive rfl; have z6 := z CPc.isTest rfl
    have z7 := z CPc.isUnlT rfl; have z8 := z CPc.isUnlF rfl; have z9 := z CPc.isExtra rfl
    have hni := noItems hu2
    rw [hq] at mkr hni
    simp only [marksOf, itemsOf] at mkr hni
    have hrest : rest = [] := queue_nil_of rest hni (by omega)
    have hlk : s.lock = false := by
      cases hl : s.lock with
      | false => rfl
      | true => simp only [hl, ind_true] at mutex; omega
    refine ⟨?_, ?_, ?_, ?_, ?_, ?_, ?_, ?_, ?_, ?_, ?_, ?_, ?_, ?_, ?_, ?_⟩ <;>
      simp only [cntC_replicate, cntS_replicate, freshCon, freshSup, List.length_replicate, hrest, hlk,
        CPc.isChk2, CPc.isReput, CPc.isLock, CPc.isTake, CPc.isGive, CPc.isTest, CPc.isUnlT, CPc.isUnlF,
        CPc.isExtra, CPc.isDone, SPc.isPe1, SPc.notStarted, SPc.noMark, ind_true, ind_false, marksOf,
        itemsOf, fifoOk, Nat.mul_zero, Nat.mul_one, List.map_nil, List.append_nil] <;>
      first | omega | (intro _; omega) | trivial | (intro _; trivial) | skip
    · intro pg hpg
      rcases List.mem_append.mp hpg with h1 | h1
      · exact hist pg h1
      · simp at h1; subst h1
        rw [hq] at perm
        simpa [itemsOf, hrest] using perm
  | rGetItem i x rest hr hq =>
    exfalso
    have := noItems (rn hr).1
    rw [hq] at this; simp [itemsOf] at this
  | rRetry hr hq hdue hstop =>
    exact ⟨lenS, lenC, tok, spareEq, mkr, mutex, wLt, wEq, fifo, noItems, rn, rf, perm, hist, nme, lkT⟩
  | rStop hr hq hdue hstop =>
    refine ⟨lenS, lenC, tok, spareEq, mkr, mutex, wLt, wEq, fifo, noItems, ?_, ?_, perm, hist, nme, lkT⟩
    · intro hh; cases hh
    · simp
  | setStop hstop =>
    exact ⟨lenS, lenC, tok, spareEq, mkr, mutex, wLt, wEq, fifo, noItems, rn, rf, perm, hist, nme, lkT⟩
  | tick hnd =>
    exact ⟨lenS, lenC, tok, spareEq, mkr, mutex, wLt, wEq, fifo, noItems, rn, rf, perm, hist, nme, lkT⟩
  | sPutBeg => simp [Act.grp] at hg
  | sPut => simp [Act.grp] at hg
  | sEndBeg => simp [Act.grp] at hg
  | sApply => simp [Act.grp] at hg
  | sMark => simp [Act.grp] at hg
  | sRetry => simp [Act.grp] at hg
  | sStop => simp [Act.grp] at hg
  | cChk1Full => simp [Act.grp] at hg
  | cChk1Go => simp [Act.grp] at hg
  | cGetItem => simp [Act.grp] at hg
  | cGetMark => simp [Act.grp] at hg
  | cChk2Full => simp [Act.grp] at hg
  | cChk2Go => simp [Act.grp] at hg
  | cReput => simp [Act.grp] at hg
  | cLock => simp [Act.grp] at hg
  | cTake => simp [Act.grp] at hg
  | cGive => simp [Act.grp] at hg
  | cTest => simp [Act.grp] at hg
  | cUnlockLast => simp [Act.grp] at hg
  | cUnlockGo => simp [Act.grp] at hg
  | cExtra => simp [Act.grp] at hg
  | cRetry => simp [Act.grp] at hg
  | cStop => simp [Act.grp] at hg

end IterQueue
