import MpsVerif.Proofs.IterQueueInvDef
/-! Part 0 of the preservation proof of `Inv` (see `IterQueueInv.lean`). -/
namespace IterQueue

set_option maxHeartbeats 1000000 in
theorem inv_step_0 (c : Cfg) (_hm : 1 ≤ c.m) (_hn : 1 ≤ c.n) (s s' : State) (a : Act)
    (hi : Inv c s) (hs : Step c s a s') (hg : a.grp = 0) : Inv c s' := by
  obtain ⟨lenS, lenC, tok, spareEq, mkr, mutex, wLt, wEq, fifo, noItems, rn, rf, perm, hist, nme, lkT⟩ := hi
  have hlock := ind_le s.lock
  have hE := ind_le s.extraOut
  cases hs with
  | sPutBeg i x a h hpc =>
    sfacts h
    sfin h hpc
    exact fifo_set _ h (by simp) fifo
  | sPut i x a h hpc hroom =>
    sfacts h
    sfin h hpc
    · exact fifoOk_append_item _ _ _ _ (fifo_set _ h (by simp) fifo) (endedAt_set_self _ _ _ _ h (by simp))
    · simp only [List.map_append, List.map_cons, List.map_nil]
      have := perm.append_right [x]
      simpa [List.append_assoc] using this
  | sEndBeg i a h hpc hsp =>
    sfacts h
    sfin h hpc
    exact fifo_set _ h (by simp) fifo
  | sApply i a h hpc hap =>
    sfacts h
    sfin h hpc
    exact fifo_set _ h (by simp) fifo
  | sMark i a h hpc hroom =>
    sfacts h
    sfin h hpc
    exact fifoOk_append_mark _ _
  | sRetry i a h hw hroom hdue hstop =>
    sfacts h
    refine ⟨?_, ?_, ?_, ?_, ?_, ?_, ?_, ?_, ?_, ?_, ?_, ?_, ?_, ?_, ?_, ?_⟩ <;>
      simp only [cntS_set h, List.length_set] <;> first | assumption | omega | skip
    exact fifo_set _ h (by simp) fifo
  | sStop i a h hw hroom hdue hstop =>
    sfacts h
    cases hpc : a.pc <;> simp [SPc.waiting, hpc] at hw
    · have hf2 := fifo_set { a with pc := SPc.stoppedP } h (by simp) fifo
      simp only [reduceCtorEq, if_false]
      sfin h hpc
    · have hf2 := fifo_set { a with pc := SPc.stoppedE } h (by simp) fifo
      simp only [if_true]
      sfin h hpc
  | cChk1Full => simp [Act.grp] at hg
  | cChk1Go => simp [Act.grp] at hg
  | cGetItem => simp [Act.grp] at hg
  | cGetMark => simp [Act.grp] at hg
  | cChk2Full => simp [Act.grp] at hg
  | cChk2Go => simp [Act.grp] at hg
  | cReput => simp [Act.grp] at hg
  | cLock => simp [Act.grp] at hg
  | cTake => simp [Act.grp] at hg
  | cGive => simp [Act.grp] at hg
  | cTest => simp [Act.grp] at hg
  | cUnlockLast => simp [Act.grp] at hg
  | cUnlockGo => simp [Act.grp] at hg
  | cExtra => simp [Act.grp] at hg
  | cRetry => simp [Act.grp] at hg
  | cStop => simp [Act.grp] at hg
  | rStartOk => simp [Act.grp] at hg
  | rStartFail => simp [Act.grp] at hg
  | rGetMark => simp [Act.grp] at hg
  | rGetItem => simp [Act.grp] at hg
  | rRetry => simp [Act.grp] at hg
  | rStop => simp [Act.grp] at hg
  | setStop => simp [Act.grp] at hg
  | tick => simp [Act.grp] at hg

end IterQueue
