import MpsVerif.Proofs.IterQueueInv
import MpsVerif.Proofs.IterQueueTime
/-!
# Progress and measure for the consumers of the `IterableQueue` model
-/
namespace IterQueue

/-- the real (non-stutter) moves of a consumer -/
def isConsMove : Act → Bool
  | .cChk1 _ | .cGet _ | .cChk2 _ | .cReput _ | .cLock _ | .cTake _ | .cGive _ | .cTest _ | .cUnlock _
  | .cExtra _ => true
  | _ => false

def isSupAct : Act → Bool
  | .sPutBeg _ _ | .sPut _ | .sEndBeg _ | .sApply _ | .sMark _ | .sRetry _ | .sStop _ => true
  | _ => false

def isRenewAct : Act → Bool
  | .rStart | .rGet => true
  | _ => false

def CPc.rank : CPc → Nat
  | .give => 20 | .test => 19 | .unl _ => 18 | .extra => 17 | .chk1 => 17 | .get => 16 | .chk2 => 15
  | .lock => 14 | .reput => 14 | .take => 13 | .done => 0 | .stopped => 0

/-- work left for the consumers: position in `__next__`, values still queued, tokens still applied -/
def mu (s : State) : Nat :=
  wsum (fun a : Con => a.pc.rank) s.cons + 2 * (itemsOf s.queue).length + 20 * s.applied

theorem rank_set {l : List Con} {j : Nat} {a : Con} (h : l[j]? = some a) (b : Con) :
    wsum (fun a : Con => a.pc.rank) (l.set j b) = wsum (fun a : Con => a.pc.rank) l - a.pc.rank + b.pc.rank :=
  (wsum_set _ l j a b h).1

theorem rank_ge {l : List Con} {j : Nat} {a : Con} (h : l[j]? = some a) :
    a.pc.rank ≤ wsum (fun a : Con => a.pc.rank) l := (wsum_set (fun a : Con => a.pc.rank) l j a a h).2

macro "mufin" h:ident hpc:ident : tactic => `(tactic| (
  have hge := rank_ge $h
  simp only [mu, rank_set $h, itemsOf_append_mark, isConsMove]
  simp only [$hpc:ident, CPc.rank, itemsOf, List.length_cons] at hge ⊢
  refine ⟨?_, ?_⟩ <;> first | omega | (intro _; omega)))

theorem mu_step (c : Cfg) (s s' : State) (a : Act) (hs : Step c s a s')
    (h1 : isSupAct a = false) (h2 : isRenewAct a = false) :
    (isConsMove a = true → mu s' < mu s) ∧ mu s' ≤ mu s := by
  cases hs with
  | sPutBeg i x a h hpc => simp [isSupAct] at h1
  | sPut i x a h hpc hroom => simp [isSupAct] at h1
  | sEndBeg i a h hpc hsp => simp [isSupAct] at h1
  | sApply i a h hpc hap => simp [isSupAct] at h1
  | sMark i a h hpc hroom => simp [isSupAct] at h1
  | sRetry i a h hw hroom hdue hstop => simp [isSupAct] at h1
  | sStop i a h hw hroom hdue hstop => simp [isSupAct] at h1
  | cChk1Full j a h hpc hf => mufin h hpc
  | cChk1Go j a h hpc hf => mufin h hpc
  | cGetItem j i x rest a h hpc hq => unfold mu; rw [hq]; mufin h hpc
  | cGetMark j rest a h hpc hq => unfold mu; rw [hq]; mufin h hpc
  | cChk2Full j a h hpc hf => mufin h hpc
  | cChk2Go j a h hpc hf => mufin h hpc
  | cReput j a h hpc hroom => mufin h hpc
  | cLock j a h hpc hl => mufin h hpc
  | cTake j a h hpc hap => mufin h hpc
  | cGive j a h hpc hu => mufin h hpc
  | cTest j a h hpc => mufin h hpc
  | cUnlockLast j a h hpc => mufin h hpc
  | cUnlockGo j a h hpc => mufin h hpc
  | cExtra j a h hpc hroom => mufin h hpc
  | cRetry j a h hw hb hdue hstop =>
    have hge := rank_ge h
    simp only [mu, rank_set h, isConsMove]
    refine ⟨?_, ?_⟩ <;> first | omega | (intro hh; cases hh)
  | cStop j a h hw hb hdue hstop =>
    have hge := rank_ge h
    simp only [mu, rank_set h, isConsMove]
    have h0 : CPc.rank .stopped = 0 := rfl
    simp only [h0]
    refine ⟨?_, ?_⟩ <;> first | omega | (intro hh; cases hh)
  | rStartOk hr hall hf => simp [isRenewAct] at h2
  | rStartFail hr hall hf => simp [isRenewAct] at h2
  | rGetMark rest hr hq hu => simp [isRenewAct] at h2
  | rGetItem i x rest hr hq => simp [isRenewAct] at h2
  | rRetry hr hq hdue hstop => simp [mu, isConsMove]
  | rStop hr hq hdue hstop => simp [mu, isConsMove]
  | setStop hstop => simp [mu, isConsMove]
  | tick hnd => simp [mu, isConsMove]

/-- In an execution segment without supplier and `renew` actions the consumers make at most
    `mu s` moves. -/
theorem moves_le_mu (c : Cfg) : ∀ (as : List Act) (s s' : State), Core.run (step c) s as = some s' →
    (∀ a ∈ as, isSupAct a = false ∧ isRenewAct a = false) → as.countP isConsMove + mu s' ≤ mu s := by
  intro as
  induction as with
  | nil => intro s s' hr _; simp at hr; subst hr; simp
  | cons a as ih =>
    intro s s' hr hall
    rw [Core.run_cons] at hr
    cases hst : step c s a with
    | none => simp [hst] at hr
    | some s1 =>
      simp [hst] at hr
      have h1 := hall a (List.mem_cons_self)
      have hm := mu_step c s s1 a (step_sound c s s1 a hst) h1.1 h1.2
      have := ih s1 s' hr (fun b hb => hall b (List.mem_cons_of_mem _ hb))
      rw [List.countP_cons]
      cases hc : isConsMove a with
      | true => have := hm.1 hc; simp; omega
      | false => have := hm.2; simp; omega

/-- a consumer that is neither at `get` nor at `lock` (nor finished) can always move -/
theorem enabled_strong (c : Cfg) (s : State) (hi : Inv c s) (j : Nat) (a : Con) (h : s.cons[j]? = some a)
    (hp : a.pc ≠ .get ∧ a.pc ≠ .lock ∧ a.pc ≠ .done ∧ a.pc ≠ .stopped) :
    ∃ act, isConsMove act = true ∧ (step c s act).isSome = true := by
  have hE := ind_le s.extraOut
  cases hpc : a.pc with
  | chk1 =>
    refine ⟨.cChk1 j, rfl, ?_⟩
    simp only [step, h, hpc]; cases usedFull c s <;> simp
  | get => exact absurd hpc hp.1
  | chk2 =>
    refine ⟨.cChk2 j, rfl, ?_⟩
    simp only [step, h, hpc]; cases usedFull c s <;> simp
  | reput =>
    have := room_of_empty c s (put_none_room c s hi j a h (Or.inl hpc))
    exact ⟨.cReput j, rfl, by simp [step, h, hpc, this]⟩
  | lock => exact absurd hpc hp.2.1
  | take =>
    have h1 := cntC_ge CPc.isTake h
    have h2 := hi.mkr
    have h3 := hi.wLt
    have h4 := hi.lkT
    simp only [hpc, CPc.isTake, ind_true] at h1
    have : 0 < s.applied := by omega
    exact ⟨.cTake j, rfl, by simp [step, h, hpc, this]⟩
  | give =>
    have h1 := cntC_ge CPc.isGive h
    have h2 := hi.tok
    simp only [hpc, CPc.isGive, ind_true] at h1
    have : s.used < c.m := by omega
    exact ⟨.cGive j, rfl, by simp [step, h, hpc, this]⟩
  | test => exact ⟨.cTest j, rfl, by simp [step, h, hpc]⟩
  | unl b => cases b <;> exact ⟨.cUnlock j, rfl, by simp [step, h, hpc]⟩
  | extra =>
    have := room_of_empty c s (put_none_room c s hi j a h (Or.inr hpc))
    exact ⟨.cExtra j, rfl, by simp [step, h, hpc, this]⟩
  | done => exact absurd hpc hp.2.2.1
  | stopped => exact absurd hpc hp.2.2.2

/-- a consumer waiting for the lock: either the lock is free, or its holder can move -/
theorem enabled_lock (c : Cfg) (s : State) (hi : Inv c s) (j : Nat) (a : Con) (h : s.cons[j]? = some a)
    (hpc : a.pc = .lock) : ∃ act, isConsMove act = true ∧ (step c s act).isSome = true := by
  cases hl : s.lock with
  | false => exact ⟨.cLock j, rfl, by simp [step, h, hpc, hl]⟩
  | true =>
    have hmx := hi.mutex
    simp only [hl, ind_true] at hmx
    have pick : ∀ q : CPc → Bool, (∀ p, q p = true → p ≠ .get ∧ p ≠ .lock ∧ p ≠ .done ∧ p ≠ .stopped) →
        0 < cntC q s.cons → ∃ act, isConsMove act = true ∧ (step c s act).isSome = true := by
      intro q hq hpos
      obtain ⟨k, b, hk, hb⟩ := exists_of_cntC_pos q s.cons hpos
      exact enabled_strong c s hi k b hk (hq _ hb)
    by_cases g1 : 0 < cntC CPc.isTake s.cons
    · exact pick _ (by intro p hp; cases p <;> simp_all) g1
    by_cases g2 : 0 < cntC CPc.isGive s.cons
    · exact pick _ (by intro p hp; cases p <;> simp_all) g2
    by_cases g3 : 0 < cntC CPc.isTest s.cons
    · exact pick _ (by intro p hp; cases p <;> simp_all) g3
    by_cases g4 : 0 < cntC CPc.isUnlT s.cons
    · exact pick _ (by intro p hp; cases p <;> simp_all) g4
    by_cases g5 : 0 < cntC CPc.isUnlF s.cons
    · exact pick _ (by intro p hp; cases p <;> simp_all) g5
    omega

theorem cntS_zero_of_all (q : SPc → Bool) (l : List Sup) (h : ∀ a ∈ l, q a.pc = false) : cntS q l = 0 :=
  wsum_eq_zero _ l (fun a ha => by simp [h a ha])

/-- **Progress.**  All suppliers have ended, no stop was requested, and some consumer's iteration
    has not ended: then some consumer can make a real move. -/
theorem cons_progress (c : Cfg) (s : State) (hi : Inv c s) (ht : TInv c s)
    (hstop : s.stop = none) (hsup : ∀ a ∈ s.sups, a.pc = .ended)
    (hnd : ∃ a ∈ s.cons, a.pc ≠ .done) :
    ∃ act, isConsMove act = true ∧ (step c s act).isSome = true := by
  obtain ⟨a, ha, hnd⟩ := hnd
  obtain ⟨j, h⟩ := List.mem_iff_getElem?.mp ha
  have hns : a.pc ≠ .stopped := fun hp => ht.cstopped j a h hp hstop
  by_cases hg : a.pc = .get
  · -- blocked on the data queue only if it is empty
    cases hq : s.queue with
    | cons x rest =>
      refine ⟨.cGet j, rfl, ?_⟩
      cases x <;> simp [step, h, hg, hq]
    | nil =>
      have hE := ind_le s.extraOut
      have z1 := cntS_zero_of_all SPc.notStarted s.sups (fun b hb => by rw [hsup b hb]; rfl)
      have z2 := cntS_zero_of_all SPc.isPe1 s.sups (fun b hb => by rw [hsup b hb]; rfl)
      have z3 := cntS_zero_of_all SPc.noMark s.sups (fun b hb => by rw [hsup b hb]; rfl)
      have h1 := hi.tok; have h2 := hi.spareEq; have h3 := hi.mkr; have h4 := hi.wLt; have h5 := hi.wEq
      rw [hq] at h3
      simp only [marksOf] at h3
      have pick : ∀ q : CPc → Bool, (∀ p, q p = true → p ≠ .get ∧ p ≠ .done ∧ p ≠ .stopped) →
          0 < cntC q s.cons → ∃ act, isConsMove act = true ∧ (step c s act).isSome = true := by
        intro q hq2 hpos
        obtain ⟨k, b, hk, hb⟩ := exists_of_cntC_pos q s.cons hpos
        have := hq2 _ hb
        by_cases hbl : b.pc = .lock
        · exact enabled_lock c s hi k b hk hbl
        · exact enabled_strong c s hi k b hk ⟨this.1, hbl, this.2.1, this.2.2⟩
      by_cases g1 : 0 < cntC CPc.isChk2 s.cons
      · exact pick _ (by intro p hp; cases p <;> simp_all) g1
      by_cases g2 : 0 < cntC CPc.isReput s.cons
      · exact pick _ (by intro p hp; cases p <;> simp_all) g2
      by_cases g3 : 0 < cntC CPc.isLock s.cons
      · exact pick _ (by intro p hp; cases p <;> simp_all) g3
      by_cases g4 : 0 < cntC CPc.isTake s.cons
      · exact pick _ (by intro p hp; cases p <;> simp_all) g4
      by_cases g5 : 0 < cntC CPc.isGive s.cons
      · exact pick _ (by intro p hp; cases p <;> simp_all) g5
      by_cases g6 : 0 < cntC CPc.isUnlT s.cons
      · exact pick _ (by intro p hp; cases p <;> simp_all) g6
      by_cases g7 : 0 < cntC CPc.isExtra s.cons
      · exact pick _ (by intro p hp; cases p <;> simp_all) g7
      by_cases g8 : 0 < cntC CPc.isTest s.cons
      · exact pick _ (by intro p hp; cases p <;> simp_all) g8
      exfalso
      by_cases hu : c.m ≤ s.used
      · have := h5 hu; omega
      · have := h4 (by omega); omega
  · by_cases hl : a.pc = .lock
    · exact enabled_lock c s hi j a h hl
    · exact enabled_strong c s hi j a h ⟨hg, hl, hnd, hns⟩

/-- a supplier that has ended has no enabled action -/
theorem sup_disabled (c : Cfg) (s : State) (hsup : ∀ a ∈ s.sups, a.pc = .ended) (act : Act)
    (hact : isSupAct act = true) : step c s act = none := by
  have key : ∀ (i : Nat) (a : Sup), s.sups[i]? = some a → a.pc = .ended :=
    fun i a h => hsup a (mem_of_getElem? h)
  cases act <;> simp only [isSupAct] at hact <;> try (cases hact)
  all_goals
    simp only [step]
    split
    · rename_i a h; simp [key _ a h, SPc.waiting]
    · rfl

/-- only supplier actions and `renew` change the suppliers -/
theorem sups_unchanged (c : Cfg) (s s' : State) (act : Act) (hs : Step c s act s')
    (h1 : isSupAct act = false) (h2 : isRenewAct act = false) : s'.sups = s.sups := by
  cases hs <;> first | rfl | (simp [isSupAct] at h1; done) | (simp [isRenewAct] at h2; done)

/-- Once all suppliers have ended: in **any** continuation that contains no `renew` action the
    consumers make at most `mu s` real moves (supplier actions cannot occur, everything else leaves
    the suppliers ended and does not increase `mu`). -/
theorem moves_le_mu_ended (c : Cfg) : ∀ (as : List Act) (s s' : State), Core.run (step c) s as = some s' →
    (∀ a ∈ s.sups, a.pc = .ended) → (∀ a ∈ as, isRenewAct a = false) →
    as.countP isConsMove + mu s' ≤ mu s ∧ (∀ a ∈ s'.sups, a.pc = .ended) := by
  intro as
  induction as with
  | nil => intro s s' hr hsup _; simp at hr; subst hr; exact ⟨by simp, hsup⟩
  | cons a as ih =>
    intro s s' hr hsup hall
    rw [Core.run_cons] at hr
    cases hst : step c s a with
    | none => simp [hst] at hr
    | some s1 =>
      simp [hst] at hr
      have h2 := hall a (List.mem_cons_self)
      have h1 : isSupAct a = false := by
        cases hsa : isSupAct a with
        | false => rfl
        | true => rw [sup_disabled c s hsup a hsa] at hst; cases hst
      have hstep := step_sound c s s1 a hst
      have hm := mu_step c s s1 a hstep h1 h2
      have hs1 : ∀ b ∈ s1.sups, b.pc = .ended := by
        rw [sups_unchanged c s s1 a hstep h1 h2]; exact hsup
      obtain ⟨ih1, ih2⟩ := ih s1 s' hr hs1 (fun b hb => hall b (List.mem_cons_of_mem _ hb))
      refine ⟨?_, ih2⟩
      rw [List.countP_cons]
      cases hc : isConsMove a with
      | true => have := hm.1 hc; simp; omega
      | false => have := hm.2; simp; omega

end IterQueue
