import MpsVerif.Model.IterQueue
import MpsVerif.Core.Sys
/-!
# Relational presentation of the `IterableQueue` model and `step_sound`

One constructor per (action, branch); guards are explicit premises.  Invariant proofs do `cases`
on `Step`; the property theorems are stated over `step`/`Core.run` and use `step_sound`.
-/
namespace IterQueue

inductive Step (c : Cfg) (s : State) : Act → State → Prop
  | sPutBeg (i x : Nat) (a : Sup) (h : s.sups[i]? = some a) (hpc : a.pc = .idle) :
      Step c s (.sPutBeg i x) { s with sups := s.sups.set i { pc := .putw x, t0 := s.now, tw := s.now } }
  | sPut (i x : Nat) (a : Sup) (h : s.sups[i]? = some a) (hpc : a.pc = .putw x) (hroom : room c s = true) :
      Step c s (.sPut i) { s with sups := s.sups.set i { a with pc := .idle }, queue := s.queue ++ [.item i x],
                                  putLog := s.putLog ++ [(i, x)] }
  | sEndBeg (i : Nat) (a : Sup) (h : s.sups[i]? = some a) (hpc : a.pc = .idle) (hsp : 0 < s.spare) :
      Step c s (.sEndBeg i) { s with sups := s.sups.set i { a with pc := .pe1 }, spare := s.spare - 1 }
  | sApply (i : Nat) (a : Sup) (h : s.sups[i]? = some a) (hpc : a.pc = .pe1) (hap : s.applied < c.m) :
      Step c s (.sApply i) { s with sups := s.sups.set i { pc := .pe2, t0 := s.now, tw := s.now },
                                    applied := s.applied + 1 }
  | sMark (i : Nat) (a : Sup) (h : s.sups[i]? = some a) (hpc : a.pc = .pe2) (hroom : room c s = true) :
      Step c s (.sMark i) { s with sups := s.sups.set i { a with pc := .ended }, queue := s.queue ++ [.mark] }
  | sRetry (i : Nat) (a : Sup) (h : s.sups[i]? = some a) (hw : a.pc.waiting = true) (hroom : room c s = false)
      (hdue : a.tw + c.w ≤ s.now) (hstop : s.stop = none) :
      Step c s (.sRetry i) { s with sups := s.sups.set i { a with tw := s.now } }
  | sStop (i : Nat) (a : Sup) (h : s.sups[i]? = some a) (hw : a.pc.waiting = true) (hroom : room c s = false)
      (hdue : a.tw + c.w ≤ s.now) (hstop : s.stop ≠ none) :
      Step c s (.sStop i)
        { s with sups := s.sups.set i { a with pc := if a.pc = .pe2 then .stoppedE else .stoppedP } }
  | cChk1Full (j : Nat) (a : Con) (h : s.cons[j]? = some a) (hpc : a.pc = .chk1) (hf : usedFull c s = true) :
      Step c s (.cChk1 j) { s with cons := s.cons.set j { a with pc := .done } }
  | cChk1Go (j : Nat) (a : Con) (h : s.cons[j]? = some a) (hpc : a.pc = .chk1) (hf : usedFull c s = false) :
      Step c s (.cChk1 j) { s with cons := s.cons.set j { pc := .get, t0 := s.now, tw := s.now } }
  | cGetItem (j i x : Nat) (rest : List QItem) (a : Con) (h : s.cons[j]? = some a) (hpc : a.pc = .get)
      (hq : s.queue = .item i x :: rest) :
      Step c s (.cGet j) { s with cons := s.cons.set j { a with pc := .chk1 }, queue := rest,
                                  gotLog := s.gotLog ++ [(j, x)] }
  | cGetMark (j : Nat) (rest : List QItem) (a : Con) (h : s.cons[j]? = some a) (hpc : a.pc = .get)
      (hq : s.queue = .mark :: rest) :
      Step c s (.cGet j) { s with cons := s.cons.set j { a with pc := .chk2 }, queue := rest }
  | cChk2Full (j : Nat) (a : Con) (h : s.cons[j]? = some a) (hpc : a.pc = .chk2) (hf : usedFull c s = true) :
      Step c s (.cChk2 j) { s with cons := s.cons.set j { pc := .reput, t0 := s.now, tw := s.now } }
  | cChk2Go (j : Nat) (a : Con) (h : s.cons[j]? = some a) (hpc : a.pc = .chk2) (hf : usedFull c s = false) :
      Step c s (.cChk2 j) { s with cons := s.cons.set j { a with pc := .lock } }
  | cReput (j : Nat) (a : Con) (h : s.cons[j]? = some a) (hpc : a.pc = .reput) (hroom : room c s = true) :
      Step c s (.cReput j) { s with cons := s.cons.set j { a with pc := .done }, queue := s.queue ++ [.mark] }
  | cLock (j : Nat) (a : Con) (h : s.cons[j]? = some a) (hpc : a.pc = .lock) (hl : s.lock = false) :
      Step c s (.cLock j) { s with cons := s.cons.set j { a with pc := .take }, lock := true }
  | cTake (j : Nat) (a : Con) (h : s.cons[j]? = some a) (hpc : a.pc = .take) (hap : 0 < s.applied) :
      Step c s (.cTake j) { s with cons := s.cons.set j { a with pc := .give }, applied := s.applied - 1 }
  | cGive (j : Nat) (a : Con) (h : s.cons[j]? = some a) (hpc : a.pc = .give) (hu : s.used < c.m) :
      Step c s (.cGive j) { s with cons := s.cons.set j { a with pc := .test }, used := s.used + 1 }
  | cTest (j : Nat) (a : Con) (h : s.cons[j]? = some a) (hpc : a.pc = .test) :
      Step c s (.cTest j) { s with cons := s.cons.set j { a with pc := .unl (usedFull c s) } }
  | cUnlockLast (j : Nat) (a : Con) (h : s.cons[j]? = some a) (hpc : a.pc = .unl true) :
      Step c s (.cUnlock j) { s with cons := s.cons.set j { pc := .extra, t0 := s.now, tw := s.now }, lock := false }
  | cUnlockGo (j : Nat) (a : Con) (h : s.cons[j]? = some a) (hpc : a.pc = .unl false) :
      Step c s (.cUnlock j) { s with cons := s.cons.set j { a with pc := .chk1 }, lock := false }
  | cExtra (j : Nat) (a : Con) (h : s.cons[j]? = some a) (hpc : a.pc = .extra) (hroom : room c s = true) :
      Step c s (.cExtra j) { s with cons := s.cons.set j { a with pc := .done }, queue := s.queue ++ [.mark],
                                    extraOut := true }
  | cRetry (j : Nat) (a : Con) (h : s.cons[j]? = some a) (hw : a.pc.waiting = true)
      (hb : cBlocked c s a.pc = true) (hdue : a.tw + c.w ≤ s.now) (hstop : s.stop = none) :
      Step c s (.cRetry j) { s with cons := s.cons.set j { a with tw := s.now } }
  | cStop (j : Nat) (a : Con) (h : s.cons[j]? = some a) (hw : a.pc.waiting = true)
      (hb : cBlocked c s a.pc = true) (hdue : a.tw + c.w ≤ s.now) (hstop : s.stop ≠ none) :
      Step c s (.cStop j) { s with cons := s.cons.set j { a with pc := .stopped } }
  | rStartOk (hr : s.rpc = .off) (hall : ∀ a ∈ s.cons, a.pc = .done) (hf : usedFull c s = true) :
      Step c s .rStart { s with rpc := .get, rt0 := s.now, rtw := s.now }
  | rStartFail (hr : s.rpc = .off) (hall : ∀ a ∈ s.cons, a.pc = .done) (hf : usedFull c s = false) :
      Step c s .rStart { s with rpc := .failed }
  | rGetMark (rest : List QItem) (hr : s.rpc = .get) (hq : s.queue = .mark :: rest) (hu : c.m ≤ s.used) :
      Step c s .rGet
        { s with sups := List.replicate c.m freshSup, cons := List.replicate c.n freshCon,
                 queue := rest, spare := s.spare + c.m, used := s.used - c.m, rpc := .off,
                 round := s.round + 1, extraOut := false, putLog := [], gotLog := [],
                 hist := s.hist ++ [(s.putLog, s.gotLog)] }
  | rGetItem (i x : Nat) (rest : List QItem) (hr : s.rpc = .get) (hq : s.queue = .item i x :: rest) :
      Step c s .rGet { s with rpc := .failed, queue := rest }
  | rRetry (hr : s.rpc = .get) (hq : s.queue = []) (hdue : s.rtw + c.w ≤ s.now) (hstop : s.stop = none) :
      Step c s .rRetry { s with rtw := s.now }
  | rStop (hr : s.rpc = .get) (hq : s.queue = []) (hdue : s.rtw + c.w ≤ s.now) (hstop : s.stop ≠ none) :
      Step c s .rStop { s with rpc := .stopped }
  | setStop (hstop : s.stop = none) : Step c s .setStop { s with stop := some s.now }
  | tick (hnd : noneDue c s = true) : Step c s .tick { s with now := s.now + 1 }

theorem step_sound (c : Cfg) (s s' : State) (a : Act) (h : step c s a = some s') : Step c s a s' := by
  cases a with
  | sPutBeg i x =>
    simp only [step] at h
    split at h
    · rename_i a ha
      split at h
      · rename_i hpc; cases h; exact .sPutBeg i x a ha hpc
      · cases h
    · cases h
  | sPut i =>
    simp only [step] at h
    split at h
    · rename_i a ha
      split at h
      · rename_i x hpc
        split at h
        · rename_i hr; cases h; exact .sPut i x a ha hpc hr
        · cases h
      · cases h
    · cases h
  | sEndBeg i =>
    simp only [step] at h
    split at h
    · rename_i a ha
      split at h
      · rename_i hg; cases h; exact .sEndBeg i a ha hg.1 hg.2
      · cases h
    · cases h
  | sApply i =>
    simp only [step] at h
    split at h
    · rename_i a ha
      split at h
      · rename_i hg; cases h; exact .sApply i a ha hg.1 hg.2
      · cases h
    · cases h
  | sMark i =>
    simp only [step] at h
    split at h
    · rename_i a ha
      split at h
      · rename_i hg; cases h; exact .sMark i a ha hg.1 hg.2
      · cases h
    · cases h
  | sRetry i =>
    simp only [step] at h
    split at h
    · rename_i a ha
      split at h
      · rename_i hg; cases h; exact .sRetry i a ha hg.1 hg.2.1 hg.2.2.1 hg.2.2.2
      · cases h
    · cases h
  | sStop i =>
    simp only [step] at h
    split at h
    · rename_i a ha
      split at h
      · rename_i hg; cases h; exact .sStop i a ha hg.1 hg.2.1 hg.2.2.1 hg.2.2.2
      · cases h
    · cases h
  | cChk1 j =>
    simp only [step] at h
    split at h
    · rename_i a ha
      split at h
      · rename_i hpc
        split at h
        · rename_i hf; cases h; exact .cChk1Full j a ha hpc hf
        · rename_i hf; cases h; exact .cChk1Go j a ha hpc (by simpa using hf)
      · cases h
    · cases h
  | cGet j =>
    simp only [step] at h
    split at h
    · rename_i a ha
      split at h
      · rename_i hpc
        split at h
        · rename_i i x rest hq; cases h; exact .cGetItem j i x rest a ha hpc hq
        · rename_i rest hq; cases h; exact .cGetMark j rest a ha hpc hq
        · cases h
      · cases h
    · cases h
  | cChk2 j =>
    simp only [step] at h
    split at h
    · rename_i a ha
      split at h
      · rename_i hpc
        split at h
        · rename_i hf; cases h; exact .cChk2Full j a ha hpc hf
        · rename_i hf; cases h; exact .cChk2Go j a ha hpc (by simpa using hf)
      · cases h
    · cases h
  | cReput j =>
    simp only [step] at h
    split at h
    · rename_i a ha
      split at h
      · rename_i hg; cases h; exact .cReput j a ha hg.1 hg.2
      · cases h
    · cases h
  | cLock j =>
    simp only [step] at h
    split at h
    · rename_i a ha
      split at h
      · rename_i hg; cases h; exact .cLock j a ha hg.1 hg.2
      · cases h
    · cases h
  | cTake j =>
    simp only [step] at h
    split at h
    · rename_i a ha
      split at h
      · rename_i hg; cases h; exact .cTake j a ha hg.1 hg.2
      · cases h
    · cases h
  | cGive j =>
    simp only [step] at h
    split at h
    · rename_i a ha
      split at h
      · rename_i hg; cases h; exact .cGive j a ha hg.1 hg.2
      · cases h
    · cases h
  | cTest j =>
    simp only [step] at h
    split at h
    · rename_i a ha
      split at h
      · rename_i hpc; cases h; exact .cTest j a ha hpc
      · cases h
    · cases h
  | cUnlock j =>
    simp only [step] at h
    split at h
    · rename_i a ha
      split at h
      · rename_i hpc; cases h; exact .cUnlockLast j a ha hpc
      · rename_i hpc; cases h; exact .cUnlockGo j a ha hpc
      · cases h
    · cases h
  | cExtra j =>
    simp only [step] at h
    split at h
    · rename_i a ha
      split at h
      · rename_i hg; cases h; exact .cExtra j a ha hg.1 hg.2
      · cases h
    · cases h
  | cRetry j =>
    simp only [step] at h
    split at h
    · rename_i a ha
      split at h
      · rename_i hg; cases h; exact .cRetry j a ha hg.1 hg.2.1 hg.2.2.1 hg.2.2.2
      · cases h
    · cases h
  | cStop j =>
    simp only [step] at h
    split at h
    · rename_i a ha
      split at h
      · rename_i hg; cases h; exact .cStop j a ha hg.1 hg.2.1 hg.2.2.1 hg.2.2.2
      · cases h
    · cases h
  | rStart =>
    simp only [step] at h
    split at h
    · rename_i hg
      have hall : ∀ a ∈ s.cons, a.pc = .done := by
        intro a ha
        have := List.all_eq_true.mp hg.2 a ha
        simpa using this
      split at h
      · rename_i hf; cases h; exact .rStartOk hg.1 hall hf
      · rename_i hf; cases h; exact .rStartFail hg.1 hall (by simpa using hf)
    · cases h
  | rGet =>
    simp only [step] at h
    split at h
    · rename_i hr
      split at h
      · rename_i rest hq
        split at h
        · rename_i hu; cases h; exact .rGetMark rest hr hq hu
        · cases h
      · rename_i i x rest hq; cases h; exact .rGetItem i x rest hr hq
      · cases h
    · cases h
  | rRetry =>
    simp only [step] at h
    split at h
    · rename_i hg; cases h; exact .rRetry hg.1 hg.2.1 hg.2.2.1 hg.2.2.2
    · cases h
  | rStop =>
    simp only [step] at h
    split at h
    · rename_i hg; cases h; exact .rStop hg.1 hg.2.1 hg.2.2.1 hg.2.2.2
    · cases h
  | setStop =>
    simp only [step] at h
    split at h
    · rename_i hg; cases h; exact .setStop hg
    · cases h
  | tick =>
    simp only [step] at h
    split at h
    · rename_i hg; cases h; exact .tick hg
    · cases h

def Reachable (c : Cfg) (s : State) : Prop := Core.Reach (step c) (init c) s

theorem reachable_inv (c : Cfg) (Inv : State → Prop) (h0 : Inv (init c))
    (hstep : ∀ s a s', Inv s → Step c s a s' → Inv s') {s : State} (hr : Reachable c s) : Inv s :=
  Core.invariant_reach (fun s a s' hi hs => hstep s a s' hi (step_sound c s s' a hs)) h0 hr

end IterQueue
