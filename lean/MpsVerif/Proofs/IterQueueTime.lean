import MpsVerif.Proofs.IterQueueCount
/-!
# Timing invariant of the `IterableQueue` model (bounded waits of `ResponsiveQueue`)

For every actor inside a blocking `get/put`: the current bounded wait started at `tw ≤ now`, has not
overrun (`now ≤ tw + w`, by the urgency of `tick`), and either it is the first wait of the operation
(`tw = t0`) or it was started by a retry, which only happens while no stop is requested
(`stop = some ts → tw ≤ ts`).  An actor is `stopped` only if a stop was requested.
-/
namespace IterQueue

structure WaitOk (w now : Nat) (stop : Option Nat) (t0 tw : Nat) : Prop where
  h1 : t0 ≤ tw
  h2 : tw ≤ now
  h3 : now ≤ tw + w
  h4 : tw = t0 ∨ ∀ ts, stop = some ts → tw ≤ ts

theorem WaitOk.fresh (w now : Nat) (stop : Option Nat) : WaitOk w now stop now now :=
  ⟨Nat.le_refl _, Nat.le_refl _, Nat.le_add_right _ _, Or.inl rfl⟩

structure TInv (c : Cfg) (s : State) : Prop where
  stopLe : ∀ ts, s.stop = some ts → ts ≤ s.now
  sup : ∀ (i : Nat) (a : Sup), s.sups[i]? = some a → a.pc.waiting = true → WaitOk c.w s.now s.stop a.t0 a.tw
  con : ∀ (j : Nat) (a : Con), s.cons[j]? = some a → a.pc.waiting = true → WaitOk c.w s.now s.stop a.t0 a.tw
  ren : s.rpc = .get → WaitOk c.w s.now s.stop s.rt0 s.rtw
  sstopped : ∀ (i : Nat) (a : Sup), s.sups[i]? = some a → (a.pc = .stoppedP ∨ a.pc = .stoppedE) → s.stop ≠ none
  cstopped : ∀ (j : Nat) (a : Con), s.cons[j]? = some a → a.pc = .stopped → s.stop ≠ none
  rstopped : s.rpc = .stopped → s.stop ≠ none

theorem getElem?_set_cases {α : Type} {l : List α} {j k : Nat} {a b : α} (h : (l.set j b)[k]? = some a) :
    a = b ∨ l[k]? = some a := by
  rw [List.getElem?_set] at h
  split at h
  · split at h
    · left; cases h; rfl
    · cases h
  · right; exact h

/-- consumer `j` is replaced by `b`; suppliers, clock, stop flag and renew state stay -/
theorem tinv_setC {c : Cfg} {s s' : State} {j : Nat} (b : Con) (hi : TInv c s)
    (e1 : s'.sups = s.sups) (e2 : s'.cons = s.cons.set j b) (e3 : s'.now = s.now) (e4 : s'.stop = s.stop)
    (e5 : s'.rpc = s.rpc) (e6 : s'.rt0 = s.rt0) (e7 : s'.rtw = s.rtw)
    (hb : b.pc.waiting = true → WaitOk c.w s.now s.stop b.t0 b.tw)
    (hbs : b.pc = .stopped → s.stop ≠ none) : TInv c s' := by
  refine ⟨?_, ?_, ?_, ?_, ?_, ?_, ?_⟩
  · rw [e3, e4]; exact hi.stopLe
  · rw [e1, e3, e4]; exact hi.sup
  · rw [e2, e3, e4]
    intro k a hk hw
    rcases getElem?_set_cases hk with h1 | h1
    · subst h1; exact hb hw
    · exact hi.con k a h1 hw
  · rw [e3, e4, e5, e6, e7]; exact hi.ren
  · rw [e1, e4]; exact hi.sstopped
  · rw [e2, e4]
    intro k a hk hp
    rcases getElem?_set_cases hk with h1 | h1
    · subst h1; exact hbs hp
    · exact hi.cstopped k a h1 hp
  · rw [e4, e5]; exact hi.rstopped

theorem tinv_setS {c : Cfg} {s s' : State} {i : Nat} (b : Sup) (hi : TInv c s)
    (e1 : s'.sups = s.sups.set i b) (e2 : s'.cons = s.cons) (e3 : s'.now = s.now) (e4 : s'.stop = s.stop)
    (e5 : s'.rpc = s.rpc) (e6 : s'.rt0 = s.rt0) (e7 : s'.rtw = s.rtw)
    (hb : b.pc.waiting = true → WaitOk c.w s.now s.stop b.t0 b.tw)
    (hbs : (b.pc = .stoppedP ∨ b.pc = .stoppedE) → s.stop ≠ none) : TInv c s' := by
  refine ⟨?_, ?_, ?_, ?_, ?_, ?_, ?_⟩
  · rw [e3, e4]; exact hi.stopLe
  · rw [e1, e3, e4]
    intro k a hk hw
    rcases getElem?_set_cases hk with h1 | h1
    · subst h1; exact hb hw
    · exact hi.sup k a h1 hw
  · rw [e2, e3, e4]; exact hi.con
  · rw [e3, e4, e5, e6, e7]; exact hi.ren
  · rw [e1, e4]
    intro k a hk hp
    rcases getElem?_set_cases hk with h1 | h1
    · subst h1; exact hbs hp
    · exact hi.sstopped k a h1 hp
  · rw [e2, e4]; exact hi.cstopped
  · rw [e4, e5]; exact hi.rstopped

/-- discharges the two side conditions of `tinv_setC` / `tinv_setS` when the new pc is not a
    waiting one, or the wait is fresh -/
macro "tside" : tactic => `(tactic|
  first
  | (intro hw; simp [CPc.waiting, SPc.waiting] at hw; done)
  | (intro _; exact WaitOk.fresh _ _ _)
  | (intro hw; rcases hw with hw | hw <;> simp at hw; done))

theorem tinv_step (c : Cfg) (s s' : State) (a : Act) (hi : TInv c s) (hs : Step c s a s') : TInv c s' := by
  cases hs with
  | sPutBeg i x a h hpc => exact tinv_setS _ hi rfl rfl rfl rfl rfl rfl rfl (by tside) (by tside)
  | sPut i x a h hpc hroom => exact tinv_setS _ hi rfl rfl rfl rfl rfl rfl rfl (by tside) (by tside)
  | sEndBeg i a h hpc hsp => exact tinv_setS _ hi rfl rfl rfl rfl rfl rfl rfl (by tside) (by tside)
  | sApply i a h hpc hap => exact tinv_setS _ hi rfl rfl rfl rfl rfl rfl rfl (by tside) (by tside)
  | sMark i a h hpc hroom => exact tinv_setS _ hi rfl rfl rfl rfl rfl rfl rfl (by tside) (by tside)
  | sRetry i a h hw hroom hdue hstop =>
    have ho := hi.sup i a h hw
    refine tinv_setS _ hi rfl rfl rfl rfl rfl rfl rfl ?_ ?_
    · intro _
      exact ⟨Nat.le_trans ho.h1 ho.h2, Nat.le_refl _, Nat.le_add_right _ _, Or.inr (by intro ts hts; simp [hstop] at hts)⟩
    · intro hp
      rcases hp with hp | hp <;> simp at hp <;> rw [hp] at hw <;> simp [SPc.waiting] at hw
  | sStop i a h hw hroom hdue hstop =>
    refine tinv_setS _ hi rfl rfl rfl rfl rfl rfl rfl ?_ (fun _ => hstop)
    intro hw2
    simp only at hw2
    split at hw2 <;> simp [SPc.waiting] at hw2
  | cChk1Full j a h hpc hf => exact tinv_setC _ hi rfl rfl rfl rfl rfl rfl rfl (by tside) (by simp)
  | cChk1Go j a h hpc hf => exact tinv_setC _ hi rfl rfl rfl rfl rfl rfl rfl (by tside) (by simp)
  | cGetItem j i x rest a h hpc hq => exact tinv_setC _ hi rfl rfl rfl rfl rfl rfl rfl (by tside) (by simp)
  | cGetMark j rest a h hpc hq => exact tinv_setC _ hi rfl rfl rfl rfl rfl rfl rfl (by tside) (by simp)
  | cChk2Full j a h hpc hf => exact tinv_setC _ hi rfl rfl rfl rfl rfl rfl rfl (by tside) (by simp)
  | cChk2Go j a h hpc hf => exact tinv_setC _ hi rfl rfl rfl rfl rfl rfl rfl (by tside) (by simp)
  | cReput j a h hpc hroom => exact tinv_setC _ hi rfl rfl rfl rfl rfl rfl rfl (by tside) (by simp)
  | cLock j a h hpc hl => exact tinv_setC _ hi rfl rfl rfl rfl rfl rfl rfl (by tside) (by simp)
  | cTake j a h hpc hap => exact tinv_setC _ hi rfl rfl rfl rfl rfl rfl rfl (by tside) (by simp)
  | cGive j a h hpc hu => exact tinv_setC _ hi rfl rfl rfl rfl rfl rfl rfl (by tside) (by simp)
  | cTest j a h hpc => exact tinv_setC _ hi rfl rfl rfl rfl rfl rfl rfl (by tside) (by simp)
  | cUnlockLast j a h hpc => exact tinv_setC _ hi rfl rfl rfl rfl rfl rfl rfl (by tside) (by simp)
  | cUnlockGo j a h hpc => exact tinv_setC _ hi rfl rfl rfl rfl rfl rfl rfl (by tside) (by simp)
  | cExtra j a h hpc hroom => exact tinv_setC _ hi rfl rfl rfl rfl rfl rfl rfl (by tside) (by simp)
  | cRetry j a h hw hb hdue hstop =>
    have ho := hi.con j a h hw
    refine tinv_setC _ hi rfl rfl rfl rfl rfl rfl rfl ?_ ?_
    · intro _
      exact ⟨Nat.le_trans ho.h1 ho.h2, Nat.le_refl _, Nat.le_add_right _ _, Or.inr (by intro ts hts; simp [hstop] at hts)⟩
    · intro hp; simp at hp; rw [hp] at hw; simp [CPc.waiting] at hw
  | cStop j a h hw hb hdue hstop =>
    exact tinv_setC _ hi rfl rfl rfl rfl rfl rfl rfl (by tside) (fun _ => hstop)
  | rStartOk hr hall hf =>
    exact ⟨hi.stopLe, hi.sup, hi.con, fun _ => WaitOk.fresh _ _ _, hi.sstopped, hi.cstopped, by simp⟩
  | rStartFail hr hall hf =>
    exact ⟨hi.stopLe, hi.sup, hi.con, by simp, hi.sstopped, hi.cstopped, by simp⟩
  | rGetMark rest hr hq hu =>
    refine ⟨hi.stopLe, ?_, ?_, by simp, ?_, ?_, by simp⟩
    · intro i a h hw
      simp only [List.getElem?_replicate] at h
      split at h <;> cases h
      simp [freshSup, SPc.waiting] at hw
    · intro j a h hw
      simp only [List.getElem?_replicate] at h
      split at h <;> cases h
      simp [freshCon, CPc.waiting] at hw
    · intro i a h hp
      simp only [List.getElem?_replicate] at h
      split at h <;> cases h
      simp [freshSup] at hp
    · intro j a h hp
      simp only [List.getElem?_replicate] at h
      split at h <;> cases h
      simp [freshCon] at hp
  | rGetItem i x rest hr hq =>
    exact ⟨hi.stopLe, hi.sup, hi.con, by simp, hi.sstopped, hi.cstopped, by simp⟩
  | rRetry hr hq hdue hstop =>
    have ho := hi.ren hr
    refine ⟨hi.stopLe, hi.sup, hi.con, ?_, hi.sstopped, hi.cstopped, hi.rstopped⟩
    intro _
    exact ⟨Nat.le_trans ho.h1 ho.h2, Nat.le_refl _, Nat.le_add_right _ _, Or.inr (by intro ts hts; simp [hstop] at hts)⟩
  | rStop hr hq hdue hstop =>
    exact ⟨hi.stopLe, hi.sup, hi.con, by simp, hi.sstopped, hi.cstopped, fun _ => hstop⟩
  | setStop hstop =>
    refine ⟨?_, ?_, ?_, ?_, ?_, ?_, ?_⟩
    · intro ts hts; simp at hts; show ts ≤ s.now; omega
    · intro i a h hw
      have ho := hi.sup i a h hw
      exact ⟨ho.h1, ho.h2, ho.h3, Or.inr (by intro ts hts; simp at hts; have := ho.h2; omega)⟩
    · intro j a h hw
      have ho := hi.con j a h hw
      exact ⟨ho.h1, ho.h2, ho.h3, Or.inr (by intro ts hts; simp at hts; have := ho.h2; omega)⟩
    · intro hr
      have ho := hi.ren hr
      exact ⟨ho.h1, ho.h2, ho.h3, Or.inr (by intro ts hts; simp at hts; have := ho.h2; show s.rtw ≤ ts; omega)⟩
    · intro _ _ _ _; simp
    · intro _ _ _ _; simp
    · intro _; simp
  | tick hnd =>
    simp only [noneDue, Bool.and_eq_true, List.all_eq_true, Bool.or_eq_true, Bool.not_eq_true',
      decide_eq_true_eq] at hnd
    obtain ⟨⟨hS, hC⟩, hR⟩ := hnd
    refine ⟨?_, ?_, ?_, ?_, hi.sstopped, hi.cstopped, hi.rstopped⟩
    · intro ts hts; have := hi.stopLe ts hts; show ts ≤ s.now + 1; omega
    · intro i a h hw
      have ho := hi.sup i a h hw
      rcases hS a (mem_of_getElem? h) with h5 | h5
      · rw [h5] at hw; cases hw
      · exact ⟨ho.h1, by have := ho.h2; show a.tw ≤ s.now + 1; omega, by show s.now + 1 ≤ a.tw + c.w; omega, ho.h4⟩
    · intro j a h hw
      have ho := hi.con j a h hw
      rcases hC a (mem_of_getElem? h) with h5 | h5
      · rw [h5] at hw; cases hw
      · exact ⟨ho.h1, by have := ho.h2; show a.tw ≤ s.now + 1; omega, by show s.now + 1 ≤ a.tw + c.w; omega, ho.h4⟩
    · intro hr
      have hr' : s.rpc = .get := hr
      have ho := hi.ren hr'
      rcases hR with h5 | h5
      · rw [hr'] at h5; cases h5
      · exact ⟨ho.h1, by have := ho.h2; show s.rtw ≤ s.now + 1; omega, by show s.now + 1 ≤ s.rtw + c.w; omega, ho.h4⟩

theorem tinv_init (c : Cfg) : TInv c (init c) := by
  refine ⟨by simp [init], ?_, ?_, by simp [init], ?_, ?_, by simp [init]⟩
  · intro i a h hw
    simp only [init, List.getElem?_replicate] at h
    split at h <;> cases h
    simp [freshSup, SPc.waiting] at hw
  · intro j a h hw
    simp only [init, List.getElem?_replicate] at h
    split at h <;> cases h
    simp [freshCon, CPc.waiting] at hw
  · intro i a h hp
    simp only [init, List.getElem?_replicate] at h
    split at h <;> cases h
    simp [freshSup] at hp
  · intro j a h hp
    simp only [init, List.getElem?_replicate] at h
    split at h <;> cases h
    simp [freshCon] at hp

theorem tinv_reachable (c : Cfg) {s : State} (hr : Reachable c s) : TInv c s :=
  reachable_inv c (TInv c) (tinv_init c) (fun s a s' hi hs => tinv_step c s s' a hi hs) hr

end IterQueue
