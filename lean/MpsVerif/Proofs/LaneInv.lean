import MpsVerif.Proofs.LaneStep
/-! The inductive invariant of the single-writer / single-reader lane (`nw = nr = 1`): thread 0 is the writer `w`,
    thread 1 the reader `r`. -/
namespace Lane

/-- program points at which the thread holds the mutex -/
def Pc.Holds (pc : Pc) : Prop := pc = .check ∨ pc = .act ∨ pc = .note ∨ ∃ r, pc = .leave r

theorem isFull_iff (c : Cfg) (s : State) : isFull c s = true ↔ 0 < c.maxsize ∧ c.maxsize ≤ s.q.length := by
  simp [isFull]

theorem isFull_false_iff (c : Cfg) (s : State) : isFull c s = false ↔ (0 < c.maxsize → s.q.length < c.maxsize) := by
  rw [← Bool.not_eq_true, isFull_iff]; constructor
  · intro h h0; omega
  · intro h; omega

/-- the thread's waiter lock is in its condition's list -/
def Thr.listed (th : Thr) : Prop := (th.pc = .wait ∨ th.pc = .relock false) ∧ th.notified = false

instance (th : Thr) : Decidable th.listed := by unfold Thr.listed; exact inferInstance

/-- woken, or about to be: the thread will go on to `act` without a further check -/
def Thr.released (th : Thr) : Prop := th.pc = .act ∨ th.pc = .relock true ∨ (th.pc = .wait ∧ th.notified = true)

structure Good (N : Nat) (q : List Nat) (owner : Option Nat) (w r : Thr) (nfW neW putH gotH : List Nat) : Prop where
  own0 : owner = some 0 ↔ w.pc.Holds
  own1 : owner = some 1 ↔ r.pc.Holds
  ownR : ∀ t, owner = some t → t = 0 ∨ t = 1
  nf : nfW = if w.listed then [0] else []
  ne : neW = if r.listed then [1] else []
  fifo : putH = gotH ++ q
  bound : 0 < N → q.length ≤ N
  wRoom : w.released → 0 < N → q.length < N
  rNote : r.pc = .note → 0 < N → q.length < N
  rHas : r.released → q ≠ []
  wNote : w.pc = .note → q ≠ []
  wWait : w.pc = .wait → w.notified = false → (0 < N ∧ N ≤ q.length) ∨ r.pc = .note
  rWait : r.pc = .wait → r.notified = false → q = [] ∨ w.pc = .note
  wFired : w.fired = true → w.mode = .timed
  rFired : r.fired = true → r.mode = .timed
  wRes : ∀ x, (w.pc = .leave x ∨ w.pc = .fin x) → x = .ok ∨ (x = .full ∧ (w.mode = .nowait ∨ w.fired = true))
  rRes : ∀ x, (r.pc = .leave x ∨ r.pc = .fin x) → x = .ok ∨ (x = .empty ∧ (r.mode = .nowait ∨ r.fired = true))
  wFullNow : w.pc = .leave .full → w.mode = .nowait → 0 < N ∧ N ≤ q.length
  rEmptyNow : r.pc = .leave .empty → r.mode = .nowait → q = []
  wLost : w.pc = .relock false → w.fired = true
  rLost : r.pc = .relock false → r.fired = true
  wMode : (w.pc = .wait ∨ ∃ g, w.pc = .relock g) → w.mode ≠ .nowait
  rMode : (r.pc = .wait ∨ ∃ g, r.pc = .relock g) → r.mode ≠ .nowait
  rVal : (r.pc = .note ∨ r.pc = .leave .ok ∨ r.pc = .fin .ok) → gotH.getLast? = some r.val

/-- `Good` from the conjunction of its fields (so that one `simp_all` treats the hypotheses once) -/
theorem Good.of_and {N : Nat} {q : List Nat} {owner : Option Nat} {w r : Thr} {nfW neW putH gotH : List Nat}
    (h : (owner = some 0 ↔ w.pc.Holds) ∧ (owner = some 1 ↔ r.pc.Holds) ∧ (∀ t, owner = some t → t = 0 ∨ t = 1) ∧
      (nfW = if w.listed then [0] else []) ∧ (neW = if r.listed then [1] else []) ∧ (putH = gotH ++ q) ∧
      (0 < N → q.length ≤ N) ∧ (w.released → 0 < N → q.length < N) ∧ (r.pc = .note → 0 < N → q.length < N) ∧
      (r.released → q ≠ []) ∧ (w.pc = .note → q ≠ []) ∧
      (w.pc = .wait → w.notified = false → (0 < N ∧ N ≤ q.length) ∨ r.pc = .note) ∧
      (r.pc = .wait → r.notified = false → q = [] ∨ w.pc = .note) ∧
      (w.fired = true → w.mode = .timed) ∧ (r.fired = true → r.mode = .timed) ∧
      (∀ x, (w.pc = .leave x ∨ w.pc = .fin x) → x = .ok ∨ (x = .full ∧ (w.mode = .nowait ∨ w.fired = true))) ∧
      (∀ x, (r.pc = .leave x ∨ r.pc = .fin x) → x = .ok ∨ (x = .empty ∧ (r.mode = .nowait ∨ r.fired = true))) ∧
      (w.pc = .leave .full → w.mode = .nowait → 0 < N ∧ N ≤ q.length) ∧
      (r.pc = .leave .empty → r.mode = .nowait → q = []) ∧
      (w.pc = .relock false → w.fired = true) ∧ (r.pc = .relock false → r.fired = true) ∧
      ((w.pc = .wait ∨ ∃ g, w.pc = .relock g) → w.mode ≠ .nowait) ∧
      ((r.pc = .wait ∨ ∃ g, r.pc = .relock g) → r.mode ≠ .nowait) ∧
      ((r.pc = .note ∨ r.pc = .leave .ok ∨ r.pc = .fin .ok) → gotH.getLast? = some r.val)) :
    Good N q owner w r nfW neW putH gotH := by
  obtain ⟨h1, h2, h3, h4, h5, h6, h7, h8, h9, h10, h11, h12, h13, h14, h15, h16, h17, h18, h19, h20, h21, h22, h23, h24⟩ := h
  exact ⟨h1, h2, h3, h4, h5, h6, h7, h8, h9, h10, h11, h12, h13, h14, h15, h16, h17, h18, h19, h20, h21, h22, h23, h24⟩

def Inv (c : Cfg) (s : State) : Prop :=
  ∃ w r, s.thr = [w, r] ∧ Good c.maxsize s.q s.owner w r s.nfW s.neW s.putH s.gotH

theorem inv_intro (c : Cfg) (s : State) (h : s.thr.length = 2)
    (g : Good c.maxsize s.q s.owner (s.th 0) (s.th 1) s.nfW s.neW s.putH s.gotH) : Inv c s := by
  match hs : s.thr, h with
  | [w, r], _ => exact ⟨w, r, hs, by simpa [State.th, hs] using g⟩

theorem inv_init (c : Cfg) (h1 : c.nw = 1) (h2 : c.nr = 1) : Inv c (init c) := by
  refine ⟨{}, {}, by simp [init, h1, h2, List.replicate], ?_⟩
  constructor <;> simp [init, Pc.Holds, Thr.listed, Thr.released]

/-- closes one (constructor, thread) case: compute the new thread table, then every field of `Good` -/
local macro "lane_fin" g:ident hthr:ident : tactic => `(tactic| (
  apply inv_intro
  · simp [setThr, markNotified, $hthr:ident]
  · simp only [setThr, markNotified, $hthr:ident, State.th, List.set_cons_zero, List.set_cons_succ,
      List.getD_cons_zero, List.getD_cons_succ, List.getElem?_cons_zero, List.getElem?_cons_succ]
    obtain ⟨own0, own1, ownR, nf, ne, fifo, bound, wRoom, rNote, rHas, wNote, wWait, rWait, wFired, rFired,
      wRes, rRes, wFullNow, rEmptyNow, wLost, rLost, wMode, rMode, rVal⟩ := $g
    apply Good.of_and
    simp_all [Pc.Holds, Thr.listed, Thr.released, mustWait, isFull_iff, isFull_false_iff, failRes]
    all_goals (and_intros <;> grind)))

/-- one constructor of `Step` for a given thread: identify the moving thread with `w` / `r`, then `lane_fin` -/
local macro "lane_case" s:ident t:term:max g:ident hthr:ident : tactic => `(tactic| (
  have hth : ($s).thr[$t]? = some ‹Thr› := by assumption
  rw [$hthr:ident] at hth
  simp at hth; subst hth; lane_fin $g $hthr))

/-- there is no third thread -/
local macro "lane_none" s:ident t:ident hthr:ident : tactic => `(tactic| (
  have hth : ($s).thr[$t + 2]? = some ‹Thr› := by assumption
  rw [$hthr:ident] at hth
  simp at hth))

theorem inv_call0 (c : Cfg) (h1 : c.nw = 1) (s s' : State) (m : Mode) (x : Nat) (hi : Inv c s)
    (hs : Step c s (.call 0 m x) s') : Inv c s' := by
  obtain ⟨w, r, hthr, g⟩ := hi
  have hw0 : c.isWriter 0 = true := by simp [Cfg.isWriter, h1]
  have hw1 : c.isWriter 1 = false := by simp [Cfg.isWriter, h1]
  cases hs <;> lane_case s 0 g hthr

theorem inv_call1 (c : Cfg) (h1 : c.nw = 1) (s s' : State) (m : Mode) (x : Nat) (hi : Inv c s)
    (hs : Step c s (.call 1 m x) s') : Inv c s' := by
  obtain ⟨w, r, hthr, g⟩ := hi
  have hw0 : c.isWriter 0 = true := by simp [Cfg.isWriter, h1]
  have hw1 : c.isWriter 1 = false := by simp [Cfg.isWriter, h1]
  cases hs <;> lane_case s 1 g hthr

theorem inv_call (c : Cfg) (h1 : c.nw = 1) (s s' : State) (t : Nat) (m : Mode) (x : Nat) (hi : Inv c s)
    (hs : Step c s (.call t m x) s') : Inv c s' := by
  rcases t with _ | _ | t
  · exact inv_call0 c h1 s s' m x hi hs
  · exact inv_call1 c h1 s s' m x hi hs
  · obtain ⟨w, r, hthr, g⟩ := hi
    cases hs <;> lane_none s t hthr

theorem inv_acquire0 (c : Cfg) (h1 : c.nw = 1) (s s' : State) (hi : Inv c s)
    (hs : Step c s (.acquire 0 ) s') : Inv c s' := by
  obtain ⟨w, r, hthr, g⟩ := hi
  have hw0 : c.isWriter 0 = true := by simp [Cfg.isWriter, h1]
  have hw1 : c.isWriter 1 = false := by simp [Cfg.isWriter, h1]
  cases hs <;> lane_case s 0 g hthr

theorem inv_acquire1 (c : Cfg) (h1 : c.nw = 1) (s s' : State) (hi : Inv c s)
    (hs : Step c s (.acquire 1 ) s') : Inv c s' := by
  obtain ⟨w, r, hthr, g⟩ := hi
  have hw0 : c.isWriter 0 = true := by simp [Cfg.isWriter, h1]
  have hw1 : c.isWriter 1 = false := by simp [Cfg.isWriter, h1]
  cases hs <;> lane_case s 1 g hthr

theorem inv_acquire (c : Cfg) (h1 : c.nw = 1) (s s' : State) (t : Nat) (hi : Inv c s)
    (hs : Step c s (.acquire t ) s') : Inv c s' := by
  rcases t with _ | _ | t
  · exact inv_acquire0 c h1 s s'  hi hs
  · exact inv_acquire1 c h1 s s'  hi hs
  · obtain ⟨w, r, hthr, g⟩ := hi
    cases hs <;> lane_none s t hthr

theorem inv_check0 (c : Cfg) (h1 : c.nw = 1) (s s' : State) (hi : Inv c s)
    (hs : Step c s (.check 0 ) s') : Inv c s' := by
  obtain ⟨w, r, hthr, g⟩ := hi
  have hw0 : c.isWriter 0 = true := by simp [Cfg.isWriter, h1]
  have hw1 : c.isWriter 1 = false := by simp [Cfg.isWriter, h1]
  cases hs <;> lane_case s 0 g hthr

theorem inv_check1 (c : Cfg) (h1 : c.nw = 1) (s s' : State) (hi : Inv c s)
    (hs : Step c s (.check 1 ) s') : Inv c s' := by
  obtain ⟨w, r, hthr, g⟩ := hi
  have hw0 : c.isWriter 0 = true := by simp [Cfg.isWriter, h1]
  have hw1 : c.isWriter 1 = false := by simp [Cfg.isWriter, h1]
  cases hs <;> lane_case s 1 g hthr

theorem inv_check (c : Cfg) (h1 : c.nw = 1) (s s' : State) (t : Nat) (hi : Inv c s)
    (hs : Step c s (.check t ) s') : Inv c s' := by
  rcases t with _ | _ | t
  · exact inv_check0 c h1 s s'  hi hs
  · exact inv_check1 c h1 s s'  hi hs
  · obtain ⟨w, r, hthr, g⟩ := hi
    cases hs <;> lane_none s t hthr

theorem inv_wake0 (c : Cfg) (h1 : c.nw = 1) (s s' : State) (hi : Inv c s)
    (hs : Step c s (.wake 0 ) s') : Inv c s' := by
  obtain ⟨w, r, hthr, g⟩ := hi
  have hw0 : c.isWriter 0 = true := by simp [Cfg.isWriter, h1]
  have hw1 : c.isWriter 1 = false := by simp [Cfg.isWriter, h1]
  cases hs <;> lane_case s 0 g hthr

theorem inv_wake1 (c : Cfg) (h1 : c.nw = 1) (s s' : State) (hi : Inv c s)
    (hs : Step c s (.wake 1 ) s') : Inv c s' := by
  obtain ⟨w, r, hthr, g⟩ := hi
  have hw0 : c.isWriter 0 = true := by simp [Cfg.isWriter, h1]
  have hw1 : c.isWriter 1 = false := by simp [Cfg.isWriter, h1]
  cases hs <;> lane_case s 1 g hthr

theorem inv_wake (c : Cfg) (h1 : c.nw = 1) (s s' : State) (t : Nat) (hi : Inv c s)
    (hs : Step c s (.wake t ) s') : Inv c s' := by
  rcases t with _ | _ | t
  · exact inv_wake0 c h1 s s'  hi hs
  · exact inv_wake1 c h1 s s'  hi hs
  · obtain ⟨w, r, hthr, g⟩ := hi
    cases hs <;> lane_none s t hthr

theorem inv_timeoutFire0 (c : Cfg) (h1 : c.nw = 1) (s s' : State) (hi : Inv c s)
    (hs : Step c s (.timeoutFire 0 ) s') : Inv c s' := by
  obtain ⟨w, r, hthr, g⟩ := hi
  have hw0 : c.isWriter 0 = true := by simp [Cfg.isWriter, h1]
  have hw1 : c.isWriter 1 = false := by simp [Cfg.isWriter, h1]
  cases hs <;> lane_case s 0 g hthr

theorem inv_timeoutFire1 (c : Cfg) (h1 : c.nw = 1) (s s' : State) (hi : Inv c s)
    (hs : Step c s (.timeoutFire 1 ) s') : Inv c s' := by
  obtain ⟨w, r, hthr, g⟩ := hi
  have hw0 : c.isWriter 0 = true := by simp [Cfg.isWriter, h1]
  have hw1 : c.isWriter 1 = false := by simp [Cfg.isWriter, h1]
  cases hs <;> lane_case s 1 g hthr

theorem inv_timeoutFire (c : Cfg) (h1 : c.nw = 1) (s s' : State) (t : Nat) (hi : Inv c s)
    (hs : Step c s (.timeoutFire t ) s') : Inv c s' := by
  rcases t with _ | _ | t
  · exact inv_timeoutFire0 c h1 s s'  hi hs
  · exact inv_timeoutFire1 c h1 s s'  hi hs
  · obtain ⟨w, r, hthr, g⟩ := hi
    cases hs <;> lane_none s t hthr

theorem inv_reacq0 (c : Cfg) (h1 : c.nw = 1) (s s' : State) (hi : Inv c s)
    (hs : Step c s (.reacq 0 ) s') : Inv c s' := by
  obtain ⟨w, r, hthr, g⟩ := hi
  have hw0 : c.isWriter 0 = true := by simp [Cfg.isWriter, h1]
  have hw1 : c.isWriter 1 = false := by simp [Cfg.isWriter, h1]
  cases hs <;> lane_case s 0 g hthr

theorem inv_reacq1 (c : Cfg) (h1 : c.nw = 1) (s s' : State) (hi : Inv c s)
    (hs : Step c s (.reacq 1 ) s') : Inv c s' := by
  obtain ⟨w, r, hthr, g⟩ := hi
  have hw0 : c.isWriter 0 = true := by simp [Cfg.isWriter, h1]
  have hw1 : c.isWriter 1 = false := by simp [Cfg.isWriter, h1]
  cases hs <;> lane_case s 1 g hthr

theorem inv_reacq (c : Cfg) (h1 : c.nw = 1) (s s' : State) (t : Nat) (hi : Inv c s)
    (hs : Step c s (.reacq t ) s') : Inv c s' := by
  rcases t with _ | _ | t
  · exact inv_reacq0 c h1 s s'  hi hs
  · exact inv_reacq1 c h1 s s'  hi hs
  · obtain ⟨w, r, hthr, g⟩ := hi
    cases hs <;> lane_none s t hthr

theorem inv_act0 (c : Cfg) (h1 : c.nw = 1) (s s' : State) (hi : Inv c s)
    (hs : Step c s (.act 0 ) s') : Inv c s' := by
  obtain ⟨w, r, hthr, g⟩ := hi
  have hw0 : c.isWriter 0 = true := by simp [Cfg.isWriter, h1]
  have hw1 : c.isWriter 1 = false := by simp [Cfg.isWriter, h1]
  cases hs <;> lane_case s 0 g hthr

theorem inv_act1 (c : Cfg) (h1 : c.nw = 1) (s s' : State) (hi : Inv c s)
    (hs : Step c s (.act 1 ) s') : Inv c s' := by
  obtain ⟨w, r, hthr, g⟩ := hi
  have hw0 : c.isWriter 0 = true := by simp [Cfg.isWriter, h1]
  have hw1 : c.isWriter 1 = false := by simp [Cfg.isWriter, h1]
  cases hs <;> lane_case s 1 g hthr

theorem inv_act (c : Cfg) (h1 : c.nw = 1) (s s' : State) (t : Nat) (hi : Inv c s)
    (hs : Step c s (.act t ) s') : Inv c s' := by
  rcases t with _ | _ | t
  · exact inv_act0 c h1 s s'  hi hs
  · exact inv_act1 c h1 s s'  hi hs
  · obtain ⟨w, r, hthr, g⟩ := hi
    cases hs <;> lane_none s t hthr

theorem inv_notify0 (c : Cfg) (h1 : c.nw = 1) (s s' : State) (hi : Inv c s)
    (hs : Step c s (.notify 0 ) s') : Inv c s' := by
  obtain ⟨w, r, hthr, g⟩ := hi
  have hw0 : c.isWriter 0 = true := by simp [Cfg.isWriter, h1]
  have hw1 : c.isWriter 1 = false := by simp [Cfg.isWriter, h1]
  cases hs
  case notifyWSome =>
    have hq : s.neW = ‹Nat› :: ‹List Nat› := by assumption
    rw [g.ne] at hq
    split at hq
    · simp at hq; obtain ⟨hu, hrest⟩ := hq; subst hu; subst hrest; lane_case s 0 g hthr
    · simp at hq
  case notifyRSome =>
    have hq : s.nfW = ‹Nat› :: ‹List Nat› := by assumption
    rw [g.nf] at hq
    split at hq
    · simp at hq; obtain ⟨hu, hrest⟩ := hq; subst hu; subst hrest; lane_case s 0 g hthr
    · simp at hq
  case notifyWNone => lane_case s 0 g hthr
  case notifyRNone => lane_case s 0 g hthr

theorem inv_notify1 (c : Cfg) (h1 : c.nw = 1) (s s' : State) (hi : Inv c s)
    (hs : Step c s (.notify 1 ) s') : Inv c s' := by
  obtain ⟨w, r, hthr, g⟩ := hi
  have hw0 : c.isWriter 0 = true := by simp [Cfg.isWriter, h1]
  have hw1 : c.isWriter 1 = false := by simp [Cfg.isWriter, h1]
  cases hs
  case notifyWSome =>
    have hq : s.neW = ‹Nat› :: ‹List Nat› := by assumption
    rw [g.ne] at hq
    split at hq
    · simp at hq; obtain ⟨hu, hrest⟩ := hq; subst hu; subst hrest; lane_case s 1 g hthr
    · simp at hq
  case notifyRSome =>
    have hq : s.nfW = ‹Nat› :: ‹List Nat› := by assumption
    rw [g.nf] at hq
    split at hq
    · simp at hq; obtain ⟨hu, hrest⟩ := hq; subst hu; subst hrest; lane_case s 1 g hthr
    · simp at hq
  case notifyWNone => lane_case s 1 g hthr
  case notifyRNone => lane_case s 1 g hthr

theorem inv_notify (c : Cfg) (h1 : c.nw = 1) (s s' : State) (t : Nat) (hi : Inv c s)
    (hs : Step c s (.notify t ) s') : Inv c s' := by
  rcases t with _ | _ | t
  · exact inv_notify0 c h1 s s'  hi hs
  · exact inv_notify1 c h1 s s'  hi hs
  · obtain ⟨w, r, hthr, g⟩ := hi
    cases hs <;> lane_none s t hthr

theorem inv_unlock0 (c : Cfg) (h1 : c.nw = 1) (s s' : State) (hi : Inv c s)
    (hs : Step c s (.unlock 0 ) s') : Inv c s' := by
  obtain ⟨w, r, hthr, g⟩ := hi
  have hw0 : c.isWriter 0 = true := by simp [Cfg.isWriter, h1]
  have hw1 : c.isWriter 1 = false := by simp [Cfg.isWriter, h1]
  cases hs <;> lane_case s 0 g hthr

theorem inv_unlock1 (c : Cfg) (h1 : c.nw = 1) (s s' : State) (hi : Inv c s)
    (hs : Step c s (.unlock 1 ) s') : Inv c s' := by
  obtain ⟨w, r, hthr, g⟩ := hi
  have hw0 : c.isWriter 0 = true := by simp [Cfg.isWriter, h1]
  have hw1 : c.isWriter 1 = false := by simp [Cfg.isWriter, h1]
  cases hs <;> lane_case s 1 g hthr

theorem inv_unlock (c : Cfg) (h1 : c.nw = 1) (s s' : State) (t : Nat) (hi : Inv c s)
    (hs : Step c s (.unlock t ) s') : Inv c s' := by
  rcases t with _ | _ | t
  · exact inv_unlock0 c h1 s s'  hi hs
  · exact inv_unlock1 c h1 s s'  hi hs
  · obtain ⟨w, r, hthr, g⟩ := hi
    cases hs <;> lane_none s t hthr

theorem inv_ret0 (c : Cfg) (h1 : c.nw = 1) (s s' : State) (r : Res) (v : Nat) (hi : Inv c s)
    (hs : Step c s (.ret 0 r v) s') : Inv c s' := by
  obtain ⟨w, r, hthr, g⟩ := hi
  have hw0 : c.isWriter 0 = true := by simp [Cfg.isWriter, h1]
  have hw1 : c.isWriter 1 = false := by simp [Cfg.isWriter, h1]
  cases hs <;> lane_case s 0 g hthr

theorem inv_ret1 (c : Cfg) (h1 : c.nw = 1) (s s' : State) (r : Res) (v : Nat) (hi : Inv c s)
    (hs : Step c s (.ret 1 r v) s') : Inv c s' := by
  obtain ⟨w, r, hthr, g⟩ := hi
  have hw0 : c.isWriter 0 = true := by simp [Cfg.isWriter, h1]
  have hw1 : c.isWriter 1 = false := by simp [Cfg.isWriter, h1]
  cases hs <;> lane_case s 1 g hthr

theorem inv_ret (c : Cfg) (h1 : c.nw = 1) (s s' : State) (t : Nat) (r : Res) (v : Nat) (hi : Inv c s)
    (hs : Step c s (.ret t r v) s') : Inv c s' := by
  rcases t with _ | _ | t
  · exact inv_ret0 c h1 s s' r v hi hs
  · exact inv_ret1 c h1 s s' r v hi hs
  · obtain ⟨w, r, hthr, g⟩ := hi
    cases hs <;> lane_none s t hthr

theorem inv_step (c : Cfg) (h1 : c.nw = 1) (s s' : State) (a : Act) (hi : Inv c s) (hs : Step c s a s') :
    Inv c s' := by
  cases a with
  | call t m x => exact inv_call c h1 s s' t m x hi hs
  | acquire t  => exact inv_acquire c h1 s s' t  hi hs
  | check t  => exact inv_check c h1 s s' t  hi hs
  | wake t  => exact inv_wake c h1 s s' t  hi hs
  | timeoutFire t  => exact inv_timeoutFire c h1 s s' t  hi hs
  | reacq t  => exact inv_reacq c h1 s s' t  hi hs
  | act t  => exact inv_act c h1 s s' t  hi hs
  | notify t  => exact inv_notify c h1 s s' t  hi hs
  | unlock t  => exact inv_unlock c h1 s s' t  hi hs
  | ret t r v => exact inv_ret c h1 s s' t r v hi hs

/-- the invariant holds in every reachable state of the single-writer / single-reader lane -/
theorem all_reachable (c : Cfg) (h1 : c.nw = 1) (h2 : c.nr = 1) {s : State} (hr : Reachable c s) : Inv c s :=
  reachable_inv c (inv_init c h1 h2) (fun s a s' hi hs => inv_step c h1 s s' a hi hs) hr

end Lane
