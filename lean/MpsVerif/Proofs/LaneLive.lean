import MpsVerif.Proofs.LaneInv
/-! Progress (no lost wake-up, no deadlock) and the per-call termination measure of the lane. -/
namespace Lane

/-- steps a call still has in front of it (an upper bound): every step of a thread other than `call`
    strictly decreases its rank -/
def Pc.rank : Pc → Nat
  | .idle => 0 | .fin _ => 1 | .leave _ => 2 | .note => 3 | .act => 4 | .relock _ => 5 | .wait => 6
  | .check => 7 | .lock => 8

@[simp] theorem rank_idle : Pc.rank .idle = 0 := rfl
@[simp] theorem rank_fin (r : Res) : Pc.rank (.fin r) = 1 := rfl
@[simp] theorem rank_leave (r : Res) : Pc.rank (.leave r) = 2 := rfl
@[simp] theorem rank_note : Pc.rank .note = 3 := rfl
@[simp] theorem rank_act : Pc.rank .act = 4 := rfl
@[simp] theorem rank_relock (g : Bool) : Pc.rank (.relock g) = 5 := rfl
@[simp] theorem rank_wait : Pc.rank .wait = 6 := rfl
@[simp] theorem rank_check : Pc.rank .check = 7 := rfl
@[simp] theorem rank_lock : Pc.rank .lock = 8 := rfl

def mu (s : State) : Nat := (s.th 0).pc.rank + (s.th 1).pc.rank

theorem markNotified_pc (l : List Thr) (u k : Nat) :
    ((markNotified l u).getD k {}).pc = (l.getD k {}).pc := by
  unfold markNotified
  split
  · rename_i tu hu
    simp only [List.getD_eq_getElem?_getD, List.getElem?_set]
    split
    · rename_i huk; subst huk
      split
      · simp [hu]
      · rename_i hlt; simp at hlt; simp [List.getElem?_eq_none hlt] at hu
    · rfl
  · rfl

local macro "mu_tac" s:ident t:ident hthr:ident hs:ident : tactic => `(tactic| (
  cases $hs:ident <;> (
    have hth : ($s).thr[$t]? = some ‹Thr› := by assumption
    rw [$hthr:ident] at hth
    rcases $t:ident with _ | _ | t
    · simp at hth; subst hth
      simp only [mu, State.th, setThr, $hthr:ident, List.set_cons_zero, List.set_cons_succ, markNotified_pc]
      simp [*]
    · simp at hth; subst hth
      simp only [mu, State.th, setThr, $hthr:ident, List.set_cons_zero, List.set_cons_succ, markNotified_pc]
      simp [*]
    · simp at hth)))

/-- every step other than the environment's `call` strictly decreases the measure -/
theorem mu_step (c : Cfg) (s s' : State) (a : Act) (hi : Inv c s) (hs : Step c s a s')
    (ha : a.isCall = false) : mu s' < mu s := by
  obtain ⟨w, r, hthr, _⟩ := hi
  cases a with
  | call t m x => simp [Act.isCall] at ha
  | acquire t => mu_tac s t hthr hs
  | check t => mu_tac s t hthr hs
  | wake t => mu_tac s t hthr hs
  | timeoutFire t => mu_tac s t hthr hs
  | reacq t => mu_tac s t hthr hs
  | act t => mu_tac s t hthr hs
  | notify t => mu_tac s t hthr hs
  | unlock t => mu_tac s t hthr hs
  | ret t r v => mu_tac s t hthr hs

/-- the invariant in terms of the accessors: thread 0 is the writer, thread 1 the reader -/
theorem Inv.good {c : Cfg} {s : State} (hi : Inv c s) :
    Good c.maxsize s.q s.owner (s.th 0) (s.th 1) s.nfW s.neW s.putH s.gotH := by
  obtain ⟨w, r, hthr, g⟩ := hi
  simpa [State.th, hthr] using g

theorem Inv.length {c : Cfg} {s : State} (hi : Inv c s) : s.thr.length = 2 := by
  obtain ⟨w, r, hthr, _⟩ := hi
  simp [hthr]

theorem mu_le (s : State) : mu s ≤ 16 := by
  have h : ∀ pc : Pc, pc.rank ≤ 8 := by intro pc; cases pc <;> simp
  have := h (s.th 0).pc
  have := h (s.th 1).pc
  simp only [mu]; omega

/-- a run without new calls is no longer than the measure of its first state -/
theorem run_no_call_le (c : Cfg) (h1 : c.nw = 1) :
    ∀ (as : List Act) (s s' : State), Inv c s → (∀ a ∈ as, a.isCall = false) →
      Core.run (step c) s as = some s' → as.length + mu s' ≤ mu s := by
  intro as
  induction as with
  | nil => intro s s' _ _ hr; simp at hr; subst hr; simp
  | cons a as ih =>
    intro s s' hi hc hr
    rw [Core.run_cons] at hr
    cases hst : step c s a with
    | none => simp [hst] at hr
    | some s1 =>
      simp [hst] at hr
      have hS := step_sound c s s1 a hst
      have := ih s1 s' (inv_step c h1 s s1 a hi hS) (fun b hb => hc b (List.mem_cons_of_mem _ hb)) hr
      have := mu_step c s s1 a hi hS (hc a List.mem_cons_self)
      simp only [List.length_cons]; omega

/-- nothing can move without the environment (a new call by an idle thread) or the clock (a timed wait):
    the mutex is free, every thread is idle or parked — not yet notified — on a condition that is really
    false, and at most one of the two is parked -/
def Quiescent (c : Cfg) (s : State) : Prop :=
  s.owner = none ∧
  ((s.th 0).pc = .idle ∨ ((s.th 0).pc = .wait ∧ (s.th 0).notified = false ∧ isFull c s = true)) ∧
  ((s.th 1).pc = .idle ∨ ((s.th 1).pc = .wait ∧ (s.th 1).notified = false ∧ s.q = [])) ∧
  ((s.th 0).pc = .idle ∨ (s.th 1).pc = .idle)

/-- a thread that holds the mutex, or has left the `with` block, can take its next step -/
theorem enabled_of_running (c : Cfg) (s : State) (t : Nat) (th : Thr) (hth : s.thr[t]? = some th)
    (h : th.pc.Holds ∨ ∃ x, th.pc = .fin x) : ∃ a, a.internal = true ∧ (step c s a).isSome = true := by
  rcases h with (h | h | h | ⟨x, h⟩) | ⟨x, h⟩
  · refine ⟨.check t, rfl, ?_⟩
    simp only [step, hth, h, if_true]
    repeat' split
    all_goals simp
  · refine ⟨.act t, rfl, ?_⟩
    simp only [step, hth, h, if_true]
    repeat' split
    all_goals simp
  · refine ⟨.notify t, rfl, ?_⟩
    simp only [step, hth, h, if_true]
    repeat' split
    all_goals simp
  · exact ⟨.unlock t, rfl, by simp [step, hth, h]⟩
  · exact ⟨.ret t x th.val, rfl, by simp [step, hth, h]⟩

theorem progress (c : Cfg) (s : State) (hi : Inv c s) :
    (∃ a, a.internal = true ∧ (step c s a).isSome = true) ∨ Quiescent c s := by
  obtain ⟨w, r, hthr, g⟩ := hi
  have hw : s.thr[0]? = some w := by simp [hthr]
  have hr : s.thr[1]? = some r := by simp [hthr]
  by_cases h0 : w.pc.Holds ∨ ∃ x, w.pc = .fin x
  · exact Or.inl (enabled_of_running c s 0 w hw h0)
  by_cases h1 : r.pc.Holds ∨ ∃ x, r.pc = .fin x
  · exact Or.inl (enabled_of_running c s 1 r hr h1)
  have hown : s.owner = none := by
    cases ho : s.owner with
    | none => rfl
    | some t =>
      rcases g.ownR t ho with rfl | rfl
      · exact absurd (Or.inl (g.own0.mp ho)) h0
      · exact absurd (Or.inl (g.own1.mp ho)) h1
  -- a thread that wants the mutex gets it; a notified waiter wakes up
  by_cases h2 : w.pc = .lock
  · exact Or.inl ⟨.acquire 0, rfl, by simp [step, hw, h2, hown]⟩
  by_cases h3 : r.pc = .lock
  · exact Or.inl ⟨.acquire 1, rfl, by simp [step, hr, h3, hown]⟩
  by_cases h4 : ∃ b, w.pc = .relock b
  · obtain ⟨b, h4⟩ := h4
    refine Or.inl ⟨.reacq 0, rfl, ?_⟩
    cases b <;> simp [step, hw, h4, hown] <;> split <;> simp
  by_cases h5 : ∃ b, r.pc = .relock b
  · obtain ⟨b, h5⟩ := h5
    refine Or.inl ⟨.reacq 1, rfl, ?_⟩
    cases b <;> simp [step, hr, h5, hown] <;> split <;> simp
  by_cases h6 : w.pc = .wait ∧ w.notified = true
  · exact Or.inl ⟨.wake 0, rfl, by simp [step, hw, h6.1, h6.2]⟩
  by_cases h7 : r.pc = .wait ∧ r.notified = true
  · exact Or.inl ⟨.wake 1, rfl, by simp [step, hr, h7.1, h7.2]⟩
  -- what is left: idle, or parked and not notified
  right
  have hwq : w.pc = .idle ∨ (w.pc = .wait ∧ w.notified = false) := by
    cases hp : w.pc <;> simp_all [Pc.Holds]
  have hrq : r.pc = .idle ∨ (r.pc = .wait ∧ r.notified = false) := by
    cases hp : r.pc <;> simp_all [Pc.Holds]
  have hth0 : s.th 0 = w := by simp [State.th, hthr]
  have hth1 : s.th 1 = r := by simp [State.th, hthr]
  rw [Quiescent, hth0, hth1]
  have hrn : r.pc ≠ .note := by intro h; exact h1 (Or.inl (Or.inr (Or.inr (Or.inl h))))
  have hwn : w.pc ≠ .note := by intro h; exact h0 (Or.inl (Or.inr (Or.inr (Or.inl h))))
  refine ⟨hown, ?_, ?_, ?_⟩
  · rcases hwq with h | ⟨h, hn⟩
    · exact Or.inl h
    · rcases g.wWait h hn with hf | hf
      · exact Or.inr ⟨h, hn, (isFull_iff c s).mpr hf⟩
      · exact absurd hf hrn
  · rcases hrq with h | ⟨h, hn⟩
    · exact Or.inl h
    · rcases g.rWait h hn with hf | hf
      · exact Or.inr ⟨h, hn, hf⟩
      · exact absurd hf hwn
  · rcases hwq with h | ⟨h, hn⟩
    · exact Or.inl h
    · rcases hrq with h' | ⟨h', hn'⟩
      · exact Or.inr h'
      · exfalso
        rcases g.wWait h hn with hf | hf
        · rcases g.rWait h' hn' with he | he
          · rw [he] at hf; simp at hf; omega
          · exact hwn he
        · exact hrn hf

end Lane
