import MpsVerif.Proofs.LaneInv
/-! The lane refines the atomic bounded FIFO (`Lane.Spec`): `abs s = s.q`; a `put` linearises at its `append`,
    a `get` at its `popleft`; every other step is a stutter. -/
namespace Lane

theorem canPut_iff {α : Type} (n : Nat) (q : List α) : Spec.canPut n q = true ↔ (0 < n → q.length < n) := by
  simp only [Spec.canPut, Bool.or_eq_true, beq_iff_eq, decide_eq_true_eq]
  omega

theorem spec_put {α : Type} (n : Nat) (q : List α) (x : α) (h : q.length < n) :
    Spec.step n q (.put x) = some (q ++ [x]) := by
  simp only [Spec.step]
  rw [if_pos ((canPut_iff n q).mpr (fun _ => h))]

theorem spec_get {α : Type} (n : Nat) (q rest : List α) (x : α) (h : q = x :: rest) :
    Spec.step n q .get = some rest := by
  simp [Spec.step, h]

theorem th_eq (s : State) (t : Nat) (th : Thr) (h : s.thr[t]? = some th) : s.th t = th := by
  simp [State.th, List.getD_eq_getElem?_getD, h]

/-- one step of the lane is one step of the specification, or none -/
theorem refine_step (c : Cfg) (h1 : c.nw = 1) (s s' : State) (a : Act) (hi : Inv c s) (hs : Step c s a s') :
    match lin c s a with
    | some b => Spec.step c.maxsize s.q b = some s'.q
    | none => s'.q = s.q := by
  obtain ⟨w, r, hthr, g⟩ := hi
  cases a with
  | act t =>
    cases hs
    case actW =>
      have hth : s.thr[t]? = some ‹Thr› := by assumption
      have hp : (‹Thr›).pc = .act := by assumption
      have hr : c.isWriter t = true := by assumption
      have ht : t = 0 := by simpa [Cfg.isWriter, h1] using hr
      subst ht
      have hw : ‹Thr› = w := by simp [hthr] at hth; exact hth.symm
      subst hw
      have hroom := g.wRoom (Or.inl hp)
      simp only [lin, hr, if_true, th_eq s 0 _ hth, Spec.step]
      rw [if_pos ((canPut_iff _ _).mpr hroom)]
    case actR =>
      have hr : c.isWriter t = false := by assumption
      have hq : s.q = ‹Nat› :: ‹List Nat› := by assumption
      simp [lin, hr, hq, Spec.step]
    case actUnder =>
      have hr : c.isWriter t = false := by assumption
      have hq : s.q = [] := by assumption
      simp [lin, hr, hq, setThr]
  | call t m x => cases hs; simp [lin, setThr]
  | acquire t => cases hs; simp [lin, setThr]
  | check t => cases hs <;> simp [lin, setThr]
  | wake t => cases hs; simp [lin, setThr]
  | timeoutFire t => cases hs; simp [lin, setThr]
  | reacq t => cases hs <;> simp [lin, setThr]
  | notify t => cases hs <;> simp [lin, setThr]
  | unlock t => cases hs; simp [lin, setThr]
  | ret t r v => cases hs; simp [lin, setThr]

/-- every run of the lane projects to a run of the atomic specification that ends in the lane's deque -/
theorem refine_run (c : Cfg) (h1 : c.nw = 1) :
    ∀ (as : List Act) (s s' : State), Inv c s → Core.run (step c) s as = some s' →
      Core.run (Spec.step c.maxsize) s.q (specTrace c s as) = some s'.q := by
  intro as
  induction as with
  | nil => intro s s' _ hr; simp at hr; subst hr; simp [specTrace]
  | cons a as ih =>
    intro s s' hi hr
    rw [Core.run_cons] at hr
    cases hst : step c s a with
    | none => simp [hst] at hr
    | some s1 =>
      simp [hst] at hr
      have hS := step_sound c s s1 a hst
      have h1' := refine_step c h1 s s1 a hi hS
      have ih' := ih s1 s' (inv_step c h1 s s1 a hi hS) hr
      simp only [specTrace, hst]
      cases hl : lin c s a with
      | none => simp [hl] at h1' ⊢; rw [← h1']; exact ih'
      | some b => simp [hl] at h1' ⊢; simp [Core.run_cons, h1', ih']

end Lane
