import MpsVerif.Model.Lane
import MpsVerif.Core.Sys
/-! Relational presentation of `Lane.step` (one constructor per enabled case) and its soundness.
    Invariant proofs do `cases` on `Step`; the property theorems are stated over `step`/`run`. -/
namespace Lane

inductive Step (c : Cfg) : State → Act → State → Prop where
  | call {s t th m x} : s.thr[t]? = some th → th.pc = .idle →
      Step c s (.call t m x)
        (setThr s t { pc := .lock, mode := m, val := if c.isWriter t then x else 0, notified := false, fired := false })
  | acquire {s t th} : s.thr[t]? = some th → th.pc = .lock → s.owner = none →
      Step c s (.acquire t) { setThr s t { th with pc := .check } with owner := some t }
  | checkGo {s t th} : s.thr[t]? = some th → th.pc = .check → mustWait c s t = false →
      Step c s (.check t) (setThr s t { th with pc := .act })
  | checkFail {s t th} : s.thr[t]? = some th → th.pc = .check → mustWait c s t = true → th.mode = .nowait →
      Step c s (.check t) (setThr s t { th with pc := .leave (failRes c t) })
  | checkWaitW {s t th} : s.thr[t]? = some th → th.pc = .check → mustWait c s t = true → th.mode ≠ .nowait →
      c.isWriter t = true →
      Step c s (.check t) { setThr s t { th with pc := .wait, notified := false } with owner := none, nfW := s.nfW ++ [t] }
  | checkWaitR {s t th} : s.thr[t]? = some th → th.pc = .check → mustWait c s t = true → th.mode ≠ .nowait →
      c.isWriter t = false →
      Step c s (.check t) { setThr s t { th with pc := .wait, notified := false } with owner := none, neW := s.neW ++ [t] }
  | wake {s t th} : s.thr[t]? = some th → th.pc = .wait → th.notified = true →
      Step c s (.wake t) (setThr s t { th with pc := .relock true })
  | timeoutFire {s t th} : s.thr[t]? = some th → th.pc = .wait → th.mode = .timed →
      Step c s (.timeoutFire t) (setThr s t { th with pc := .relock false, fired := true })
  | reacqGot {s t th} : s.thr[t]? = some th → s.owner = none → th.pc = .relock true →
      Step c s (.reacq t) { setThr s t { th with pc := .act, notified := false } with owner := some t }
  | reacqLostW {s t th} : s.thr[t]? = some th → s.owner = none → th.pc = .relock false → c.isWriter t = true →
      Step c s (.reacq t)
        { setThr s t { th with pc := .leave (failRes c t), notified := false } with owner := some t, nfW := s.nfW.erase t }
  | reacqLostR {s t th} : s.thr[t]? = some th → s.owner = none → th.pc = .relock false → c.isWriter t = false →
      Step c s (.reacq t)
        { setThr s t { th with pc := .leave (failRes c t), notified := false } with owner := some t, neW := s.neW.erase t }
  | actW {s t th} : s.thr[t]? = some th → th.pc = .act → c.isWriter t = true →
      Step c s (.act t) { setThr s t { th with pc := .note } with q := s.q ++ [th.val], putH := s.putH ++ [th.val] }
  | actR {s t th x rest} : s.thr[t]? = some th → th.pc = .act → c.isWriter t = false → s.q = x :: rest →
      Step c s (.act t) { setThr s t { th with pc := .note, val := x } with q := rest, gotH := s.gotH ++ [x] }
  | actUnder {s t th} : s.thr[t]? = some th → th.pc = .act → c.isWriter t = false → s.q = [] →
      Step c s (.act t) (setThr s t { th with pc := .leave .under })
  | notifyWSome {s t th u rest} : s.thr[t]? = some th → th.pc = .note → c.isWriter t = true → s.neW = u :: rest →
      Step c s (.notify t)
        { setThr s t { th with pc := .leave .ok } with
          neW := rest, thr := markNotified (setThr s t { th with pc := .leave .ok }).thr u }
  | notifyWNone {s t th} : s.thr[t]? = some th → th.pc = .note → c.isWriter t = true → s.neW = [] →
      Step c s (.notify t) (setThr s t { th with pc := .leave .ok })
  | notifyRSome {s t th u rest} : s.thr[t]? = some th → th.pc = .note → c.isWriter t = false → s.nfW = u :: rest →
      Step c s (.notify t)
        { setThr s t { th with pc := .leave .ok } with
          nfW := rest, thr := markNotified (setThr s t { th with pc := .leave .ok }).thr u }
  | notifyRNone {s t th} : s.thr[t]? = some th → th.pc = .note → c.isWriter t = false → s.nfW = [] →
      Step c s (.notify t) (setThr s t { th with pc := .leave .ok })
  | unlock {s t th r} : s.thr[t]? = some th → th.pc = .leave r →
      Step c s (.unlock t) { setThr s t { th with pc := .fin r } with owner := none }
  | ret {s t th r} : s.thr[t]? = some th → th.pc = .fin r →
      Step c s (.ret t r th.val) (setThr s t { th with pc := .idle })

theorem step_sound (c : Cfg) (s s' : State) (a : Act) (h : step c s a = some s') : Step c s a s' := by
  cases a <;> simp only [step] at h
  case call t m x =>
    split at h
    · rename_i th hth; split at h <;> simp at h; subst h; rename_i hp; exact .call hth hp
    · simp at h
  case acquire t =>
    split at h
    · rename_i th hth; split at h <;> simp at h; subst h; rename_i hp; exact .acquire hth hp.1 hp.2
    · simp at h
  case check t =>
    split at h
    · rename_i th hth
      split at h
      · rename_i hp
        split at h
        · rename_i hw
          split at h
          · rename_i hm; simp at h; subst h; exact .checkFail hth hp (by simpa using hw) hm
          · rename_i hm
            split at h
            · rename_i hr; simp at h; subst h
              exact .checkWaitW hth hp (by simpa using hw) (by intro hh; exact hm hh) hr
            · rename_i hr; simp at h; subst h
              exact .checkWaitR hth hp (by simpa using hw) (by intro hh; exact hm hh) (by simpa using hr)
        · rename_i hw; simp at h; subst h; exact .checkGo hth hp (by simpa using hw)
      · simp at h
    · simp at h
  case wake t =>
    split at h
    · rename_i th hth; split at h <;> simp at h; subst h; rename_i hp; exact .wake hth hp.1 hp.2
    · simp at h
  case timeoutFire t =>
    split at h
    · rename_i th hth; split at h <;> simp at h; subst h; rename_i hp; exact .timeoutFire hth hp.1 hp.2
    · simp at h
  case reacq t =>
    split at h
    · rename_i th hth
      split at h
      · rename_i ho
        split at h
        · rename_i hp; simp at h; subst h; exact .reacqGot hth ho hp
        · rename_i hp
          split at h
          · rename_i hr; simp at h; subst h; exact .reacqLostW hth ho hp hr
          · rename_i hr; simp at h; subst h; exact .reacqLostR hth ho hp (by simpa using hr)
        · simp at h
      · simp at h
    · simp at h
  case act t =>
    split at h
    · rename_i th hth
      split at h
      · rename_i hp
        split at h
        · rename_i hr; simp at h; subst h; exact .actW hth hp hr
        · rename_i hr
          split at h
          · rename_i x rest hq; simp at h; subst h; exact .actR hth hp (by simpa using hr) hq
          · rename_i hq; simp at h; subst h; exact .actUnder hth hp (by simpa using hr) hq
      · simp at h
    · simp at h
  case notify t =>
    split at h
    · rename_i th hth
      split at h
      · rename_i hp
        split at h
        · rename_i hr
          split at h
          · rename_i u rest hq; simp at h; subst h; exact .notifyWSome hth hp hr hq
          · rename_i hq; simp at h; subst h; exact .notifyWNone hth hp hr hq
        · rename_i hr
          split at h
          · rename_i u rest hq; simp at h; subst h; exact .notifyRSome hth hp (by simpa using hr) hq
          · rename_i hq; simp at h; subst h; exact .notifyRNone hth hp (by simpa using hr) hq
      · simp at h
    · simp at h
  case unlock t =>
    split at h
    · rename_i th hth
      split at h
      · rename_i r hp; simp at h; subst h; exact .unlock hth hp
      · simp at h
    · simp at h
  case ret t r v =>
    split at h
    · rename_i th hth
      split at h
      · rename_i hp; simp at h; subst h; obtain ⟨hp1, hp2⟩ := hp; subst hp2; exact .ret hth hp1
      · simp at h
    · simp at h

/-- the relation is exactly the step function (used for enabledness arguments) -/
theorem step_complete (c : Cfg) (s s' : State) (a : Act) (h : Step c s a s') : step c s a = some s' := by
  cases h <;> simp_all [step]

/-- reachable states of the model for configuration `c` -/
def Reachable (c : Cfg) (s : State) : Prop := Core.Reach (step c) (init c) s

/-- lift a `Step`-inductive invariant to all reachable states -/
theorem reachable_inv (c : Cfg) {Inv : State → Prop} (h0 : Inv (init c))
    (hstep : ∀ s a s', Inv s → Step c s a s' → Inv s') {s : State} (hr : Reachable c s) : Inv s :=
  Core.invariant_reach (fun s a s' hi hs => hstep s a s' hi (step_sound c s s' a hs)) h0 hr

end Lane
